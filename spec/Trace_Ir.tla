------------------------------- MODULE Trace_Ir -------------------------------
\* Binds Ir.tla to the code: the IR the real parser built for a selector (projected field by field from
\* soupsieve.css_types objects by harness/irproj.py) must equal the projection of Ir!Compile(ast).
\* Attribute patterns are compared by BEHAVIOUR on a fixed value pool (a bit mask of the values the compiled
\* regular expression accepts), not by regex text.
\*   event = [id, sel (AST list), ir (projected real IR), pool (Seq(Str) value pool)]
EXTENDS Ir, TLC, TLCExt, Json, IOUtils
VARIABLE l
Tr == ndJsonDeserialize(IOEnv.TRACE_FILE)

FlagOrder == <<"empty", "root", "default", "indeterminate", "scope", "dir_ltr", "dir_rtl", "in_range", "out_of_range", "defined", "placeholder">>
ProjFlags(fs) == SelectSeq(FlagOrder, LAMBDA f : f \in fs)
ProjPrefix(ns, isAttr) == IF isAttr /\ ns.t = "none" THEN [t |-> "bare"] ELSE ns       \* [|a] and [a] are the same IR
Bits(pool, P(_)) == LET RECURSIVE B(_)
                        B(n) == IF n = 0 THEN 0 ELSE (IF P(pool[n]) THEN 2^(n-1) ELSE 0) + B(n - 1)
                    IN B(Len(pool))
AttrMask(pool, s, ins) ==
    Bits(pool, LAMBDA v : OpHolds(IF s.op = "ne" THEN "eq" ELSE s.op, TRUE, IF ins THEN Lower(v) ELSE v, IF ins THEN Lower(s.val) ELSE s.val))
IsTypeName(s) == Lower(s.name) = TypeAttr
ProjAttr(pool, s) ==
    [name |-> s.name, prefix |-> ProjPrefix(s.ns, TRUE),
     mask |-> AttrMask(pool, s, s.flag = "i" \/ (s.flag = "n" /\ IsTypeName(s))),
     \* the second, case-sensitive pattern exists only for the type attribute without an explicit flag
     xmask |-> IF s.flag = "n" /\ IsTypeName(s) /\ s.op # "ex" THEN AttrMask(pool, s, FALSE) ELSE 0 - 1]

RECURSIVE ProjList(_, _), ProjSel(_, _)
ProjSel(pool, s) ==
    IF IsNull(s) THEN [null |-> TRUE]
    ELSE [tag |-> IF s.tag = NoTag THEN [none |-> TRUE] ELSE [name |-> s.tag.name, prefix |-> s.tag.prefix],
          ids |-> s.ids, classes |-> s.classes,
          attributes |-> [n \in 1..Len(s.attributes) |-> ProjAttr(pool, s.attributes[n])],
          nth |-> [n \in 1..Len(s.nth) |-> [a |-> s.nth[n].a, n |-> s.nth[n].n, b |-> s.nth[n].b, of_type |-> s.nth[n].of_type,
                                            last |-> s.nth[n].last, selectors |-> ProjList(pool, s.nth[n].selectors)]],
          selectors |-> [n \in 1..Len(s.selectors) |-> ProjList(pool, s.selectors[n])],
          relation |-> ProjList(pool, s.relation), rel_type |-> s.rel_type, flags |-> ProjFlags(s.flags),
          lang |-> s.lang, contains |-> s.contains]
ProjList(pool, lst) ==
    [selectors |-> [n \in 1..Len(lst.selectors) |-> ProjSel(pool, lst.selectors[n])], is_not |-> lst.is_not, is_html |-> lst.is_html]

Expected(e) == ProjList(e.pool, Compile(e.sel))
Init == l = 0
Next == /\ l < Len(Tr)
        /\ l' = l + 1
        /\ (IF Tr[l + 1].ir = Expected(Tr[l + 1]) THEN TRUE ELSE PrintT(<<"REJECT", Tr[l + 1].id, ToString(Expected(Tr[l + 1]))>>))
Accepted == TLCGet("stats").diameter - 1 = Len(Tr)
=============================================================================
