\* negative configuration (vacuity guard): with the token rules of the pinned tree this MUST fail
CONSTANTS
  RuleSet = "asis"
  Inputs <- NegKey
SPECIFICATION Spec
PROPERTY Terminates
ALIAS Explain
CHECK_DEADLOCK FALSE
