------------------------------ MODULE Session ------------------------------
\* Machine M6: one API call owns one matcher object with memo tables (the <meta> language of a
\* root, the default button of a form, the indeterminate status of a (form, name) radio group).
\* Abstractly: evaluating element e reads the facts Need[e]; a fact k has the true value Fact[k]
\* (None = "there is none": no meta language, no submit button); a memo table maps keys already
\* looked up to what was stored.  Elements are examined one at a time, in any order (document
\* order for select, ancestor order for closest, caller's order for filter(iterable)).
\*
\* Policy = "store_none"     a failed search is remembered as None and a hit on None means "none"
\* Policy = "store_empty"    (the defective design, kept as a negative model) a failed search is
\*                           remembered as the empty value and a later hit reads it as a value
\* Between two API calls the caller may CHANGE the tree (Mutate: another assignment of facts).
\* Lifetime = "call"        the memo tables belong to the matcher of one call (a new call starts with empty tables)
\* Lifetime = "process"     (negative model) the tables live in the class / module and survive the call: stale after a Mutate
\* T-MemoTransparent: every answer equals the answer computed from the CURRENT facts alone, whatever was
\* examined before; every memo entry denotes the fact it caches.
EXTENDS Naturals, Sequences, FiniteSets, TLC
CONSTANTS Elements, Keys, Need, Facts, None, Empty, Policy, Lifetime
VARIABLES memo, answers, todo, fact
Fact == fact

Init == memo = [k \in {} |-> None] /\ answers = [e \in {} |-> None] /\ todo = Elements /\ fact \in Facts

Stored(v) == IF v = None /\ Policy = "store_empty" THEN Empty ELSE v
\* what the evaluation of one element sees for key k, given the memo
Seen(k) == IF k \in DOMAIN memo THEN memo[k] ELSE Fact[k]

Examine(e) ==
    /\ e \in todo
    /\ answers' = [x \in DOMAIN answers \cup {e} |-> IF x = e THEN [k \in Need[e] |-> Seen(k)] ELSE answers[x]]
    /\ memo' = [k \in DOMAIN memo \cup Need[e] |-> IF k \in DOMAIN memo THEN memo[k] ELSE Stored(Fact[k])]
    /\ todo' = todo \ {e}
    /\ UNCHANGED fact
\* a new API call starts with empty memo tables (when they belong to the call)
NewCall == /\ todo = {} /\ todo' = Elements /\ UNCHANGED <<answers, fact>>
           /\ memo' = IF Lifetime = "call" THEN [k \in {} |-> None] ELSE memo
\* between two calls the tree is changed through the bs4 API: other facts; the answers given so far were about the old tree
Mutate == /\ todo = {} /\ \E f \in Facts : f # fact /\ fact' = f
          /\ answers' = [e \in {} |-> None]
          /\ memo' = IF Lifetime = "call" THEN [k \in {} |-> None] ELSE memo      \* (the call is over: its tables are gone with it)
          /\ todo' = Elements
Next == (\E e \in Elements : Examine(e)) \/ NewCall \/ Mutate

MemoTransparent ==
    /\ \A e \in DOMAIN answers : answers[e] = [k \in Need[e] |-> Fact[k]]
    /\ \A k \in DOMAIN memo : memo[k] = Fact[k]
=============================================================================
