CONSTANT CalLenientWeek53 <- KnownOn
INIT Init
NEXT Next
POSTCONDITION Accepted
CHECK_DEADLOCK FALSE
