---------------------------- MODULE MC_C17_attrs ----------------------------
\* C17 configuration "attrs": the context-free part of the definitions.  One control (input with
\* every type keyword of the pools in lower / upper case and junk, textarea with text children,
\* select, button, option, progress, a, area, div) carrying every subset of the relevant boolean
\* attributes and every placeholder / value / contenteditable choice, alone in a document, against
\* all the state pseudo-classes.  Init enumerates the documents directly; there is no Next step
\* apart from giving a textarea its text children.
EXTENDS CssDecl, TLC, Json, SequencesExt
CONSTANTS Rich
VARIABLE doc

At(nm, v) == [k |-> nm, ns |-> <<>>, local |-> nm, v |-> v, list |-> FALSE]
P == <<112>>
V == <<118>>
JUNK == <<106,117,110,107>>
TEXTUP == <<84,69,88,84>>
TrueUp == <<84,82,85,69>>
FalseV == <<102,97,108,115,101>>
RangeV == <<114,97,110,103,101>>
\* sequences of attributes: every choice of one option per slot; an option is <<>> or <<attribute>>
RECURSIVE Pick(_)
Pick(slots) == IF Len(slots) = 0 THEN {<<>>}
               ELSE {o \o rest : o \in slots[1], rest \in Pick(Tail(slots))}
Opt(nm) == {<<>>, <<At(nm, <<>>)>>}
OptV(nm, vals) == {<<>>} \cup {<<At(nm, v)>> : v \in vals}

Types == {HsVText, TEXTUP, HsVCheckbox, HsVRadio, HsVHidden, HsVSubmit, HsVNumber, HsVDate, <<>>, JUNK}
     \cup (IF Rich THEN {HsVSearch, HsVUrl, HsVTel, HsVEmail, HsVPassword, HsVDatetimeLocal, HsVMonth,
                         HsVTime, HsVWeek, RangeV} ELSE {})
InputAttrs ==
    Pick(<< OptV(HsAType, Types), Opt(HsAChecked), Opt(HsADisabled), Opt(HsAReadonly), Opt(HsARequired),
            OptV(HsAPlaceholder, {<<>>, P}), OptV(HsAValue, {<<>>, V}) >>)
    \cup Pick(<< OptV(HsAType, {HsVCheckbox, HsVRadio, HsVText}), Opt(HsAIndeterminate), Opt(HsAChecked),
                 OptV(HsAName, {<<>>, <<103>>}) >>)
TextareaAttrs == Pick(<< Opt(HsADisabled), Opt(HsAReadonly), Opt(HsARequired), OptV(HsAPlaceholder, {<<>>, P}),
                         OptV(HsAValue, {V}) >>)
EditAttrs == Pick(<< OptV(HsAContenteditable, {<<>>, HsVTrue, TrueUp, FalseV, JUNK}), Opt(HsAHref), Opt(HsADisabled) >>)
OtherAttrs(nm) ==
    CASE nm \in {HsNSelect, HsNButton} -> Pick(<< Opt(HsADisabled), Opt(HsARequired), OptV(HsAType, {HsVSubmit}) >>)
      [] nm = HsNOption -> Pick(<< Opt(HsASelected), Opt(HsADisabled), Opt(HsAChecked) >>)
      [] nm = HsNProgress -> Pick(<< OptV(HsAValue, {<<>>, V}), Opt(HsAIndeterminate) >>)
      [] nm \in {HsNA, HsNArea, HsNDiv} -> EditAttrs
      [] OTHER -> Pick(<< Opt(HsADisabled), Opt(HsARequired) >>)     \* fieldset, optgroup

D0 == EmptyDoc("doc", FALSE)
Init == doc \in {AddElemA(D0, 0, HsNInput, at) : at \in InputAttrs}
           \cup {AddElemA(D0, 0, HsNTextarea, at) : at \in TextareaAttrs}
           \cup UNION {{AddElemA(D0, 0, nm, at) : at \in OtherAttrs(nm)} :
                       nm \in {HsNSelect, HsNButton, HsNOption, HsNProgress, HsNA, HsNArea, HsNDiv, HsNFieldset, HsNOptgroup}}
\* a textarea gets up to two text children: nothing, the empty string, a newline, a letter
Next == /\ doc.name[1] = HsNTextarea /\ Len(doc.parent) < 3
        /\ \E tx \in {<<>>, <<10>>, <<120>>} : doc' = AddData(doc, 1, "t", tx)

Cx1(c) == [cs |-> <<c>>, cb |-> <<>>]
Kinds == <<"checked", "default", "indeterminate", "enabled", "disabled", "required", "optional", "read-write",
           "read-only", "placeholder-shown", "link", "any-link", "defined">>
\* (*:dir(x) carries the coarser reading of :dir(), see MC_C17_dir)
TypeS(n) == [k |-> "type", ns |-> Bare, name |-> n]
DirAlt(x) == [k |-> "dir", d |-> x, alt |-> TRUE]
Pool == [n \in 1..Len(Kinds) |-> Cx1(<<HsK(Kinds[n])>>)] \o
        << Cx1(<<HsDirS("ltr")>>), Cx1(<<HsDirS("rtl")>>),
           Cx1(<<TypeS(Star), DirAlt("ltr")>>), Cx1(<<TypeS(Star), DirAlt("rtl")>>) >>
ASSUME PrintT(ToJson([pool |-> [s \in 1..Len(Pool) |-> <<Pool[s]>>]]))

Env == [nsmap |-> <<>>, scope |-> RootOf(doc)]
Rel1(s) == {i \in Elems(doc) : Matches(doc, Env, <<Pool[s]>>, i)}
Res == [s \in 1..Len(Pool) |-> MaskUpTo(Rel1(s), Len(doc.parent))]
Emit == PrintT(ToJson([doc |-> doc, res |-> Res]))

ThPartitions == HsThPartitions(doc)

\* T-StateDefs: the library's definition TEXTS of the state pseudo-classes (StateDefsGen, from the tree under test), parsed and compiled by the
\* specification's front end and evaluated by the matcher of Ir.tla, designate exactly what HtmlState.tla says
ST == INSTANCE IrState
SD == ST!FlaggedLists          \* constant of THIS module: evaluated once at start-up (see IrState)
ASSUME DOMAIN SD # {}
ThStateDefs == ST!StateDefsHoldL(SD, doc, [nsmap |-> <<>>, scope |-> RootOf(doc)])
=============================================================================
