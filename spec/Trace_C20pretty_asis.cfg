CONSTANTS
  RuleSet = "asis"
INIT Init
NEXT Next
PROPERTY Advances
CHECK_DEADLOCK FALSE
