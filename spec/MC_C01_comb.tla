---------------------------- MODULE MC_C01_comb ----------------------------
(* C01 configuration "comb": every tree of at most MaxNodes nodes over        *)
(* {element a, element b, text, comment}, attached to a document object or    *)
(* detached, against every complex selector of 1..3 compounds drawn from      *)
(* {a, b, universal, :not(a), :not(b), :not(universal)} joined by the four combinators.       *)
(* One state = one document; the invariant Emit prints the whole match        *)
(* relation for the pool so the harness can replay it into soupsieve.select.  *)
EXTENDS Ir, TLC, Json, SequencesExt
CONSTANTS MaxNodes, MaxCompounds
VARIABLE doc

A == <<97>>
B == <<98>>
X == <<120>>
TypeS(n) == [k |-> "type", ns |-> Bare, name |-> n]
Cx1(c) == [cs |-> <<c>>, cb |-> <<>>]
NotS(c) == [k |-> "not", args |-> <<Cx1(c)>>]
Comps == { <<TypeS(A)>>, <<TypeS(B)>>, <<TypeS(Star)>>,
           <<NotS(<<TypeS(A)>>)>>, <<NotS(<<TypeS(B)>>)>>, <<NotS(<<TypeS(Star)>>)>> }
Combs == {" ", ">", "+", "~"}
Pool1 == {[cs |-> <<c>>, cb |-> <<>>] : c \in Comps}
Pool2 == {[cs |-> <<c1, c2>>, cb |-> <<x>>] : c1 \in Comps, c2 \in Comps, x \in Combs}
Pool3 == {[cs |-> <<c1, c2, c3>>, cb |-> <<x, y>>] :
              c1 \in Comps, c2 \in Comps, c3 \in Comps, x \in Combs, y \in Combs}
PoolSet == Pool1 \cup (IF MaxCompounds >= 2 THEN Pool2 ELSE {}) \cup (IF MaxCompounds >= 3 THEN Pool3 ELSE {})
Pool == SetToSeq(PoolSet)
ASSUME PrintT(ToJson([pool |-> [s \in 1..Len(Pool) |-> <<Pool[s]>>]]))

Init == doc \in {EmptyDoc("doc", FALSE), EmptyDoc("frag", FALSE)}
Next == /\ Len(doc.parent) < MaxNodes
        /\ \E p \in Spine(doc) :
             \/ \E n \in {A, B} : CanAdd(doc, p, "e") /\ doc' = AddElem(doc, p, n)
             \/ \E k \in {"t", "c"} : CanAdd(doc, p, k) /\ doc' = AddData(doc, p, k, X)

Env == [nsmap |-> <<>>, scope |-> RootOf(doc)]
Rel1(s) == {i \in Elems(doc) : Matches(doc, Env, <<Pool[s]>>, i)}
Res == [s \in 1..Len(Pool) |-> MaskUpTo(Rel1(s), Len(doc.parent))]
Emit == PrintT(ToJson([doc |-> doc, res |-> Res]))

\* design-level sanity: the container is never selected, results are elements
OnlyElements == \A s \in 1..Len(Pool) : Rel1(s) \subseteq Elems(doc)
\* T-AlgoEqDecl: the implementation-shaped matcher over the compiled IR agrees with the declarative semantics
AlgoEqDecl == \A s \in 1..Len(Pool) : \A i \in Elems(doc) :
                 AlgoMatches(doc, Env, <<Pool[s]>>, i) = Matches(doc, Env, <<Pool[s]>>, i)
=============================================================================
