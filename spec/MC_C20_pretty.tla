--------------------------- MODULE MC_C20_pretty ---------------------------
\* C20 configurations "pretty_asis" (negative: NoStuck must FAIL) and "pretty_fixed" (positive):
\* the pretty-printer loop of Pretty.tla over a bounded grammar of repr strings in token-class
\* form -- the value shapes that occur in the repr of a compiled selector: keywords, (negative)
\* integers, quoted strings with escapes, empty containers, re.compile(..) with and without a
\* flag expression, Class(key=value, ..) with one/two-character keys (SelectorNth has a=, n=, b=),
\* tuples, lists, dicts, nested one level deeper.
EXTENDS Pretty, TLC, SequencesExt

L1 == <<"L">>
L2 == <<"L", "L">>
LD == <<"L", "D">>
Sep == <<"COMMA", "WS">>

Re(flags) == <<"L", "L", "DOT", "L", "L", "LP", "SQ", "O", "L", "O", "SQ">> \o flags \o <<"RP">>
Flag1 == <<"L", "L", "DOT", "L", "L">>                       \* re.DOTALL
Flag2 == Flag1 \o <<"BAR">> \o Flag1                           \* re.IGNORECASE|re.DOTALL

Atoms == { L2,                                                \* None, True
           <<"D">>, <<"D", "D">>,                             \* 0, 12
           <<"MINUS", "D">>,                                  \* -1
           <<"SQ", "SQ">>, <<"SQ", "L", "SQ">>,                \* '', 'a'
           <<"SQ", "BS", "SQ", "WS", "L", "SQ">>,              \* '\' a'
           <<"DQ", "SQ", "DQ">>,                               \* "'"
           <<"LP", "RP">>, <<"LB", "RB">>, <<"LC", "RC">>,     \* () [] {}
           Re(<<>>), Re(Sep \o Flag1), Re(Sep \o Flag2) }
Keys == {L1, L2, LD}                                          \* a=  of=  b2=
ClassNames == {L2, <<"L", "L", "DOT", "L">>}                  \* Ab(  ab.c(

Kv(key, v) == key \o <<"EQ">> \o v
Call(nm, args) == nm \o <<"LP">> \o args \o <<"RP">>
Tup1(v) == <<"LP">> \o v \o <<"COMMA", "RP">>
Tup2(v, w) == <<"LP">> \o v \o Sep \o w \o <<"RP">>
Lst2(v, w) == <<"LB">> \o v \o Sep \o w \o <<"RB">>
Dct(v) == <<"LC", "SQ", "L", "SQ", "COLON", "WS">> \o v \o <<"RC">>

Small == {L2, <<"D">>, <<"MINUS", "D">>, <<"SQ", "L", "SQ">>, <<"LP", "RP">>}
Level1 == Atoms
          \cup {Call(nm, Kv(key, a)) : nm \in ClassNames, key \in Keys, a \in Atoms}
          \cup {Call(L2, Kv(k1, a) \o Sep \o Kv(k2, b)) : k1 \in Keys, k2 \in Keys, a \in Small, b \in Small}
          \cup {Call(L2, <<>>)}
          \cup {Tup1(a) : a \in Atoms} \cup {Dct(a) : a \in Atoms}
          \cup {Tup2(a, b) : a \in Small, b \in Small} \cup {Lst2(a, b) : a \in Small, b \in Small}
Level2 == Level1
          \cup {Call(L2, Kv(key, v)) : key \in Keys, v \in Level1}
          \cup {Tup1(v) : v \in Level1}
          \cup {Lst2(v, L2) : v \in Level1}

MCInputs == SetToSeq(Level2)

\* inputs of the three negative configurations, one per class of stuck state
NegKey == <<Call(L2, Kv(L1, <<"D">>))>>                       \* Ab(a=2)       one-letter keyword
NegInt == <<Call(L2, Kv(L2, <<"MINUS", "D">>))>>              \* Ab(ab=-1)     negative integer
NegFlag == <<Re(Sep \o Flag1)>>                               \* re.compile('^b$', re.DOTALL)

\* shown in counterexamples instead of the bare variables
Explain == [index |-> index, indent |-> indent, out |-> out,
            unread |-> SubSeq(S, index + 1, Len(S)), step |-> StepAt(S, index)]

\* terminal states of the positive configuration: everything consumed, output = input up to whitespace
DoneRel == ~Running => Strip(out) = Strip(S)
=============================================================================
