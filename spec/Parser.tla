-------------------------------- MODULE Parser --------------------------------
\* Machine M3: parse_selectors over TOKEN KINDS with an explicit stack of frames (one frame per open
\* parenthesised list), as the code structures it (css_parser.py parse_selectors / parse_combinator /
\* parse_has_combinator / parse_pseudo_class).  The IR that is built is not modelled here (Ir.tla does
\* that); this module decides the OUTCOME of a token sequence:
\*     "ok" | "SelectorSyntaxError" | "NotImplementedError"
\* Token kinds:
\*   tag idcls attr          type selector; id or class; attribute selector
\*   ps ps_nomatch           supported simple pseudo-class (:root, :checked ...); :hover-like (matches nothing)
\*   ps_bad                  unknown pseudo-class, or a known one in the wrong form (:is without "(", :root( )
\*   nth lang dir contains   complete special pseudo-class tokens;  nth_of  ":nth-child(2 of" (opens a list)
\*   open_is open_not open_has open_matches open_nomatch    :is( / :where(  :not(  :has(  :matches(  :current( / :host(
\*   custom custom_undef amp  defined / undefined alias; nesting selector
\*   close comma ws comb     ")"  ","  descendant whitespace  ">" "+" "~"
\*   at pe inv               at-rule, pseudo-element, a character no token pattern matches
\* Frame = [open, pseudo, relative, forgive, has_sel, nsels, rels, relws]
\*   has_sel  a compound is in progress        nsels  alternatives completed so far in this list
\*   rels     a combinator is pending (non-relative lists)    relws  (relative lists) the pending leading combinator is whitespace
\* T-Total: from every token sequence exactly one outcome is reached, the stack never exceeds the number of
\* opening tokens + 1, and no state other than a finished one is stuck.
EXTENDS Naturals, Sequences, FiniteSets
CONSTANTS Tokens
VARIABLES toks, pos, stack, outcome

Frame(open, pseudo, rel, forgive) ==
    [open |-> open, pseudo |-> pseudo, relative |-> rel, forgive |-> forgive,
     has_sel |-> FALSE, nsels |-> IF rel THEN 1 ELSE 0, rels |-> FALSE, relws |-> TRUE]
TopFrame == Frame(FALSE, FALSE, FALSE, FALSE)
Top == stack[Len(stack)]
SetTop(f) == [stack EXCEPT ![Len(stack)] = f]
Running == outcome = "running"
Fail == outcome' = "SelectorSyntaxError" /\ UNCHANGED <<toks, pos, stack>>
Adv(st) == pos' = pos + 1 /\ stack' = st /\ UNCHANGED <<toks, outcome>>

Simple == {"idcls", "attr", "ps", "ps_nomatch", "nth", "lang", "dir", "contains", "custom", "amp"}
Opens == {"open_is", "open_not", "open_has", "open_matches", "open_nomatch", "nth_of"}
NewFrame(t) == CASE t = "open_is"  -> Frame(TRUE, TRUE, FALSE, TRUE)
                 [] t = "open_has" -> Frame(TRUE, TRUE, TRUE, FALSE)
                 [] OTHER          -> Frame(TRUE, TRUE, FALSE, FALSE)

\* what the code does after the token loop of one list ended (by ")" or by end of input)
Finish(f) ==   \* TRUE iff the list is acceptable
    \/ f.has_sel
    \/ (f.forgive /\ (f.nsels = 0 \/ ~f.rels))

Step ==
    /\ Running /\ pos <= Len(toks)
    /\ LET t == toks[pos]  f == Top IN
       CASE t \in {"at", "pe"} -> outcome' = "NotImplementedError" /\ UNCHANGED <<toks, pos, stack>>
         [] t \in {"inv", "ps_bad", "custom_undef"} -> Fail
         [] t \in Simple -> Adv(SetTop([f EXCEPT !.has_sel = TRUE]))
         [] t = "tag" -> IF f.has_sel THEN Fail ELSE Adv(SetTop([f EXCEPT !.has_sel = TRUE]))
         [] t \in Opens -> Adv(Append(stack, NewFrame(t)))
         [] t = "close" ->
              IF ~f.has_sel /\ ~f.forgive THEN Fail
              ELSE IF ~f.open THEN Fail                                   \* unmatched ")"
              ELSE IF ~Finish(f) THEN Fail                                \* e.g. a forgiving list ending in a combinator
              ELSE Adv([SubSeq(stack, 1, Len(stack) - 1) EXCEPT ![Len(stack) - 1].has_sel = TRUE])
         [] t \in {"comma", "ws", "comb"} ->
              IF f.relative
              THEN IF t = "comma"
                   THEN Adv(SetTop([f EXCEPT !.has_sel = FALSE, !.relws = TRUE, !.nsels = @ + 1]))
                   ELSE IF f.has_sel \/ f.relws
                        THEN Adv(SetTop([f EXCEPT !.has_sel = FALSE, !.relws = (t = "ws")]))
                        ELSE Fail                                          \* two explicit combinators in a row
              ELSE IF ~f.has_sel
                   THEN IF f.forgive /\ t = "comma"
                        THEN Adv(SetTop([f EXCEPT !.nsels = @ + 1, !.rels = FALSE]))     \* forgiven empty slot
                        ELSE Fail
                   ELSE IF t = "comma"
                        THEN Adv(SetTop([f EXCEPT !.has_sel = FALSE, !.nsels = @ + 1, !.rels = FALSE]))
                        ELSE Adv(SetTop([f EXCEPT !.has_sel = FALSE, !.rels = TRUE]))
End ==
    /\ Running /\ pos > Len(toks)
    /\ outcome' = IF Len(stack) > 1 THEN "SelectorSyntaxError"           \* unclosed pseudo-class
                  ELSE IF Finish(Top) THEN "ok" ELSE "SelectorSyntaxError"
    /\ UNCHANGED <<toks, pos, stack>>

\* what the tokenizer can actually produce (adjacency): whitespace is only a token between two selector
\* starts; a type selector needs something that ends the previous identifier
StartsSel == Simple \cup Opens \cup {"tag", "ps_bad", "custom_undef", "pe", "at", "inv"}
EndsHard == {"attr", "nth", "lang", "dir", "contains", "close", "comma", "ws", "comb"} \cup Opens
\* (written with IF: inside an initial-state predicate TLC explores the disjuncts of a \/ separately)
LexOK(s) ==
    \A i \in 1..Len(s) :
         /\ (IF s[i] = "ws"
              THEN IF i > 1 /\ i < Len(s) THEN s[i - 1] \notin ({"ws", "comma", "comb"} \cup Opens) /\ s[i + 1] \in StartsSel ELSE FALSE
              ELSE TRUE)
         /\ (IF s[i] \in {"tag", "at"} /\ i > 1 THEN s[i - 1] \in EndsHard ELSE TRUE)
=============================================================================
