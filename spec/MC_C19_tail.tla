----------------------------- MODULE MC_C19_tail -----------------------------
\* C19 configuration "tail": every tree of at most MaxNodes nodes over {element d, HTML iframe, text},
\* where the text of node i is the single letter number i, so that each needle identifies one text
\* node: what an ancestor sees AFTER a skipped iframe (last child of a last child ...), what is cut
\* inside it, and own text versus descendant text at every depth.  HTML (iframe content cut) and XML.
EXTENDS CssDecl, TLC, Json, SequencesExt
CONSTANTS MaxNodes
VARIABLE doc

D == <<100>>
IFR == <<105,102,114,97,109,101>>
Letter(i) == <<96 + i>>
Cx1(c) == [cs |-> <<c>>, cb |-> <<>>]
Pool == [n \in 1..(2 * MaxNodes) |->
           <<Cx1(<<[k |-> "contains", vals |-> <<Letter(((n - 1) % MaxNodes) + 1)>>, own |-> n > MaxNodes]>>)>>]
ASSUME PrintT(ToJson([pool |-> Pool]))

Init == doc \in {EmptyDoc("doc", FALSE), EmptyDoc("doc", TRUE)}
Next == /\ Len(doc.parent) < MaxNodes
        /\ \E p \in Spine(doc) :
             \/ \E n \in {D, IFR} : CanAdd(doc, p, "e") /\ doc' = AddElem(doc, p, n)
             \/ p # 0 /\ CanAdd(doc, p, "t") /\ doc' = AddData(doc, p, "t", Letter(Len(doc.parent) + 1))
Env == [nsmap |-> <<>>, scope |-> RootOf(doc)]
Res == [s \in 1..Len(Pool) |-> MaskUpTo({i \in Elems(doc) : Matches(doc, Env, Pool[s], i)}, Len(doc.parent))]
Emit == PrintT(ToJson([doc |-> doc, res |-> Res]))
=============================================================================
