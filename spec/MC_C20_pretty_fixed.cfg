\* positive configuration: repaired token rules + one-character fallback
CONSTANTS
  RuleSet = "fixed"
  Inputs <- MCInputs
SPECIFICATION Spec
INVARIANT NoStuck
INVARIANT OutRel
INVARIANT DoneRel
PROPERTY StepAdvances
PROPERTY Terminates
CHECK_DEADLOCK FALSE
