--------------------------- MODULE MC_C13_determ ---------------------------
\* C13 configuration "determ": which language an element has.
\* A chain of 1..MaxChain nested elements  html > x2 > x3 > ...  where every element independently
\*   - has no language attribute ("absent"), an empty one ("empty"), en, de-DE, or only the
\*     attribute that does NOT count for it ("decoy": xml:lang on an HTML element, plain lang on a
\*     non-HTML XML element),
\* the html element optionally has  head > meta  with the content-language pragma in several states
\* (Metas), the element at position c.ip is an iframe (0: none), and with c.inner # "none" the element
\* below the iframe is the html element of an inner document with its own head > meta pragma.
\* Modes:  html   HTML document, no namespaces       (lang, key case-insensitive, pragma, iframe boundary)
\*         xhtml  XML document, every element XHTML  (lang, pragma, iframe boundary)
\*         xml    XML document, no namespaces        (xml:lang, no pragma, an "iframe" is just an element)
\*         xmlmix XML document whose root is in no namespace (so: not XHTML) around XHTML-namespaced elements: no pragma, and an XHTML
\*                iframe element is just an element (the iframe boundary belongs to HTML / XHTML documents)
\*         mixedf like mixed, but the element named iframe is the foreign one (svg > iframe): not an inline frame, language is inherited through it
\*         mixed  HTML-parser document with namespaces (html5lib style): XHTML elements, the generic
\*                elements from position 3 on in a foreign namespace (xml:lang for them)
EXTENDS CssDecl, TLC, Json, SequencesExt
CONSTANTS MaxChain, Modes, Metas, IframeAts, Inners, XhtmlMeta
VARIABLES doc, tip, n, c

HtmlN == LangHtmlName
HeadN == LangHeadName
MetaN == LangMetaName
Div == <<100,105,118>>
Iframe == <<105,102,114,97,109,101>>
Foreign == <<117,114,110,58,102>>                     \* "urn:f"
En == <<101,110>>
DeDE == <<100,101,45,68,69>>                          \* "de-DE"
Fr == <<102,114>>
De == <<100,101>>
XmlLang == <<120,109,108,58,108,97,110,103>>          \* "xml:lang"
UpLang == <<76,65,78,71>>                             \* "LANG"
CLValue == <<67,111,110,116,101,110,116,45,76,97,110,103,117,97,103,101>>   \* "Content-Language"
Refresh == <<114,101,102,114,101,115,104>>            \* "refresh"

LangChoices == {"absent", "empty", "en", "de", "decoy"}

NameAt(pos) == IF pos = 1 THEN HtmlN
               ELSE IF pos = c.ip THEN Iframe
               ELSE IF c.ip # 0 /\ pos = c.ip + 1 /\ c.inner # "none" THEN HtmlN
               ELSE Div
NsAt(pos) == CASE c.mode \in {"html", "xml"} -> <<>>
               [] c.mode = "xmlmix" -> IF pos = 1 THEN <<>> ELSE XHTML
               [] c.mode = "xhtml" -> XHTML
               [] c.mode = "mixed" -> IF NameAt(pos) = Div /\ pos >= 3 THEN Foreign ELSE XHTML
               [] c.mode = "mixedf" -> IF NameAt(pos) = Iframe THEN Foreign ELSE XHTML      \* an element NAMED iframe in a foreign namespace is no boundary
HtmlishAt(pos) == c.mode = "html" \/ NsAt(pos) = XHTML

Plain(key, v) == [k |-> key, ns |-> <<>>, local |-> key, v |-> v, list |-> FALSE]
XmlAt(v) == [k |-> XmlLang, ns |-> XMLNS, local |-> LangAttrName, v |-> v, list |-> FALSE]
\* the key is spelled LANG at position 2 of the documents made by an HTML parser
KeyAt(pos) == IF pos = 2 /\ c.mode \in {"html", "mixed", "mixedf"} THEN UpLang ELSE LangAttrName
RealAt(pos, v) == IF HtmlishAt(pos) THEN Plain(KeyAt(pos), v) ELSE XmlAt(v)
AttrsAt(pos, ch) ==
    CASE ch = "absent" -> <<>>
      [] ch = "empty"  -> <<RealAt(pos, <<>>)>>
      [] ch = "en"     -> <<RealAt(pos, En)>>
      [] ch = "de"     -> <<RealAt(pos, DeDE)>>
      [] ch = "decoy"  -> IF HtmlishAt(pos) THEN <<XmlAt(Fr)>> ELSE <<Plain(LangAttrName, Fr)>>

MetaAttrs(m) ==
    CASE m = "en"        -> <<Plain(LangHttpEquiv, CLValue), Plain(LangContentAttr, En)>>
      [] m = "de"        -> <<Plain(LangContentAttr, DeDE), Plain(LangHttpEquiv, LangContentLanguage)>>
      [] m = "empty"     -> <<Plain(LangHttpEquiv, LangContentLanguage), Plain(LangContentAttr, <<>>)>>
      [] m = "nocontent" -> <<Plain(LangHttpEquiv, LangContentLanguage)>>
      [] m = "other"     -> <<Plain(LangHttpEquiv, Refresh), Plain(LangContentAttr, En)>>

Cfgs == {x \in [mode : Modes, meta : Metas, ip : IframeAts, inner : Inners] :
            /\ x.ip = 0 \/ (x.ip >= 2 /\ x.ip <= MaxChain)
            /\ x.inner # "none" => (x.ip >= 2 /\ x.ip < MaxChain)
            \* XHTML documents with a pragma are enumerated by a run of their own (XhtmlMeta = TRUE)
            /\ (x.mode = "xhtml" /\ x.inner = "none") => ((x.meta # "none") = XhtmlMeta)}

Init == /\ c \in Cfgs
        /\ doc = EmptyDoc("doc", c.mode \in {"xml", "xhtml", "xmlmix"})
        /\ tip = 0 /\ n = 0
Next == /\ n < MaxChain
        /\ \E ch \in LangChoices :
             LET pos == n + 1
                 id == Len(doc.parent) + 1
                 d1 == AddElemNs(doc, tip, NameAt(pos), NsAt(pos), <<>>, AttrsAt(pos, ch))
                 m == IF pos = 1 THEN c.meta ELSE IF NameAt(pos) = HtmlN THEN c.inner ELSE "none"
             IN /\ doc' = IF m = "none" THEN d1
                          ELSE AddElemNs(AddElemNs(d1, id, HeadN, NsAt(pos), <<>>, <<>>),
                                         id + 1, MetaN, NsAt(pos), <<>>, MetaAttrs(m))
                /\ tip' = id
        /\ n' = n + 1
        /\ UNCHANGED c

LangS(rs) == [k |-> "lang", ranges |-> rs]
Cx1(cc) == [cs |-> <<cc>>, cb |-> <<>>]
Pool == << Cx1(<<LangS(<<En>>)>>), Cx1(<<LangS(<<De>>)>>), Cx1(<<LangS(<<<<>>>>)>>),
           Cx1(<<LangS(<<LangWild>>)>>), Cx1(<<LangS(<<Fr>>)>>), Cx1(<<LangS(<<DeDE>>)>>),
           Cx1(<<LangS(<<En, De>>)>>), Cx1(<<LangS(<<Fr, <<>>>>)>>),
           Cx1(<<[k |-> "not", args |-> <<Cx1(<<LangS(<<LangWild, <<>>>>)>>)>>]>>) >>
ASSUME PrintT(ToJson([pool |-> [s \in 1..Len(Pool) |-> <<Pool[s]>>]]))

Env == [nsmap |-> <<>>, scope |-> RootOf(doc)]
Rel1(s) == {i \in Elems(doc) : Matches(doc, Env, <<Pool[s]>>, i)}
Res == [s \in 1..Len(Pool) |-> MaskUpTo(Rel1(s), Len(doc.parent))]
Ready == n >= 1 /\ (c.ip = 0 \/ n >= c.ip) /\ (c.inner # "none" => n > c.ip)
Emit == Ready => PrintT(ToJson([doc |-> doc, res |-> Res]))

\* design-level theorems: the chain definition of LangOf satisfies the inheritance equations
Laws == \A i \in Elems(doc) :
    LET own == LangOwnSet(doc, i)
        p == doc.parent[i]
    IN /\ Cardinality(own) <= 1
       /\ own # {} => LangOf(doc, i) = LangKnown(CHOOSE v \in own : TRUE)         \* own attribute wins
       /\ (own = {} /\ ~LangBoundary(doc, p)) => LangOf(doc, i) = LangOf(doc, p) \* else inherited from the parent
       /\ (own = {} /\ LangBoundary(doc, p)) => LangOf(doc, i) = LangPragma(doc, p)  \* top of a document: its pragma
       /\ ~IsHtml(doc) => LangPragma(doc, p) = LangUnknown                       \* no pragma outside HTML / XHTML
       \* :lang("*", "") holds exactly for the elements whose language is known
       /\ LangHolds(doc, LangS(<<LangWild, <<>>>>), i) = LangOf(doc, i).known
=============================================================================
