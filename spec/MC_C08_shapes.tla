----------------------------- MODULE MC_C08_shapes ----------------------------
\* C08 generator: "every pseudo-class x every shape".  One state = one small document: an element of
\* one of the names the HTML pseudo-classes look at, carrying NAttrs attributes (name x value shape),
\* placed in one of five contexts.  The harness runs every selector of its pool (one per pseudo-class
\* and attribute operator, taken from the parser's own tables) through every entry point on every
\* element of the document; the oracle is the outcome class (a value; TypeError iff the target is not a Tag).
EXTENDS Dom, TLC, Json
CONSTANTS NAttrs, Contexts, TypeFirst, OnlyInput
VARIABLE doc


Names == { <<105,110,112,117,116>>, <<98,117,116,116,111,110>>, <<115,101,108,101,99,116>>, <<111,112,116,105,111,110>>,
           <<116,101,120,116,97,114,101,97>>, <<102,111,114,109>>, <<102,105,101,108,100,115,101,116>>,
           <<112,114,111,103,114,101,115,115>>, <<97>>, <<112>>, <<105,102,114,97,109,101>>, <<109,101,116,97>>,
           <<99,117,115,116,111,109,45,120>>, <<108,101,103,101,110,100>>, <<111,112,116,103,114,111,117,112>>,
           <<100,105,118>>, <<98,100,105>> }
\* attribute names read by pseudo-classes
PsAttrs == { <<116,121,112,101>>, <<109,105,110>>, <<109,97,120>>, <<118,97,108,117,101>>, <<100,105,114>>, <<108,97,110,103>>,
             <<110,97,109,101>>, <<112,108,97,99,101,104,111,108,100,101,114>>, <<99,104,101,99,107,101,100>>,
             <<100,105,115,97,98,108,101,100>>, <<104,116,116,112,45,101,113,117,105,118>>, <<99,111,110,116,101,110,116>>,
             <<104,114,101,102>>, <<99,111,110,116,101,110,116,101,100,105,116,97,98,108,101>> }
\* attributes only attribute / class / id selectors read (may carry odd values)
PlainAttrs == { <<99,108,97,115,115>>, <<105,100>>, <<116>> }
Junk == <<122,122>>
Long == <<57,57,57,57,57,57,57,57,57,57,57,57,57,57,57,57,57,57,57,57,57,57,57,57>>
ValueOf(nm) ==   \* a valid-looking value per attribute
    CASE nm = <<116,121,112,101>> -> <<119,101,101,107>>                       \* type=week
      [] nm \in {<<109,105,110>>, <<109,97,120>>, <<118,97,108,117,101>>} -> <<48,57,57,57,45,87,48,49>>   \* 0999-W01
      [] nm = <<100,105,114>> -> <<97,117,116,111>>
      [] nm = <<108,97,110,103>> -> <<101,110>>
      [] nm = <<104,116,116,112,45,101,113,117,105,118>> -> <<99,111,110,116,101,110,116,45,108,97,110,103,117,97,103,101>>
      [] OTHER -> <<120>>
Nines == <<57,57,57,57,57,57,57,57,57,57,57,57,57,57,57,57,57,57,57,57>>
Big == <<51,48,48,48,48,48,48,48,48,48>>                       \* 3000000000 > 2^31
RangeVals == { Nines \o <<45,87,48,49>>, Nines \o <<45,48,49,45,48,49>>, Nines \o <<45,48,49>>,
               Nines \o <<45,48,49,45,48,49,84,48,48,58,48,48>>, Big \o <<45,87,48,49>>, Big \o <<45,49,50,45,51,49>>,
               Big \o <<45,48,50,45,50,57>>, Big \o <<45,48,50,45,50,57,84,48,48,58,48,48>>,       \* 3000000000-02-29 (a leap year beyond every C integer / datetime range), also as local date-time
               <<48,48,48,48,45,87,48,49>>, <<50,48,50,48,45,87,53,51>>, <<50,51,58,53,57>>, <<45,46,53>>, <<49,101,57,57,57>> }
Shapes(nm) == { [v |-> <<>>, list |-> FALSE, odd |-> ""], [v |-> Junk, list |-> FALSE, odd |-> ""],
                [v |-> ValueOf(nm), list |-> FALSE, odd |-> ""], [v |-> Long, list |-> FALSE, odd |-> ""] }
              \cup (IF nm \in {<<109,105,110>>, <<109,97,120>>, <<118,97,108,117,101>>}
                    THEN {[v |-> rv, list |-> FALSE, odd |-> ""] : rv \in RangeVals} ELSE {})
              \cup (IF nm \in PlainAttrs
                    THEN { [v |-> <<120,32,121>>, list |-> TRUE, odd |-> ""] }
                         \cup {[v |-> <<>>, list |-> FALSE, odd |-> o] : o \in {"none", "int", "float", "bytes", "badbytes", "nested", "intlist", "bool", "tuple"}}
                    ELSE {})
At(nm, sh) == [k |-> nm, ns |-> <<>>, local |-> nm, v |-> sh.v, list |-> sh.list, odd |-> sh.odd]
TypeVals == { <<119,101,101,107>>, <<100,97,116,101>>, <<109,111,110,116,104>>, <<116,105,109,101>>, <<110,117,109,98,101,114>>,
              <<114,97,110,103,101>>, <<100,97,116,101,116,105,109,101,45,108,111,99,97,108>>, <<114,97,100,105,111>>, <<87,69,69,75>> }
DIV == <<100,105,118>>
IFR == <<105,102,114,97,109,101>>
SVGNS == <<117,114,110,58,115,118,103>>
Base(ctx) ==
    CASE ctx = "rooted"   -> [d |-> AddElem(EmptyDoc("doc", FALSE), 0, DIV), p |-> 1]
      [] ctx = "detached" -> [d |-> EmptyDoc("frag", FALSE), p |-> 0]
      [] ctx = "multi"    -> [d |-> AddData(AddElem(EmptyDoc("doc", FALSE), 0, DIV), 0, "t", <<120>>), p |-> 0]
      [] ctx = "foreign"  -> [d |-> AddElemNs(EmptyDoc("doc", TRUE), 0, DIV, SVGNS, <<>>, <<>>), p |-> 1]
      [] ctx = "iframe"   -> [d |-> AddElem(AddElem(EmptyDoc("doc", FALSE), 0, DIV), 1, IFR), p |-> 2]
      [] ctx = "xhtml"    -> [d |-> AddElemNs(EmptyDoc("doc", TRUE), 0, DIV, XHTML, <<>>, <<>>), p |-> 1]

Init == doc = <<>>
AttrChoice(n) ==
    LET One(AS) == UNION {{At(nm, sh) : sh \in Shapes(nm)} : nm \in AS} IN
    IF n = 1 THEN {<<x>> : x \in One(PsAttrs \cup PlainAttrs)} \cup {<<>>}
    ELSE IF TypeFirst THEN {<<At(<<116,121,112,101>>, [v |-> tv, list |-> FALSE, odd |-> ""]), y>> : tv \in TypeVals, y \in One((PsAttrs \cup PlainAttrs) \ {<<116,121,112,101>>})}
    ELSE {<<x, y>> : x \in One(PsAttrs), y \in One(PsAttrs \cup PlainAttrs)}
Next == /\ doc = <<>>
        /\ \E ctx \in Contexts, nm \in (IF OnlyInput THEN {<<105,110,112,117,116>>} ELSE Names), at \in AttrChoice(NAttrs) :
             LET b == Base(ctx)
                 nsu == IF ctx = "xhtml" THEN XHTML ELSE <<>>
                 d1 == AddElemNs(b.d, b.p, nm, nsu, <<>>, at)
                 d2 == AddData(d1, Len(d1.parent), "t", <<120, 32, 1488>>)      \* a text child: x, space, a Hebrew letter
                 me == Len(d1.parent)
                 radio == << At(<<116,121,112,101>>, [v |-> <<114,97,100,105,111>>, list |-> FALSE, odd |-> ""]),
                             At(<<110,97,109,101>>, [v |-> <<103>>, list |-> FALSE, odd |-> ""]) >>     \* type=radio name=g, unchecked
             IN \/ doc' = AddElemNs(d2, b.p, <<105,110,112,117,116>>, nsu, <<>>, radio)   \* a sibling radio button ...
                \/ doc' = AddElemNs(d2, me, <<105,110,112,117,116>>, nsu, <<>>, radio)    \* ... or one inside the element
Emit == doc = <<>> \/ PrintT(ToJson([doc |-> doc]))
=============================================================================
