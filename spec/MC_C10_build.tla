---------------------------- MODULE MC_C10_build ----------------------------
\* C10 configuration "build": breadth-first builder of identifiers.  One state = one string s over
\* the class alphabet (one representative code point per class of code points that Escape /
\* IdentLex / the selector grammar distinguish); Next appends one code point, up to MaxLen.
\* Every state is concretised into three strings: s itself and two variants in which each
\* representative is replaced by another member of its class.  The replacement tables come from
\* the harness (seeded by VERIF_SEED) as an ndjson file named by the environment variable
\* C10_ALT, one line [r |-> representative, a |-> <<alt1, alt2>>] per class; without the file
\* the variants are s itself.
\* Invariant Theorem: T-EscapeRoundTrip and the laws of Escape on the three strings.
\* Invariant Emit: prints [c |-> the three strings, e |-> their serializations] for the replay.
EXTENDS MC_C10_RoundTrip, TLC, Json, IOUtils
CONSTANTS MaxLen, MinEmit, Alphabet
VARIABLE s

AltRows == IF "C10_ALT" \in DOMAIN IOEnv THEN ndJsonDeserialize(IOEnv.C10_ALT) ELSE <<>>
AltOf(c, k) == IF \E j \in 1..Len(AltRows) : AltRows[j].r = c
               THEN (AltRows[CHOOSE j \in 1..Len(AltRows) : AltRows[j].r = c]).a[k]
               ELSE c
Alt1 == [c \in Alphabet |-> AltOf(c, 1)]
Alt2 == [c \in Alphabet |-> AltOf(c, 2)]

Variants(t) == << t, [i \in 1..Len(t) |-> Alt1[t[i]]], [i \in 1..Len(t) |-> Alt2[t[i]]] >>

Init == s = <<>>
Next == /\ Len(s) < MaxLen
        /\ \E c \in Alphabet : s' = Append(s, c)

Theorem == \A k \in 1..3 : LET v == Variants(s)[k] IN RoundTrip(v) /\ NoRawControl(v) /\ LengthLaw(v)

\* T-EscapeRoundTripImpl: the same through the IMPLEMENTATION-shaped front end (Lexer.tla scanners + ParseSel.tla css_unescape, both bound to
\* the code by token streams / IR): "#" + Escape(v) and "." + Escape(v) lex to one id / class token whose decoded value is v
P == INSTANCE ParseSel
OneSimple(k, v) == << [cs |-> << << [k |-> k, v |-> v] >> >>, cb |-> <<>>] >>
ImplRoundTrip(v) == Len(v) > 0 => /\ P!ParseText(<<35>> \o Escape(v)) = OneSimple("id", NulFix(v))
                                  /\ P!ParseText(<<46>> \o Escape(v) \o <<32>>) = OneSimple("class", NulFix(v))
TheoremImpl == \A k \in 1..3 : ImplRoundTrip(Variants(s)[k])

Emit == \/ Len(s) < MinEmit
        \/ PrintT(ToJson([c |-> Variants(s), e |-> [k \in 1..3 |-> Escape(Variants(s)[k])]]))
=============================================================================
