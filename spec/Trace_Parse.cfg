INIT InitP
NEXT NextP
POSTCONDITION Accepted
CHECK_DEADLOCK FALSE
