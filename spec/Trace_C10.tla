------------------------------ MODULE Trace_C10 ------------------------------
\* B2 (code -> spec): validates a trace of escape / compile / select events recorded from the real
\* soupsieve.  One ndjson line per event:
\*   id       event name
\*   s        the identifier given to escape() (code points)
\*   esc      what escape() returned (code points)
\*   exc      "" or the exception raised by escape() / compile() / select()
\*   ids      the ids held by the compound compiled from "#" esc            (Seq of strings)
\*   classes  the classes held by the compound compiled from "." esc
\*   attrs    the values tested by the attributes compiled from "[a=" esc "]"
\*   clean    each of the three compounds holds nothing else, and esc followed by " > b", " b",
\*            ", c" left the surrounding selector intact
\*   sel      on the probe document each selector selected exactly the intended elements
\* Verdict (total, one state per event):
\*   REJECT      the event is not what C10 admits: something raised, or the parser's identifier is
\*               not s with NUL replaced by U+FFFD, or the compound / selection is not clean
\*   DRIFT lex   the recorded esc is not consumed by the reference tokenizer (IdentLex) as exactly
\*               one identifier with that value (the parser and the reference disagree on esc)
\*   DRIFT esc   the recorded esc is not the CSSOM serialization Escape(s)
\* Only REJECT is a verdict against the property; the DRIFT lines are reported by the harness.
EXTENDS MC_C10_RoundTrip, TLC, TLCExt, Json, IOUtils
VARIABLE l

Tr == ndJsonDeserialize(IOEnv.TRACE_FILE)

Want(e) == NulFix(e.s)
Conforms(e) == /\ e.exc = ""
               /\ e.ids = <<Want(e)>>
               /\ e.classes = <<Want(e)>>
               /\ e.attrs = <<Want(e)>>
               /\ e.clean
               /\ e.sel
LexAgrees(e) == LexesTo(e.esc, Want(e))
EscAgrees(e) == e.esc = Escape(e.s)

Init == l = 0
Next == /\ l < Len(Tr)
        /\ l' = l + 1
        /\ LET e == Tr[l + 1] IN
           /\ (Conforms(e) \/ PrintT(<<"REJECT", e.id, ToString(Want(e))>>))
           /\ (LexAgrees(e) \/ PrintT(<<"DRIFT", e.id, "lex", ToString(LexIdent(e.esc))>>))
           /\ (EscAgrees(e) \/ PrintT(<<"DRIFT", e.id, "esc", ToString(Escape(e.s))>>))
\* every line was consumed (one state per event plus the initial state)
Accepted == TLCGet("stats").diameter - 1 = Len(Tr)
=============================================================================
