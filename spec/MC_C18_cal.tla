----------------------------- MODULE MC_C18_cal -----------------------------
\* C18 configuration "cal": validity of calendar strings (week, date, month, time, local
\* date-time), one string per input element, observed through :in-range / :out-of-range.
\*   Years  = YearLo..YearHi plus the digit-length representatives
\*   weeks  x {00, 01, 52, 53, 54} in three probe positions   (Full: 00..54 as min as well)
\*   dates  every year x February x {28, 29, 30}; representative years x month {00,01,02,04,12,13}
\*          x day {00,01,28,29,30,31,32} in three positions   (Full: every year x 12 months x days)
\*   months, times hour {00,23,24} x minute {00,59,60}, local date-times
\*   malformed shapes: every single-character deletion, insertion and replacement (Junk) of seeds
EXTENDS MC_C18_base
CONSTANTS YearLo, YearHi, Full, BatchSize

Extra == {999, 1000, 1582, 1900, 2000, 2019, 2020, 9999, 10000, 12345, 275760}
Years == (YearLo..YearHi) \cup Extra
RepYears == {1, 4, 100, 400, 999} \cup Extra
Weeks == {0, 1, 52, 53, 54}
MonthsG == {0, 1, 2, 4, 12, 13}
DaysG == {0, 1, 28, 29, 30, 31, 32}
Hours == {0, 23, 24}
Minutes == {0, 59, 60}

BigYear == <<57,57,57,57,57,57,57>>
SmallD == DateStr(Pad(1, 4), 1, 1)
BigD == DateStr(BigYear, 12, 31)
SmallM == MonthStr(Pad(1, 4), 1)
BigM == MonthStr(BigYear, 12)
SmallW == WeekStr(Pad(1, 4), 1)
BigW == WeekStr(BigYear, 1)
SmallT == TimeStr(0, 0)
BigT == TimeStr(23, 59)
SmallL == LocalStr(SmallD, SmallT)
BigL == LocalStr(BigD, BigT)

\* reference values for the week probes: inside 1000..9999 whenever the probed year is, so that a
\* defect confined to years outside that span does not hide what happens inside it
SmallWFor(y) == IF y >= 1000 THEN WeekStr(Pad(1000, 4), 1) ELSE SmallW
BigWFor(y) == IF y <= 9999 THEN WeekStr(Pad(9999, 4), 52) ELSE BigW
WeekCases ==
    SetToSeq({Probe(p, CalTWeek, WeekStr(YearStr(y), w), SmallWFor(y), BigWFor(y)) : p \in 1..3, y \in Years, w \in Weeks})
    \o SetToSeq({Probe(p, CalTWeek, WeekStr(YearStr(y), w), SmallW, BigW) : p \in 1..3, y \in RepYears, w \in Weeks})
    \o (IF Full THEN SetToSeq({AsMin(CalTWeek, WeekStr(YearStr(y), w), SmallWFor(y)) : y \in Years, w \in 0..54}) ELSE <<>>)
\* five-digit spellings of small years: 00999-W53 is year 999
    \o SetToSeq({AsVal(CalTWeek, WeekStr(Pad(y, 5), w), BigWFor(y)) : y \in {1, 4, 999, 2019, 2020, 9999}, w \in Weeks})

DateCases ==
    SetToSeq({AsMin(CalTDate, DateStr(YearStr(y), 2, dd), SmallD) : y \in Years, dd \in {28, 29, 30}})
    \o SetToSeq({Probe(p, CalTDate, DateStr(YearStr(y), m, dd), SmallD, BigD) : p \in 1..3, y \in RepYears, m \in MonthsG, dd \in DaysG})
    \o (IF Full THEN SetToSeq({AsVal(CalTDate, DateStr(YearStr(y), m, dd), BigD) : y \in Years, m \in 1..12, dd \in {0, 1, 28, 29, 30, 31, 32}}) ELSE <<>>)
    \o SetToSeq({AsMax(CalTDate, DateStr(YearStr(2021), m, dd), BigD) : m \in 0..13, dd \in 0..32})

MonthCases ==
    SetToSeq({Probe(p, CalTMonth, MonthStr(YearStr(y), m), SmallM, BigM) : p \in 1..3, y \in RepYears, m \in MonthsG})
    \o SetToSeq({AsVal(CalTMonth, MonthStr(YearStr(y), 12), BigM) : y \in Years})
    \o SetToSeq({AsMin(CalTMonth, MonthStr(YearStr(2020), m), SmallM) : m \in 0..13})

TimeStrs == {TimeStr(h, mi) : h \in Hours \cup {9, 12}, mi \in Minutes \cup {5, 30}}
TimeCases == SetToSeq({Probe(p, CalTTime, s, SmallT, BigT) : p \in 1..3, s \in TimeStrs})
             \o SetToSeq({AsVal(CalTTime, TimeStr(h, mi), BigT) : h \in 0..25, mi \in {0, 59, 60, 99}})
             \o SetToSeq({AsMin(CalTTime, TimeStr(h, mi), SmallT) : h \in {0, 23, 24, 99}, mi \in 0..61})

LocalDates == {DateStr(YearStr(2020), 2, 29), DateStr(YearStr(2019), 2, 29), DateStr(YearStr(2020), 13, 1),
               DateStr(YearStr(2020), 4, 30), DateStr(YearStr(2020), 4, 31), DateStr(YearStr(1), 1, 1),
               DateStr(YearStr(10000), 12, 31), DateStr(YearStr(1900), 2, 29), DateStr(YearStr(2000), 2, 29)}
LocalCases == SetToSeq({Probe(p, CalTLocal, LocalStr(ds, TimeStr(h, mi)), SmallL, BigL) : p \in 1..3, ds \in LocalDates, h \in Hours, mi \in Minutes})

\* malformed shapes: all single-character mutations of these seeds (3-digit year, missing zero
\* padding, trailing and leading junk, wrong separators, lower-case t / w, foreign digits ..),
\* and forms that HTML admits beyond the property's list (seconds, space separator: not gated)
SeedD == DateStr(YearStr(2020), 2, 29)
SeedM == MonthStr(YearStr(2020), 12)
SeedW == WeekStr(YearStr(2020), 53)
SeedT == TimeStr(23, 59)
SeedL == LocalStr(DateStr(YearStr(2020), 12, 31), TimeStr(23, 59))
Secs == <<58, 51, 48>>                 \* :30
SecsF == <<58, 51, 48, 46, 53>>        \* :30.5
Wider(t, s, small, big) == {Probe(p, t, s \o x, small, big) : p \in 1..3, x \in {Secs, SecsF, <<58, 54, 48>>}}     \* :60 is no second
OddYears == {Pad(999, 3), Pad(0, 4), Pad(0, 5), Pad(1, 3), Pad(2020, 5), Pad(1, 7), <<>>}
MalCases ==
    SetToSeq({Probe(p, CalTDate, s, SmallD, BigD) : p \in 1..3, s \in Mutants(SeedD, Junk) \cup {<<>>, SeedM, SeedW, SeedT, SeedL}})
    \o SetToSeq({Probe(p, CalTMonth, s, SmallM, BigM) : p \in 1..3, s \in Mutants(SeedM, Junk) \cup {<<>>, SeedD, SeedW, SeedT}})
    \o SetToSeq({Probe(p, CalTWeek, s, SmallWFor(2020), BigWFor(2020)) : p \in 1..3, s \in Mutants(SeedW, Junk) \cup {<<>>, SeedD, SeedM, SeedT}})
    \o SetToSeq({Probe(p, CalTTime, s, SmallT, BigT) : p \in 1..3, s \in Mutants(SeedT, Junk) \cup {<<>>, SeedD, SeedL, <<49,50,51,48>>}})
    \o SetToSeq({Probe(p, CalTLocal, s, SmallL, BigL) : p \in 1..3, s \in Mutants(SeedL, Junk) \cup {<<>>, SeedD, SeedT}})
    \o SetToSeq(Wider(CalTTime, TimeStr(12, 30), SmallT, BigT))
    \o SetToSeq(Wider(CalTLocal, LocalStr(SeedD, TimeStr(12, 30)), SmallL, BigL))
\* three-digit and zero years in every type
    \o SetToSeq({Probe(p, CalTDate, DateStr(ys, 1, 1), SmallD, BigD) : p \in 1..3, ys \in OddYears})
    \o SetToSeq({Probe(p, CalTMonth, MonthStr(ys, 1), SmallM, BigM) : p \in 1..3, ys \in OddYears})
    \o SetToSeq({Probe(p, CalTWeek, WeekStr(ys, 1), SmallW, BigW) : p \in 1..3, ys \in OddYears})
    \o SetToSeq({Probe(p, CalTLocal, LocalStr(DateStr(ys, 1, 1), SmallT), SmallL, BigL) : p \in 1..3, ys \in OddYears})

\* (families are sequences, concatenated: normalising one large set of element records, or a union of
\* several, is slow in TLC; a case that occurs in two families is simply enumerated twice)
Cases == WeekCases \o DateCases \o MonthCases \o TimeCases \o LocalCases \o MalCases
NB == NumBatches(Len(Cases), BatchSize)
ASSUME PrintT(<<"cases", Len(Cases), "batches", NB>>)

Init == BInit
Next == BNext(NB) /\ doc' = (IF b' > 0 THEN MkDoc(BatchOf(Cases, BatchSize, b'), FALSE, <<>>) ELSE NoDoc)
Emit == b <= 0 \/ PrintT(ToJson(Answer(doc)))
Law == b <= 0 \/ Laws(doc)
=============================================================================
