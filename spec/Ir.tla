---------------------------------- MODULE Ir ----------------------------------
\* I stratum: the immutable selector IR as the parser builds it (css_types.py) and the matcher as the
\* code structures it (css_match.py match_selectors / match_past_relations / match_future_relations /
\* match_nth), for the grammar of C01/C02 plus :lang(), :dir() and the contains pseudo-classes (stored in the IR as data, evaluated by Lang / HtmlState / TextSem).  Compile maps the AST of CssDecl to the IR the way
\* parse_selectors does: the LAST compound of a complex selector is the subject, its `relation` is a
\* one-element list holding the compound to its left (whose rel_type is the combinator between them),
\* and so on right to left; :has() arguments are chained left to right with ":"-prefixed rel_types under
\* an empty anchor selector; != nests under a negated list; keyword structural pseudo-classes become
\* SelectorNth records; a missing type selector is an implied * only outside pseudo-classes (in every compound of a top-level complex selector).
\* T-AlgoEqDecl (checked by the MC_C01 / MC_C02 configurations): for every enumerated document,
\*   AlgoSelect(Compile(s)) = CssDecl!Matches(s).
EXTENDS CssDecl

NoTag == [none |-> TRUE]
NullSel == [null |-> TRUE]
IsNull(s) == "null" \in DOMAIN s
EmptyList == [selectors |-> <<>>, is_not |-> FALSE, is_html |-> FALSE]
FlagNames == {"root", "empty", "scope"}
BlankSel == [tag |-> NoTag, ids |-> <<>>, classes |-> <<>>, attributes |-> <<>>, nth |-> <<>>, selectors |-> <<>>,
             relation |-> EmptyList, rel_type |-> "", flags |-> {}, lang |-> <<>>, contains |-> <<>>]
NthRec(a, n, b, t, l, sels) == [a |-> a, n |-> n, b |-> b, of_type |-> t, last |-> l, selectors |-> sels]
StarStar == [selectors |-> <<[BlankSel EXCEPT !.tag = [name |-> Star, prefix |-> [t |-> "any"]]]>>, is_not |-> FALSE, is_html |-> FALSE]

Fut(c) == CASE c = " " -> ": " [] c = ">" -> ":>" [] c = "~" -> ":~" [] c = "+" -> ":+"
FutureRels == {": ", ":>", ":~", ":+"}
RECURSIVE CompileList(_, _, _, _), CompileCx(_, _), CompileChain(_, _, _), CompileCompound(_, _, _), AddSimple(_, _), CompileHasArg(_), HasChain(_, _, _)

\* fold the simple selectors of a compound into a selector record
AddSimple(sel, s) ==
    CASE s.k = "type"  -> [sel EXCEPT !.tag = [name |-> s.name, prefix |-> s.ns]]
      [] s.k = "id"    -> [sel EXCEPT !.ids = Append(@, s.v)]
      [] s.k = "class" -> [sel EXCEPT !.classes = Append(@, s.v)]
      [] s.k = "attr"  ->
           IF s.op = "ne"
           THEN [sel EXCEPT !.selectors = Append(@, [selectors |-> <<[BlankSel EXCEPT !.attributes = <<[s EXCEPT !.op = "eq"]>>]>>,
                                                     is_not |-> TRUE, is_html |-> FALSE])]
           ELSE [sel EXCEPT !.attributes = Append(@, s)]
      [] s.k \in {"is", "where", "matches"} -> [sel EXCEPT !.selectors = Append(@, CompileList(s.args, TRUE, FALSE, TRUE))]
      [] s.k = "not"   -> [sel EXCEPT !.selectors = Append(@, CompileList(s.args, TRUE, TRUE, FALSE))]
      [] s.k = "has"   -> [sel EXCEPT !.selectors = Append(@, [selectors |-> [n \in 1..Len(s.args) |-> CompileHasArg(s.args[n])],
                                                               is_not |-> FALSE, is_html |-> FALSE])]
      [] s.k \in FlagNames -> [sel EXCEPT !.flags = @ \cup {s.k}]
      [] s.k = "amp"   -> [sel EXCEPT !.flags = @ \cup {"scope"}]
      [] s.k = "lang"  -> [sel EXCEPT !.lang = Append(@, s.ranges)]                          \* SelectorLang(languages)
      [] s.k = "contains" -> [sel EXCEPT !.contains = Append(@, [text |-> s.vals, own |-> s.own])]   \* SelectorContains(text, own)
      [] s.k = "dir"   -> [sel EXCEPT !.flags = @ \cup {IF s.d = "ltr" THEN "dir_ltr" ELSE "dir_rtl"}]
      [] s.k = "first-child" -> [sel EXCEPT !.nth = Append(@, NthRec(1, FALSE, 0, FALSE, FALSE, EmptyList))]
      [] s.k = "last-child"  -> [sel EXCEPT !.nth = Append(@, NthRec(1, FALSE, 0, FALSE, TRUE, EmptyList))]
      [] s.k = "first-of-type" -> [sel EXCEPT !.nth = Append(@, NthRec(1, FALSE, 0, TRUE, FALSE, EmptyList))]
      [] s.k = "last-of-type"  -> [sel EXCEPT !.nth = Append(@, NthRec(1, FALSE, 0, TRUE, TRUE, EmptyList))]
      [] s.k = "only-child" -> [sel EXCEPT !.nth = @ \o <<NthRec(1, FALSE, 0, FALSE, FALSE, EmptyList), NthRec(1, FALSE, 0, FALSE, TRUE, EmptyList)>>]
      [] s.k = "only-of-type" -> [sel EXCEPT !.nth = @ \o <<NthRec(1, FALSE, 0, TRUE, FALSE, EmptyList), NthRec(1, FALSE, 0, TRUE, TRUE, EmptyList)>>]
      [] s.k = "nth"   -> \* "5" is stored as a = 5 without the n flag; "0n+5" keeps (0, n, 5): spelled forms are treated as the latter
                          [sel EXCEPT !.nth = Append(@, NthRec(IF s.a = 0 /\ "raw" \notin DOMAIN s THEN s.b ELSE s.a,
                                                               s.a # 0 \/ "raw" \in DOMAIN s,
                                                               IF s.a = 0 /\ "raw" \notin DOMAIN s THEN 0 ELSE s.b, s.oftype, s.last,
                                                               IF s.oftype THEN EmptyList
                                                               ELSE IF s.of = <<>> THEN StarStar ELSE CompileList(s.of, TRUE, FALSE, FALSE)))]
      [] s.k = "htmllist" ->      \* a state pseudo-class: the precompiled HTML-only list (FLG_HTML), special flag on its LAST alternative
           LET l == CompileList(s.args, TRUE, FALSE, FALSE)
               n == Len(l.selectors)
           IN [sel EXCEPT !.selectors = Append(@, [selectors |-> IF s.flag = "" THEN l.selectors
                                                                 ELSE [l.selectors EXCEPT ![n] = [@ EXCEPT !.flags = {s.flag}]],
                                                   is_not |-> FALSE, is_html |-> TRUE])]
      [] s.k = "flag"  -> [sel EXCEPT !.flags = @ \cup {s.f}]                                  \* :defined
      [] s.k = "none"  -> NullSel
RECURSIVE FoldSimple(_, _, _)
FoldSimple(comp, n, sel) == IF n > Len(comp) \/ IsNull(sel) THEN sel ELSE FoldSimple(comp, n + 1, AddSimple(sel, comp[n]))
CompileCompound(comp, isPseudo, base) ==
    LET s == FoldSimple(comp, 1, base) IN
    IF IsNull(s) THEN s
    ELSE IF s.tag = NoTag /\ ~isPseudo THEN [s EXCEPT !.tag = [name |-> Star, prefix |-> Bare]] ELSE s

\* compound n of cx with everything to its left hanging off its `relation`
CompileChain(cx, n, isPseudo) ==
    LET me == CompileCompound(cx.cs[n], isPseudo, BlankSel) IN
    IF n = 1 \/ IsNull(me) THEN me
    ELSE LET left == CompileChain(cx, n - 1, isPseudo) IN       \* every top-level compound gets the implied * (since F12b; before, only the subject)
         [me EXCEPT !.relation = [selectors |-> <<IF IsNull(left) THEN left ELSE [left EXCEPT !.rel_type = cx.cb[n - 1]]>>,
                                  is_not |-> FALSE, is_html |-> FALSE]]
CompileCx(cx, isPseudo) == CompileChain(cx, Len(cx.cs), isPseudo)
CompileList(lst, isPseudo, isNot, forgive) ==
    [selectors |-> [n \in 1..Len(lst) |-> CompileCx(lst[n], isPseudo)], is_not |-> isNot, is_html |-> FALSE]

\* :has(comb cx): an empty anchor whose relation chains the compounds left to right
HasChain(arg, n, rel) ==
    LET me == CompileCompound(arg.cx.cs[n], TRUE, BlankSel)
        me2 == IF IsNull(me) THEN me ELSE [me EXCEPT !.rel_type = rel] IN
    IF n = Len(arg.cx.cs) \/ IsNull(me) THEN me2
    ELSE [me2 EXCEPT !.relation = [selectors |-> <<HasChain(arg, n + 1, Fut(arg.cx.cb[n]))>>, is_not |-> FALSE, is_html |-> FALSE]]
CompileHasArg(arg) ==
    [BlankSel EXCEPT !.relation = [selectors |-> <<HasChain(arg, 1, Fut(arg.comb))>>, is_not |-> FALSE, is_html |-> FALSE]]

Compile(lst) == CompileList(lst, FALSE, FALSE, FALSE)

\* ------------------------------ the matcher --------------------------------
RECURSIVE AlgoList(_, _, _, _), AlgoSel(_, _, _, _), AlgoNth(_, _, _, _), AlgoPast(_, _, _, _), AlgoFuture(_, _, _, _)

AlgoTag(d, env, tag, i) ==
    tag = NoTag \/ (ElemNsOk(d, env, tag.prefix, i) /\ (tag.name = Star \/ NameKey(d, tag.name) = NameKey(d, d.name[i])))

\* match_nth: position of i among the siblings that qualify, counted by scanning the parent's children
AlgoNth(d, env, n, i) ==
    LET ofOk(j) == n.selectors.selectors = <<>> \/ AlgoList(d, env, n.selectors, j)
        sibs == ElSibsAndSelf(d, i)            \* children of the parent (or of the fake parent of a detached element)
        qual == {j \in sibs : (n.of_type => SameType(d, i, j)) /\ ofOk(j)}
        pos == IF n.last THEN Cardinality({j \in qual : j >= i}) ELSE Cardinality({j \in qual : j <= i})
    IN ofOk(i) /\ (IF n.n THEN NthOk(n.a, n.b, pos) ELSE pos = n.a)

\* inside an HTML-only list the matcher runs with iframe_restrict: walks towards the root stop below an iframe (the own document)
Restricted(env) == "restrict" \in DOMAIN env /\ env.restrict
ParentR(d, env, i) == IF Restricted(env) /\ d.parent[i] # 0 /\ IsIframe(d, d.parent[i]) THEN 0 ELSE d.parent[i]
AncR(d, env, i) == IF Restricted(env) THEN HsAnc(d, i) ELSE Anc(d, i)
HtmlNsMap == <<[p |-> <<104,116,109,108>>, u |-> XHTML]>>           \* the private prefix map {'html': XHTML} of the HTML-only lists

AlgoPast(d, env, rel, i) ==       \* rel = one-element list; its selector's rel_type is the combinator
    LET r == rel.selectors[1] IN
    IF IsNull(r) THEN FALSE
    ELSE CASE r.rel_type = " " -> \E p \in AncR(d, env, i) : AlgoList(d, env, rel, p)      \* walk stops below the document object
           [] r.rel_type = ">" -> ParentR(d, env, i) # 0 /\ AlgoList(d, env, rel, ParentR(d, env, i))
           [] r.rel_type = "~" -> \E p \in PrevElSibs(d, i) : AlgoList(d, env, rel, p)
           [] r.rel_type = "+" -> PrevElSibs(d, i) # {} /\ AlgoList(d, env, rel, Max(PrevElSibs(d, i)))
           [] OTHER -> FALSE
AlgoFuture(d, env, rel, i) ==
    LET r == rel.selectors[1] IN
    IF IsNull(r) THEN FALSE
    ELSE CASE r.rel_type = ": " -> \E c \in ElDesc(d, i) : AlgoList(d, env, rel, c)
           [] r.rel_type = ":>" -> \E c \in ElChildren(d, i) : AlgoList(d, env, rel, c)
           [] r.rel_type = ":~" -> \E c \in NextElSibs(d, i) : AlgoList(d, env, rel, c)
           [] r.rel_type = ":+" -> NextElSibs(d, i) # {} /\ AlgoList(d, env, rel, Min(NextElSibs(d, i)))
           [] OTHER -> FALSE

AlgoSel(d, env, s, i) ==          \* the checks of match_selectors, in the order of the code
    /\ ~IsNull(s)
    /\ AlgoTag(d, env, s.tag, i)
    /\ ("root" \in s.flags => RootHolds(d, i))
    /\ ("scope" \in s.flags => i = env.scope)
    /\ \A n \in 1..Len(s.nth) : AlgoNth(d, env, s.nth[n], i)
    /\ ("empty" \in s.flags => EmptyHolds(d, i))
    \* the "additional logic" flags the parser puts on the last alternative of :default / :indeterminate / the range pseudo-classes /
    \* :placeholder-shown (match_default, match_indeterminate, match_range, match_placeholder_shown), and :defined
    /\ ("default" \in s.flags => HsDefaultButton(d, i))
    /\ ("indeterminate" \in s.flags => \A j \in HsRadioGroup(d, i) : ~HsHas(d, j, HsAChecked))
    /\ ("in_range" \in s.flags => CalInRange(d, i))
    /\ ("out_of_range" \in s.flags => CalOutOfRange(d, i))
    /\ ("placeholder" \in s.flags => HsTextContent(d, i) \in {<<>>, <<10>>})
    /\ ("defined" \in s.flags => IsHtml(d) /\ HsDefined(d, i))
    /\ ("dir_ltr" \in s.flags => StateHolds(d, [k |-> "dir", d |-> "ltr"], i))
    /\ ("dir_rtl" \in s.flags => StateHolds(d, [k |-> "dir", d |-> "rtl"], i))
    /\ \A n \in 1..Len(s.lang) : LangHolds(d, [k |-> "lang", ranges |-> s.lang[n]], i)
    /\ \A n \in 1..Len(s.contains) : ContainsHolds(d, [k |-> "contains", vals |-> s.contains[n].text, own |-> s.contains[n].own], i)
    /\ \A n \in 1..Len(s.ids) : IdHolds(d, [v |-> s.ids[n]], i)
    /\ \A n \in 1..Len(s.classes) : ClassHolds(d, [v |-> s.classes[n]], i)
    /\ \A n \in 1..Len(s.attributes) : AttrHolds(d, env, s.attributes[n], i)
    /\ \A n \in 1..Len(s.selectors) : AlgoList(d, env, s.selectors[n], i)
    /\ (s.relation.selectors # <<>> =>
          (IF ~IsNull(s.relation.selectors[1]) /\ s.relation.selectors[1].rel_type \in FutureRels
           THEN AlgoFuture(d, env, s.relation, i) ELSE AlgoPast(d, env, s.relation, i)))

\* for selector in list: match = is_not; null -> continue; all checks pass -> match = not is_not, break
\* an HTML-only list (is_html) is skipped in a document that is XML but not XHTML; otherwise it is evaluated under the private prefix map
\* and with iframe_restrict, both restored afterwards
AlgoList(d, env, lst, i) ==
    LET e2 == IF lst.is_html THEN [nsmap |-> HtmlNsMap, scope |-> env.scope, restrict |-> TRUE] ELSE env
        hit == \E n \in 1..Len(lst.selectors) : AlgoSel(d, e2, lst.selectors[n], i) IN
    IF lst.selectors = <<>> \/ (lst.is_html /\ ~IsHtml(d)) THEN FALSE ELSE (IF lst.is_not THEN ~hit ELSE hit)

AlgoMatches(d, env, lst, i) == IsEl(d, i) /\ AlgoList(d, env, Compile(lst), i)
=============================================================================
