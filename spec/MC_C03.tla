------------------------------- MODULE MC_C03 ------------------------------
\* C03: every entry point x every call target x limit x every subset of the optional arguments
\* namespaces / custom, over all trees of at most MaxNodes nodes (HTML and namespace-aware XML,
\* attached and detached) and a pool of selectors that makes each argument observable
\* (:scope, &, a custom alias, a namespace prefix).  One state per document; Emit prints the
\* predicted outcome of every call.
EXTENDS Api, TLC, Json
CONSTANTS MaxNodes
VARIABLE doc

A == <<97>>
B == <<98>>
X == <<120>>
PFX == <<112>>
AL == <<45,45,97,108>>           \* "--al"
U1 == <<117,114,110,58,117,49>>   \* "urn:u1"
TypeS(n) == [k |-> "type", ns |-> Bare, name |-> n]
Cx1(c) == [cs |-> <<c>>, cb |-> <<>>]
Cx2(c1, x, c2) == [cs |-> <<c1, c2>>, cb |-> <<x>>]
Scope == [k |-> "scope"]
Amp == [k |-> "amp"]
Cust == [k |-> "custom", name |-> AL]

NsArg == <<[p |-> PFX, u |-> U1]>>
CuArg == <<[name |-> AL, def |-> <<Cx1(<<TypeS(B)>>)>>]>>

Pool == << [sel |-> <<Cx1(<<TypeS(A)>>)>>, cu |-> FALSE],
           [sel |-> <<Cx1(<<TypeS(Star)>>)>>, cu |-> FALSE],
           [sel |-> <<Cx2(<<Scope>>, ">", <<TypeS(A)>>)>>, cu |-> FALSE],
           [sel |-> <<Cx2(<<Amp>>, " ", <<TypeS(A)>>)>>, cu |-> FALSE],
           [sel |-> <<Cx2(<<TypeS(A)>>, " ", <<Scope>>)>>, cu |-> FALSE],
           [sel |-> <<Cx1(<<Cust>>)>>, cu |-> TRUE],
           [sel |-> <<Cx1(<<[k |-> "type", ns |-> [t |-> "pfx", p |-> PFX], name |-> A]>>)>>, cu |-> FALSE],
           [sel |-> <<Cx1(<<[k |-> "not", args |-> <<Cx1(<<Scope>>)>>]>>)>>, cu |-> FALSE],
           [sel |-> <<Cx1(<<Scope>>)>>, cu |-> FALSE],
           [sel |-> <<Cx2(<<Cust>>, ">", <<TypeS(A)>>), Cx1(<<Scope>>)>>, cu |-> TRUE],
           [sel |-> <<Cx1(<<[k |-> "type", ns |-> [t |-> "pfx", p |-> PFX], name |-> A],
                             [k |-> "not", args |-> <<Cx1(<<[k |-> "checked"]>>)>>]>>)>>, cu |-> FALSE],
           [sel |-> <<Cx1(<<[k |-> "enabled"]>>), Cx1(<<[k |-> "type", ns |-> [t |-> "pfx", p |-> PFX], name |-> A]>>)>>, cu |-> FALSE] >>
ASSUME PrintT(ToJson([apipool |-> Pool, nsarg |-> NsArg, cuarg |-> CuArg]))

Init == doc \in {EmptyDoc("doc", FALSE), EmptyDoc("frag", FALSE), EmptyDoc("doc", TRUE)}
Next == /\ Len(doc.parent) < MaxNodes
        /\ \E p \in Spine(doc) :
             \/ \E n \in {A, B} : CanAdd(doc, p, "e") /\ doc' = AddElem(doc, p, n)
             \/ doc.xml /\ CanAdd(doc, p, "e") /\ doc' = AddElemNs(doc, p, A, U1, <<>>, <<>>)
             \/ CanAdd(doc, p, "t") /\ doc' = AddData(doc, p, "t", X)

Limits == {0, 1, 2, 99}       \* the harness adds -1 as an alias of "no limit" itself
Targets == (IF doc.top = "doc" THEN {0} ELSE {}) \cup Elems(doc)
RevNodes == [i \in 1..Len(doc.parent) |-> Len(doc.parent) + 1 - i]

Outcome(ep, t, s, lim, ns, cu) ==
    LET nsmap == IF ns THEN NsArg ELSE <<>>
        cust == IF cu THEN CuArg ELSE <<>>
        lst == Pool[s].sel
    IN IF Pool[s].cu /\ ~cu THEN [err |-> "SelectorSyntaxError"]
       ELSE CASE ep = "select" -> [seq |-> SelectView(doc, lst, t, lim, nsmap, cust)]
              [] ep = "select_one" -> [one |-> SelectOneView(doc, lst, t, nsmap, cust)]
              [] ep = "match" -> [bool |-> MatchView(doc, lst, t, nsmap, cust)]
              [] ep = "filter" -> [seq |-> FilterView(doc, lst, t, nsmap, cust)]
              [] ep = "filter_iter" -> [seq |-> FilterIterView(doc, lst, RevNodes, nsmap, cust)]
              [] ep = "closest" -> [one |-> ClosestView(doc, lst, t, nsmap, cust)]

Eps == {"select", "select_one", "match", "filter", "filter_iter", "closest"}
Calls == {<<ep, t, s, lim, ns, cu>> : ep \in Eps, t \in Targets, s \in 1..Len(Pool),
                                       lim \in Limits, ns \in BOOLEAN, cu \in BOOLEAN}
Relevant(c) == (c[1] # "select" => c[4] = 0) /\ (c[1] = "filter_iter" => c[2] = Min(Targets))
Emit == PrintT(ToJson([doc |-> doc,
                       calls |-> {[c |-> c, o |-> Outcome(c[1], c[2], c[3], c[4], c[5], c[6])] :
                                     c \in {x \in Calls : Relevant(x)}}]))

\* design-level theorems about the views themselves (T-Views)
ViewsAgree ==
    \A t \in Targets, s \in 1..Len(Pool) :
        LET lst == Pool[s].sel
            all == SelectView(doc, lst, t, 0, NsArg, CuArg)
        IN /\ SelectOneView(doc, lst, t, NsArg, CuArg) = (IF all = <<>> THEN 0 ELSE all[1])
           /\ \A k \in 1..3 : IsPrefix(SelectView(doc, lst, t, k, NsArg, CuArg), all)
           /\ (t # 0 => t \notin ToSet(all))
           /\ ToSet(all) \subseteq Elems(doc)
           /\ ClosestView(doc, lst, t, NsArg, CuArg) \in {0} \cup (IF t = 0 THEN {} ELSE AncOrSelf(doc, t))
=============================================================================
