------------------------------ MODULE MatchOrder ------------------------------
\* Machine M5 (compound evaluator), definedness view: a compound is evaluated by running checks in
\* a fixed ORDER and stopping at the first that fails.  A check may only run when what it
\* dereferences is known to exist: Needs[c] must be established by the checks that already passed
\* (Gives[c]) - the specification analogue of "matching never raises".
\*   Order   sequence of check names (CONSTANT; "asis" = the order found in the code before repair)
\*   Uses    the set of checks the compound under evaluation actually contains
\* T-Defined: in every reachable evaluation state the precondition of the next check holds.
EXTENDS Naturals, Sequences, FiniteSets
CONSTANTS Order, Needs, Gives, Compounds
VARIABLES uses, pos, established, passed

Init == uses \in Compounds /\ pos = 1 /\ established = {} /\ passed = TRUE
Cur == Order[pos]
Step == /\ pos <= Len(Order) /\ passed
        /\ IF Cur \in uses
           THEN \E ok \in BOOLEAN :          \* the check passes or fails on this element
                  /\ passed' = ok
                  /\ established' = IF ok THEN established \cup Gives[Cur] ELSE established
           ELSE UNCHANGED <<passed, established>>
        /\ pos' = pos + 1 /\ UNCHANGED uses
Next == Step
Defined == (pos <= Len(Order) /\ passed /\ Cur \in uses) => Needs[Cur] \subseteq established

\* B2 helper: a recorded sequence of executed checks must respect Order
RECURSIVE IsSubseqFrom(_, _, _, _)
IsSubseqFrom(s, i, t, j) == IF i > Len(s) THEN TRUE
                            ELSE IF j > Len(t) THEN FALSE
                            ELSE IF s[i] = t[j] THEN IsSubseqFrom(s, i + 1, t, j + 1)
                            ELSE IsSubseqFrom(s, i, t, j + 1)
RespectsOrder(s) == IsSubseqFrom(s, 1, Order, 1)
=============================================================================
