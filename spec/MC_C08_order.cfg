CONSTANTS
 Order <- MOrder
 Needs <- MNeeds
 Gives <- MGives
 Compounds <- MCompounds
 Variant = "guarded"
INIT Init
NEXT Next
INVARIANT Defined
CHECK_DEADLOCK FALSE
