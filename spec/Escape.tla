------------------------------- MODULE Escape -------------------------------
\* R stratum.  CSSOM "serialize an identifier" (https://drafts.csswg.org/cssom/#serialize-an-identifier)
\* over strings as sequences of code points (Seq(Nat), see Str.tla).  The cases are tried in the
\* order of the standard, the first that applies wins:
\*   1. NUL                                        -> U+FFFD
\*   2. U+0001..U+001F, U+007F                     -> "escaped as code point": "\" hex " "
\*   3. first character, a digit                   -> escaped as code point
\*   4. second character, a digit, first is "-"    -> escaped as code point
\*   5. first character "-" and there is no second -> "escaped": "\" char
\*   6. >= U+0080, "-", "_", digit, ASCII letter   -> the character itself
\*   7. otherwise                                  -> escaped
\* "escaped as code point" = backslash, the code point as the smallest number of lowercase
\* hexadecimal digits, one space.
EXTENDS Naturals, Sequences

REPLACEMENT == 65533      \* U+FFFD
BACKSLASH == 92
HYPHEN == 45
LOWLINE == 95

IsDigit(c) == c >= 48 /\ c <= 57
IsUpper(c) == c >= 65 /\ c <= 90
IsLower(c) == c >= 97 /\ c <= 122
IsLetter(c) == IsUpper(c) \/ IsLower(c)
NonAscii(c) == c >= 128
IsControl(c) == (c >= 1 /\ c <= 31) \/ c = 127

HexChar(d) == IF d < 10 THEN 48 + d ELSE 87 + d          \* 0-9 a-f
RECURSIVE Hex(_)
Hex(n) == IF n < 16 THEN <<HexChar(n)>> ELSE Hex(n \div 16) \o <<HexChar(n % 16)>>

AsCodePoint(c) == <<BACKSLASH>> \o Hex(c) \o <<32>>
AsChar(c) == <<BACKSLASH, c>>

\* serialization of the i-th code point of s
EscAt(s, i) ==
    LET c == s[i] IN
    IF c = 0 THEN <<REPLACEMENT>>
    ELSE IF IsControl(c) THEN AsCodePoint(c)
    ELSE IF i = 1 /\ IsDigit(c) THEN AsCodePoint(c)
    ELSE IF i = 2 /\ IsDigit(c) /\ s[1] = HYPHEN THEN AsCodePoint(c)
    ELSE IF i = 1 /\ c = HYPHEN /\ Len(s) = 1 THEN AsChar(c)
    ELSE IF NonAscii(c) \/ c = HYPHEN \/ c = LOWLINE \/ IsDigit(c) \/ IsLetter(c) THEN <<c>>
    ELSE AsChar(c)

RECURSIVE EscFrom(_, _)
EscFrom(s, i) == IF i > Len(s) THEN <<>> ELSE EscAt(s, i) \o EscFrom(s, i + 1)

Escape(s) == EscFrom(s, 1)

\* what the identifier means after serialization: NUL cannot be represented, it becomes U+FFFD
NulFix(s) == [i \in 1..Len(s) |-> IF s[i] = 0 THEN REPLACEMENT ELSE s[i]]

\* Laws of the definition itself (checked by TLC in MC_C10_*):
\* the serialization contains no raw NUL / C0 control / DEL ...
NoRawControl(s) == LET e == Escape(s) IN \A i \in 1..Len(e) : e[i] # 0 /\ ~IsControl(e[i])
\* ... is never shorter than the identifier, and is empty only for the empty identifier
LengthLaw(s) == LET e == Escape(s) IN Len(e) >= Len(s) /\ (Len(e) = 0 <=> Len(s) = 0)
=============================================================================
