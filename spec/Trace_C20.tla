----------------------------- MODULE Trace_C20 -----------------------------
\* B2 (code -> spec): validates recorded SelectorSyntaxError events against ErrCtx.
\* One ndjson line per event:
\*   [id, p (pattern, code points), pos (offset the parser reported in its message, -1 if the
\*    message names none), line, col, ctx (code points of e.context)]
\* The verdict is total: a non-conforming event is reported with PrintT(<<"REJECT", id, ..>>)
\* and validation continues.  Accepted events whose context is not literally the documented
\* format (or whose line/col differ where the property is ambiguous) print <<"DRIFT", id>>.
EXTENDS ErrCtx, TLC, TLCExt, Json, IOUtils
VARIABLE l

Tr == ndJsonDeserialize(IOEnv.TRACE_FILE)

\* the caret stands under the column; for the LF of a CR LF pair (which has no display column:
\* the break is rendered as the end of the row) the end-of-row column is accepted as well
CaretOK(p, i, ctx, line, col) == \/ Shows(p, ctx, line, col)
                                 \/ InsideBreak(p, i) /\ Shows(p, ctx, line, col - 1)

\* strong reading: the offset is known and is not strictly inside a break
Strong(e) == /\ e.line = Line(e.p, e.pos)
             /\ e.col = Col(e.p, e.pos)
             /\ Shows(e.p, e.ctx, e.line, e.col)
\* weak reading (no offset in the message, or an offset at the LF of a CR LF):
\* (line, col) designates a position inside the pattern and the context shows it
Weak(e) == \E i \in Positions(e.p, e.line, e.col) : CaretOK(e.p, i, e.ctx, e.line, e.col)

Known(e) == e.pos >= 0
Conforms(e) == IF Known(e)
               THEN /\ e.pos <= Len(e.p)
                    /\ IF InsideBreak(e.p, e.pos) THEN Weak(e) ELSE Strong(e)
               ELSE Weak(e)
Exact(e) == IF Known(e)
            THEN e.line = Line(e.p, e.pos) /\ e.col = Col(e.p, e.pos) /\ e.ctx = Context(e.p, e.pos)
            ELSE \E i \in Positions(e.p, e.line, e.col) : e.ctx = Context(e.p, i)
Expected(e) == IF Known(e) /\ e.pos <= Len(e.p)
               THEN <<Line(e.p, e.pos), Col(e.p, e.pos)>> ELSE <<>>

Init == l = 0
Next == /\ l < Len(Tr)
        /\ l' = l + 1
        /\ LET e == Tr[l + 1]
           IN IF Conforms(e) THEN (Exact(e) \/ PrintT(<<"DRIFT", e.id>>))
              ELSE PrintT(<<"REJECT", e.id, ToString(Expected(e))>>)
\* every line was consumed (one state per event plus the initial state)
Accepted == TLCGet("stats").diameter - 1 = Len(Tr)
=============================================================================
