--------------------------- MODULE MC_C17_default ---------------------------
\* C17 configuration "default": forms, nested forms, neutral containers and iframes holding submit
\* buttons (input / button, type in lower and upper case), non-submit buttons and a checked
\* checkbox, against :default and :checked.  Focus: "the first submit button of its form owner",
\* form owner = nearest form ancestor inside the element's own document (iframe boundary).
\* One state = one document; Emit prints the predicted sets for the pool (replayed into soupsieve).
EXTENDS CssDecl, TLC, Json, SequencesExt
CONSTANTS MaxNodes, MaxDepth
VARIABLE doc

At(nm, v) == [k |-> nm, ns |-> <<>>, local |-> nm, v |-> v, list |-> FALSE]
SUBMITUP == <<83,85,66,77,73,84>>                  \* "SUBMIT"
Containers == {HsNForm, HsNDiv, HsNIframe}
Leaves == { <<HsNInput, <<At(HsAType, HsVSubmit)>>>>,
            <<HsNButton, <<At(HsAType, SUBMITUP)>>>>,
            <<HsNButton, <<>>>>,                                         \* no type attribute: not "of type submit"
            <<HsNInput, <<At(HsAType, HsVText)>>>>,
            <<HsNInput, <<At(HsAType, HsVCheckbox), At(HsAChecked, <<>>)>>>> }
Templates == {<<c, <<>>>> : c \in Containers} \cup Leaves

Cx1(c) == [cs |-> <<c>>, cb |-> <<>>]
TypeS(n) == [k |-> "type", ns |-> Bare, name |-> n]
\* the third entry (*:default in CSS) carries the form-owner reading of "first submit button in
\* each form" (HtmlState: alt); the harness only records where the code departs from it (nested forms)
DefOwner == [k |-> "default", alt |-> TRUE]
Pool == << Cx1(<<HsK("default")>>), Cx1(<<HsK("checked")>>), Cx1(<<TypeS(Star), DefOwner>>) >>
ASSUME PrintT(ToJson([pool |-> [s \in 1..Len(Pool) |-> <<Pool[s]>>]]))

DepthOf(p) == IF p = 0 THEN 0 ELSE Cardinality(Anc(doc, p)) + 1
CanHold(p) == IF p = 0 THEN TRUE ELSE doc.name[p] \in Containers
Init == doc = EmptyDoc("doc", FALSE)
Next == /\ Len(doc.parent) < MaxNodes
        /\ \E p \in Spine(doc) : \E t \in Templates :
             /\ CanHold(p) /\ DepthOf(p) < MaxDepth
             /\ doc' = AddElemA(doc, p, t[1], t[2])

Env == [nsmap |-> <<>>, scope |-> RootOf(doc)]
Rel1(s) == {i \in Elems(doc) : Matches(doc, Env, <<Pool[s]>>, i)}
Res == [s \in 1..Len(Pool) |-> MaskUpTo(Rel1(s), Len(doc.parent))]
Emit == PrintT(ToJson([doc |-> doc, res |-> Res]))

\* design-level theorems on the model
ThDefault == HsThDefault(doc)
ThBoundary == HsThBoundary(doc)
ThPartitions == HsThCheckedDefault(doc)

\* T-StateDefs: the library's definition TEXTS of the state pseudo-classes (StateDefsGen, from the tree under test), parsed and compiled by the
\* specification's front end and evaluated by the matcher of Ir.tla, designate exactly what HtmlState.tla says
ST == INSTANCE IrState
SD == ST!FlaggedLists          \* constant of THIS module: evaluated once at start-up (see IrState)
ASSUME DOMAIN SD # {}
ThStateDefs == ST!StateDefsHoldL(SD, doc, [nsmap |-> <<>>, scope |-> RootOf(doc)])
=============================================================================
