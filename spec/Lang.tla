------------------------------ MODULE Lang ------------------------------
\* C13: :lang() = RFC 4647 extended filtering over the inherited language. s = [k |-> "lang", ranges |-> Seq(Str)]
\* STUB - to be filled in.  Every operator other than the entry point must carry a module-specific
\* prefix, because CssDecl EXTENDS this module together with its siblings (shared name space).
EXTENDS Integers, Sequences, FiniteSets, Str, Dom

LangHolds(d, s, i) == FALSE
=============================================================================
