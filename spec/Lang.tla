------------------------------ MODULE Lang ------------------------------
\* C13 (R stratum): :lang() = RFC 4647 extended filtering (section 3.3.2) over the element's
\* inherited language.  Written from RFC 4647, Selectors 4 (section 7.2) and the wording of the
\* property, not from the implementation.   s = [k |-> "lang", ranges |-> Seq(Str)]
\*
\* Every operator other than the entry point LangHolds carries the prefix Lang / L_ because
\* CssDecl EXTENDS this module together with its siblings (one shared name space).
EXTENDS Integers, Sequences, FiniteSets, Str, Dom

LangDash == 45                                          \* '-'
LangWild == <<42>>                                      \* "*"
LangAttrName == <<108,97,110,103>>                      \* "lang"
LangHtmlName == <<104,116,109,108>>                     \* "html"
LangHeadName == <<104,101,97,100>>                      \* "head"
LangMetaName == <<109,101,116,97>>                      \* "meta"
LangHttpEquiv == <<104,116,116,112,45,101,113,117,105,118>>                          \* "http-equiv"
LangContentAttr == <<99,111,110,116,101,110,116>>                                    \* "content"
LangContentLanguage == <<99,111,110,116,101,110,116,45,108,97,110,103,117,97,103,101>>  \* "content-language"

\* ---------------------------------------------------------------------------------------------
\* 1. The filter: RFC 4647 section 3.3.2 on lists of subtags
\* ---------------------------------------------------------------------------------------------
\* "split both the extended language range and the language tag being compared into a list of
\* subtags by dividing on the hyphen"; all comparisons are ASCII-case-insensitive, so fold first.
LangSubtags(s) == Split(Lower(s), LangDash)

\* singleton = a single letter or digit (this includes the private-use subtag "x"); the argument
\* is already lower-cased
LangSingleton(st) ==
    Len(st) = 1 /\ ((st[1] >= 97 /\ st[1] <= 122) \/ (st[1] >= 48 /\ st[1] <= 57))

\* Step 3 (the loop) and step 4.  r, t: lists of subtags; ri, ti: the subtags currently examined.
RECURSIVE LangStep3(_, _, _, _)
LangStep3(r, t, ri, ti) ==
    IF ri > Len(r) THEN TRUE                                        \* 4.  range exhausted: the match succeeds
    ELSE IF r[ri] = LangWild THEN LangStep3(r, t, ri + 1, ti)       \* 3A. wildcard: next range subtag
    ELSE IF ti > Len(t) THEN FALSE                                  \* 3B. the tag ran out
    ELSE IF r[ri] = t[ti] THEN LangStep3(r, t, ri + 1, ti + 1)      \* 3C. equal: advance both
    ELSE IF LangSingleton(t[ti]) THEN FALSE                         \* 3D. a singleton is never skipped
    ELSE LangStep3(r, t, ri, ti + 1)                                \* 3E. skip this subtag of the tag

\* Step 2: the first subtags must be equal unless the range starts with the wildcard.
LangExtFilter(r, t) == (r[1] = LangWild \/ r[1] = t[1]) /\ LangStep3(r, t, 2, 2)

\* The two additions of Selectors 4: the empty range stands for "explicitly no language" and matches
\* only the empty tag; nothing else (in particular "*") matches the empty tag.
LangFilter(range, tag) ==
    IF range = <<>> THEN tag = <<>>
    ELSE IF tag = <<>> THEN FALSE
    ELSE LangExtFilter(LangSubtags(range), LangSubtags(tag))

\* ---- the same relation said declaratively (used by the design-level theorems only) -----------
\* Without the wildcards the rest of the range is a subsequence of the rest of the tag, and every
\* subtag of the tag that is passed over on the way to the last matched one is not a singleton.
RECURSIVE L_SortedSeq(_)
L_SortedSeq(S) == IF S = {} THEN <<>> ELSE LET m == CHOOSE x \in S : \A y \in S : x <= y
                                           IN <<m>> \o L_SortedSeq(S \ {m})
L_NonWild(r) == SelectSeq(r, LAMBDA x : x # LangWild)
LangEmbeds(r, t) ==
    LET rest == L_NonWild(Tail(r))        \* the wildcard in other than first position adds nothing
    IN /\ (r[1] = LangWild \/ r[1] = t[1])
       /\ \E P \in SUBSET (2..Len(t)) :
             /\ Cardinality(P) = Len(rest)
             /\ LET ps == L_SortedSeq(P) IN
                  /\ \A n \in 1..Len(rest) : t[ps[n]] = rest[n]
                  /\ \A q \in 2..Len(t) : (q \notin P /\ \E p \in P : q < p) => ~LangSingleton(t[q])
LangFilterDecl(range, tag) ==
    IF range = <<>> THEN tag = <<>>
    ELSE IF tag = <<>> THEN FALSE
    ELSE LangEmbeds(LangSubtags(range), LangSubtags(tag))

L_UpperC(c) == IF c >= 97 /\ c <= 122 THEN c - 32 ELSE c
LangUpper(s) == [i \in 1..Len(s) |-> L_UpperC(s[i])]
\* the first n subtags of a tag, joined again
LangPrefix(tag, n) == Join(SubSeq(Split(tag, LangDash), 1, n), <<LangDash>>)
\* range with its non-initial wildcards removed
LangStripWild(range) ==
    LET r == Split(range, LangDash) IN Join(<<r[1]>> \o L_NonWild(Tail(r)), <<LangDash>>)

\* Design-level theorems about the filter, for one (range, tag) pair; the MC modules quantify them.
\* tag is assumed to be wildcard-free (a language tag), range is arbitrary.
LangLawCase(range, tag) ==        \* ASCII case of either side is irrelevant
    /\ LangFilter(LangUpper(range), tag) = LangFilter(range, tag)
    /\ LangFilter(range, LangUpper(tag)) = LangFilter(range, tag)
    /\ LangFilter(Lower(range), Lower(tag)) = LangFilter(range, tag)
LangLawDecl(range, tag) == LangFilter(range, tag) = LangFilterDecl(range, tag)    \* greedy scan = exists an embedding
LangLawWild(range, tag) ==        \* a wildcard in other than the first position is redundant
    range # <<>> => LangFilter(LangStripWild(range), tag) = LangFilter(range, tag)
LangLawTag(tag) ==
    /\ LangFilter(tag, tag)                                         \* a range equal to the tag matches
    /\ LangFilter(LangWild, tag) = (tag # <<>>)                     \* "*": exactly the non-empty tags
    /\ LangFilter(<<>>, tag) = (tag = <<>>)                         \* "": exactly the empty tag
    /\ \A n \in 1..Len(Split(tag, LangDash)) :                      \* every prefix of the tag is a matching range
          tag # <<>> => LangFilter(LangPrefix(tag, n), tag)
    /\ \A n \in 1..Len(Split(tag, LangDash)) :                      \* basic filtering is subsumed, also with a
          tag # <<>> => LangFilter(LangPrefix(tag, n) \o <<LangDash>> \o LangWild, tag)    \* redundant trailing wildcard

\* ---------------------------------------------------------------------------------------------
\* 2. The language of an element
\* ---------------------------------------------------------------------------------------------
\* A language is [known |-> BOOLEAN, v |-> Str]; known with v = <<>> is the explicitly empty language.
LangUnknown == [known |-> FALSE, v |-> <<>>]
LangKnown(v) == [known |-> TRUE, v |-> v]

\* The language attribute of element j itself, as the set of its values (empty set: none).
\* Elements of HTML documents and elements in the XHTML namespace use the un-namespaced attribute
\* "lang" (attribute names are ASCII-case-insensitive in HTML documents: NameKey); every other XML
\* element uses "lang" in the XML namespace (xml:lang).
LangOwnSet(d, j) ==
    IF IsHtmlEl(d, j)
    THEN AttrValSet(d, j, LangAttrName)
    ELSE {d.attrs[j][n].v : n \in {m \in 1..Len(d.attrs[j]) :
              d.attrs[j][m].ns = XMLNS /\ NameKey(d, d.attrs[j][m].local) = LangAttrName}}

\* p is not part of the document its children belong to: the container, or - in HTML and XHTML -
\* an iframe element (its content is a document of its own)
LangBoundary(d, p) == p = 0 \/ (IsHtml(d) /\ IsIframe(d, p))

\* i and its ancestors within the same document, nearest first
RECURSIVE LangChain(_, _)
LangChain(d, i) == IF LangBoundary(d, d.parent[i]) THEN <<i>> ELSE <<i>> \o LangChain(d, d.parent[i])

\* The content-language pragma of the document whose top-level nodes are the children of `top`:
\* html > head > meta[http-equiv="content-language" i][content], all three HTML elements.  A pragma
\* without content or with empty content sets no language (HTML: "if candidate is the empty string,
\* return").  Only HTML and XHTML documents have it.
LangIsNamed(d, j, nm) == IsEl(d, j) /\ IsHtmlEl(d, j) /\ NameKey(d, d.name[j]) = nm
LangNamedKids(d, P, nm) == {j \in Elems(d) : d.parent[j] \in P /\ LangIsNamed(d, j, nm)}
LangIsPragma(d, m) == \E v \in AttrValSet(d, m, LangHttpEquiv) : Lower(v) = LangContentLanguage
LangPragmaMetas(d, top) ==
    {m \in LangNamedKids(d, LangNamedKids(d, LangNamedKids(d, {top}, LangHtmlName), LangHeadName), LangMetaName) :
        LangIsPragma(d, m) /\ \E v \in AttrValSet(d, m, LangContentAttr) : v # <<>>}
LangPragma(d, top) ==
    IF ~IsHtml(d) THEN LangUnknown
    ELSE LET ms == LangPragmaMetas(d, top)
         IN IF ms = {} THEN LangUnknown
            ELSE LangKnown(CHOOSE v \in AttrValSet(d, Min(ms), LangContentAttr) : v # <<>>)

\* nearest language attribute within the document, otherwise the document's pragma, otherwise unknown
LangOf(d, i) ==
    LET ch == LangChain(d, i)
        hit == {n \in 1..Len(ch) : LangOwnSet(d, ch[n]) # {}}
    IN IF hit # {} THEN LangKnown(CHOOSE v \in LangOwnSet(d, ch[Min(hit)]) : TRUE)
       ELSE LangPragma(d, d.parent[ch[Len(ch)]])     \* parent of the top of the chain: 0 or an iframe

\* ---------------------------------------------------------------------------------------------
\* 3. :lang(r1, r2, ...)
\* ---------------------------------------------------------------------------------------------
LangHolds(d, s, i) ==
    LET lg == LangOf(d, i)
    IN lg.known /\ \E n \in 1..Len(s.ranges) : LangFilter(s.ranges[n], lg.v)
=============================================================================
