------------------------------ MODULE LazyInit ------------------------------
\* Machine M8b: process start-up as a state of its own.  Objects shared by all threads (the token patterns of CSSParser.css_tokens, memo
\* tables, module-level tables) are either fully built when the module has been imported (Design = "eager", what the library does) or on
\* first use.  A first use is two steps - Test (is it built?) and Build - between which another thread can run its own first use.
\*   Design = "eager"            built at import: Test always succeeds
\*   Design = "lazy_unguarded"   (negative model) Build re-builds from what it finds: building from an already built object is an error
\*   Design = "lazy_idempotent"  Build overwrites with an equal value: harmless
\* T-FirstUse: no thread ever observes an error, and every use returns the built object.
\* Bound to the code by the cold-start part of checks/c14.py (every pre-emption point of the first compile of a fresh interpreter).
EXTENDS Naturals, FiniteSets
CONSTANTS Threads, Objects, Design
VARIABLES built, pc, want, err
\* pc[t] \in {"idle", "tested", "done"}; want[t] = the object t is using

Init == /\ built = [o \in Objects |-> Design = "eager"]
        /\ pc = [t \in Threads |-> "idle"] /\ want \in [Threads -> Objects] /\ err = FALSE
Test(t) == /\ pc[t] = "idle" /\ ~err
           /\ pc' = [pc EXCEPT ![t] = IF built[want[t]] THEN "done" ELSE "tested"]
           /\ UNCHANGED <<built, want, err>>
Build(t) == /\ pc[t] = "tested" /\ ~err
            /\ IF built[want[t]] /\ Design = "lazy_unguarded"
               THEN err' = TRUE /\ UNCHANGED built           \* re.compile(<compiled pattern>, flags) raises ValueError
               ELSE err' = err /\ built' = [built EXCEPT ![want[t]] = TRUE]
            /\ pc' = [pc EXCEPT ![t] = "done"]
            /\ UNCHANGED want
Next == \E t \in Threads : Test(t) \/ Build(t)
FirstUse == ~err /\ \A t \in Threads : pc[t] = "done" => built[want[t]]
=============================================================================
