-------------------------------- MODULE Dom --------------------------------
(* The document tree (machine M1) as an abstract value, plus the builder     *)
(* actions that let TLC enumerate trees.                                      *)
(*                                                                            *)
(* A document d is a record of parallel sequences indexed by node id 1..N in  *)
(* document (pre-)order, so "document order" is < on ids:                     *)
(*   parent[i] \in 0..i-1   0 is the container: the BeautifulSoup object when *)
(*                          d.top = "doc", nothing at all when d.top = "frag" *)
(*                          (a detached element).  NODE 0 IS NEVER AN ELEMENT.*)
(*   kind[i]   "e" element, "t" text, "c" comment, "cd" CDATA,                *)
(*             "pi" processing instruction, "dt" doctype, "dc" declaration    *)
(*   name[i]   tag name (Str) for elements, <<>> otherwise                    *)
(*   ns[i]     namespace URI (Str) or <<>> for none                           *)
(*   pfx[i]    prefix (Str) or <<>> for none                                  *)
(*   attrs[i]  sequence of [k |-> full key, ns |-> URI or <<>>,               *)
(*                          local |-> local name, v |-> value, list |-> BOOL] *)
(*   text[i]   character data for non-elements                                *)
(*   xml       TRUE when built by an XML builder (bs4's _is_xml)              *)
EXTENDS Naturals, Sequences, FiniteSets, Str

XHTML == <<104,116,116,112,58,47,47,119,119,119,46,119,51,46,111,114,103,47,49,57,57,57,47,120,104,116,109,108>>
XMLNS == <<104,116,116,112,58,47,47,119,119,119,46,119,51,46,111,114,103,47,88,77,76,47,49,57,57,56,47,110,97,109,101,115,112,97,99,101>>

EmptyDoc(top, xml) ==
    [parent |-> <<>>, kind |-> <<>>, name |-> <<>>, ns |-> <<>>, pfx |-> <<>>,
     attrs |-> <<>>, text |-> <<>>, top |-> top, xml |-> xml]

Nodes(d) == 1..Len(d.parent)
IsEl(d, i) == d.kind[i] = "e"
Elems(d) == {i \in Nodes(d) : IsEl(d, i)}

AddNode(d, p, k, nm, nsu, px, at, tx) ==
    [d EXCEPT !.parent = Append(@, p), !.kind = Append(@, k), !.name = Append(@, nm),
              !.ns = Append(@, nsu), !.pfx = Append(@, px), !.attrs = Append(@, at),
              !.text = Append(@, tx)]

AddElem(d, p, nm) == AddNode(d, p, "e", nm, <<>>, <<>>, <<>>, <<>>)
AddElemA(d, p, nm, at) == AddNode(d, p, "e", nm, <<>>, <<>>, at, <<>>)
AddElemNs(d, p, nm, nsu, px, at) == AddNode(d, p, "e", nm, nsu, px, at, <<>>)
AddData(d, p, k, tx) == AddNode(d, p, k, <<>>, <<>>, <<>>, <<>>, tx)

\* Nodes under which a new node may be appended so that ids stay in pre-order:
\* the container and the right-most spine (elements only).
RECURSIVE SpineFrom(_, _)
SpineFrom(d, i) == IF i = 0 THEN {0} ELSE {i} \cup SpineFrom(d, d.parent[i])
Spine(d) == IF Len(d.parent) = 0 THEN {0}
            ELSE {i \in SpineFrom(d, Len(d.parent)) : i = 0 \/ IsEl(d, i)}
\* a detached fragment has exactly one top node, and it is an element
CanAdd(d, p, k) == /\ p \in Spine(d)
                   /\ (d.top = "frag" /\ p = 0) => (Len(d.parent) = 0 /\ k = "e")

Children(d, p) == {i \in Nodes(d) : d.parent[i] = p}
ElChildren(d, p) == {i \in Elems(d) : d.parent[i] = p}

\* Only elements are parents / ancestors: the walk stops at the container.
RECURSIVE Anc(_, _)
Anc(d, i) == IF d.parent[i] = 0 THEN {} ELSE {d.parent[i]} \cup Anc(d, d.parent[i])
AncOrSelf(d, i) == {i} \cup Anc(d, i)
Desc(d, i) == {j \in Nodes(d) : i \in Anc(d, j)}
ElDesc(d, i) == {j \in Elems(d) : i \in Anc(d, j)}

Sibs(d, i) == {j \in Nodes(d) : d.parent[j] = d.parent[i] /\ j # i}
ElSibsAndSelf(d, i) == {j \in Elems(d) : d.parent[j] = d.parent[i]}
PrevElSibs(d, i) == {j \in ElSibsAndSelf(d, i) : j < i}
NextElSibs(d, i) == {j \in ElSibsAndSelf(d, i) : j > i}
Max(S) == CHOOSE x \in S : \A y \in S : y <= x
Min(S) == CHOOSE x \in S : \A y \in S : x <= y

\* top-most element above (or equal to) i
RECURSIVE TopOf(_, _)
TopOf(d, i) == IF d.parent[i] = 0 THEN i ELSE TopOf(d, d.parent[i])

\* What the matcher calls "root": first top-level element of a document, or the
\* top of a detached fragment.  0 when there is none.
TopElems(d) == {i \in Elems(d) : d.parent[i] = 0}
RootOf(d) == IF TopElems(d) = {} THEN 0 ELSE Min(TopElems(d))

HasHtmlNs(d) == RootOf(d) # 0 /\ d.ns[RootOf(d)] = XHTML
IsXml(d) == d.xml
IsHtml(d) == ~d.xml \/ HasHtmlNs(d)         \* HTML or XHTML
SupportsNs(d) == d.xml \/ HasHtmlNs(d)
\* namespace of an element as selectors see it
NsOf(d, i) == IF SupportsNs(d) THEN d.ns[i] ELSE XHTML
IsHtmlEl(d, i) == NsOf(d, i) = XHTML

\* names compare ASCII-case-insensitively in HTML, exactly in XML / XHTML
NameKey(d, s) == IF d.xml THEN s ELSE Lower(s)
IsIframe(d, i) == IsEl(d, i) /\ NameKey(d, d.name[i]) = <<105,102,114,97,109,101>> /\ IsHtmlEl(d, i)

\* un-namespaced attribute nm (already lower-cased for HTML by the caller via NameKey) as a set of
\* values: empty when absent.  Generators never create two keys that fold to the same name.
AttrValSet(d, i, nm) ==
    {d.attrs[i][n].v : n \in {m \in 1..Len(d.attrs[i]) : d.attrs[i][m].ns = <<>> /\ NameKey(d, d.attrs[i][m].k) = nm}}
HasAttr(d, i, nm) == AttrValSet(d, i, nm) # {}
AttrVal(d, i, nm) == CHOOSE v \in AttrValSet(d, i, nm) : TRUE     \* only when HasAttr
\* attribute lookup of the HTML-state pseudo-classes: by name, ASCII-case-insensitively in HTML documents and exactly in XML / XHTML
\* documents (get_attribute_by_name; the definition selectors [checked], [disabled] ... follow the same rule: C11)
AttrValSetCI(d, i, nm) ==
    {d.attrs[i][n].v : n \in {m \in 1..Len(d.attrs[i]) : NameKey(d, d.attrs[i][m].k) = nm}}

\* character data that counts as text: "t" nodes only
IsText(d, i) == d.kind[i] = "t"
=============================================================================
