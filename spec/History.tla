------------------------------ MODULE History -------------------------------
\* Law-level trace specification for C04 (and C03's "views of one relation"): the match relation
\* is an UNLOGGED variable that TLC infers.  Every event is one API call recorded from the real
\* code, reduced to observations "element el is / is not matched by selector sel (scope sc) in
\* document doc".  The first observation of a key fixes it; the trace is explained by ONE relation
\* iff every later observation of the same key agrees, whatever calls lie in between.  Each event
\* also carries what the harness measured about the document around the call: serialisation,
\* node identities and attribute values unchanged.
\*   event = [id, doc, sel, obs |-> Seq([sc, el, v]), frozen |-> BOOLEAN]
\*   (sc = 0 when the selector does not mention :scope / &, so observations made through
\*   different call targets are comparable)
EXTENDS Naturals, Sequences, FiniteSets, TLC, TLCExt, Json, IOUtils
VARIABLES l, rel

Tr == ndJsonDeserialize(IOEnv.TRACE_FILE)
Key(e, o) == <<e.doc, e.sel, o.sc, o.el>>
Keys(e) == {Key(e, e.obs[n]) : n \in 1..Len(e.obs)}
ValIn(e, k) == {e.obs[n].v : n \in {m \in 1..Len(e.obs) : Key(e, e.obs[m]) = k}}

\* clauses, each reported separately
SelfConsistent(e) == \A k \in Keys(e) : Cardinality(ValIn(e, k)) = 1
AgreesWithHistory(e) == \A k \in Keys(e) \cap DOMAIN rel : ValIn(e, k) = {rel[k]}
Frozen(e) == e.frozen

Init == l = 0 /\ rel = [k \in {} |-> FALSE]
Next ==
    /\ l < Len(Tr)
    /\ l' = l + 1
    /\ LET e == Tr[l + 1] IN
       /\ (IF SelfConsistent(e) THEN TRUE ELSE PrintT(<<"REJECT", e.id, "self-consistent">>))
       /\ (IF AgreesWithHistory(e) THEN TRUE ELSE PrintT(<<"REJECT", e.id, "history">>))
       /\ (IF Frozen(e) THEN TRUE ELSE PrintT(<<"REJECT", e.id, "frozen">>))
       /\ rel' = [k \in DOMAIN rel \cup Keys(e) |->
                     IF k \in DOMAIN rel THEN rel[k] ELSE CHOOSE v \in ValIn(e, k) : TRUE]
Accepted == TLCGet("stats").diameter - 1 = Len(Tr)
=============================================================================
