----------------------------- MODULE MC_C06_parser -----------------------------
\* every lexically possible token sequence of at most MaxLen tokens, with the outcome Parser.tla predicts
EXTENDS Parser, TLC, Json
CONSTANTS MaxLen
Init == /\ toks \in UNION {[1..n -> Tokens] : n \in 0..MaxLen}
        /\ LexOK(toks)
        /\ pos = 1 /\ stack = <<TopFrame>> /\ outcome = "running"
Next == Step \/ End
Opening(s) == Cardinality({i \in 1..Len(s) : s[i] \in Opens})
\* T-Total
StackBounded == Len(stack) <= Opening(toks) + 1
OneOutcome == outcome \in {"running", "ok", "SelectorSyntaxError", "NotImplementedError"}
NoStuck == (outcome = "running") => (ENABLED Next)
Emit == outcome = "running" \/ PrintT(ToJson([toks |-> toks, outcome |-> outcome]))
Terminates == <>(outcome # "running")
Spec == Init /\ [][Next]_<<toks, pos, stack, outcome>> /\ WF_<<toks, pos, stack, outcome>>(Next)
=============================================================================
