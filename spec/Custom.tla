-------------------------------- MODULE Custom --------------------------------
\* Machine M4: the custom-selector (alias) resolver.  custom maps names to definitions; while the
\* definition of a name is being compiled the name is REMOVED from the map, so a definition that
\* (transitively) refers to itself meets an undefined name and compilation fails with a syntax error
\* instead of recursing forever.
\*   def[n] = [k |-> "plain" | "ref" | "bad" | "absent", m |-> referred alias]   plain selector / refers to alias m / malformed text
\*   status[n]: "text" (not compiled yet), "deleted" (being compiled), "compiled", "absent"
\* Compile(:--n) with an explicit stack of names being compiled.  Outcome: "ok" | "SelectorSyntaxError".
\* T-Total: every start terminates (the stack never holds a name twice, so its depth is bounded by the
\* number of names plus one) with exactly one outcome.
EXTENDS Naturals, Sequences, FiniteSets
CONSTANTS Names, NoRef
VARIABLES def, status, stack, outcome

DefKinds == {[k |-> "plain", m |-> NoRef], [k |-> "bad", m |-> NoRef], [k |-> "absent", m |-> NoRef]} \cup {[k |-> "ref", m |-> x] : x \in Names}
Init == /\ def \in [Names -> DefKinds]
        /\ status = [n \in Names |-> IF def[n].k = "absent" THEN "absent" ELSE "text"]
        /\ stack \in {<<n>> : n \in Names}           \* the pattern is ":--n"
        /\ outcome = "running"

Top == stack[Len(stack)]
\* look the top name up
Step ==
    /\ outcome = "running" /\ Len(stack) > 0
    /\ LET n == Top IN
       CASE status[n] \in {"absent", "deleted"} ->       \* undefined (or being compiled: a cycle)
              outcome' = "SelectorSyntaxError" /\ UNCHANGED <<def, status, stack>>
         [] status[n] = "compiled" ->                     \* use it; the referrer (if any) finishes
              /\ stack' = IF Len(stack) = 1 THEN stack ELSE SubSeq(stack, 1, Len(stack) - 1)
              /\ status' = IF Len(stack) > 1 THEN [status EXCEPT ![stack[Len(stack) - 1]] = "compiled"] ELSE status
              /\ outcome' = IF Len(stack) = 1 THEN "ok" ELSE "running"
              /\ UNCHANGED def
         [] status[n] = "text" ->
              IF def[n].k = "bad" THEN outcome' = "SelectorSyntaxError" /\ UNCHANGED <<def, status, stack>>
              ELSE IF def[n].k = "plain"
                   THEN status' = [status EXCEPT ![n] = "compiled"] /\ UNCHANGED <<def, stack, outcome>>
              ELSE /\ status' = [status EXCEPT ![n] = "deleted"]      \* compiling a definition that refers to def[n][2]
                   /\ stack' = Append(stack, def[n].m)
                   /\ UNCHANGED <<def, outcome>>
Next == Step
\* names being compiled (all but the top, which is only being looked up) are pairwise distinct
NoRepeat == \A i, j \in 1..(Len(stack) - 1) : i # j => stack[i] # stack[j]
Bounded == Len(stack) <= Cardinality(Names) + 1
Done == outcome # "running"
\* liveness: every behaviour terminates
Terminates == <>Done
Spec == Init /\ [][Next]_<<def, status, stack, outcome>> /\ WF_<<def, status, stack, outcome>>(Next)
=============================================================================
