---------------------------- MODULE MC_C19_text ----------------------------
\* C19 configuration "text": child rows of length <= MaxRow over
\*   {text x, text y, text xy, text " ", empty text, comment(x), CDATA(x), PI(x), doctype(x),
\*    declaration(x), element a, element iframe}
\* under the document object, under the root element and below (elements nest to depth MaxDepth,
\* data nodes sit one level deeper), in HTML, XML, detached-fragment and XHTML documents, against
\* :-soup-contains / :-soup-contains-own with one and two needles, compounds of two text
\* pseudo-classes, negations, :empty and :not(:empty).
\* Emitted per document: the predicted relation for the pool under the default reading (res) and
\* under the alternative reading for iframe subjects (alt), see TextSem.tla.
EXTENDS CssDecl, TLC, Json, SequencesExt
CONSTANTS MaxNodes, MaxRow, MaxDepth,
          Flavours,     \* subset of {"html", "xml", "frag", "xhtml", "xfrag"}
          TextNames,    \* subset of {"x", "y", "xy", "sp", "e"}: the text nodes of the alphabet
          Specials,     \* subset of {"c", "cd", "pi", "dt", "dc"}
          TopNames,     \* data nodes allowed directly under the document object (subset of TextNames \cup Specials)
          Variants,     \* TRUE: also IFRAME (upper case) and, in XHTML, an iframe in no namespace
          FullPool      \* TRUE: the whole selector pool, FALSE: its core
VARIABLES doc, fl

A == <<97>>
IFR == <<105,102,114,97,109,101>>
IFRU == <<73,70,82,65,77,69>>
X == <<120>>
Y == <<121>>
XY == <<120,121>>
YX == <<121,120>>
XX == <<120,120>>
SP == <<32>>
E == <<>>
XQ == <<120,34>>          \* x"
XBY == <<120,92,121>>     \* x\y
TextNamed(n) == CASE n = "x" -> X [] n = "y" -> Y [] n = "xy" -> XY [] n = "sp" -> SP [] n = "e" -> E
Needles == {X, Y, XY, YX, XX, E, SP, XQ, XBY}

Ct(vals, own) == [k |-> "contains", vals |-> vals, own |-> own]
Cx1(c) == [cs |-> <<c>>, cb |-> <<>>]
Not(c) == [k |-> "not", args |-> <<Cx1(c)>>]
Emp == [k |-> "empty"]
CorePairs == {<<X, Y>>, <<YX, XX>>, <<E, X>>, <<XQ, Y>>}
MorePairs == {<<XX, Y>>, <<SP, YX>>, <<XBY, XX>>, <<Y, X>>}
CorePool == {Cx1(<<Ct(<<v>>, o)>>) : v \in Needles, o \in BOOLEAN}
      \cup {Cx1(<<Ct(p, o)>>) : p \in CorePairs, o \in BOOLEAN}
      \cup {Cx1(<<Emp>>), Cx1(<<Not(<<Emp>>)>>)}
      \* two text pseudo-classes in one compound: each keeps its own meaning (all-of across
      \* pseudo-classes, any-of inside one list)
      \cup {Cx1(<<Ct(<<X>>, TRUE), Ct(<<Y>>, FALSE)>>), Cx1(<<Ct(<<Y>>, FALSE), Ct(<<X>>, TRUE)>>),
            Cx1(<<Ct(<<X>>, FALSE), Ct(<<XY>>, TRUE)>>), Cx1(<<Ct(<<X>>, FALSE), Ct(<<Y>>, FALSE)>>),
            Cx1(<<Ct(<<X>>, TRUE), Ct(<<Y>>, TRUE)>>), Cx1(<<Not(<<Ct(<<X>>, FALSE)>>)>>)}
MorePool == {Cx1(<<Ct(p, o)>>) : p \in MorePairs, o \in BOOLEAN}
      \cup {Cx1(<<Not(<<Ct(<<v>>, o)>>)>>) : v \in {X, XY}, o \in BOOLEAN}
      \cup {Cx1(<<Ct(<<v>>, o1), Ct(<<w>>, o2)>>) : v \in {X, XY}, w \in {Y, XY}, o1 \in BOOLEAN, o2 \in BOOLEAN}
      \cup {Cx1(<<Emp, Ct(<<SP>>, TRUE)>>), Cx1(<<Not(<<Emp>>), Ct(<<SP>>, FALSE)>>)}
PoolSet == IF FullPool THEN CorePool \cup MorePool ELSE CorePool
Pool == SetToSeq(PoolSet)
ASSUME PrintT(ToJson([pool |-> [s \in 1..Len(Pool) |-> <<Pool[s]>>]]))

\* the same pool under the alternative reading
RECURSIVE AltS(_)
AltCx(cx) == [cs |-> [n \in 1..Len(cx.cs) |-> [m \in 1..Len(cx.cs[n]) |-> AltS(cx.cs[n][m])]], cb |-> cx.cb]
AltS(s) == IF s.k = "contains" THEN [k |-> "contains", vals |-> s.vals, own |-> s.own, alt |-> TRUE]
           ELSE IF s.k = "not" THEN [k |-> "not", args |-> [n \in 1..Len(s.args) |-> AltCx(s.args[n])]]
           ELSE s
PoolAlt == [s \in 1..Len(Pool) |-> AltCx(Pool[s])]

XmlOf(f) == f \in {"xml", "xhtml", "xfrag"}
TopKind(f) == IF f \in {"frag", "xfrag"} THEN "frag" ELSE "doc"
\* element choices: <<name, namespace>>
ElemsOf(f) == IF f = "xhtml" THEN {<<A, XHTML>>, <<IFR, XHTML>>} \cup (IF Variants THEN {<<IFR, <<>>>>, <<IFRU, XHTML>>} ELSE {})
              ELSE {<<A, <<>>>>, <<IFR, <<>>>>} \cup (IF Variants /\ f = "html" THEN {<<IFRU, <<>>>>} ELSE {})

RECURSIVE DepthOf(_, _)
DepthOf(d, i) == IF i = 0 THEN 0 ELSE 1 + DepthOf(d, d.parent[i])

Init == /\ fl \in Flavours
        /\ doc = EmptyDoc(TopKind(fl), XmlOf(fl))
Next == /\ fl' = fl
        /\ Len(doc.parent) < MaxNodes
        /\ \E p \in Spine(doc) :
             /\ Cardinality(Children(doc, p)) < MaxRow
             /\ \/ \E e \in ElemsOf(fl) : /\ CanAdd(doc, p, "e") /\ DepthOf(doc, p) < MaxDepth
                                          \* the top element of an XHTML document carries the namespace
                                          /\ (fl = "xhtml" /\ p = 0 /\ TopElems(doc) = {}) => e[2] = XHTML
                                          /\ doc' = AddElemNs(doc, p, e[1], e[2], <<>>, <<>>)
                \/ \E n \in TextNames : /\ CanAdd(doc, p, "t") /\ (p = 0 => n \in TopNames)
                                        /\ doc' = AddData(doc, p, "t", TextNamed(n))
                \/ \E k \in Specials : /\ CanAdd(doc, p, k) /\ (p = 0 => k \in TopNames)
                                       /\ doc' = AddData(doc, p, k, X)

Env == [nsmap |-> <<>>, scope |-> RootOf(doc)]
RelOf(cx) == {i \in Elems(doc) : Matches(doc, Env, <<cx>>, i)}
Res == [s \in 1..Len(Pool) |-> MaskUpTo(RelOf(Pool[s]), Len(doc.parent))]
ResAlt == [s \in 1..Len(Pool) |-> MaskUpTo(RelOf(PoolAlt[s]), Len(doc.parent))]
HasUndecided == TxUndecided(doc) # {}
Emit == Elems(doc) = {} \/
        PrintT(ToJson([doc |-> doc, res |-> Res, alt |-> IF HasUndecided THEN ResAlt ELSE <<>>]))

\* ---- design-level theorems ------------------------------------------------------------------
ThOwnImpliesDesc == TxThOwnImpliesDesc(doc, Needles)
ThAnyOf == TxThAnyOf(doc, {X, XY, YX, E, SP})
ThEmptyNeedle == TxThEmptyNeedle(doc)
ThStructural == TxThStructural(doc)
ThJoinWeaker == TxThJoinWeaker(doc, Needles)
ThReadings == TxThReadings(doc, Needles)
\* :empty and the text: an empty element contributes only whitespace, and an element with a
\* non-whitespace needle in an own text node is not empty
ThEmptyText == \A i \in Elems(doc) :
                 /\ EmptyHolds(doc, i) => AllWs(TxTextOfR(doc, i, FALSE))
                 /\ (\E v \in {X, Y} : TxOwnHas(doc, i, v, FALSE)) => ~EmptyHolds(doc, i)
\* the alternative reading changes the relation only on undecided subjects
ThAltLocal == HasUndecided =>
    \A s \in 1..Len(Pool) : (RelOf(Pool[s]) \ TxUndecided(doc)) = (RelOf(PoolAlt[s]) \ TxUndecided(doc))
=============================================================================
