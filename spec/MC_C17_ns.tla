------------------------------ MODULE MC_C17_ns ------------------------------
\* C17 configuration "ns": the common frame of the definitions.  XML documents whose root is or is
\* not in the XHTML namespace (XHTML vs plain XML) and HTML documents, with elements in the XHTML
\* namespace, in another namespace (also prefixed) or in none, names in lower / upper case and a
\* custom (hyphenated) name, against all the state pseudo-classes: they hold only for HTML-namespace
\* elements of HTML / XHTML documents, names compare exactly in XML and case-insensitively in HTML.
EXTENDS CssDecl, TLC, Json, SequencesExt
CONSTANTS MaxNodes
VARIABLE doc

At(nm, v) == [k |-> nm, ns |-> <<>>, local |-> nm, v |-> v, list |-> FALSE]
SVG == <<104,116,116,112,58,47,47,119,119,119,46,119,51,46,111,114,103,47,50,48,48,48,47,115,118,103>>
INPUTUP == <<73,78,80,85,84>>
CUSTOM == <<120,45,121>>                          \* "x-y"
PX == <<112>>
Ck == At(HsAChecked, <<>>)
CHECKEDUP == <<67,72,69,67,75,69,68>>
Templates == { <<HsNForm, <<>>>>, <<HsNDiv, <<>>>>,
               <<HsNInput, <<At(HsAType, HsVSubmit)>>>>,
               <<HsNInput, <<At(HsAType, HsVRadio), At(HsAName, <<103>>)>>>>,
               <<HsNInput, <<At(HsAType, HsVRadio), At(HsAName, <<103>>), Ck>>>>,
               <<HsNInput, <<At(HsAType, HsVRadio), At(HsAName, <<103>>), At(CHECKEDUP, <<>>)>>>>,   \* CHECKED: the checked attribute in HTML, another attribute in XML / XHTML
               <<HsNInput, <<At(HsAType, <<82,65,68,73,79>>), At(HsAName, <<103>>), Ck>>>>,        \* type=RADIO: a radio button in HTML only
               <<HsNInput, <<At(HsAType, <<83,85,66,77,73,84>>)>>>>,                                \* type=SUBMIT: a submit button in HTML only
               <<INPUTUP, <<At(HsAType, HsVCheckbox), Ck, At(HsARequired, <<>>)>>>>,
               <<HsNInput, <<At(HsAType, HsVCheckbox), Ck, At(HsARequired, <<>>)>>>>,
               <<HsNA, <<At(HsAHref, <<>>)>>>>,
               <<CUSTOM, <<At(HsAContenteditable, <<>>)>>>> }
NsChoices == { <<XHTML, <<>>>>, <<SVG, <<>>>>, <<SVG, PX>>, <<<<>>, <<>>>> }
Containers == {HsNForm, HsNDiv}
\* forms, submit buttons and radio buttons are not put into a foreign namespace: what a foreign
\* element that merely has the name of a form or an input means to the form-owner and group rules
\* is outside the property
HtmlOnly(t) == t[1] = HsNForm \/ (t[1] = HsNInput /\ Lower(t[2][1].v) \in {HsVSubmit, HsVRadio})

Cx1(c) == [cs |-> <<c>>, cb |-> <<>>]
TypeS(n) == [k |-> "type", ns |-> Bare, name |-> n]
Kinds == <<"checked", "default", "indeterminate", "enabled", "disabled", "required", "optional", "read-write",
           "read-only", "placeholder-shown", "link", "any-link", "defined">>
DirAlt(x) == [k |-> "dir", d |-> x, alt |-> TRUE]
DefOwner == [k |-> "default", alt |-> TRUE]
Pool == [n \in 1..Len(Kinds) |-> Cx1(<<HsK(Kinds[n])>>)] \o
        << Cx1(<<TypeS(Star), DefOwner>>), Cx1(<<HsDirS("ltr")>>), Cx1(<<HsDirS("rtl")>>),
           Cx1(<<TypeS(Star), DirAlt("ltr")>>), Cx1(<<TypeS(Star), DirAlt("rtl")>>) >>
\* the same pseudo-classes asked by a caller whose prefix map has a DEFAULT namespace (not XHTML) and a prefix for XHTML: `h|*:checked`,
\* `*|*:checked`.  The definitions of the state pseudo-classes are the library's own and are read with their own private prefix map: the
\* caller's map decides about h|* and *|* only.
HPFX == <<104>>
CallerMap == <<[p |-> <<>>, u |-> SVG], [p |-> HPFX, u |-> XHTML]>>
NKinds == <<"checked", "enabled", "disabled", "required", "optional", "read-only", "link", "any-link", "default">>
PoolN == [n \in 1..Len(NKinds) |-> Cx1(<<[TypeS(Star) EXCEPT !.ns = [t |-> "pfx", p |-> HPFX]], HsK(NKinds[n])>>)] \o
         [n \in 1..Len(NKinds) |-> Cx1(<<[TypeS(Star) EXCEPT !.ns = [t |-> "any"]], HsK(NKinds[n])>>)]
ASSUME PrintT(ToJson([pool |-> [s \in 1..Len(Pool) |-> [sel |-> <<Pool[s]>>]] \o [s \in 1..Len(PoolN) |-> [sel |-> <<PoolN[s]>>, ns |-> CallerMap]]]))

CanHold(p) == IF p = 0 THEN Len(doc.parent) = 0 ELSE doc.name[p] \in Containers
Init == doc \in {EmptyDoc("doc", FALSE), EmptyDoc("doc", TRUE)}
\* HTML documents carry no namespaces (the HTML tree builders of the harness give none)
Next == /\ Len(doc.parent) < MaxNodes
        /\ \E p \in Spine(doc) : \E t \in Templates : \E n \in (IF doc.xml THEN NsChoices ELSE {<<<<>>, <<>>>>}) :
             /\ CanHold(p)
             /\ (doc.xml /\ HtmlOnly(t)) => n[1] = XHTML
             /\ doc' = AddElemNs(doc, p, t[1], n[1], n[2], t[2])

Env == [nsmap |-> <<>>, scope |-> RootOf(doc)]
Rel1(s) == {i \in Elems(doc) : Matches(doc, Env, <<Pool[s]>>, i)}
EnvN == [nsmap |-> CallerMap, scope |-> RootOf(doc)]
RelN(s) == {i \in Elems(doc) : Matches(doc, EnvN, <<PoolN[s]>>, i)}
Res == [s \in 1..Len(Pool) |-> MaskUpTo(Rel1(s), Len(doc.parent))] \o [s \in 1..Len(PoolN) |-> MaskUpTo(RelN(s), Len(doc.parent))]
Emit == PrintT(ToJson([doc |-> doc, res |-> Res]))

\* (the totality half of the :dir law needs a direction for foreign parents, which only the
\* standard reading gives; HsThDir is about that reading)
ThPartitions == HsThPartitions(doc)
ThDirReadings == HsThDirReadings(doc)
\* outside HTML / XHTML nothing holds
ThFrame == ~IsHtml(doc) => \A s \in 1..Len(Pool) : Rel1(s) = {}

\* T-StateDefs: the library's definition TEXTS of the state pseudo-classes (StateDefsGen, from the tree under test), parsed and compiled by the
\* specification's front end and evaluated by the matcher of Ir.tla, designate exactly what HtmlState.tla says
ST == INSTANCE IrState
SD == ST!FlaggedLists          \* constant of THIS module: evaluated once at start-up (see IrState)
ASSUME DOMAIN SD # {}
ThStateDefs == ST!StateDefsHoldL(SD, doc, [nsmap |-> <<>>, scope |-> RootOf(doc)])
=============================================================================
