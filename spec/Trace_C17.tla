----------------------------- MODULE Trace_C17 -----------------------------
\* B2 (code -> spec) for C17.  One ndjson line per document:
\*   [id, doc (Dom record: the tree the real code was run on, projected back from the parser's
\*    output), r (record: pseudo-class name -> Seq of node ids, the result of the real
\*    soupsieve.select of that pseudo-class on the whole document)]
\* r has the fields checked, default, indeterminate, enabled, disabled, required, optional,
\* read-write, read-only, placeholder-shown, link, any-link, defined, dir-ltr, dir-rtl, in-range,
\* out-of-range.
\*
\* Two families of verdicts, each one a predicate over the event:
\*   law:<name>  the partition laws of the property over the code's OWN results (no predicted value
\*               enters, only the classification of the elements of the recorded document)
\*   def:<kind>  the recorded set is the set HtmlState designates
\* The verdict is total: every failing predicate of an event prints <<"REJECT", id, name>> and
\* validation continues with the next event.
EXTENDS CssDecl, TLC, TLCExt, Json, IOUtils, SequencesExt
VARIABLE l

Tr == ndJsonDeserialize(IOEnv.TRACE_FILE)

R(e, k) == {e.r[k][n] : n \in 1..Len(e.r[k])}
Partition(a, b, whole) == a \cap b = {} /\ a \cup b = whole

Laws == {"EnabledDisabled", "RequiredOptional", "ReadWriteOnly", "Range", "Link", "CheckedDefault", "Dir", "Elements"}
LawHolds(e, n) ==
    LET d == e.doc IN
    CASE n = "EnabledDisabled" -> Partition(R(e, "enabled"), R(e, "disabled"), {i \in HsHtmlElems(d) : HsIsControl(d, i)})
      [] n = "RequiredOptional" -> Partition(R(e, "required"), R(e, "optional"), {i \in HsHtmlElems(d) : HsCanRequire(d, i)})
      [] n = "ReadWriteOnly" -> Partition(R(e, "read-write"), R(e, "read-only"), HsHtmlElems(d))
      [] n = "Range" -> /\ R(e, "in-range") \cap R(e, "out-of-range") = {}
                        /\ R(e, "in-range") \cup R(e, "out-of-range") \subseteq {i \in HsHtmlElems(d) : HsIs(d, i, HsNInput)}
      [] n = "Link" -> R(e, "link") = R(e, "any-link")
      [] n = "CheckedDefault" -> R(e, "checked") \subseteq R(e, "default")
      [] n = "Dir" -> /\ R(e, "dir-ltr") \cap R(e, "dir-rtl") = {}
                      /\ HsRooted(d) => R(e, "dir-ltr") \cup R(e, "dir-rtl") = HsHtmlElems(d)
      [] n = "Elements" -> \A k \in DOMAIN e.r : R(e, k) \subseteq Elems(d)

Kinds == {"checked", "default", "indeterminate", "enabled", "disabled", "required", "optional", "read-write",
          "read-only", "placeholder-shown", "link", "any-link", "defined", "dir-ltr", "dir-rtl"}
Sel(k) == IF k = "dir-ltr" THEN HsDirS("ltr") ELSE IF k = "dir-rtl" THEN HsDirS("rtl") ELSE HsK(k)
Expected(e, k) == {i \in Elems(e.doc) : Matches(e.doc, [nsmap |-> <<>>, scope |-> RootOf(e.doc)], <<[cs |-> <<<<Sel(k)>>>>, cb |-> <<>>]>>, i)}
DefHolds(e, k) == R(e, k) = Expected(e, k)
\* labels.  def:default:owner is printed IN ADDITION when the recorded :default is what the definition
\* designates but differs from the form-owner reading (nested forms; HtmlState!HsDefaultOwner): a
\* record of where the documented rule departs from the standard's wording, not a rejection.
\* def:dir-*:lib: the recorded :dir() set equals the coarser reading (HtmlState!HsDirR, lib = TRUE),
\* which is accepted.
DepartsFromOwner(e) == /\ DefHolds(e, "default")
                       /\ R(e, "default") # {i \in HsHtmlElems(e.doc) : HsDefaultOwner(e.doc, i)}
DirIsLib(e, k) == R(e, k) = {i \in HsHtmlElems(e.doc) : HsDirR(e.doc, i, TRUE) = (IF k = "dir-ltr" THEN "ltr" ELSE "rtl")}
Label(e, k) == IF k \in {"dir-ltr", "dir-rtl"} /\ DirIsLib(e, k) THEN ":lib" ELSE ""

Init == l = 0
Next == /\ l < Len(Tr)
        /\ l' = l + 1
        /\ LET e == Tr[l + 1] IN
             /\ \A n \in Laws : LawHolds(e, n) \/ PrintT(<<"REJECT", e.id, "law:" \o n>>)
             /\ \A k \in Kinds : DefHolds(e, k) \/ PrintT(<<"REJECT", e.id, "def:" \o k \o Label(e, k)>>)
             /\ ~DepartsFromOwner(e) \/ PrintT(<<"REJECT", e.id, "def:default:owner">>)
\* every line was consumed (one state per event plus the initial state)
Accepted == TLCGet("stats").diameter - 1 = Len(Tr)
=============================================================================
