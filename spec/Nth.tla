-------------------------------- MODULE Nth --------------------------------
\* An+B micro-syntax (CSS Syntax level 3, section 6): the spellings of a pair (a, b) and a
\* recursive-descent reading of a spelling back into (a, b).  The arithmetic meaning
\* (NthOk / NthExists) lives in CssDecl.  T-NthClosed and T-NthSpelling are checked by MC_C02_spell.
EXTENDS Integers, Sequences, FiniteSets, Str

RECURSIVE NthDigits(_)
NthDigits(n) == IF n < 10 THEN <<48 + n>> ELSE NthDigits(n \div 10) \o <<48 + (n % 10)>>   \* n >= 0
NthAbs(x) == IF x < 0 THEN 0 - x ELSE x
NthS(str) == str
PLUS == 43
MINUS == 45
LN == 110
UN == 78
SP == 32

\* the a-part: "", "-", "+", digits, sign digits  followed by n
NthAPart(a, explicitPlus, explicitOne, upper) ==
    LET sign == IF a < 0 THEN <<MINUS>> ELSE IF explicitPlus THEN <<PLUS>> ELSE <<>>
        mag == IF NthAbs(a) = 1 /\ ~explicitOne THEN <<>> ELSE NthDigits(NthAbs(a))
    IN sign \o mag \o <<IF upper THEN UN ELSE LN>>
\* the b-part after an n: "" (b = 0), "+b", "-b", optionally spaced
\* gap styles around the sign: nothing, spaces, a comment, comments and whitespace (CSS allows whitespace and comments there)
GapStyles == 0..4
Gap(st, left) == CASE st = 0 -> <<>>
                   [] st = 1 -> <<SP>>
                   [] st = 2 -> <<47,42,32,99,32,42,47>>                                   \* /* c */
                   [] st = 3 -> IF left THEN <<SP,47,42,42,47>> ELSE <<47,42,42,47,10>>    \* " /**/" before, "/**/\n" after the sign
                   [] st = 4 -> <<9>>
NthBPart(b, gap, zeroToo) ==
    IF b = 0 /\ ~zeroToo THEN <<>>
    ELSE LET op == IF b < 0 THEN <<MINUS>> ELSE <<PLUS>>
         IN Gap(gap, TRUE) \o op \o Gap(gap, FALSE) \o NthDigits(NthAbs(b))

EVEN == <<101,118,101,110>>
ODD == <<111,100,100>>
UEVEN == <<69,86,69,78>>
UODD == <<79,100,68>>

\* every accepted spelling of (a, b)
Spellings(a, b) ==
    {NthAPart(a, ep, eo, up) \o NthBPart(b, sp, z) :
         ep \in BOOLEAN, eo \in BOOLEAN, up \in BOOLEAN, sp \in GapStyles, z \in BOOLEAN}      \* "an+b" family (also a = 0: "0n+b")
    \cup (IF a = 0 THEN {(IF b < 0 THEN <<MINUS>> ELSE <<>>) \o NthDigits(NthAbs(b))} ELSE {})     \* "b"
    \cup (IF a = 0 /\ b >= 0 THEN {<<PLUS>> \o NthDigits(b)} ELSE {})                                \* "+b"
    \cup (IF a = 2 /\ b = 0 THEN {EVEN, UEVEN} ELSE {})
    \cup (IF a = 2 /\ b = 1 THEN {ODD, UODD} ELSE {})
    \cup (IF a \in 1..9 /\ b \in 0..9 THEN {<<48>> \o NthDigits(a) \o <<LN, PLUS, 48>> \o NthDigits(b)} ELSE {})   \* leading zeros

\* ---- reading a spelling ---------------------------------------------------
IsDigit(c) == c >= 48 /\ c <= 57
RECURSIVE NthNum(_, _, _)
NthNum(s, i, acc) ==      \* <<value, next index>> of the digit run starting at i
    IF i <= Len(s) /\ IsDigit(s[i]) THEN NthNum(s, i + 1, acc * 10 + (s[i] - 48)) ELSE <<acc, i>>
RECURSIVE NthSkipWs(_, _), NthSkipComment(_, _)
\* index just after the comment that starts at i (i points at "/*"); Len + 1 when unterminated
NthSkipComment(s, i) == IF i + 1 > Len(s) THEN Len(s) + 1
                        ELSE IF s[i] = 42 /\ s[i + 1] = 47 THEN i + 2 ELSE NthSkipComment(s, i + 1)
NthSkipWs(s, i) == IF i <= Len(s) /\ IsWs(s[i]) THEN NthSkipWs(s, i + 1)
                   ELSE IF i + 1 <= Len(s) /\ s[i] = 47 /\ s[i + 1] = 42 THEN NthSkipWs(s, NthSkipComment(s, i + 2))
                   ELSE i

Bad == <<"bad">>
ParseNth(s0) ==
    LET s == Lower(s0) IN      \* (comment text is lower-cased too; it is skipped anyway)
    IF s = EVEN THEN <<2, 0>> ELSE IF s = ODD THEN <<2, 1>> ELSE
    LET neg == Len(s) > 0 /\ s[1] = MINUS
        i0 == IF Len(s) > 0 /\ s[1] \in {MINUS, PLUS} THEN 2 ELSE 1
        num == NthNum(s, i0, 0)
        hasDigits == num[2] > i0
        i1 == num[2]
    IN IF i1 <= Len(s) /\ s[i1] = LN
       THEN \* an [+-] b
            LET a == (IF neg THEN -1 ELSE 1) * (IF hasDigits THEN num[1] ELSE 1)
                i2 == NthSkipWs(s, i1 + 1)
            IN IF i2 > Len(s) THEN (IF i2 = i1 + 1 THEN <<a, 0>> ELSE Bad)
               ELSE IF s[i2] \in {PLUS, MINUS}
                    THEN LET i3 == NthSkipWs(s, i2 + 1)
                             nb == NthNum(s, i3, 0)
                         IN IF nb[2] > i3 /\ nb[2] = Len(s) + 1
                            THEN <<a, (IF s[i2] = MINUS THEN -1 ELSE 1) * nb[1]>> ELSE Bad
                    ELSE Bad
       ELSE IF hasDigits /\ i1 = Len(s) + 1 THEN <<0, (IF neg THEN -1 ELSE 1) * num[1]>> ELSE Bad
=============================================================================
