----------------------------- MODULE MC_C18_num -----------------------------
\* C18 configuration "num": input types number and range.
\*   Plain    = {-, e} x {0, 5, 10, 007} x {e, .5, .50}: every (min, max, value) triple over
\*              Plain + missing + invalid (Full), or bounds from a sub-pool (quick)
\*   Wide     = longer spellings that separate numeric order from string order and from
\*              digit-count order (leading and trailing zeros, negative zero, 14 significant digits)
\*   Hopeless = strings that no reading accepts (gated as invalid)
\*   OpenStrs = exponent forms, bare dots, signs, white space, trailing junk: an underdetermined
\*              zone, emitted and compared but not gated (the replay records drift)
\*   every single-character mutation of -10.50 and 007
EXTENDS MC_C18_base
CONSTANTS Full, BatchSize

Signs == {<<>>, <<45>>}
Ints == {<<48>>, <<53>>, <<49,48>>, <<48,48,55>>}                  \* 0 5 10 007
Fracs == {<<>>, <<46,53>>, <<46,53,48>>}                            \* e .5 .50
Plain == {s \o n \o f : s \in Signs, n \in Ints, f \in Fracs}

Hopeless == {
   <<>>,                       \* ''
   <<120>>,                    \* 'x'
   <<45>>,                     \* '-'
   <<46>>,                     \* '.'
   <<45,46>>,                  \* '-.'
   <<45,45,53>>,               \* '--5'
   <<101,51>>,                 \* 'e3'
   <<120,53>>,                 \* 'x5'
   <<32>>,                     \* ' '
   <<43>>,                     \* '+'
   <<1633>>,                   \* ARABIC-INDIC DIGIT ONE
   <<65297>>,                  \* FULLWIDTH DIGIT ONE
   <<45,120>>,                 \* '-x'
   <<46,32,53>> }              \* '. 5'
OpenStrs == {
   <<46,53>>,                  \* '.5'
   <<45,46,53>>,               \* '-.5'
   <<53,46>>,                  \* '5.'
   <<49,101,51>>,              \* '1e3'
   <<49,69,51>>,               \* '1E3'
   <<53,101,45,49>>,           \* '5e-1'
   <<43,53>>,                  \* '+5'
   <<32,53>>,                  \* ' 5'
   <<53,32>>,                  \* '5 '
   <<53,120>>,                 \* '5x'
   <<53,10>>,                  \* '5' LF
   <<49,46,50,46,51>>,         \* '1.2.3'
   <<49,101>>,                 \* '1e'
   <<48,120,49,48>>,           \* '0x10'
   <<45,53,101,43,50>>,        \* '-5e+2'
   <<10,53>>,                  \* LF '5'
   <<53,101,51,46,53>>,        \* '5e3.5'
   <<46,53,101,49>> }          \* '.5e1'
Wide == {
   <<49,50,51,52,53,54,55,56,57,46,49,50,51>>,          \* '123456789.123'
   <<49,50,51,52,53,54,55,56,57,46,49,50,52>>,          \* '123456789.124'
   <<45,48,46,48,48,49>>,                               \* '-0.001'
   <<48,46,48,48,49>>,                                  \* '0.001'
   <<48,46,49,48>>,                                     \* '0.10'
   <<48,46,49>>,                                        \* '0.1'
   <<49,48,48,48,48,48,48>>,                            \* '1000000'
   <<57,57,57,57,57,57,46,57>>,                         \* '999999.9'
   <<48,48,48,49,48>>,                                  \* '00010'
   <<57>>,                                              \* '9'
   <<57,46,57,57>>,                                     \* '9.99'
   <<45,57,46,57,57>>,                                  \* '-9.99'
   <<45,49,48>>,                                        \* '-10'
   <<48,46,48>>,                                        \* '0.0'
   <<45,48,46,48>>,                                     \* '-0.0'
   <<48,48,48>>,                                        \* '000'
   <<49,50,51,52,53,54,55,56,57,48,49,50,51,52>>,       \* '12345678901234'
   <<49,50,51,52,53,54,55,56,57,48,49,50,51,53>>,       \* '12345678901235'
   <<48,46,48,48,48,48,48,49>>,                         \* '0.000001'
   <<48,46,48,48,48,48,48,49,49>> }                     \* '0.0000011'
SeedA == <<45,49,48,46,53,48>>                          \* '-10.50'
SeedB == <<48,48,55>>                                   \* '007'
Small == <<45,57,57,57,57,57>>                          \* '-99999'
Big == <<57,57,57,57,57>>                               \* '99999'
Junk2 == Junk \cup {69, 49}                             \* also E and 1

Opts(S) == {Missing} \cup {Some(s) : s \in S}
\* quick: bounds from eight spellings that still contain every sign / integer / fraction part
BndPool == IF Full THEN Plain
           ELSE {<<48>>, <<45,48>>, <<53>>, <<45,53,46,53>>, <<48,48,55>>, <<48,48,55,46,53,48>>, <<49,48,46,53>>, <<45,49,48>>}
Bnds == Opts(BndPool \cup {<<120>>})
Vals == Opts(Plain \cup {<<120>>, <<>>})

Triples == {In(Some(CalTNumber), mn, mx, v) : mn \in Bnds, mx \in Bnds, v \in Vals}
RangeTriples == {In(Some(CalTRange), mn, mx, v) : mn \in Opts({<<53>>, <<45,53,46,53>>, <<120>>}),
                                                   mx \in Opts({<<53>>, <<49,48,46,53>>, <<120>>}), v \in Vals}
Singles == {Probe(p, t, s, Small, Big) : p \in 1..3, t \in {CalTNumber, CalTRange},
                                         s \in Plain \cup Hopeless \cup OpenStrs \cup Wide}
Muts == {Probe(p, CalTNumber, s, Small, Big) : p \in 1..3, s \in Mutants(SeedA, Junk2) \cup Mutants(SeedB, Junk2)}
\* order of every pair of spellings: a as min (or max), b as value
PairsMin == {In(Some(CalTNumber), Some(a), Missing, Some(c)) : a \in Wide \cup Plain, c \in Wide \cup Plain}
PairsMax == {In(Some(CalTNumber), Missing, Some(a), Some(c)) : a \in Wide, c \in Wide \cup Plain}

Cases == SetToSeq(Triples) \o SetToSeq(RangeTriples) \o SetToSeq(Singles) \o SetToSeq(Muts) \o SetToSeq(PairsMin) \o SetToSeq(PairsMax)
NB == NumBatches(Len(Cases), BatchSize)
ASSUME PrintT(<<"cases", Len(Cases), "batches", NB>>)

Init == BInit
Next == BNext(NB) /\ doc' = (IF b' > 0 THEN MkDoc(BatchOf(Cases, BatchSize, b'), FALSE, <<>>) ELSE NoDoc)
Emit == b <= 0 \/ PrintT(ToJson(Answer(doc)))
Law == b <= 0 \/ Laws(doc)
=============================================================================
