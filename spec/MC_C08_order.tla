----------------------------- MODULE MC_C08_order -----------------------------
EXTENDS MatchOrder, TLC
CONSTANT Variant
\* the checks of match_selectors in the order of the code (css_match.py); "range" dereferences the
\* element's type attribute, which only the sub-selector list input:is([type=date], ...) guarantees
OrderAsIs == <<"tag", "defined", "root", "scope", "placeholder", "nth", "empty", "id", "class", "attributes",
               "range", "lang", "subselectors", "relation", "default", "indeterminate", "dir", "contains">>
OrderReordered == <<"tag", "defined", "root", "scope", "placeholder", "nth", "empty", "id", "class", "attributes",
                    "lang", "subselectors", "range", "relation", "default", "indeterminate", "dir", "contains">>
MOrder == IF Variant = "reordered" THEN OrderReordered ELSE OrderAsIs
Checks == {OrderAsIs[n] : n \in 1..Len(OrderAsIs)}
MNeeds == [c \in Checks |-> IF c = "range" /\ Variant # "guarded" THEN {"type_is_string"} ELSE {}]
MGives == [c \in Checks |-> IF c = "subselectors" THEN {"type_is_string"} ELSE {}]
\* compounds: any subset of checks that contains "tag"; the :in-range compound has tag, range, subselectors
\* the parser only ever attaches the range flag to the compound that also carries the guarding sub-selector list
MCompounds == {{"tag"} \cup S : S \in {T \in SUBSET {"range", "subselectors", "attributes", "lang", "default", "dir"} : "range" \in T => "subselectors" \in T}}
=============================================================================
