------------------------------- MODULE Pretty -------------------------------
\* C20: the debug pretty-printer's token loop (soupsieve/pretty.py) as a state machine.
\*
\* The specification of pretty() is its input/output relation: it terminates, and its
\* output equals the input (the repr string) up to whitespace.  This module models the
\* LOOP that is supposed to achieve it -- state (index, indent, out), one action per
\* entry of the TOKENS table, first matching entry wins -- over a token-class abstraction
\* of the repr string (a rule looks at a character only through Cls), for two rule sets:
\*   "asis"   the token regexes of the pinned tree, and no branch when nothing matches
\*            (the real loop then spins without changing its state: a stuttering step);
\*   "fixed"  one-character names, negative integers, flag expressions (a.B|c.D) as one
\*            keyword, and a fallback that copies one character.
\* TLC checks NoStuck / Terminates / StepAdvances / OutRel; on "asis" it must find a stuck
\* state (negative configuration, vacuity guard of the check).
EXTENDS Integers, Sequences, FiniteSets
CONSTANTS RuleSet,      \* "asis" | "fixed"
          Inputs        \* sequence of class strings
VARIABLES k, index, indent, out
vars == <<k, index, indent, out>>

\* ---- token-class abstraction of code points ----------------------------------
ClsTab == [c \in 0..127 |->
    IF (c >= 65 /\ c <= 90) \/ (c >= 97 /\ c <= 122) \/ c = 95 THEN "L"
    ELSE IF c >= 48 /\ c <= 57 THEN "D"
    ELSE IF c \in {32, 9, 10, 11, 12, 13} THEN "WS"
    ELSE CASE c = 46 -> "DOT" [] c = 40 -> "LP" [] c = 41 -> "RP" [] c = 91 -> "LB" [] c = 93 -> "RB"
           [] c = 123 -> "LC" [] c = 125 -> "RC" [] c = 61 -> "EQ" [] c = 39 -> "SQ" [] c = 34 -> "DQ"
           [] c = 92 -> "BS" [] c = 44 -> "COMMA" [] c = 58 -> "COLON" [] c = 45 -> "MINUS"
           [] c = 124 -> "BAR" [] OTHER -> "O"]
Cls(c) == IF c < 128 THEN ClsTab[c] ELSE "O"
Abs(s) == [i \in 1..Len(s) |-> Cls(s[i])]
Blank == {"WS", "NL"}

\* ---- the token rules: M*(s, i) = 1-based position of the last matched character when the
\* rule matches at position i, 0 when it does not (every rule matches at least one character)
Has(s, i, c) == i <= Len(s) /\ s[i] = c
\* last position of the maximal run of characters of class set C that starts at i (i - 1: empty run);
\* written without recursion (repr strings contain runs and literals of several hundred characters)
RunEnd(s, i, C) == (CHOOSE j \in i..(Len(s) + 1) :
                       /\ (j > Len(s) \/ s[j] \notin C)
                       /\ \A m \in i..(j - 1) : s[m] \in C) - 1

AsIs == RuleSet = "asis"
\* minimal number of characters after the first one of a name: [_a-z][_a-z\d]+  vs  [_a-z][_a-z\d]*
NameMore == IF AsIs THEN 1 ELSE 0

\* class:  [a-z_][_a-z\d\.]+\(
MClass(s, i) == IF Has(s, i, "L")
                THEN LET j == RunEnd(s, i + 1, {"L", "D", "DOT"})
                     IN IF j - i >= 1 /\ Has(s, j + 1, "LP") THEN j + 1 ELSE 0
                ELSE 0
\* param:  [_a-z][_a-z\d]+=
MParam(s, i) == IF Has(s, i, "L")
                THEN LET j == RunEnd(s, i + 1, {"L", "D"})
                     IN IF j - i >= NameMore /\ Has(s, j + 1, "EQ") THEN j + 1 ELSE 0
                ELSE 0
\* empty:  \(\)|\[\]|\{\}
MEmpty(s, i) == IF i + 1 <= Len(s) /\ <<s[i], s[i + 1]>> \in {<<"LP", "RP">>, <<"LB", "RB">>, <<"LC", "RC">>}
                THEN i + 1 ELSE 0
MOne(s, i, c) == IF Has(s, i, c) THEN i ELSE 0
\* sqstr / dqstr:  q(?:\\.|[^q\\])*q
\* the closing quote is the first q preceded by an even number of consecutive backslashes
\* (the alternation consumes backslashes in pairs \\. from the left)
\* number of consecutive backslashes right before position j, not looking below position lo
BsBefore(s, lo, j) == CHOOSE d \in 0..(j - lo) :
                         /\ (d = j - lo \/ s[j - 1 - d] # "BS")
                         /\ \A t \in 1..d : s[j - t] = "BS"
Closes(s, lo, j, q) == s[j] = q /\ BsBefore(s, lo, j) % 2 = 0
MStr(s, i, q) == IF Has(s, i, q)
                 THEN LET j == CHOOSE j \in (i + 1)..(Len(s) + 1) :
                                  /\ (j = Len(s) + 1 \/ Closes(s, i + 1, j, q))
                                  /\ \A m \in (i + 1)..(j - 1) : ~Closes(s, i + 1, m, q)
                      IN IF j = Len(s) + 1 THEN 0 ELSE j
                 ELSE 0
\* sep / dsep:  \s*(,)\s*   \s*(:)\s*
MSep(s, i, c) == LET j == RunEnd(s, i, {"WS"})
                 IN IF Has(s, j + 1, c) THEN RunEnd(s, j + 2, {"WS"}) ELSE 0
\* int:  \d+   (fixed: -?\d+)
MInt(s, i) == LET b == IF ~AsIs /\ Has(s, i, "MINUS") THEN i + 1 ELSE i
                  j == RunEnd(s, b, {"D"})
              IN IF j >= b THEN j ELSE 0
\* kword:  [_a-z][_a-z\d]+   (fixed: [_a-z][_a-z\d.|]*)
MKword(s, i) == IF Has(s, i, "L")
                THEN LET j == RunEnd(s, i + 1, IF AsIs THEN {"L", "D"} ELSE {"L", "D", "DOT", "BAR"})
                     IN IF j - i >= NameMore THEN j ELSE 0
                ELSE 0

\* the TOKENS table, in its iteration order
TokNames == <<"class", "param", "empty", "lstrt", "dstrt", "tstrt", "lend", "dend", "tend",
              "sqstr", "sep", "dsep", "int", "kword", "dqstr">>
TokEnds(s, i) == <<MClass(s, i), MParam(s, i), MEmpty(s, i), MOne(s, i, "LB"), MOne(s, i, "LC"), MOne(s, i, "LP"),
                   MOne(s, i, "RB"), MOne(s, i, "RC"), MOne(s, i, "RP"), MStr(s, i, "SQ"), MSep(s, i, "COMMA"),
                   MSep(s, i, "COLON"), MInt(s, i), MKword(s, i), MStr(s, i, "DQ")>>
\* index into TokNames of the first rule that matches at i, 0 when none does
FirstTok(s, i) == LET e == TokEnds(s, i)
                  IN IF \E n \in 1..Len(e) : e[n] > 0
                     THEN CHOOSE n \in 1..Len(e) : e[n] > 0 /\ \A m \in 1..(n - 1) : e[m] = 0
                     ELSE 0
\* [tok, end]: the step the loop takes at 0-based index x ("none": no branch is taken)
StepAt(s, x) == LET n == FirstTok(s, x + 1)
                IN IF n > 0 THEN [tok |-> TokNames[n], end |-> TokEnds(s, x + 1)[n]]
                   ELSE IF AsIs THEN [tok |-> "none", end |-> x]
                   ELSE [tok |-> "other", end |-> x + 1]

\* ---- the loop -----------------------------------------------------------------
S == Inputs[k]
Pad(n) == [j \in 1..n |-> "WS"]
Init == /\ k \in 1..Len(Inputs)
        /\ index = 0 /\ indent = 0 /\ out = <<>>

Running == index < Len(S)          \* while index <= end, end = len(sel) - 1
Next == /\ Running
        /\ LET st == StepAt(S, index)
               m == SubSeq(S, index + 1, st.end)
           IN /\ index' = st.end
              /\ k' = k
              /\ CASE st.tok \in {"class", "lstrt", "dstrt", "tstrt"} ->
                        indent' = indent + 4 /\ out' = out \o m \o <<"NL">> \o Pad(indent + 4)
                   [] st.tok \in {"param", "int", "kword", "sqstr", "dqstr", "empty", "other"} ->
                        indent' = indent /\ out' = out \o m
                   [] st.tok \in {"lend", "dend", "tend"} ->
                        indent' = indent - 4 /\ out' = out \o m
                   [] st.tok = "sep" ->
                        indent' = indent /\ out' = out \o <<"COMMA", "NL">> \o Pad(indent)
                   [] st.tok = "dsep" ->
                        indent' = indent /\ out' = out \o <<"COLON", "WS">>
                   [] st.tok = "none" ->      \* no branch: the loop body changes nothing
                        indent' = indent /\ out' = out
Spec == Init /\ [][Next]_vars /\ WF_vars(Next)

\* ---- properties ----------------------------------------------------------------
Stuck == Running /\ StepAt(S, index).tok = "none"
NoStuck == ~Stuck
\* termination proper: under weak fairness of the loop body the loop condition becomes false
Terminates == <>(~Running)
\* every step that changes the state consumes at least one character
StepAdvances == [][index' > index]_vars
\* what was emitted so far is what was consumed so far, up to whitespace
RECURSIVE Strip(_)
Strip(s) == IF Len(s) = 0 THEN <<>>
            ELSE IF s[1] \in Blank THEN Strip(Tail(s)) ELSE <<s[1]>> \o Strip(Tail(s))
OutRel == Strip(out) = Strip(SubSeq(S, 1, index))
=============================================================================
