------------------------------ MODULE HtmlState ------------------------------
\* C17 (R stratum): the HTML state pseudo-classes, written as the property text and the HTML
\* standard (form controls, selectors of the "Pseudo-classes" section, the dir attribute) define
\* them.  Nothing here follows the shape of the implementation: no scan order, no memo tables.
\*
\*   s = [k |-> "checked"|"default"|"indeterminate"|"enabled"|"disabled"|"required"|"optional"|
\*             "read-write"|"read-only"|"placeholder-shown"|"link"|"any-link"|"defined"]
\*    or [k |-> "dir", d |-> "ltr"|"rtl"]
\*
\* Common frame.  Every pseudo-class below holds only for elements in the HTML namespace
\* (Dom!IsHtmlEl) of HTML or XHTML documents (Dom!IsHtml); :defined is the one exception as far as
\* the namespace of the element goes.  Attribute names are looked up case-insensitively in HTML documents and
\* exactly in XML / XHTML documents (Dom!AttrValSetCI); the keywords of dir and contenteditable are compared ASCII-case-insensitively
\* everywhere, the type keyword of the selector-defined pseudo-classes like the names (HsKwT).
\*
\* Own document.  In HTML the content of an iframe element is a document of its own.  Whatever a
\* definition says about "the form owner", "the group", "the ancestors", "the parent" is read inside
\* the element's own document: the walk towards the root stops below the nearest iframe (HsAnc,
\* HsHost).  The children of an iframe are the top of that inner document.
\*
\* Every operator other than StateHolds is prefixed Hs: CssDecl EXTENDS this module together with its
\* siblings (shared name space).
EXTENDS Integers, Sequences, FiniteSets, Str, Dom

\* ---- vocabulary (code points) -------------------------------------------------------------
HsNForm == <<102,111,114,109>>
HsNFieldset == <<102,105,101,108,100,115,101,116>>
HsNLegend == <<108,101,103,101,110,100>>
HsNInput == <<105,110,112,117,116>>
HsNButton == <<98,117,116,116,111,110>>
HsNSelect == <<115,101,108,101,99,116>>
HsNOptgroup == <<111,112,116,103,114,111,117,112>>
HsNOption == <<111,112,116,105,111,110>>
HsNTextarea == <<116,101,120,116,97,114,101,97>>
HsNProgress == <<112,114,111,103,114,101,115,115>>
HsNA == <<97>>
HsNArea == <<97,114,101,97>>
HsNBdi == <<98,100,105>>
HsNScript == <<115,99,114,105,112,116>>
HsNStyle == <<115,116,121,108,101>>
HsNIframe == <<105,102,114,97,109,101>>
HsNDiv == <<100,105,118>>
HsAType == <<116,121,112,101>>
HsAName == <<110,97,109,101>>
HsAChecked == <<99,104,101,99,107,101,100>>
HsASelected == <<115,101,108,101,99,116,101,100>>
HsADisabled == <<100,105,115,97,98,108,101,100>>
HsAReadonly == <<114,101,97,100,111,110,108,121>>
HsARequired == <<114,101,113,117,105,114,101,100>>
HsAIndeterminate == <<105,110,100,101,116,101,114,109,105,110,97,116,101>>
HsAPlaceholder == <<112,108,97,99,101,104,111,108,100,101,114>>
HsAValue == <<118,97,108,117,101>>
HsAContenteditable == <<99,111,110,116,101,110,116,101,100,105,116,97,98,108,101>>
HsADir == <<100,105,114>>
HsAHref == <<104,114,101,102>>
HsVCheckbox == <<99,104,101,99,107,98,111,120>>
HsVRadio == <<114,97,100,105,111>>
HsVSubmit == <<115,117,98,109,105,116>>
HsVHidden == <<104,105,100,100,101,110>>
HsVText == <<116,101,120,116>>
HsVSearch == <<115,101,97,114,99,104>>
HsVUrl == <<117,114,108>>
HsVTel == <<116,101,108>>
HsVEmail == <<101,109,97,105,108>>
HsVPassword == <<112,97,115,115,119,111,114,100>>
HsVNumber == <<110,117,109,98,101,114>>
HsVDate == <<100,97,116,101>>
HsVDatetimeLocal == <<100,97,116,101,116,105,109,101,45,108,111,99,97,108>>
HsVMonth == <<109,111,110,116,104>>
HsVTime == <<116,105,109,101>>
HsVWeek == <<119,101,101,107>>
HsVTrue == <<116,114,117,101>>
HsVLtr == <<108,116,114>>
HsVRtl == <<114,116,108>>
HsVAuto == <<97,117,116,111>>

\* ---- elements and attributes -----------------------------------------------------------------
\* i is the HTML element called nm
\* (the cheap name test first: TLC evaluates conjuncts left to right)
HsIs(d, i, nm) == IsEl(d, i) /\ NameKey(d, d.name[i]) = nm /\ IsHtmlEl(d, i)
HsIsAny(d, i, nms) == IsEl(d, i) /\ NameKey(d, d.name[i]) \in nms /\ IsHtmlEl(d, i)

HsHas(d, i, a) == \E n \in 1..Len(d.attrs[i]) : NameKey(d, d.attrs[i][n].k) = a       \* AttrValSetCI(d, i, a) # {}
\* value of a content attribute, the empty string when it is absent
HsVal(d, i, a) == LET vs == AttrValSetCI(d, i, a) IN IF vs = {} THEN <<>> ELSE CHOOSE v \in vs : TRUE
\* keyword of an enumerated attribute
HsKw(d, i, a) == Lower(HsVal(d, i, a))
\* the type keyword as the DEFINITION SELECTORS of the library read it ([type=radio], [type="submit"] ...): ASCII-case-insensitive in HTML
\* documents, exact in XML / XHTML documents (C11); :dir() reads the type with HsKw (the hand-written rule lower-cases it everywhere)
HsKwT(d, i) == IF d.xml THEN HsVal(d, i, HsAType) ELSE Lower(HsVal(d, i, HsAType))

\* ---- the element's own document ---------------------------------------------------------------
\* ancestors inside the own document: the walk stops below an iframe
RECURSIVE HsAnc(_, _)
HsAnc(d, i) == LET p == d.parent[i] IN
               IF p = 0 \/ IsIframe(d, p) THEN {} ELSE {p} \cup HsAnc(d, p)
\* the iframe whose content document node i lives in; 0 for the outermost document
RECURSIVE HsHost(_, _)
HsHost(d, i) == LET p == d.parent[i] IN
                IF p = 0 THEN 0 ELSE IF IsIframe(d, p) THEN p ELSE HsHost(d, p)
\* i is the top of its document: it has no parent element there
HsIsDocTop(d, i) == d.parent[i] = 0 \/ IsIframe(d, d.parent[i])

\* form owner: the nearest form ancestor (ids grow towards the descendant), 0 when there is none
HsFormAnc(d, i) == {f \in HsAnc(d, i) : HsIs(d, f, HsNForm)}
HsFormOwner(d, i) == IF HsFormAnc(d, i) = {} THEN 0 ELSE Max(HsFormAnc(d, i))

\* ---- :checked, :default -----------------------------------------------------------------------
HsIsInputOf(d, i, types) == HsIs(d, i, HsNInput) /\ HsHas(d, i, HsAType) /\ HsKwT(d, i) \in types
HsChecked(d, i) ==
    \/ HsIsInputOf(d, i, {HsVCheckbox, HsVRadio}) /\ HsHas(d, i, HsAChecked)
    \/ HsIs(d, i, HsNOption) /\ HsHas(d, i, HsASelected)

\* "button or input of type submit"
HsIsSubmit(d, i) == HsIsAny(d, i, {HsNInput, HsNButton}) /\ HsHas(d, i, HsAType) /\ HsKwT(d, i) = HsVSubmit
\* "The first button or input of type submit in each form".  Three readings of "first .. in each
\* form", which designate the same elements on every document in which no form is nested in another
\* one (T-Default); nested forms are non-conforming content that an HTML5 parser never builds, but
\* html.parser, lxml and the bs4 API do.
\*   owner    the HTML standard's wording for a form's default button: the first submit button in
\*            tree order whose form owner (nearest form ancestor) is that form
\*   literal  the first submit button among all the descendants of each form, nested forms included
\*   bail     the first submit button of its form owner PROVIDED no nested form starts before it
\*            inside that form: a form that meets a nested form has no default button from there on.
\*            This is the rule the library documents for nested forms (its test-suite:
\*            tests/test_level4/test_default.py, test_nested_form / test_nested_form_fail, "bail
\*            like browsers do"); it only ever removes elements from the owner reading.
\* The property text does not decide between them.  StateHolds uses the documented rule (bail);
\* a selector record [k |-> "default", alt |-> TRUE] asks for the owner reading, which conformance
\* checks use only to record where the two differ (drift), never to gate.
HsSubmitsOf(d, f) == {j \in Elems(d) : HsIsSubmit(d, j) /\ HsFormOwner(d, j) = f}
HsDefaultButtonOwner(d, i) ==
    /\ HsIsSubmit(d, i)
    /\ LET f == HsFormOwner(d, i) IN
         f # 0 /\ \A j \in Elems(d) : (j < i /\ HsIsSubmit(d, j)) => HsFormOwner(d, j) # f      \* i = Min(HsSubmitsOf(d, f))
HsDefaultButton(d, i) ==
    /\ HsIsSubmit(d, i)
    /\ LET f == HsFormOwner(d, i) IN
         f # 0 /\ \A j \in Elems(d) : (j < i /\ f \in HsAnc(d, j)) => ~(HsIsSubmit(d, j) \/ HsIs(d, j, HsNForm))
HsSubmitsIn(d, f) == {j \in Elems(d) : HsIsSubmit(d, j) /\ f \in HsAnc(d, j)}
HsDefaultButtonLit(d, i) ==
    HsIsSubmit(d, i) /\ \E f \in HsFormAnc(d, i) : i = Min(HsSubmitsIn(d, f))
HsNestedForms(d) == \E f \in Elems(d) : HsIs(d, f, HsNForm) /\ HsFormAnc(d, f) # {}
HsDefault(d, i) == HsChecked(d, i) \/ HsDefaultButton(d, i)
HsDefaultOwner(d, i) == HsChecked(d, i) \/ HsDefaultButtonOwner(d, i)
HsAlt(s) == "alt" \in DOMAIN s /\ s.alt

\* ---- :indeterminate ---------------------------------------------------------------------------
HsIsRadio(d, i) == HsIsInputOf(d, i, {HsVRadio})
\* radio button group: same tree (own document), same form owner (possibly none), same non-empty name
HsRadioGroup(d, i) ==
    {j \in Elems(d) : /\ HsIsRadio(d, j)
                      /\ HsHost(d, j) = HsHost(d, i)
                      /\ HsFormOwner(d, j) = HsFormOwner(d, i)
                      /\ HsVal(d, j, HsAName) = HsVal(d, i, HsAName)}
HsIndeterminate(d, i) ==
    \/ HsIsInputOf(d, i, {HsVCheckbox}) /\ HsHas(d, i, HsAIndeterminate)
    \/ HsIs(d, i, HsNProgress) /\ ~HsHas(d, i, HsAValue)
    \/ /\ HsIsRadio(d, i) /\ ~HsHas(d, i, HsAChecked)
       /\ \/ HsVal(d, i, HsAName) = <<>>                      \* no name, or the empty name: a group of its own
          \/ \A j \in HsRadioGroup(d, i) : ~HsHas(d, j, HsAChecked)

\* ---- :placeholder-shown -----------------------------------------------------------------------
\* concatenation of the text nodes of a set of nodes in document order
RECURSIVE HsCat(_, _)
HsCat(d, S) == IF S = {} THEN <<>> ELSE LET m == Min(S) IN d.text[m] \o HsCat(d, S \ {m})
HsTextContent(d, i) == HsCat(d, {j \in Desc(d, i) : IsText(d, j)})
\* input types the placeholder attribute applies to; no type attribute is the Text state
HsPlaceholderTypes == {<<>>, HsVText, HsVSearch, HsVUrl, HsVTel, HsVEmail, HsVPassword, HsVNumber}
HsPlaceholderShown(d, i) ==
    /\ HsHas(d, i, HsAPlaceholder) /\ HsVal(d, i, HsAPlaceholder) # <<>>
    /\ \/ /\ HsIs(d, i, HsNInput) /\ HsKwT(d, i) \in HsPlaceholderTypes
          /\ HsVal(d, i, HsAValue) = <<>>
          /\ HsTextContent(d, i) \in {<<>>, <<10>>}
       \/ HsIs(d, i, HsNTextarea) /\ HsTextContent(d, i) \in {<<>>, <<10>>}

\* ---- :enabled, :disabled ----------------------------------------------------------------------
HsIsControl(d, i) ==
    \/ HsIs(d, i, HsNInput) /\ HsKwT(d, i) # HsVHidden
    \/ HsIsAny(d, i, {HsNButton, HsNSelect, HsNTextarea, HsNFieldset, HsNOptgroup, HsNOption})
\* controls a disabled fieldset disables
HsIsFieldsetTarget(d, i) == HsIsControl(d, i) /\ ~HsIsAny(d, i, {HsNOptgroup, HsNOption})
HsLegends(d, f) == {c \in ElChildren(d, f) : HsIs(d, c, HsNLegend)}
HsInFirstLegend(d, f, i) == HsLegends(d, f) # {} /\ Min(HsLegends(d, f)) \in HsAnc(d, i)
HsDisabled(d, i) ==
    /\ HsIsControl(d, i)
    /\ \/ HsHas(d, i, HsADisabled)
       \/ /\ HsIs(d, i, HsNOption) /\ ~HsIsDocTop(d, i)
          /\ HsIs(d, d.parent[i], HsNOptgroup) /\ HsHas(d, d.parent[i], HsADisabled)
       \/ /\ HsIsFieldsetTarget(d, i)
          /\ \E f \in HsAnc(d, i) : /\ HsIs(d, f, HsNFieldset) /\ HsHas(d, f, HsADisabled)
                                    /\ ~HsInFirstLegend(d, f, i)
HsEnabled(d, i) == HsIsControl(d, i) /\ ~HsDisabled(d, i)

\* ---- :required, :optional ---------------------------------------------------------------------
HsCanRequire(d, i) == HsIsAny(d, i, {HsNInput, HsNSelect, HsNTextarea})
HsRequired(d, i) == HsCanRequire(d, i) /\ HsHas(d, i, HsARequired)
HsOptional(d, i) == HsCanRequire(d, i) /\ ~HsHas(d, i, HsARequired)

\* ---- :read-write, :read-only ------------------------------------------------------------------
\* input types the readonly attribute applies to
HsTextLikeTypes == {<<>>, HsVText, HsVSearch, HsVUrl, HsVTel, HsVEmail, HsVNumber, HsVPassword,
                    HsVDate, HsVDatetimeLocal, HsVMonth, HsVTime, HsVWeek}
HsEditingHost(d, i) == HsHas(d, i, HsAContenteditable) /\ HsKw(d, i, HsAContenteditable) \in {<<>>, HsVTrue}
HsReadWrite(d, i) ==
    \/ /\ HsIs(d, i, HsNTextarea) \/ (HsIs(d, i, HsNInput) /\ HsKwT(d, i) \in HsTextLikeTypes)
       /\ ~HsHas(d, i, HsAReadonly) /\ ~HsDisabled(d, i)
    \/ HsEditingHost(d, i)
HsReadOnly(d, i) == ~HsReadWrite(d, i)

\* ---- :link, :any-link -------------------------------------------------------------------------
HsLink(d, i) == HsIsAny(d, i, {HsNA, HsNArea}) /\ HsHas(d, i, HsAHref)

\* ---- :dir() -----------------------------------------------------------------------------------
\* Characters are modelled by their bidirectional class over the alphabet ASCII + Hebrew letters +
\* Arabic letters: strong L (ASCII letters), strong R / AL, everything else neutral or weak.
HsBidi(c) == IF (c >= 65 /\ c <= 90) \/ (c >= 97 /\ c <= 122) THEN "L"
             ELSE IF (c >= 1488 /\ c <= 1514) \/ (c >= 1569 /\ c <= 1610) THEN "R" ELSE "N"
HsStrongAt(s) == {n \in 1..Len(s) : HsBidi(s[n]) # "N"}
\* direction of the first strong character: "ltr", "rtl", or "none"
HsFirstStrong(s) == IF HsStrongAt(s) = {} THEN "none"
                    ELSE IF HsBidi(s[Min(HsStrongAt(s))]) = "L" THEN "ltr" ELSE "rtl"

\* state of the dir attribute
HsDirState(d, i) == LET v == HsKw(d, i, HsADir) IN
    IF ~HsHas(d, i, HsADir) THEN "none"
    ELSE IF v = HsVLtr THEN "ltr" ELSE IF v = HsVRtl THEN "rtl" ELSE IF v = HsVAuto THEN "auto" ELSE "none"

\* Two readings.  lib = FALSE is the HTML standard's algorithm.  lib = TRUE is a coarser reading
\* that the property text does not exclude and that conformance checks accept as well, recording
\* that the code follows it (selector record [k |-> "dir", d |-> .., alt |-> TRUE]):
\*   (a) the top element of a document that has no dir attribute state is ltr even when it is a bdi;
\*   (b) only inputs with an explicit type keyword text / search / tel / url / email take dir=auto
\*       from their value (the standard also counts a missing or empty type attribute);
\*   (c) elements outside the HTML namespace have no direction, pass none on to their children and
\*       their text does not count for an ancestor with dir=auto.
\* The readings coincide on every document without a top-level bdi, without a type-less
\* input[dir=auto] and without foreign elements (T-DirReadings).

\* elements whose text does not count for an ancestor with dir=auto
HsBidiCut(d, a, lib) == \/ HsIsAny(d, a, {HsNBdi, HsNScript, HsNStyle, HsNTextarea, HsNIframe})
                        \/ HsDirState(d, a) # "none"
                        \/ lib /\ ~IsHtmlEl(d, a)
HsAutoText(d, i, lib) ==
    HsCat(d, {j \in Desc(d, i) : IsText(d, j) /\ \A a \in Anc(d, j) : (i \in Anc(d, a)) => ~HsBidiCut(d, a, lib)})
\* controls whose dir=auto looks at the value: textarea, and input in the Text (also: no or empty
\* type attribute), Search, Telephone, URL or Email state
HsAutoTypes(lib) == {HsVText, HsVSearch, HsVTel, HsVUrl, HsVEmail} \cup (IF lib THEN {} ELSE {<<>>})
HsAutoFromValue(d, i, lib) == \/ HsIs(d, i, HsNTextarea)
                              \/ HsIs(d, i, HsNInput) /\ (lib => HsHas(d, i, HsAType)) /\ HsKw(d, i, HsAType) \in HsAutoTypes(lib)
HsValueOf(d, i) == IF HsIs(d, i, HsNTextarea) THEN HsCat(d, {j \in Children(d, i) : IsText(d, j)})
                   ELSE HsVal(d, i, HsAValue)

\* directionality of element i: "ltr", "rtl" ("none" only under reading (c))
RECURSIVE HsDirR(_, _, _)
HsDirR(d, i, lib) ==
    LET st == HsDirState(d, i)
        inherit == IF HsIsDocTop(d, i) THEN "ltr"
                   ELSE IF lib /\ ~IsHtmlEl(d, d.parent[i]) THEN "none"
                   ELSE HsDirR(d, d.parent[i], lib)
        val == HsValueOf(d, i)
        txt == HsAutoText(d, i, lib)
    IN IF lib /\ ~IsHtmlEl(d, i) THEN "none"
       ELSE IF st \in {"ltr", "rtl"} THEN st
       ELSE IF lib /\ st = "none" /\ HsIsDocTop(d, i) THEN "ltr"
       ELSE IF st = "auto" /\ HsAutoFromValue(d, i, lib)
            THEN IF HsFirstStrong(val) # "none" THEN HsFirstStrong(val)
                 ELSE IF val # <<>> THEN "ltr" ELSE inherit
       ELSE IF st = "auto" \/ HsIs(d, i, HsNBdi)
            THEN IF HsFirstStrong(txt) # "none" THEN HsFirstStrong(txt) ELSE inherit
       ELSE IF HsIsInputOf(d, i, {HsVTel}) THEN "ltr"
       ELSE inherit
HsDir(d, i) == HsDirR(d, i, FALSE)

\* ---- :defined ---------------------------------------------------------------------------------
\* custom element names contain a hyphen; an element that carries a prefix is not an HTML custom
\* element.  The namespace of the element does not matter.
HsDefined(d, i) == \/ ~(\E n \in 1..Len(d.name[i]) : d.name[i][n] = 45)
                   \/ \E n \in 1..Len(d.name[i]) : d.name[i][n] = 58
                   \/ d.pfx[i] # <<>>

\* ---- entry point used by CssDecl!MatchS -------------------------------------------------------
HsKinds == {"checked", "default", "indeterminate", "enabled", "disabled", "required", "optional",
            "read-write", "read-only", "placeholder-shown", "link", "any-link", "dir"}
StateHolds(d, s, i) ==
    IF s.k = "defined" THEN IsEl(d, i) /\ IsHtml(d) /\ HsDefined(d, i)
    ELSE IF s.k \notin HsKinds THEN FALSE
    ELSE /\ IsEl(d, i) /\ IsHtml(d)
         /\ CASE s.k = "checked" -> HsChecked(d, i)
              [] s.k = "default" -> IF HsAlt(s) THEN HsDefaultOwner(d, i) ELSE HsDefault(d, i)
              [] s.k = "indeterminate" -> HsIndeterminate(d, i)
              [] s.k = "enabled" -> HsEnabled(d, i)
              [] s.k = "disabled" -> HsDisabled(d, i)
              [] s.k = "required" -> HsRequired(d, i)
              [] s.k = "optional" -> HsOptional(d, i)
              [] s.k = "read-write" -> HsReadWrite(d, i)
              [] s.k = "read-only" -> HsReadOnly(d, i)
              [] s.k = "placeholder-shown" -> HsPlaceholderShown(d, i)
              [] s.k \in {"link", "any-link"} -> HsLink(d, i)
              [] s.k = "dir" -> HsDirR(d, i, HsAlt(s)) = s.d
         /\ IsHtmlEl(d, i)

\* the set a pseudo-class designates in document d
HsSet(d, s) == {i \in Elems(d) : StateHolds(d, s, i)}
HsK(k) == [k |-> k]
HsDirS(x) == [k |-> "dir", d |-> x]
HsHtmlElems(d) == {i \in Elems(d) : IsHtml(d) /\ IsHtmlEl(d, i)}
\* a rooted document: exactly one top-level element
HsRooted(d) == Cardinality(TopElems(d)) = 1

\* ---- design-level theorems (T-Partitions; INVARIANTs of the MC_C17_* models) ------------------
\* the partition laws of the property, as statements about the definitions above
HsThEnabledDisabled(d) ==
    /\ HsSet(d, HsK("enabled")) \cap HsSet(d, HsK("disabled")) = {}
    /\ HsSet(d, HsK("enabled")) \cup HsSet(d, HsK("disabled")) = {i \in HsHtmlElems(d) : HsIsControl(d, i)}
HsThRequiredOptional(d) ==
    /\ HsSet(d, HsK("required")) \cap HsSet(d, HsK("optional")) = {}
    /\ HsSet(d, HsK("required")) \cup HsSet(d, HsK("optional")) = {i \in HsHtmlElems(d) : HsCanRequire(d, i)}
HsThReadWriteOnly(d) ==
    /\ HsSet(d, HsK("read-write")) \cap HsSet(d, HsK("read-only")) = {}
    /\ HsSet(d, HsK("read-write")) \cup HsSet(d, HsK("read-only")) = HsHtmlElems(d)
HsThLink(d) == HsSet(d, HsK("link")) = HsSet(d, HsK("any-link"))
HsThCheckedDefault(d) == HsSet(d, HsK("checked")) \subseteq HsSet(d, HsK("default"))
\* :dir is total and single-valued on every HTML element (rooted or not: the model gives every
\* top of a document the direction ltr)
HsThDir(d) ==
    /\ HsSet(d, HsDirS("ltr")) \cap HsSet(d, HsDirS("rtl")) = {}
    /\ HsSet(d, HsDirS("ltr")) \cup HsSet(d, HsDirS("rtl")) = HsHtmlElems(d)
HsThPartitions(d) ==
    /\ HsThEnabledDisabled(d) /\ HsThRequiredOptional(d) /\ HsThReadWriteOnly(d)
    /\ HsThLink(d) /\ HsThCheckedDefault(d) /\ HsThDir(d)

\* T-DirReadings: the two readings of :dir() differ only below a bdi that is the top of its document,
\* a type-less input[dir=auto], or a foreign element
HsDirUndecided(d) ==
    \/ \E i \in Elems(d) : HsIs(d, i, HsNBdi) /\ HsIsDocTop(d, i) /\ HsDirState(d, i) = "none"
    \/ \E i \in Elems(d) : HsIs(d, i, HsNInput) /\ HsDirState(d, i) = "auto" /\ HsKw(d, i, HsAType) = <<>>
    \/ \E i \in Elems(d) : ~IsHtmlEl(d, i)
HsThDirReadings(d) == ~HsDirUndecided(d) => \A i \in Elems(d) : HsDirR(d, i, TRUE) = HsDirR(d, i, FALSE)

\* T-Default: a form has at most one default button and it is owned by that form; the documented
\* rule only removes elements from the owner reading; where no form is nested in another one the
\* three readings designate the same elements; under the owner reading every form that owns a
\* submit button has exactly one default button
HsThDefault(d) ==
    /\ \A f \in Elems(d) : HsIs(d, f, HsNForm) => Cardinality({i \in HsSubmitsOf(d, f) : HsDefaultButton(d, i)}) <= 1
    /\ \A i \in Elems(d) : HsDefaultButton(d, i) => (HsFormOwner(d, i) # 0 /\ HsDefaultButtonOwner(d, i))
    /\ \A f \in Elems(d) : (HsIs(d, f, HsNForm) /\ HsSubmitsOf(d, f) # {}) =>
          {i \in HsSubmitsOf(d, f) : HsDefaultButtonOwner(d, i)} = {Min(HsSubmitsOf(d, f))}
    /\ ~HsNestedForms(d) => \A i \in Elems(d) : /\ HsDefaultButton(d, i) = HsDefaultButtonOwner(d, i)
                                                   /\ HsDefaultButton(d, i) = HsDefaultButtonLit(d, i)

\* T-Group: the unchecked named radio buttons of one group are indeterminate together, a group
\* never leaves its document, and a group with a checked member has no indeterminate member
HsThGroup(d) ==
    \A i \in Elems(d) : (HsIsRadio(d, i) /\ IsHtml(d) /\ HsVal(d, i, HsAName) # <<>>) =>
        /\ i \in HsRadioGroup(d, i)
        /\ \A j \in HsRadioGroup(d, i) :
             /\ HsHost(d, j) = HsHost(d, i)
             /\ HsRadioGroup(d, j) = HsRadioGroup(d, i)
             /\ (~HsHas(d, i, HsAChecked) /\ ~HsHas(d, j, HsAChecked)) =>
                    HsIndeterminate(d, i) = HsIndeterminate(d, j)
             /\ HsHas(d, j, HsAChecked) => ~HsIndeterminate(d, i)

\* T-Boundary: nothing a definition looks at lies in another document: the form owner and every
\* fieldset / optgroup that disables i are in i's own document
HsThBoundary(d) ==
    \A i \in Elems(d) :
        /\ HsFormOwner(d, i) # 0 => HsHost(d, HsFormOwner(d, i)) = HsHost(d, i)
        /\ \A a \in HsAnc(d, i) : HsHost(d, a) = HsHost(d, i)
        /\ HsAnc(d, i) \subseteq Anc(d, i)
=============================================================================
