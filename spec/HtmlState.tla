------------------------------ MODULE HtmlState ------------------------------
\* C17: HTML state pseudo-classes. s = [k |-> "checked"|"default"|"indeterminate"|"enabled"|"disabled"|"required"|"optional"|"read-write"|"read-only"|"placeholder-shown"|"link"|"any-link"|"defined"] or [k |-> "dir", d |-> "ltr"|"rtl"]
\* STUB - to be filled in.  Every operator other than the entry point must carry a module-specific
\* prefix, because CssDecl EXTENDS this module together with its siblings (shared name space).
EXTENDS Integers, Sequences, FiniteSets, Str, Dom

StateHolds(d, s, i) == FALSE
=============================================================================
