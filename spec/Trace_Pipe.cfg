INIT InitPipe
NEXT NextPipe
POSTCONDITION AcceptedPipe
CHECK_DEADLOCK FALSE
