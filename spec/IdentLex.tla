------------------------------ MODULE IdentLex ------------------------------
\* R stratum.  CSS Syntax Module Level 3, tokenization of identifiers:
\*   4.3.4  consume an ident-like token / 4.3.11 consume an ident sequence
\*   4.3.7  consume an escaped code point
\*   4.3.8  check if two code points are a valid escape
\*   4.3.9  check if three code points would start an ident sequence
\* as an explicit state machine over a code-point sequence.  The machine state is a record
\*   input    the code points (after the preprocessing of 3.3; CR LF is also accepted as one newline)
\*   pos      index of the next input code point (1-based)
\*   state    "start" | "afterDash" | "body" | "escape" | "hex" | "hexWs" | "done"
\*   k, acc   number of hexadecimal digits consumed in the current escape and their value
\*   value    the identifier's value so far
\*   ok       FALSE when the input does not start an identifier
\* Step is the transition function; LexInit/LexNext make it a TLA+ next-state relation for a
\* module that declares the variable (MC_C10_lex); Run iterates Step to "done" so that the
\* result can be used inside state predicates (MC_C10_build, Trace_C10).
EXTENDS Integers, Sequences

EOF == -1
UFFFD == 65533

LxDigit(c) == c >= 48 /\ c <= 57
LxHex(c) == LxDigit(c) \/ (c >= 65 /\ c <= 70) \/ (c >= 97 /\ c <= 102)
LxHexVal(c) == IF LxDigit(c) THEN c - 48 ELSE IF c >= 97 THEN c - 87 ELSE c - 55
LxLetter(c) == (c >= 65 /\ c <= 90) \/ (c >= 97 /\ c <= 122)
LxNewline(c) == c \in {10, 12, 13}
LxWs(c) == c \in {9, 10, 12, 13, 32}
\* ident-start code point: letter, non-ASCII, "_"   ident code point: + digit, "-"
NameStart(c) == LxLetter(c) \/ c = 95 \/ c >= 128
NameChar(c) == NameStart(c) \/ LxDigit(c) \/ c = 45

At(inp, p) == IF p >= 1 /\ p <= Len(inp) THEN inp[p] ELSE EOF

\* 4.3.8: a backslash not followed by a newline (a backslash at the end of input is a valid
\* escape, consumed as U+FFFD by 4.3.7)
ValidEscape(inp, p) == At(inp, p) = 92 /\ ~LxNewline(At(inp, p + 1))

\* 4.3.7: the code point an escape stands for
EscapeValue(n) == IF n = 0 \/ (n >= 55296 /\ n <= 57343) \/ n > 1114111 THEN UFFFD ELSE n

States == {"start", "afterDash", "body", "escape", "hex", "hexWs", "done"}

Start(inp) == [input |-> inp, pos |-> 1, state |-> "start", k |-> 0, acc |-> 0, value |-> <<>>, ok |-> TRUE]

NotIdent(st) == [st EXCEPT !.state = "done", !.ok = FALSE, !.pos = 1, !.value = <<>>]
Take(st, c) == [st EXCEPT !.pos = @ + 1, !.state = "body", !.value = Append(@, c)]
Backslash(st) == [st EXCEPT !.pos = @ + 1, !.state = "escape"]

Step(st) ==
    LET c == At(st.input, st.pos)
        n == At(st.input, st.pos + 1)
    IN
    CASE st.state = "start" ->          \* 4.3.9 on the first code point
           IF c = 45 THEN [st EXCEPT !.pos = @ + 1, !.state = "afterDash", !.value = Append(@, 45)]
           ELSE IF NameStart(c) THEN Take(st, c)
           ELSE IF ValidEscape(st.input, st.pos) THEN Backslash(st)
           ELSE NotIdent(st)
      [] st.state = "afterDash" ->      \* 4.3.9 after "-": ident-start, "-", or a valid escape
           IF NameStart(c) \/ c = 45 THEN Take(st, c)
           ELSE IF ValidEscape(st.input, st.pos) THEN Backslash(st)
           ELSE NotIdent(st)
      [] st.state = "body" ->           \* 4.3.11
           IF NameChar(c) THEN Take(st, c)
           ELSE IF ValidEscape(st.input, st.pos) THEN Backslash(st)
           ELSE [st EXCEPT !.state = "done"]
      [] st.state = "escape" ->         \* 4.3.7, the backslash is consumed
           IF c = EOF THEN [st EXCEPT !.state = "body", !.value = Append(@, UFFFD)]
           ELSE IF LxHex(c) THEN [st EXCEPT !.pos = @ + 1, !.state = "hex", !.k = 1, !.acc = LxHexVal(c)]
           ELSE Take(st, c)
      [] st.state = "hex" ->            \* as many hex digits as possible, at most 6
           IF st.k < 6 /\ LxHex(c)
           THEN [st EXCEPT !.pos = @ + 1, !.k = @ + 1, !.acc = @ * 16 + LxHexVal(c)]
           ELSE [st EXCEPT !.state = "hexWs"]
      [] st.state = "hexWs" ->          \* one optional whitespace belongs to the escape
           LET adv == IF c = 13 /\ n = 10 THEN 2 ELSE IF LxWs(c) THEN 1 ELSE 0 IN
           [st EXCEPT !.pos = @ + adv, !.state = "body", !.value = Append(@, EscapeValue(st.acc)),
                      !.k = 0, !.acc = 0]
      [] st.state = "done" -> st

\* the machine as a next-state relation over a variable lx of the importing module
LexInit(lx, inp) == lx = Start(inp)
LexNext(lx, lx2) == lx.state # "done" /\ lx2 = Step(lx)

LexTypeOK(lx) ==
    /\ lx.state \in States
    /\ lx.pos \in 1..(Len(lx.input) + 1)
    /\ lx.k \in 0..6 /\ lx.acc \in 0..16777215
    /\ Len(lx.value) <= lx.pos
    /\ (lx.state \in {"hex", "hexWs"} <=> lx.k > 0)
    /\ (~lx.ok => lx.state = "done")

RECURSIVE Run(_)
Run(st) == IF st.state = "done" THEN st ELSE Run(Step(st))

\* consume an identifier at the beginning of inp:
\*   ok        inp starts an identifier     value  its value    consumed  number of code points used
LexIdent(inp) == LET f == Run(Start(inp)) IN [ok |-> f.ok, value |-> f.value, consumed |-> f.pos - 1]
=============================================================================
