--------------------------- MODULE MC_C04_session ---------------------------
EXTENDS Naturals, TLC
CONSTANTS Policy, Lifetime
VARIABLES memo, answers, todo, fact
\* three elements under two roots (one root has a <meta> language, one has none), two forms (one
\* with a submit button, one without), one radio group
MElements == {"e1", "e2", "e3"}
MKeys == {"lang:r1", "lang:r2", "default:f1", "default:f2", "indet:f1:g"}
MNeed == [e \in MElements |->
            CASE e = "e1" -> {"lang:r1", "default:f1"}
              [] e = "e2" -> {"lang:r2", "default:f2", "indet:f1:g"}
              [] e = "e3" -> {"lang:r2", "default:f1", "indet:f1:g"}]
MFact == [k \in MKeys |->
            CASE k = "lang:r1" -> "en" [] k = "lang:r2" -> "none"
              [] k = "default:f1" -> "b1" [] k = "default:f2" -> "none"
              [] k = "indet:f1:g" -> "true"]
\* the tree after a change through the API: a radio button of the group was checked, the first submit button of f1 removed
MFact2 == [k \in MKeys |->
            CASE k = "lang:r1" -> "en" [] k = "lang:r2" -> "de"
              [] k = "default:f1" -> "b2" [] k = "default:f2" -> "none"
              [] k = "indet:f1:g" -> "false"]
S == INSTANCE Session WITH Elements <- MElements, Keys <- MKeys, Need <- MNeed, Facts <- {MFact, MFact2},
                           None <- "none", Empty <- ""
Init == S!Init
Next == S!Next
MemoTransparent == S!MemoTransparent
=============================================================================
