---------------------------- MODULE Trace_ApiPipe ----------------------------
\* B2 for C03 against the implementation-shaped pipeline: the seven entry points as views of the relation that the I stratum computes from the
\* selector TEXT (Lexer -> ParseSel -> IrState / Ir!Compile -> Ir!AlgoList), instead of CssDecl!Matches on a harness-made AST (Trace_Api).
\* event: [id, doc, text, nsmap, ep, target, limit, items, out]
EXTENDS IrState, TLC, TLCExt, Json, IOUtils, SequencesExt
VARIABLE l
Tr == ndJsonDeserialize(IOEnv.TRACE_FILE)

RECURSIVE SortedSeqA(_)
SortedSeqA(S) == IF S = {} THEN <<>> ELSE <<Min(S)>> \o SortedSeqA(S \ {Min(S)})
ScopeOfA(d, target) == IF target = 0 THEN RootOf(d) ELSE target
TakeA(seq, k) == IF k < 1 \/ k >= Len(seq) THEN seq ELSE SubSeq(seq, 1, k)
\* the one relation: element i matches the compiled selector ir when the call was made on `target`
M(e, ir, target, i) == IsEl(e.doc, i) /\ AlgoList(e.doc, [nsmap |-> e.nsmap, scope |-> ScopeOfA(e.doc, target)], ir, i)

ViewP(e) ==
    LET ir == CompileText(e.text)
        d == e.doc
        sel == SortedSeqA({i \in (IF e.target = 0 THEN Elems(d) ELSE ElDesc(d, e.target)) : M(e, ir, e.target, i)})
    IN CASE e.ep \in {"select", "iselect"} -> TakeA(sel, e.limit)
         [] e.ep = "select_one" -> IF sel = <<>> THEN 0 ELSE sel[1]
         [] e.ep = "match" -> e.target # 0 /\ M(e, ir, e.target, e.target)
         [] e.ep = "filter" -> SortedSeqA({i \in ElChildren(d, e.target) : M(e, ir, e.target, i)})
         [] e.ep = "filter_iter" -> SelectSeq(e.items, LAMBDA i : i # 0 /\ IsEl(d, i) /\ M(e, ir, i, i))
         [] e.ep = "closest" -> IF e.target = 0 THEN 0
                                ELSE LET S == {j \in AncOrSelf(d, e.target) : M(e, ir, e.target, j)} IN IF S = {} THEN 0 ELSE Max(S)
InitA == l = 0
NextA == /\ l < Len(Tr)
         /\ l' = l + 1
         /\ (IF Tr[l + 1].out = ViewP(Tr[l + 1]) THEN TRUE ELSE PrintT(<<"REJECT", Tr[l + 1].id, ToString(ViewP(Tr[l + 1]))>>))
AcceptedA == TLCGet("stats").diameter - 1 = Len(Tr)
=============================================================================
