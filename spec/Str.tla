-------------------------------- MODULE Str --------------------------------
(* Strings as sequences of code points (Seq(Nat)).  TLC cannot index TLA+      *)
(* strings, and the selector semantics needs prefix / suffix / infix, ASCII    *)
(* case folding and splitting on whitespace and on '-'.                        *)
EXTENDS Naturals, Sequences, FiniteSets

\* ASCII whitespace as CSS / HTML define it: space, tab, LF, FF, CR
IsWs(c) == c \in {32, 9, 10, 12, 13}

LowerC(c) == IF c >= 65 /\ c <= 90 THEN c + 32 ELSE c
Lower(s) == [i \in 1..Len(s) |-> LowerC(s[i])]

HasWs(s) == \E i \in 1..Len(s) : IsWs(s[i])
AllWs(s) == \A i \in 1..Len(s) : IsWs(s[i])

StartsWith(s, p) == Len(p) <= Len(s) /\ \A i \in 1..Len(p) : s[i] = p[i]
EndsWith(s, p) == Len(p) <= Len(s) /\ \A i \in 1..Len(p) : s[Len(s) - Len(p) + i] = p[i]
OccursAt(s, p, k) == k + Len(p) - 1 <= Len(s) /\ \A i \in 1..Len(p) : s[k + i - 1] = p[i]
HasInfix(s, p) == \E k \in 1..(Len(s) + 1) : OccursAt(s, p, k)

\* w is one of the maximal whitespace-free runs of s (w itself non-empty, no whitespace)
IsWord(s, w) ==
    /\ Len(w) > 0 /\ ~HasWs(w)
    /\ \E k \in 1..Len(s) :
         /\ OccursAt(s, w, k)
         /\ (k = 1 \/ IsWs(s[k - 1]))
         /\ (k + Len(w) - 1 = Len(s) \/ IsWs(s[k + Len(w)]))

\* split on a separator code point: sequence of pieces (possibly empty pieces)
RECURSIVE SplitFrom(_, _, _, _)
SplitFrom(s, sep, i, cur) ==
    IF i > Len(s) THEN <<cur>>
    ELSE IF s[i] = sep THEN <<cur>> \o SplitFrom(s, sep, i + 1, <<>>)
    ELSE SplitFrom(s, sep, i + 1, Append(cur, s[i]))
Split(s, sep) == SplitFrom(s, sep, 1, <<>>)

\* concatenate a sequence of strings with a separator string
RECURSIVE Join(_, _)
Join(ss, sep) == IF Len(ss) = 0 THEN <<>>
                 ELSE IF Len(ss) = 1 THEN ss[1]
                 ELSE ss[1] \o sep \o Join(Tail(ss), sep)

RECURSIVE Concat(_)
Concat(ss) == IF Len(ss) = 0 THEN <<>> ELSE ss[1] \o Concat(Tail(ss))

\* bit mask of a finite set of positive naturals (element i -> bit i-1), for compact output
RECURSIVE MaskUpTo(_, _)
MaskUpTo(S, n) == IF n = 0 THEN 0 ELSE (IF n \in S THEN 2^(n-1) ELSE 0) + MaskUpTo(S, n - 1)
=============================================================================
