---------------------------- MODULE MC_C01_attr ----------------------------
\* C01 configuration "attr": 1..MaxElems sibling elements, each with at most one attribute
\* (name t or type) whose value ranges over a pool chosen to separate the eight operators,
\* in HTML and XML documents, against [name], and [name op "val" flag] for every operator,
\* operand and flag.  Also the id and class selectors against id / class attribute values.
EXTENDS Ir, TLC, Json, SequencesExt
CONSTANTS MaxElems
VARIABLE doc

A == <<97>>
T == <<116>>
S(str) == str
Vals == { <<>>, <<120>>, <<120,121>>, <<120,32,121>>, <<120,45,121>>, <<88>>, <<32,120>>, <<121,32,120>>,
          <<120,10,121>>, <<121,120>>, <<120,9,121>>, <<120,45>>, <<120,160,121>>, <<120,8195>> }      \* incl. NBSP / EM SPACE: not CSS whitespace
Operands == { <<>>, <<120>>, <<121>>, <<120,32,121>>, <<88>>, <<120,45>>, <<120,121>> }
AttrNames == {T, TypeAttr, IdAttr, ClassAttr}
Ops == {"eq", "ne", "inc", "dash", "pre", "suf", "sub"}
Flags == {"n", "i", "s"}

At(nm, v, l) == [k |-> nm, ns |-> <<>>, local |-> nm, v |-> v, list |-> l]
AttrChoices == {<<>>} \cup {<<At(nm, v, FALSE)>> : nm \in AttrNames, v \in Vals}
                      \cup {<<At(nm, <<120,32,121>>, TRUE)>> : nm \in {T, ClassAttr}}

AttrS(nm, op, val, fl) == [k |-> "attr", ns |-> Bare, name |-> nm, op |-> op, val |-> val, flag |-> fl]
Cx1(c) == [cs |-> <<c>>, cb |-> <<>>]
PoolSet == {Cx1(<<AttrS(nm, "ex", <<>>, "n")>>) : nm \in {T, TypeAttr}}
      \cup {Cx1(<<AttrS(nm, op, val, fl)>>) : nm \in {T, TypeAttr}, op \in Ops, val \in Operands, fl \in Flags}
      \cup {Cx1(<<[k |-> "id", v |-> v]>>) : v \in {<<120>>, <<88>>, <<120,121>>, <<120,32,121>>}}
      \cup {Cx1(<<[k |-> "id", v |-> <<120>>], [k |-> "id", v |-> v]>>) : v \in {<<120>>, <<120,121>>}}     \* #x#x, #x#xy: every id of a compound must hold
      \cup {Cx1(<<[k |-> "class", v |-> v]>>) : v \in {<<120>>, <<121>>, <<88>>, <<120,121>>, <<120,45,121>>}}
      \cup {Cx1(<<[k |-> "class", v |-> <<120>>], [k |-> "class", v |-> <<121>>]>>)}
Pool == SetToSeq(PoolSet)
ASSUME PrintT(ToJson([pool |-> [s \in 1..Len(Pool) |-> <<Pool[s]>>]]))

Init == doc \in {EmptyDoc("doc", FALSE), EmptyDoc("doc", TRUE)}
Next == /\ Len(doc.parent) < MaxElems
        /\ \E at \in AttrChoices : doc' = AddElemA(doc, 0, A, at)

Env == [nsmap |-> <<>>, scope |-> RootOf(doc)]
Rel1(s) == {i \in Elems(doc) : Matches(doc, Env, <<Pool[s]>>, i)}
Res == [s \in 1..Len(Pool) |-> MaskUpTo(Rel1(s), Len(doc.parent))]
Emit == PrintT(ToJson([doc |-> doc, res |-> Res]))
\* T-AlgoEqDecl: the implementation-shaped matcher over the compiled IR agrees with the declarative semantics
AlgoEqDecl == \A s \in 1..Len(Pool) : \A i \in Elems(doc) :
                 AlgoMatches(doc, Env, <<Pool[s]>>, i) = Matches(doc, Env, <<Pool[s]>>, i)
=============================================================================
