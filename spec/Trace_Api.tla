------------------------------ MODULE Trace_Api ------------------------------
\* B2 for C03: validates recorded calls of every entry point against the views of Api.tla.
\* event: [id, doc, sel, nsmap, ep, target, limit, items, out]   out: sequence / id (0 = None) / boolean
EXTENDS Api, TLC, TLCExt, Json, IOUtils
VARIABLE l
Tr == ndJsonDeserialize(IOEnv.TRACE_FILE)

View(e) ==
    CASE e.ep \in {"select", "iselect"} -> SelectView(e.doc, e.sel, e.target, e.limit, e.nsmap, <<>>)
      [] e.ep = "select_one" -> SelectOneView(e.doc, e.sel, e.target, e.nsmap, <<>>)
      [] e.ep = "match" -> MatchView(e.doc, e.sel, e.target, e.nsmap, <<>>)
      [] e.ep = "filter" -> FilterView(e.doc, e.sel, e.target, e.nsmap, <<>>)
      [] e.ep = "filter_iter" -> FilterIterView(e.doc, e.sel, e.items, e.nsmap, <<>>)
      [] e.ep = "closest" -> ClosestView(e.doc, e.sel, e.target, e.nsmap, <<>>)
Conforms(e) == e.out = View(e)
Init == l = 0
Next == /\ l < Len(Tr)
        /\ l' = l + 1
        /\ (IF Conforms(Tr[l + 1]) THEN TRUE ELSE PrintT(<<"REJECT", Tr[l + 1].id, ToString(View(Tr[l + 1]))>>))
Accepted == TLCGet("stats").diameter - 1 = Len(Tr)
=============================================================================
