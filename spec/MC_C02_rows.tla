---------------------------- MODULE MC_C02_rows ----------------------------
\* C02, positions: every sibling row of at most MaxRow nodes over {element a, element b, text,
\* comment} (i) as children of an element, (ii) at the top level under the document object,
\* (iii) a detached single element, against :nth-child / :nth-last-child / :nth-of-type /
\* :nth-last-of-type (An+B) for every (a, b) in Lo..Hi squared and the "of S" filters
\* {none, a, :not(a)}; plus the keyword forms :first-child ... :only-of-type.
EXTENDS Ir, TLC, Json, SequencesExt
CONSTANTS MaxRow, NegLo, Hi, ExtraMag
Lo == 0 - NegLo
Extra == ExtraMag \cup {0 - x : x \in ExtraMag}
VARIABLE doc

A == <<97>>
B == <<98>>
C == <<99>>
X == <<120>>
TypeS(n) == [k |-> "type", ns |-> Bare, name |-> n]
Cx1(c) == [cs |-> <<c>>, cb |-> <<>>]
AB == (Lo..Hi) \cup Extra
OfS == {<<>>, <<Cx1(<<TypeS(A)>>)>>, <<Cx1(<<[k |-> "not", args |-> <<Cx1(<<TypeS(A)>>)>>]>>)>>}
NthS(a, b, l, t, of) == [k |-> "nth", a |-> a, b |-> b, last |-> l, oftype |-> t, of |-> of]
PoolSet == {Cx1(<<NthS(a, b, l, t, <<>>)>>) : a \in AB, b \in AB, l \in BOOLEAN, t \in BOOLEAN}
      \cup {Cx1(<<NthS(a, b, l, FALSE, of)>>) : a \in AB, b \in AB, l \in BOOLEAN, of \in OfS \ {<<>>}}
      \cup {Cx1(<<[k |-> kk]>>) : kk \in {"first-child", "last-child", "only-child", "first-of-type", "last-of-type", "only-of-type"}}
Pool == SetToSeq(PoolSet)
ASSUME PrintT(ToJson([pool |-> [s \in 1..Len(Pool) |-> <<Pool[s]>>]]))

\* three contexts: "under" (row under element c), "top" (row directly under the document), "frag"
Init == doc \in {AddElem(EmptyDoc("doc", FALSE), 0, C), EmptyDoc("doc", FALSE), EmptyDoc("frag", FALSE)}
Base == IF Len(doc.parent) > 0 /\ doc.name[1] = C THEN 1 ELSE 0
RowLen == Len(doc.parent) - Base
Next == /\ RowLen < MaxRow
        /\ \/ \E n \in {A, B} : CanAdd(doc, Base, "e") /\ doc' = AddElem(doc, Base, n)
           \/ \E k \in {"t", "c"} : CanAdd(doc, Base, k) /\ doc' = AddData(doc, Base, k, X)

Env == [nsmap |-> <<>>, scope |-> RootOf(doc)]
Rel1(s) == {i \in Elems(doc) : Matches(doc, Env, <<Pool[s]>>, i)}
Res == [s \in 1..Len(Pool) |-> MaskUpTo(Rel1(s), Len(doc.parent))]
Emit == PrintT(ToJson([doc |-> doc, res |-> Res]))
\* T-AlgoEqDecl: the implementation-shaped matcher over the compiled IR agrees with the declarative semantics
AlgoEqDecl == \A s \in 1..Len(Pool) : \A i \in Elems(doc) :
                 AlgoMatches(doc, Env, <<Pool[s]>>, i) = Matches(doc, Env, <<Pool[s]>>, i)
=============================================================================
