---- MODULE MC_C07_selftest_eda ----
\* Hand-written automaton of (x+)*y  (classes: 1 = x, 2 = y).  State 2 = "inside x+ after one x":
\* a further x either continues the inner loop or leaves it and re-enters through the outer loop:
\* two routes, same class, same target (a bundle with m = 2).  NoEDA must be violated at anchor 2.
EXTENDS Naturals
VARIABLES a, p1, p2, dv
MC_N == 3
MC_K == 2
MC_Anchors == {2}
MC_Out == << << {<<2, 1>>}, {<<3, 1>>} >>,
             << {<<2, 2>>}, {<<3, 1>>} >>,
             << {}, {} >> >>
INSTANCE RegexAmb WITH N <- MC_N, K <- MC_K, Out <- MC_Out, Anchors <- MC_Anchors
====
