---- MODULE MC_C07_selftest_eda ----
\* Hand-written automaton of (x+)*y  (classes: 1 = x, 2 = y).  State 2 = "inside x+ after one x":
\* a further x either continues the inner loop (edge 3) or leaves it and re-enters through the outer
\* loop (edge 4): two routes, same class, same target.  NoEDA must be violated at anchor 2.
EXTENDS RegexAmb
MC_N == 3
MC_K == 2
MC_M == 5
MC_Anchors == {2}
MC_Out == << {<<1, 2, 1>>, <<2, 3, 2>>},
             {<<1, 2, 3>>, <<1, 2, 4>>, <<2, 3, 5>>},
             {} >>
====
