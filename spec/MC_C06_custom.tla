---------------------------- MODULE MC_C06_custom -----------------------------
EXTENDS Custom, TLC, Json
\* print the predicted outcome for every (map, start name) once it is decided
Emit == outcome = "running" \/ PrintT(ToJson([def |-> def, start |-> stack[1], outcome |-> outcome]))
=============================================================================
