------------------------------- MODULE ParseSel -------------------------------
\* The step from tokens to the AST of CssDecl: with Lexer.tla (text -> tokens) in front and Ir!Compile (AST -> IR)
\* behind, this makes the specification an executable account of compile(text).selectors for the C01 / C02 grammar
\* (type / universal with namespace prefix, id, class, attribute selectors, :not / :is / :where / :matches / :has,
\* structural pseudo-classes, An+B with "of S", :scope / &, the no-match pseudo-classes, combinators, lists,
\* forgiven empty slots, :lang(), :dir(), the contains pseudo-classes).  Only applied to texts the parser accepts (Parser.tla decides that).
\*   ParseText(s) = selector list (Seq(Complex))
\* T-SpellingIR (MC_C09_gen): Compile(ParseText(respelling)) = Compile(ParseText(canonical)).
\* Bound to the code by Trace_Parse: the real IR of a text = projection of Compile(ParseText(text)).
EXTENDS Lexer, Nth, TLC

\* ---- css_unescape ------------------------------------------------------------
RECURSIVE HexValue(_, _, _, _)
HexValue(s, j, h, acc) == IF j >= h THEN acc ELSE HexValue(s, j + 1, h, acc * 16 + (IF IsDig(s[j]) THEN s[j] - 48 ELSE LowC(s[j]) - 87))
RECURSIVE Unesc(_, _, _, _)
Unesc(s, i, e, str) ==      \* decoded code points of s[i .. e-1]
    IF i >= e THEN <<>>
    ELSE IF s[i] # 92 THEN <<s[i]>> \o Unesc(s, i + 1, e, str)
    ELSE IF i + 1 >= e THEN <<65533>>                                          \* backslash at the end
    ELSE IF IsHex(s[i + 1])
         THEN LET h == HexRun(s, i + 1, 0)
                  v == HexValue(s, i + 1, h, 0)
                  nx == IF Ws1(s, h) # 0 /\ Ws1(s, h) <= e THEN Ws1(s, h) ELSE h
              IN <<IF v = 0 \/ v > 1114111 THEN 65533 ELSE v>> \o Unesc(s, nx, e, str)
    ELSE IF str /\ IsNl(s[i + 1]) THEN Unesc(s, Ws1(s, i + 1), e, str)        \* line continuation inside a string
    ELSE <<s[i + 1]>> \o Unesc(s, i + 2, e, str)
ValueText(s, a, b) == IF s[a] \in {34, 39} THEN Unesc(s, a + 1, b - 1, TRUE) ELSE Unesc(s, a, b, FALSE)

\* ---- single tokens -----------------------------------------------------------
NsOfPrefix(s, a, bar) ==      \* text a .. bar-1 is "" | "*" | IDENT ; bar is the index of "|"
    IF a = bar THEN [t |-> "none"] ELSE IF s[a] = 42 /\ bar = a + 1 THEN [t |-> "any"] ELSE [t |-> "pfx", p |-> Unesc(s, a, bar, FALSE)]
TagAst(s, a, b) ==
    LET np == NsPrefix(s, a)
        withNs == np # 0 /\ TagName(s, np) # 0
        n0 == IF withNs THEN np ELSE a
    IN [k |-> "type", ns |-> IF withNs THEN NsOfPrefix(s, a, np - 1) ELSE [t |-> "bare"],
        name |-> IF s[n0] = 42 THEN <<42>> ELSE Unesc(s, n0, b, FALSE)]
OpOf(s, k) == CASE s[k] = 61 -> "eq" [] s[k] = 126 -> "inc" [] s[k] = 124 -> "dash" [] s[k] = 94 -> "pre"
                [] s[k] = 36 -> "suf" [] s[k] = 42 -> "sub" [] s[k] = 33 -> "ne"
AttrAst(s, a, b) ==
    LET j == SkipWsc(s, a + 1)
        np == NsPrefix(s, j)
        withNs == np # 0 /\ AttrFrom(s, np) # 0
        n0 == IF withNs THEN np ELSE j
        n1 == Ident(s, n0)
        k == SkipWsc(s, n1)
        hasOp == Ch(s, k) = 61 \/ (Ch(s, k) \in {33, 126, 94, 124, 42, 36} /\ Ch(s, k + 1) = 61)
        c2 == IF Ch(s, k) = 61 THEN k + 1 ELSE k + 2
        v0 == SkipWsc(s, c2)
        v1 == Value(s, v0)
        f == SkipWsc(s, v1)
        flagged == hasOp /\ IsCaseFlag(Ch(s, f)) /\ Ch(s, SkipWsc(s, f + 1)) = 93
        nsSpec == IF withNs THEN (IF NsOfPrefix(s, j, np - 1).t = "none" THEN [t |-> "bare"] ELSE NsOfPrefix(s, j, np - 1)) ELSE [t |-> "bare"]
    IN [k |-> "attr", ns |-> nsSpec, name |-> Unesc(s, n0, n1, FALSE),
        op |-> IF hasOp THEN OpOf(s, k) ELSE "ex",
        val |-> IF hasOp THEN ValueText(s, v0, v1) ELSE <<>>,
        flag |-> IF flagged THEN (IF Ch(s, f) \in {105, 73} THEN "i" ELSE "s") ELSE "n"]

NoMatchSimple == {<<58,97,99,116,105,118,101>>, <<58,99,117,114,114,101,110,116>>, <<58,102,111,99,117,115>>, <<58,102,111,99,117,115,45,118,105,115,105,98,108,101>>,
    <<58,102,111,99,117,115,45,119,105,116,104,105,110>>, <<58,102,117,116,117,114,101>>, <<58,104,111,115,116>>, <<58,104,111,118,101,114>>, <<58,108,111,99,97,108,45,108,105,110,107>>,
    <<58,112,97,115,116>>, <<58,112,97,117,115,101,100>>, <<58,112,108,97,121,105,110,103>>, <<58,116,97,114,103,101,116>>, <<58,116,97,114,103,101,116,45,119,105,116,104,105,110>>,
    <<58,117,115,101,114,45,105,110,118,97,108,105,100>>, <<58,118,105,115,105,116,101,100>>}          \* PSEUDO_SIMPLE_NO_MATCH
NoMatchComplex == {<<58,99,117,114,114,101,110,116>>, <<58,104,111,115,116>>, <<58,104,111,115,116,45,99,111,110,116,101,120,116>>}    \* PSEUDO_COMPLEX_NO_MATCH
\* the pseudo-classes the parser defines by a selector text of its own (CSS_LINK, CSS_CHECKED, ...) or by a flag: [k |-> "state", name |-> ":checked"]
StateNames == {<<58,108,105,110,107>>, <<58,97,110,121,45,108,105,110,107>>, <<58,99,104,101,99,107,101,100>>, <<58,100,101,102,97,117,108,116>>, <<58,105,110,100,101,116,101,114,109,105,110,97,116,101>>, <<58,100,105,115,97,98,108,101,100>>, <<58,101,110,97,98,108,101,100>>, <<58,114,101,113,117,105,114,101,100>>, <<58,111,112,116,105,111,110,97,108>>, <<58,112,108,97,99,101,104,111,108,100,101,114,45,115,104,111,119,110>>, <<58,114,101,97,100,45,111,110,108,121>>, <<58,114,101,97,100,45,119,114,105,116,101>>, <<58,105,110,45,114,97,110,103,101>>, <<58,111,117,116,45,111,102,45,114,97,110,103,101>>, <<58,100,101,102,105,110,101,100>>}
KwRoot == <<58,114,111,111,116>>
KwEmpty == <<58,101,109,112,116,121>>
KwScope == <<58,115,99,111,112,101>>
KwFC == <<58,102,105,114,115,116,45,99,104,105,108,100>>
KwLC == <<58,108,97,115,116,45,99,104,105,108,100>>
KwOC == <<58,111,110,108,121,45,99,104,105,108,100>>
KwFT == <<58,102,105,114,115,116,45,111,102,45,116,121,112,101>>
KwLT == <<58,108,97,115,116,45,111,102,45,116,121,112,101>>
KwOT == <<58,111,110,108,121,45,111,102,45,116,121,112,101>>
KwNot == <<58,110,111,116>>
KwIs == <<58,105,115>>
KwWhere == <<58,119,104,101,114,101>>
KwMatches == <<58,109,97,116,99,104,101,115>>
KwHas == <<58,104,97,115>>
KwNthChild == <<58,110,116,104,45,99,104,105,108,100>>
KwNthLastChild == <<58,110,116,104,45,108,97,115,116,45,99,104,105,108,100>>
KwNthType == <<58,110,116,104,45,111,102,45,116,121,112,101>>
SimpleOf(nm) == CASE nm = KwRoot -> "root" [] nm = KwEmpty -> "empty" [] nm = KwScope -> "scope" [] nm = KwFC -> "first-child"
                  [] nm = KwLC -> "last-child" [] nm = KwOC -> "only-child" [] nm = KwFT -> "first-of-type" [] nm = KwLT -> "last-of-type"
                  [] nm = KwOT -> "only-of-type" [] nm \in NoMatchSimple -> "none" [] nm \in StateNames -> "state" [] OTHER -> "unsupported"
FnOf(nm) == CASE nm = KwNot -> "not" [] nm = KwIs -> "is" [] nm = KwWhere -> "where" [] nm = KwMatches -> "matches" [] nm = KwHas -> "has"
              [] nm \in NoMatchComplex -> "nomatch" [] OTHER -> "unsupported"

\* VALUE (WSC* "," WSC* VALUE)* starting at i: the decoded values (parse_pseudo_lang / parse_pseudo_contains walk them with RE_VALUES)
RECURSIVE ValueTexts(_, _)
ValueTexts(s, i) ==
    LET e == Value(s, i)
        c == SkipWsc(s, e)
    IN <<ValueText(s, i, e)>> \o (IF Ch(s, c) = 44 /\ Value(s, SkipWsc(s, c + 1)) # 0 THEN ValueTexts(s, SkipWsc(s, c + 1)) ELSE <<>>)
KwContainsOwn == <<58,45,115,111,117,112,45,99,111,110,116,97,105,110,115,45,111,119,110>>

\* ---- recursive descent over the token sequence --------------------------------
\* results are records [v |-> value, n |-> index of the next token]
RECURSIVE PList(_, _, _, _, _), PComplex(_, _, _, _), PCompound(_, _, _)
Kind(T, i) == IF i <= Len(T) THEN T[i].k ELSE "end"
IsCombTok(s, T, i) == Kind(T, i) = "combine"
RelOf(s, T, i) == LET k == SkipWsc(s, T[i].a) IN IF IsComb(Ch(s, k)) THEN s[k] ELSE 32
CombStr(c) == CASE c = 32 -> " " [] c = 62 -> ">" [] c = 43 -> "+" [] c = 126 -> "~"

\* one compound starting at token i: simple selectors until a combinator, a close or the end
PCompound(s, T, i) ==
    LET RECURSIVE Go(_, _)
        Go(j, acc) ==
            LET k == Kind(T, j) IN
            IF k \in {"combine", "pseudo_close", "end"} THEN [v |-> acc, n |-> j]
            ELSE IF k = "tag" THEN Go(j + 1, Append(acc, TagAst(s, T[j].a, T[j].b)))
            ELSE IF k = "id" THEN Go(j + 1, Append(acc, [k |-> "id", v |-> Unesc(s, T[j].a + 1, T[j].b, FALSE)]))
            ELSE IF k = "class" THEN Go(j + 1, Append(acc, [k |-> "class", v |-> Unesc(s, T[j].a + 1, T[j].b, FALSE)]))
            ELSE IF k = "attribute" THEN Go(j + 1, Append(acc, AttrAst(s, T[j].a, T[j].b)))
            ELSE IF k = "amp" THEN Go(j + 1, Append(acc, [k |-> "amp"]))
            ELSE IF k = "pseudo_class"
                 THEN LET e == PseudoName(s, T[j].a)
                          nm == NameText(s, T[j].a, e)
                      IN IF Ch(s, e) # 40 THEN Go(j + 1, Append(acc, IF SimpleOf(nm) = "state" THEN [k |-> "state", name |-> nm]
                                                                 ELSE IF Len(nm) >= 3 /\ SubSeq(nm, 1, 3) = <<58,45,45>> THEN [k |-> "custom", name |-> nm]     \* dashes written as escapes (F09f)
                                                                 ELSE [k |-> SimpleOf(nm)]))
                         ELSE LET fn == FnOf(nm)
                                  sub == PList(s, T, j + 1, fn = "has", fn \in {"is", "where"})
                              IN IF fn = "nomatch" THEN Go(sub.n + 1, Append(acc, [k |-> "none"]))
                                 ELSE Go(sub.n + 1, Append(acc, [k |-> fn, args |-> sub.v]))
            ELSE IF k \in {"pseudo_nth_child", "pseudo_nth_type"}
                 THEN LET e == PseudoName(s, T[j].a)
                          nm == NameText(s, T[j].a, e)
                          a0 == SkipWsc(s, e + 1)
                          a1 == NthBody(s, a0)
                          ab == ParseNth(SubSeq(s, a0, a1 - 1))
                          isOf == k = "pseudo_nth_child" /\ PseudoClose(s, a1) = 0
                          sub == IF isOf THEN PList(s, T, j + 1, FALSE, FALSE) ELSE [v |-> <<>>, n |-> j]
                          d0 == Digits(s, IF Ch(s, a0) \in {43, 45} THEN a0 + 1 ELSE a0)
                          hasN == ab[1] # 0 \/ LowC(Ch(s, d0)) = 110                  \* "5" is stored (5, no n, 0); "0n+5" as (0, n, 5)
                          base == [k |-> "nth", a |-> ab[1], b |-> ab[2], last |-> nm \in {KwNthLastChild, <<58,110,116,104,45,108,97,115,116,45,111,102,45,116,121,112,101>>},
                                   oftype |-> k = "pseudo_nth_type", of |-> sub.v]
                          node == IF hasN THEN base @@ [raw |-> SubSeq(s, a0, a1 - 1)] ELSE base
                      IN Go((IF isOf THEN sub.n ELSE j) + 1, Append(acc, node))
            ELSE IF k \in {"pseudo_lang", "pseudo_contains"}
                 THEN LET e == PseudoName(s, T[j].a)
                          nm == NameText(s, T[j].a, e)
                          vals == ValueTexts(s, SkipWsc(s, e + 1))
                      IN Go(j + 1, Append(acc, IF k = "pseudo_lang" THEN [k |-> "lang", ranges |-> vals]
                                               ELSE [k |-> "contains", vals |-> vals, own |-> nm = KwContainsOwn]))
            ELSE IF k = "pseudo_class_custom"      \* :--name : css_unescape, then lower case (the key under which the map holds the definition)
                 THEN Go(j + 1, Append(acc, [k |-> "custom", name |-> NameText(s, T[j].a, T[j].b)]))
            ELSE IF k = "pseudo_dir"
                 THEN LET a0 == SkipWsc(s, PseudoName(s, T[j].a) + 1)
                      IN Go(j + 1, Append(acc, [k |-> "dir", d |-> IF LowC(s[a0]) = 108 THEN "ltr" ELSE "rtl"]))
            ELSE [v |-> Append(acc, [k |-> "unsupported"]), n |-> j + 1]
    IN Go(i, <<>>)

\* one complex selector; in a relative list (":has") it may start with a combinator
PComplex(s, T, i, relative) ==
    LET lead == IF relative /\ Kind(T, i) = "combine" /\ RelOf(s, T, i) # 44 THEN CombStr(RelOf(s, T, i)) ELSE " "
        i0 == IF relative /\ Kind(T, i) = "combine" /\ RelOf(s, T, i) # 44 THEN i + 1 ELSE i
        RECURSIVE Go(_, _, _)
        Go(j, cs, cb) ==
            LET c == PCompound(s, T, j) IN
            IF Kind(T, c.n) = "combine" /\ RelOf(s, T, c.n) # 44
            THEN (IF Kind(T, c.n + 1) \in {"pseudo_close", "end"} \/ (Kind(T, c.n + 1) = "combine" /\ RelOf(s, T, c.n + 1) = 44)
                  THEN [cx |-> [cs |-> <<<<[k |-> "none"]>>>>, cb |-> <<>>], n |-> c.n + 1]        \* forgiven alternative ending in a combinator
                  ELSE Go(c.n + 1, Append(cs, c.v), Append(cb, CombStr(RelOf(s, T, c.n)))))
            ELSE [cx |-> [cs |-> Append(cs, IF c.v = <<>> THEN <<[k |-> "none"]>> ELSE c.v), cb |-> cb], n |-> c.n]
        r == Go(i0, <<>>, <<>>)
    IN [v |-> IF relative THEN [comb |-> lead, cx |-> r.cx] ELSE r.cx, n |-> r.n]

\* a comma separated list up to the matching close (or the end of the tokens); n = index of the close token
PList(s, T, i, relative, forgive) ==
    LET RECURSIVE Go(_, _)
        Go(j, acc) ==
            LET c == PComplex(s, T, j, relative) IN
            IF Kind(T, c.n) = "combine" /\ RelOf(s, T, c.n) = 44 THEN Go(c.n + 1, Append(acc, c.v))
            ELSE [v |-> Append(acc, c.v), n |-> c.n]
    IN Go(i, <<>>)

ParseText(s) == PList(s, Lex(s).toks, 1, FALSE, FALSE).v
=============================================================================
