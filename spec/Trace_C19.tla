----------------------------- MODULE Trace_C19 ------------------------------
\* B2 (code -> spec) for C19: validates a trace of query events recorded from the real soupsieve
\* against CssDecl / TextSem.  One ndjson line per event:
\*   [id, doc (Dom record), sel (Seq(Complex)), selalt (the same selector with alt |-> TRUE in every
\*    "contains" record), nsmap, scope, target, res (Seq of node ids)]
\* An event conforms when the recorded result list is exactly the specification's SelectSet in
\* document order under the default reading, or - only when the document has an HTML iframe with
\* text below it, the one situation the property text leaves open - under the alternative reading
\* (TextSem.tla).  The verdict is total: a non-conforming event is reported with
\* PrintT(<<"REJECT", id, expected>>) and validation continues.
EXTENDS CssDecl, TLC, TLCExt, Json, IOUtils, SequencesExt
VARIABLE l

Tr == ndJsonDeserialize(IOEnv.TRACE_FILE)

RECURSIVE SortedSeq(_)
SortedSeq(S) == IF S = {} THEN <<>> ELSE <<Min(S)>> \o SortedSeq(S \ {Min(S)})

ExpectedOf(e, sel) == SortedSeq(SelectSet(e.doc, [nsmap |-> e.nsmap, scope |-> e.scope], sel, e.target))
Expected(e) == ExpectedOf(e, e.sel)
Conforms(e) == \/ e.res = Expected(e)
               \/ TxUndecided(e.doc) # {} /\ e.res = ExpectedOf(e, e.selalt)

Init == l = 0
Next == /\ l < Len(Tr)
        /\ l' = l + 1
        /\ (Conforms(Tr[l + 1]) \/ PrintT(<<"REJECT", Tr[l + 1].id, ToString(Expected(Tr[l + 1]))>>))
\* every line was consumed (one state per event plus the initial state)
Accepted == TLCGet("stats").diameter - 1 = Len(Tr)
=============================================================================
