----------------------------- MODULE MC_C10_lex -----------------------------
\* C10 configuration "lex": the identifier tokenizer of IdentLex.tla run as an explicit state
\* machine, one transition per Step, on Escape(s) followed by a terminator, for every string s of
\* length 1..MaxLen over Alphabet and every terminator.  The behaviours of the machine are what
\* TLC explores here; MC_C10_build uses the same Step function through Run.
\*   TypeOK     the machine state stays well-formed (position within the input, k <= 6, ...)
\*   AtDone     T-EscapeRoundTrip at the final state of every behaviour
\*   RunAgrees  iterating Step from any reachable state gives the result of the whole run
EXTENDS MC_C10_RoundTrip, TLC
CONSTANTS MaxLen, Alphabet
VARIABLES s, term, lx

Strings == UNION {[1..n -> Alphabet] : n \in 1..MaxLen}

Init == /\ s \in Strings
        /\ term \in Terminators
        /\ LexInit(lx, Escape(s) \o term)
Next == /\ LexNext(lx, lx')
        /\ UNCHANGED <<s, term>>

TypeOK == LexTypeOK(lx) /\ lx.input = Escape(s) \o term
AtDone == lx.state = "done" => lx.ok /\ lx.pos - 1 = Len(Escape(s)) /\ lx.value = NulFix(s)
RunAgrees == Run(lx) = Run(Start(lx.input))
=============================================================================
