------------------------------- MODULE Imports -------------------------------
\* Machine M9: CPython's import statement as a state machine, over module bodies given as step
\* sequences (extracted with `ast` from the working tree and from the installed bs4 at check time).
\*   Body[m] = sequence of steps executed when module m is first imported:
\*     [op |-> "imp",  m |-> mod, a |-> "", catch |-> c]   import mod   (parents are separate imp steps before it)
\*     [op |-> "from", m |-> mod, a |-> name, catch |-> c] from mod import name
\*     [op |-> "def",  m |-> "",  a |-> name, catch |-> ""] a name becomes bound in the running module
\*     [op |-> "use",  m |-> mod, a |-> name, catch |-> c] import-time evaluation of mod.name
\*     [op |-> "ambient", m |-> "", a |-> callee, catch |-> c] an import-time call that changes or writes to process-wide state
\*                     (warnings.filterwarnings, sys.setrecursionlimit, print, logging.basicConfig ...): recorded in soft when the
\*                     running module is one of OwnModules ("AmbientState")
\*     [op |-> "probe", m |-> mod, a |-> name, catch |-> c] import-time hasattr/getattr-with-default on mod.name: never raises,
\*                     but its answer differs between a partially and a fully initialised mod ("OrderDependent")
\*   catch: "" | "ImportError" | "Exception": the innermost enclosing try handler of the statement
\* sys.modules status: "absent" -> "running" (on the stack, partially initialised) -> "done".
\* `import m` of a running module returns the partial module at once; `from m import a` needs a bound
\* in m or m.a to be a module present in sys.modules; evaluating m.a needs a bound in m -
\* otherwise ImportError resp. AttributeError, which unwinds the stack (a failed module is removed
\* from sys.modules) until a statement whose handler catches it.
\* T-ImportSafe: every entry script finishes with err = "none".
EXTENDS Naturals, Sequences, FiniteSets
CONSTANTS Body, Modules, ScriptSet, Submodule(_, _), OwnModules
\* OwnModules: the modules of the package under test (side effects of executing THEIR bodies are the package's)
\* Submodule(m, a) = the full name of submodule a of package m if it exists, else ""
VARIABLES script, status, stack, defined, err, events, soft
\* soft: "none", or what made the outcome of the import depend on the order without failing it: a probe that saw a
\* partially initialised module, or an exception that a try handler swallowed

Main == "__main__"
BodyOf(m) == IF m = Main THEN script ELSE Body[m]
Top == stack[Len(stack)]
Covers(c, e) == c = "Exception" \/ (c = "ImportError" /\ e = "ImportError")

Init == /\ script \in ScriptSet
        /\ status = [m \in Modules |-> "absent"]
        /\ stack = <<[m |-> Main, pc |-> 1]>>
        /\ defined = [m \in Modules |-> {}]
        /\ err = "none" /\ events = <<>> /\ soft = "none"

Advance == stack' = [stack EXCEPT ![Len(stack)].pc = @ + 1]
Push(m) == /\ stack' = Append(stack, [m |-> m, pc |-> 1])
           /\ status' = [status EXCEPT ![m] = "running"]
           /\ events' = Append(events, <<"begin", m>>)

\* a module body ran to its end: the module is done and becomes an attribute of its parent package
Return ==
    /\ UNCHANGED soft
    /\ err = "none" /\ Len(stack) > 1 /\ Top.pc > Len(BodyOf(Top.m))
    /\ status' = [status EXCEPT ![Top.m] = "done"]
    /\ stack' = SubSeq(stack, 1, Len(stack) - 1)
    /\ events' = Append(events, <<"end", Top.m>>)
    /\ UNCHANGED <<script, defined, err>>

Exec ==
    /\ err = "none" /\ Top.pc <= Len(BodyOf(Top.m))
    /\ LET st == BodyOf(Top.m)[Top.pc] IN
       /\ soft' = IF st.op = "probe" /\ ~(st.a \in defined[st.m] \/ (Submodule(st.m, st.a) # "" /\ status[Submodule(st.m, st.a)] = "done"))
                  THEN "OrderDependent"
                  ELSE IF st.op = "ambient" /\ Top.m \in OwnModules THEN "AmbientState" ELSE soft
       /\ CASE st.op = "imp" ->
                 IF status[st.m] = "absent" THEN Push(st.m) /\ UNCHANGED <<script, defined, err>>
                 ELSE Advance /\ UNCHANGED <<script, status, defined, err, events>>
            [] st.op = "from" ->
                 IF status[st.m] = "absent" THEN Push(st.m) /\ UNCHANGED <<script, defined, err>>
                 ELSE IF st.a \in defined[st.m] THEN Advance /\ UNCHANGED <<script, status, defined, err, events>>
                 ELSE IF Submodule(st.m, st.a) # "" /\ status[Submodule(st.m, st.a)] = "absent"
                      THEN Push(Submodule(st.m, st.a)) /\ UNCHANGED <<script, defined, err>>
                 ELSE IF Submodule(st.m, st.a) # "" THEN Advance /\ UNCHANGED <<script, status, defined, err, events>>
                 ELSE err' = "ImportError" /\ UNCHANGED <<script, status, stack, defined, events>>
            [] st.op = "use" ->
                 IF st.a \in defined[st.m] \/ (Submodule(st.m, st.a) # "" /\ status[Submodule(st.m, st.a)] = "done")
                 THEN Advance /\ UNCHANGED <<script, status, defined, err, events>>
                 ELSE err' = "AttributeError" /\ UNCHANGED <<script, status, stack, defined, events>>
            [] st.op = "probe" ->
                 IF st.a \in defined[st.m] \/ (Submodule(st.m, st.a) # "" /\ status[Submodule(st.m, st.a)] = "done")
                 THEN Advance /\ UNCHANGED <<script, status, defined, err, events>>
                 ELSE Advance /\ UNCHANGED <<script, status, defined, err, events>>       \* never raises; recorded in soft
            [] st.op = "ambient" -> Advance /\ UNCHANGED <<script, status, defined, err, events>>
            [] st.op = "def" ->
                 /\ defined' = [defined EXCEPT ![Top.m] = @ \cup {st.a}]
                 /\ Advance /\ UNCHANGED <<script, status, err, events>>

\* an exception travels up: the statement that was executing in the top frame may catch it
Unwind ==
    /\ err # "none" /\ Len(stack) >= 1
    /\ LET st == BodyOf(Top.m)[Top.pc] IN
       IF Covers(st.catch, err)
       THEN /\ err' = "none" /\ Advance /\ soft' = "Swallowed" /\ UNCHANGED <<script, status, defined, events>>
       ELSE /\ Len(stack) > 1
            /\ stack' = SubSeq(stack, 1, Len(stack) - 1)
            /\ status' = [status EXCEPT ![Top.m] = "absent"]
            /\ defined' = [defined EXCEPT ![Top.m] = {}]
            /\ events' = Append(events, <<"fail", Top.m>>)
            /\ UNCHANGED <<script, err, soft>>

Next == (Exec \/ Return \/ Unwind) /\ UNCHANGED script
Finished == Len(stack) = 1 /\ (Top.pc > Len(script) \/ (err # "none" /\ ~Covers(script[Top.pc].catch, err)))
ImportSafe == Finished => (err = "none" /\ soft = "none")
=============================================================================
