------------------------------- MODULE MC_C15 --------------------------------
EXTENDS Cache, TLC, Json
\* one random successor per step for `tlc -simulate`
NextSim == \E r \in {RandomElement(1..(NKeys + 3))} :     \* (a LET would re-draw at every use)
           IF r <= NKeys THEN Compile(r)
           ELSE IF r = NKeys + 1 THEN Purge
           ELSE IF r = NKeys + 2 THEN (Pass("pass_same") \/ (Len(cache) = 0 /\ Compile(1)))
           ELSE (Pass("pass_extra") \/ (Len(cache) = 0 /\ Compile(2)))
Emit == Len(obs) < Depth \/ PrintT(ToJson([obs |-> obs]))
=============================================================================
