------------------------------ MODULE CssDecl ------------------------------
(* R stratum: the declarative meaning of a selector, written left to right   *)
(* as Selectors level 3/4 state it.  Nothing here follows the shape of the    *)
(* implementation.                                                            *)
(*                                                                            *)
(* AST.  simple selector = record tagged by k:                                *)
(*   [k |-> "type", ns |-> NsSpec, name |-> Str]     name = "*" for universal *)
(*   [k |-> "id", v |-> Str]   [k |-> "class", v |-> Str]                     *)
(*   [k |-> "attr", ns |-> NsSpec, name |-> Str, op |-> Op, val |-> Str,      *)
(*                  flag |-> "n"|"i"|"s"]                                     *)
(*      Op: "ex" [a]  "eq" =  "ne" !=  "inc" ~=  "dash" |=  "pre" ^=          *)
(*          "suf" $=  "sub" *=                                                *)
(*   [k |-> "not"|"is"|"where"|"matches", args |-> Seq(Complex)]              *)
(*   [k |-> "has", args |-> Seq([comb |-> Comb, cx |-> Complex])]             *)
(*   [k |-> "root"|"empty"|"scope"|"first-child"|"last-child"|"only-child"|   *)
(*          "first-of-type"|"last-of-type"|"only-of-type"|"none"]             *)
(*   [k |-> "nth", a, b, last, oftype, of |-> Seq(Complex)]                   *)
(*   [k |-> "lang", ranges |-> Seq(Str)]   [k |-> "contains", vals, own]      *)
(*   [k |-> "in-range"|"out-of-range"] and the HTML state pseudo-classes      *)
(* NsSpec = [t |-> "bare"] E | [t |-> "none"] |E | [t |-> "any"] *|E |        *)
(*          [t |-> "pfx", p |-> Str] p|E                                      *)
(* compound = Seq(simple); Complex = [cs |-> Seq(compound), cb |-> Seq(Comb)] *)
(* with Len(cb) = Len(cs) - 1; Comb \in {" ", ">", "+", "~"}; list = Seq(Complex) *)
(* env = [nsmap |-> Seq([p |-> Str, u |-> Str]), scope |-> node,              *)
(*        custom |-> Seq([name |-> Str, def |-> Seq(Complex)]) (optional)]     *)
EXTENDS Integers, Sequences, FiniteSets, Str, Dom, Lang, TextSem, HtmlState, Calendar

Bare == [t |-> "bare"]
Star == <<42>>

HasNsEntry(env, p) == \E n \in 1..Len(env.nsmap) : env.nsmap[n].p = p
NsUri(env, p) == env.nsmap[CHOOSE n \in 1..Len(env.nsmap) : env.nsmap[n].p = p].u

ElemNsOk(d, env, spec, i) ==
    CASE spec.t = "bare" -> (HasNsEntry(env, <<>>) => NsOf(d, i) = NsUri(env, <<>>))
      [] spec.t = "none" -> NsOf(d, i) = <<>>
      [] spec.t = "any"  -> TRUE
      [] spec.t = "pfx"  -> HasNsEntry(env, spec.p) /\ NsOf(d, i) = NsUri(env, spec.p)

TypeHolds(d, env, s, i) ==
    /\ ElemNsOk(d, env, s.ns, i)
    /\ (s.name = Star \/ NameKey(d, s.name) = NameKey(d, d.name[i]))

\* ---- attributes -----------------------------------------------------------
AttrNsOk(d, env, spec, a, nm) ==
    CASE spec.t \in {"bare", "none"} -> a.ns = <<>> /\ NameKey(d, a.k) = NameKey(d, nm)
      [] spec.t = "any" -> NameKey(d, a.local) = NameKey(d, nm)
      [] spec.t = "pfx" -> /\ HasNsEntry(env, spec.p) /\ a.ns # <<>> /\ a.ns = NsUri(env, spec.p)
                           /\ NameKey(d, a.local) = NameKey(d, nm)

AttrIdx(d, env, spec, nm, i) ==
    {n \in 1..Len(d.attrs[i]) : AttrNsOk(d, env, spec, d.attrs[i][n], nm)}

TypeAttr == <<116,121,112,101>>
Insensitive(d, nm, flag) == flag = "i" \/ (flag = "n" /\ ~d.xml /\ Lower(nm) = TypeAttr)

OpHolds(op, present, vv, aa) ==
    CASE op = "ex"   -> present
      [] op = "eq"   -> present /\ vv = aa
      [] op = "ne"   -> ~(present /\ vv = aa)
      [] op = "inc"  -> present /\ aa # <<>> /\ ~HasWs(aa) /\ IsWord(vv, aa)
      [] op = "dash" -> present /\ (vv = aa \/ StartsWith(vv, aa \o <<45>>))
      [] op = "pre"  -> present /\ aa # <<>> /\ StartsWith(vv, aa)
      [] op = "suf"  -> present /\ aa # <<>> /\ EndsWith(vv, aa)
      [] op = "sub"  -> present /\ aa # <<>> /\ HasInfix(vv, aa)

\* an attribute selector is existential: SOME attribute designated by the name (under *| several can be: the same local name in different
\* namespaces or in none) has a value that satisfies the operator; != is the negation of = (no such attribute has the value)
AttrHolds(d, env, s, i) ==
    LET idx == AttrIdx(d, env, s.ns, s.name, i)
        ins == Insensitive(d, s.name, s.flag)
        V(n) == IF ins THEN Lower(d.attrs[i][n].v) ELSE d.attrs[i][n].v
        A == IF ins THEN Lower(s.val) ELSE s.val
    IN IF s.op = "ex" THEN idx # {}
       ELSE IF s.op = "ne" THEN ~(\E n \in idx : V(n) = A)
       ELSE \E n \in idx : OpHolds(s.op, TRUE, V(n), A)

IdAttr == <<105,100>>
ClassAttr == <<99,108,97,115,115>>
IdHolds(d, s, i) == s.v \in AttrValSet(d, i, IdAttr)
ClassHolds(d, s, i) == \E v \in AttrValSet(d, i, ClassAttr) : IsWord(v, s.v)

\* ---- tree-structural -----------------------------------------------------
Blocking(d, j) ==   \* a sibling that stops an element from being the lone root
    \/ IsEl(d, j) \/ d.kind[j] = "cd" \/ (IsText(d, j) /\ ~AllWs(d.text[j]))
RootHolds(d, i) ==
    /\ (d.parent[i] = 0 \/ (IsHtml(d) /\ IsIframe(d, d.parent[i])))
    /\ \A j \in Sibs(d, i) : ~Blocking(d, j)
EmptyHolds(d, i) ==
    \A j \in Children(d, i) : ~IsEl(d, j) /\ (IsText(d, j) => AllWs(d.text[j]))

SameType(d, i, j) == NameKey(d, d.name[i]) = NameKey(d, d.name[j]) /\ NsOf(d, i) = NsOf(d, j)

\* An+B: exists n >= 0 with a*n + b = pos (closed form; T-NthClosed checks it
\* against the existential definition in MC_C02)
NthOk(a, b, pos) ==
    IF a = 0 THEN pos = b
    ELSE IF a > 0 THEN pos - b >= 0 /\ (pos - b) % a = 0
    ELSE b - pos >= 0 /\ (b - pos) % (0 - a) = 0
Abs(x) == IF x < 0 THEN 0 - x ELSE x
NthExists(a, b, pos) == \E n \in 0..(pos + Abs(b)) : a * n + b = pos

\* ---- the match relation ---------------------------------------------------
Rel(d, comb, l, r) ==      \* element r stands in relation comb to element l on its left
    CASE comb = " " -> l \in Anc(d, r)
      [] comb = ">" -> d.parent[r] = l
      [] comb = "~" -> l \in PrevElSibs(d, r)
      [] comb = "+" -> PrevElSibs(d, r) # {} /\ l = Max(PrevElSibs(d, r))

HasType(comp) == \E n \in 1..Len(comp) : comp[n].k = "type"

CustomDef(env, nm) == env.custom[CHOOSE n \in 1..Len(env.custom) : env.custom[n].name = nm].def
CustomDefined(env, nm) == \E n \in 1..Len(env.custom) : env.custom[n].name = nm

RECURSIVE MatchS(_, _, _, _), MatchC(_, _, _, _, _), MatchCx(_, _, _, _, _, _, _, _), MatchList(_, _, _, _)

\* i matches compound n of cx and everything to its left; when n = 1 and acomb # ""
\* the left-most element must additionally stand in relation acomb to the anchor
\* (relative selectors of :has()).  top: compound of the outermost list, where a
\* missing type selector is an implied universal subject to the default namespace.
MatchCx(d, env, cx, n, i, top, anchor, acomb) ==
    /\ MatchC(d, env, cx.cs[n], i, top)
    /\ IF n = 1 THEN (acomb = "" \/ Rel(d, acomb, anchor, i))
       ELSE \E j \in Elems(d) : /\ Rel(d, cx.cb[n - 1], j, i)
                                /\ MatchCx(d, env, cx, n - 1, j, top, anchor, acomb)

MatchList(d, env, lst, i) ==
    \E n \in 1..Len(lst) : MatchCx(d, env, lst[n], Len(lst[n].cs), i, FALSE, 0, "")

MatchC(d, env, comp, i, top) ==
    /\ (top /\ ~HasType(comp)) => ElemNsOk(d, env, Bare, i)
    /\ \A n \in 1..Len(comp) : MatchS(d, env, comp[n], i)

NthHolds(d, env, s, i) ==
    LET ofOk(j) == s.of = <<>> \/ MatchList(d, env, s.of, j)
        cands == {j \in ElSibsAndSelf(d, i) : (s.oftype => SameType(d, i, j)) /\ ofOk(j)}
        pos == IF s.last THEN Cardinality({j \in cands : j >= i}) ELSE Cardinality({j \in cands : j <= i})
    IN ofOk(i) /\ NthOk(s.a, s.b, pos)

MatchS(d, env, s, i) ==
    CASE s.k = "type"  -> TypeHolds(d, env, s, i)
      [] s.k = "id"    -> IdHolds(d, s, i)
      [] s.k = "class" -> ClassHolds(d, s, i)
      [] s.k = "attr"  -> AttrHolds(d, env, s, i)
      [] s.k \in {"is", "where", "matches"} -> MatchList(d, env, s.args, i)
      [] s.k = "not"   -> ~MatchList(d, env, s.args, i)
      [] s.k = "has"   -> \E n \in 1..Len(s.args) : \E j \in Elems(d) :
                              MatchCx(d, env, s.args[n].cx, Len(s.args[n].cx.cs), j, FALSE, i, s.args[n].comb)
      [] s.k = "root"  -> RootHolds(d, i)
      [] s.k = "empty" -> EmptyHolds(d, i)
      [] s.k \in {"scope", "amp"} -> i = env.scope      \* :scope and the nesting selector &
      [] s.k = "custom" -> MatchList(d, env, CustomDef(env, s.name), i)   \* :--name, env.custom = Seq([name, def])
      [] s.k = "none"  -> FALSE
      [] s.k = "first-child" -> PrevElSibs(d, i) = {}
      [] s.k = "last-child"  -> NextElSibs(d, i) = {}
      [] s.k = "only-child"  -> ElSibsAndSelf(d, i) = {i}
      [] s.k = "first-of-type" -> \A j \in PrevElSibs(d, i) : ~SameType(d, i, j)
      [] s.k = "last-of-type"  -> \A j \in NextElSibs(d, i) : ~SameType(d, i, j)
      [] s.k = "only-of-type"  -> \A j \in ElSibsAndSelf(d, i) : j # i => ~SameType(d, i, j)
      [] s.k = "nth"   -> NthHolds(d, env, s, i)
      [] s.k = "lang"  -> LangHolds(d, s, i)               \* Lang.tla      [k, ranges |-> Seq(Str)]
      [] s.k = "contains" -> ContainsHolds(d, s, i)        \* TextSem.tla   [k, vals |-> Seq(Str), own |-> BOOLEAN]
      [] s.k \in {"in-range", "out-of-range"} -> RangeHolds(d, s, i)   \* Calendar.tla
      [] OTHER -> StateHolds(d, s, i)                      \* HtmlState.tla: checked, default, ... dir, defined

\* the relation every entry point is a view of
Matches(d, env, lst, i) ==
    IsEl(d, i) /\ \E n \in 1..Len(lst) : MatchCx(d, env, lst[n], Len(lst[n].cs), i, TRUE, 0, "")

\* select(target): element descendants of target (all elements when target = 0,
\* the container), in document order = increasing id
SelectSet(d, env, lst, target) ==
    {i \in (IF target = 0 THEN Elems(d) ELSE ElDesc(d, target)) : Matches(d, env, lst, i)}

NoEnv == [nsmap |-> <<>>, scope |-> 0]
=============================================================================
