------------------------------ MODULE Trace_Parse ------------------------------
\* Binds the composed front end  text --Lexer--> tokens --ParseSel--> AST --Ir!Compile--> IR  to the code:
\* the IR the real parser built for a selector TEXT (projected by harness/irproj.py) must equal the projection of
\* Compile(ParseText(text)).  No AST is handed over by the harness: everything between the characters and the IR is the spec's.
\*   event = [id, text (Seq(Nat)), ir (projected real IR), pool (Seq(Str) attribute value pool), custom (optional: Seq([name, def]) alias map)]
EXTENDS Trace_Ir, IrState
ExpectedP(e) == ProjList(e.pool, IF "custom" \in DOMAIN e THEN CompileTextC(e.text, e.custom) ELSE CompileText(e.text))      \* IrState: state pseudo-classes expanded from their definition texts
InitP == l = 0
NextP == /\ l < Len(Tr)
         /\ l' = l + 1
         /\ (IF Tr[l + 1].ir = ExpectedP(Tr[l + 1]) THEN TRUE ELSE PrintT(<<"REJECT", Tr[l + 1].id, ToString(ExpectedP(Tr[l + 1]))>>))
=============================================================================
