----------------------------- MODULE MC_C18_thm -----------------------------
\* C18 design-level theorems: TLC checks the model itself (no implementation involved).
\* One state per year y in 1..YMax (G lanes side by side); the string-level theorems are evaluated in the state y = 1.
EXTENDS MC_C18_base
CONSTANTS YMax

Init == b \in 1..G /\ doc = NoDoc
Next == b + G <= YMax /\ b' = b + G /\ UNCHANGED doc
y == b

\* T-Calendar: period 400; Gauss's formula is the day count; the year is the sum of its months
ThmPeriod == CalThmPeriod400(y)
ThmJan1 == CalThmJan1(y)
ThmYearLen == CalThmYearLen(y)
\* the Thursday rule is ISO-8601's week count; 52 or 53; 31 December in week 1 => 52 weeks
ThmWeeks == CalThmWeeks(y)
\* 71 long years in every window of 400 years (windows starting in 1..800)
Thm71 == y <= 800 => CalThm71(y)

\* the string layer agrees with the integer layer, for every spelling of the year
Spellings == {YearStr(y), Pad(y, 5), Pad(y, 6), Pad(y, 9)} \cup (IF y >= 1000 THEN {} ELSE {})
ThmStrings ==
    \A ys \in Spellings :
        /\ CalYearOk(ys)
        /\ CalThmRep(ys, y)
        /\ CalCmpDigits(CalStrip(ys), CalStrip(YearStr(y))) = 0
        /\ \A w \in 0..54 : CalValid(CalTWeek, WeekStr(ys, w)) <=> (w >= 1 /\ w <= CalWeeksIn(y))
        /\ \A m \in 0..13 : \A dd \in {0, 1, 28, 29, 30, 31, 32} :
              CalValid(CalTDate, DateStr(ys, m, dd)) <=> (m >= 1 /\ m <= 12 /\ dd >= 1 /\ dd <= CalDaysIn(y, m))
        /\ CalValid(CalTMonth, MonthStr(ys, 12)) /\ ~CalValid(CalTMonth, MonthStr(ys, 13))
\* short spellings are not years; year zero is not a year
ThmShort == /\ (y < 1000 => ~CalYearOk(Pad(y, 3)))
            /\ ~CalYearOk(Pad(0, 4)) /\ ~CalYearOk(Pad(0, 7))
\* years are ordered as numbers whatever their spelling (against every year up to YMax would be
\* quadratic: neighbours, decade / century / digit-length boundaries)
Near == {z \in {y - 1, y + 1, y + 9, y + 10, y * 10, y * 10 + 9, y + 1000, 9999, 10000, 275760} : z >= 1}
ThmYearOrder ==
    \A z \in Near : \A wa \in {4, 6} : \A wb \in {5, 9} :
        (z < 10000 \/ wa = 6) =>
            CalCmpDigits(CalStrip(Pad(z, IF wa = 4 THEN 4 ELSE 6)), CalStrip(Pad(y, wb))) = CalSgn(z - y)

\* ---- evaluated once (y = 1) ------------------------------------------------------
Big9 == {9999, 10000, 12345, 275760, 99999, 100000, 999999}
ThmBigYears == y = 1 => \A z \in Big9 : CalThmRep(YearStr(z), z) /\ CalWeeksIn(z) = CalWeeksIn(CalYearRep(YearStr(z)))
                                        /\ CalLeap(z) = CalLeap(CalYearRep(YearStr(z)))
\* known calendar facts (independent anchors): 2000-01-01 Saturday, 2020 and 2015 long years,
\* 2019 has 52 weeks although 2019-12-31 lies in week 1 of 2020, 1900 is not a leap year
ThmAnchors == y = 1 =>
    /\ CalJan1(2000) = 6 /\ CalJan1(2024) = 1 /\ CalJan1(1) = 1
    /\ CalWeeksIn(2020) = 53 /\ CalWeeksIn(2015) = 53 /\ CalWeeksIn(2026) = 53 /\ CalWeeksIn(2004) = 53
    /\ CalWeeksIn(2019) = 52 /\ CalDec31InNextYear(2019) /\ CalWeeksIn(2021) = 52 /\ CalWeeksIn(2000) = 52
    /\ ~CalLeap(1900) /\ CalLeap(2000) /\ CalLeap(2024) /\ ~CalLeap(2100) /\ CalLeap(4) /\ ~CalLeap(1)
    /\ CalDaysBefore(1970) = 719162

\* total order of the valid values of each type
DatePool == {DateStr(ys, m, dd) : ys \in {Pad(1, 4), Pad(999, 4), Pad(2020, 4), Pad(2020, 5), Pad(10000, 5), Pad(9999, 4)},
                                   m \in {1, 2, 12}, dd \in {1, 29}}
MonthPool == {MonthStr(ys, m) : ys \in {Pad(1, 4), Pad(999, 4), Pad(2020, 4), Pad(2020, 5), Pad(10000, 5), Pad(9999, 4)}, m \in {1, 2, 12, 13}}
WeekPool == {WeekStr(ys, w) : ys \in {Pad(1, 4), Pad(999, 4), Pad(2020, 4), Pad(2020, 5), Pad(10000, 5), Pad(9999, 4)}, w \in {1, 2, 52, 53}}
TimePool == {TimeStr(h, mi) : h \in {0, 1, 12, 23}, mi \in {0, 1, 59}} \cup {TimeStr(12, 0) \o <<58,48,48>>, TimeStr(12, 0) \o <<58,51,48>>,
             TimeStr(12, 0) \o <<58,51,48,46,53>>, TimeStr(12, 0) \o <<58,51,48,46,53,48,48>>, TimeStr(12, 0) \o <<58,51,48,46,48,53>>}
LocalPool == {LocalStr(ds, ts) : ds \in {DateStr(Pad(2020, 4), 2, 29), DateStr(Pad(2020, 5), 2, 29), DateStr(Pad(2020, 4), 3, 1), DateStr(Pad(999, 4), 12, 31)},
                                 ts \in {TimeStr(0, 0), TimeStr(23, 59), TimeStr(12, 0) \o <<58,51,48>>}}
             \cup {DateStr(Pad(2020, 4), 2, 29) \o <<32>> \o TimeStr(0, 0)}
NumPool == {s \o n \o f : s \in {<<>>, <<45>>}, n \in {<<48>>, <<53>>, <<49,48>>, <<48,48,55>>, <<>>}, f \in {<<>>, <<46,53>>, <<46,53,48>>, <<46,48,53>>}}
           \cup {<<49,101,51>>, <<49,48,48,48>>, <<49,69,43,51>>, <<53,101,45,49>>, <<48,46,53>>, <<48,101,53>>, <<49,101,45,51>>, <<48,46,48,48,49>>}
ThmOrder == y = 1 =>
    /\ CalThmOrder(CalTDate, DatePool) /\ CalThmOrder(CalTMonth, MonthPool) /\ CalThmOrder(CalTWeek, WeekPool)
    /\ CalThmOrder(CalTTime, TimePool) /\ CalThmOrder(CalTLocal, LocalPool) /\ CalThmOrder(CalTNumber, NumPool)

\* numbers compare as scaled integers: for -?d{1,3}(.d{1,2})? the order is that of 100 * value
ShortInts == {<<48>>, <<53>>, <<49,48>>, <<48,48,55>>, <<57,57,57>>, <<49>>}
ShortFracs == {<<>>, <<46,53>>, <<46,53,48>>, <<46,48,53>>, <<46,57,57>>, <<46,48>>}
Scaled(neg, n, f) == (IF neg THEN -1 ELSE 1) *
    (100 * CalNat(n) + (IF Len(f) = 0 THEN 0 ELSE IF Len(f) = 2 THEN 10 * (f[2] - 48) ELSE 10 * (f[2] - 48) + (f[3] - 48)))
ThmScaled == y = 1 =>
    \A na \in ShortInts : \A fa \in ShortFracs : \A sa \in BOOLEAN :
    \A nb \in ShortInts : \A fb \in ShortFracs : \A sb \in BOOLEAN :
        LET a == (IF sa THEN <<45>> ELSE <<>>) \o na \o fa
            c == (IF sb THEN <<45>> ELSE <<>>) \o nb \o fb IN
        /\ CalNumPlain(a) /\ CalValid(CalTNumber, a)
        /\ CalCmpNum(CalParseNum(a), CalParseNum(c)) = CalSgn(Scaled(sa, na, fa) - Scaled(sb, nb, fb))
\* exponents shift the point: 1e3 = 1000, 1E+3 = 1000, 5e-1 = 0.5, 0e5 = 0, 1e-3 = 0.001
ThmExp == y = 1 =>
    /\ CalParseNum(<<49,101,51>>) = CalParseNum(<<49,48,48,48>>)
    /\ CalParseNum(<<49,69,43,51>>) = CalParseNum(<<49,48,48,48>>)
    /\ CalParseNum(<<53,101,45,49>>) = CalParseNum(<<48,46,53>>)
    /\ CalParseNum(<<48,101,53>>) = CalParseNum(<<45,48>>)
    /\ CalParseNum(<<49,101,45,51>>) = CalParseNum(<<48,46,48,48,49>>)
    /\ CalParseNum(<<46,53>>) = CalParseNum(<<48,46,53,48>>)
    /\ ~CalValid(CalTNumber, <<53,46>>) /\ ~CalValid(CalTNumber, <<43,53>>) /\ ~CalValid(CalTNumber, <<49,101>>)
\* the decided zone of numbers: plain shapes are valid, hopeless strings are invalid, and the two are disjoint
ThmZones == y = 1 =>
    \A s \in NumPool \cup {<<>>, <<120>>, <<45>>, <<46>>, <<45,46>>, <<43>>, <<32>>, <<32,53>>, <<43,53>>, <<53,46>>, <<46,53>>, <<53,120>>} :
        /\ (CalNumPlain(s) => CalValid(CalTNumber, s))
        /\ (CalNumHopeless(s) => ~CalValid(CalTNumber, s))
        /\ ~(CalNumPlain(s) /\ CalNumHopeless(s))
\* the sign is orthogonal to everything else in a number: an unsigned string is a valid number exactly when "-" followed by it is, and the
\* magnitudes are equal (so a reading that accepts ".5" accepts "-.5", one that rejects "5." rejects "-5.": the law holds in EVERY reading
\* of the undecided zone and is gated on the code by the sign-law part of checks/c18.py)
SignAlphabet == {48, 53, 46, 101, 45, 43}
RECURSIVE StrsUpTo(_)
StrsUpTo(k) == IF k = 0 THEN {<<>>} ELSE LET S == StrsUpTo(k - 1) IN S \cup {Append(x, c) : x \in S, c \in SignAlphabet}
ThmSign == y = 1 =>
    \A s \in {x \in StrsUpTo(4) : x = <<>> \/ x[1] \notin {45, 43}} :
        LET a == CalParseNum(s)  m == CalParseNum(<<45>> \o s) IN
        /\ a.ok = m.ok
        /\ a.ok => (a.ds = m.ds /\ a.e = m.e /\ ~a.neg /\ (m.neg <=> Len(a.ds) > 0))
\* wrapped time ranges: with min 23:00 and max 01:00 exactly the times strictly between max and min are out
T(h, mi) == CalParseTime(TimeStr(h, mi))
ThmWrap == y = 1 =>
    \A h \in 0..23 : \A mi \in {0, 1, 59} :
        /\ CalOut(CalTTime, T(23, 0), T(1, 0), T(h, mi)) <=> ((h = 1 /\ mi > 0) \/ (h > 1 /\ h < 23))
        /\ CalOut(CalTTime, T(1, 0), T(23, 0), T(h, mi)) <=> (h < 1 \/ (h = 23 /\ mi > 0))
        /\ ~CalOut(CalTTime, T(12, 0), T(12, 0), T(12, 0))
        /\ ~CalOut(CalTTime, CalNone, CalNone, T(h, mi))
        /\ ~CalOut(CalTTime, T(1, 0), T(23, 0), CalNone)
=============================================================================
