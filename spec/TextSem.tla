------------------------------ MODULE TextSem ------------------------------
\* C19 (R stratum): which character data the text pseudo-classes see.
\*   s = [k |-> "contains", vals |-> Seq(Str), own |-> BOOLEAN]   (optional field alt |-> BOOLEAN, below)
\*   :-soup-contains(t1, .., tn)      some ti occurs in the concatenation, in document order, of the
\*                                    text nodes among the descendants of the element
\*   :-soup-contains-own(t1, .., tn)  some ti occurs within one single text node that is a direct child
\* Only nodes of kind "t" are text: comments "c", CDATA "cd", processing instructions "pi", doctypes "dt"
\* and declarations "dc" never are.  In HTML documents (Dom!IsHtml: HTML or XHTML) the content of an
\* HTML iframe element is another document: it is cut out of the text of every element the iframe is
\* nested in.  In XML documents that are not XHTML there is no such cut.
\*
\* The property text speaks of a *nested* iframe and leaves open what an iframe element itself sees
\* when it is the subject.  The specification is therefore parameterised: selfcut = TRUE (the reading
\* used unless the selector record says otherwise: an iframe has no content of its own in the host
\* document, as in a browser DOM) or selfcut = FALSE (record field alt = TRUE: only iframes strictly
\* below the subject are cut).  Conformance checks accept either reading for iframe subjects and
\* record which one the code follows.
\*
\* Every operator other than ContainsHolds is prefixed Tx: CssDecl EXTENDS this module together with
\* its siblings (shared name space).
EXTENDS Integers, Sequences, FiniteSets, Str, Dom

\* increasing sequence of a finite set of node ids = document order
RECURSIVE TxSeqOf(_)
TxSeqOf(S) == IF S = {} THEN <<>> ELSE LET m == Min(S) IN <<m>> \o TxSeqOf(S \ {m})

\* the elements on the path from node j up to element i: those strictly between, and i itself
\* when selfcut
TxPath(d, i, j, selfcut) == {k \in Anc(d, j) : i \in Anc(d, k) \/ (selfcut /\ k = i)}
\* j lies inside a nested browsing context as seen from i
TxHidden(d, i, j, selfcut) == IsHtml(d) /\ \E k \in TxPath(d, i, j, selfcut) : IsIframe(d, k)

\* text nodes that make up the text of element i, as a set and in document order
TxTextNodesR(d, i, selfcut) == {j \in Desc(d, i) : IsText(d, j) /\ ~TxHidden(d, i, j, selfcut)}
TxOwnNodesR(d, i, selfcut) == {j \in Children(d, i) : IsText(d, j) /\ ~TxHidden(d, i, j, selfcut)}
TxTexts(d, ids) == [n \in 1..Len(ids) |-> d.text[ids[n]]]

\* the concatenation for the descendant form; the pieces (NOT joined) for the -own form
TxTextOfR(d, i, selfcut) == Concat(TxTexts(d, TxSeqOf(TxTextNodesR(d, i, selfcut))))
TxOwnTextsR(d, i, selfcut) == TxTexts(d, TxSeqOf(TxOwnNodesR(d, i, selfcut)))
TxTextOf(d, i) == TxTextOfR(d, i, TRUE)
TxOwnTexts(d, i) == TxOwnTextsR(d, i, TRUE)

\* one needle.  The empty needle occurs in every string, the empty concatenation included; for the
\* -own form there must still be a text child for it to occur in.
TxDescHas(d, i, v, selfcut) == HasInfix(TxTextOfR(d, i, selfcut), v)
TxOwnHas(d, i, v, selfcut) ==
    LET own == TxOwnTextsR(d, i, selfcut) IN \E m \in 1..Len(own) : HasInfix(own[m], v)

TxSelfCut(s) == ~("alt" \in DOMAIN s /\ s.alt)

\* entry point used by CssDecl!MatchS: any-of over the needle list
ContainsHolds(d, s, i) ==
    \E n \in 1..Len(s.vals) :
        IF s.own THEN TxOwnHas(d, i, s.vals[n], TxSelfCut(s)) ELSE TxDescHas(d, i, s.vals[n], TxSelfCut(s))

\* elements on which the two readings can differ: HTML iframes with some text below them
TxUndecided(d) == {i \in Elems(d) : IsHtml(d) /\ IsIframe(d, i) /\ \E j \in Desc(d, i) : IsText(d, j)}

\* ---- design-level theorems (checked by TLC as INVARIANTs of the MC_C19_* models) -------------
\* T1  a needle found in one own text node is found in the descendant text (own pieces are part
\*     of the concatenation, whatever the iframe situation)
TxThOwnImpliesDesc(d, needles) ==
    \A i \in Elems(d) : \A v \in needles : \A c \in BOOLEAN :
        TxOwnHas(d, i, v, c) => TxDescHas(d, i, v, c)

\* T2  a needle list is the disjunction of its members (any-of, monotonic in the list)
TxThAnyOf(d, needles) ==
    \A i \in Elems(d) : \A v \in needles : \A w \in needles : \A o \in BOOLEAN :
        ContainsHolds(d, [k |-> "contains", vals |-> <<v, w>>, own |-> o], i)
          = (ContainsHolds(d, [k |-> "contains", vals |-> <<v>>, own |-> o], i)
             \/ ContainsHolds(d, [k |-> "contains", vals |-> <<w>>, own |-> o], i))

\* T3  the empty needle: always for the descendant form, exactly "has a (visible) text child" for -own
TxThEmptyNeedle(d) ==
    \A i \in Elems(d) : /\ TxDescHas(d, i, <<>>, TRUE)
                        /\ TxOwnHas(d, i, <<>>, TRUE) = (TxOwnNodesR(d, i, TRUE) # {})

\* T4  the set-based definition of the text agrees with the structural recursion over child rows:
\*     text child -> its data, element child -> its text (nothing for an HTML iframe in an HTML
\*     document), any other node -> nothing
RECURSIVE TxStructText(_, _)
TxStructText(d, i) ==
    LET ch == TxSeqOf(Children(d, i))
        piece(c) == IF IsText(d, c) THEN d.text[c]
                    ELSE IF IsEl(d, c) /\ ~(IsHtml(d) /\ IsIframe(d, c)) THEN TxStructText(d, c)
                    ELSE <<>>
    IN Concat([n \in 1..Len(ch) |-> piece(ch[n])])
TxThStructural(d) ==
    \A i \in Elems(d) : /\ TxTextOfR(d, i, FALSE) = TxStructText(d, i)
                        /\ TxTextOfR(d, i, TRUE) = IF IsHtml(d) /\ IsIframe(d, i) THEN <<>> ELSE TxStructText(d, i)

\* T5  the joined own text is a different thing: joining can only add matches, and it does add
\*     them exactly when a needle spans a boundary (stated as the inclusion only)
TxThJoinWeaker(d, needles) ==
    \A i \in Elems(d) : \A v \in needles :
        TxOwnHas(d, i, v, TRUE) => HasInfix(Concat(TxOwnTextsR(d, i, TRUE)), v)

\* T6  the two readings differ only on TxUndecided
TxThReadings(d, needles) ==
    \A i \in Elems(d) \ TxUndecided(d) : \A v \in needles :
        /\ TxDescHas(d, i, v, TRUE) = TxDescHas(d, i, v, FALSE)
        /\ TxOwnHas(d, i, v, TRUE) = TxOwnHas(d, i, v, FALSE)
=============================================================================
