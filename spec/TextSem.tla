------------------------------ MODULE TextSem ------------------------------
\* C19: :-soup-contains / :-soup-contains-own. s = [k |-> "contains", vals |-> Seq(Str), own |-> BOOLEAN]
\* STUB - to be filled in.  Every operator other than the entry point must carry a module-specific
\* prefix, because CssDecl EXTENDS this module together with its siblings (shared name space).
EXTENDS Integers, Sequences, FiniteSets, Str, Dom

ContainsHolds(d, s, i) == FALSE
=============================================================================
