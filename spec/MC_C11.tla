------------------------------- MODULE MC_C11 --------------------------------
\* C11: name and value case rules follow the document type.  One logical tree (a root with up to
\* MaxKids children) whose tag names, attribute names and attribute values come in lower / UPPER /
\* Mixed case, materialised as an HTML document (case preserved: built through the API), an XML
\* document and an XHTML document (XML builder, XHTML namespace), against selectors spelling the same
\* names and values in each case, with and without the i / s flags.
EXTENDS CssDecl, TLC, Json, SequencesExt
CONSTANTS MaxKids
VARIABLE doc

R == <<114>>
NamesE == {<<97,98>>, <<65,66>>, <<65,98>>}            \* ab AB Ab
T == <<116>>
UT == <<84>>
UTYPE == <<84,89,80,69>>
MTYPE == <<84,121,112,101>>
UCLASS == <<67,76,65,83,83>>
UID == <<73,68>>
VX == <<120,121>>
VUX == <<88,89>>
VMX == <<88,121>>
At(nm, v) == [k |-> nm, ns |-> <<>>, local |-> nm, v |-> v, list |-> FALSE]
AttrChoices == {<<>>} \cup {<<At(nm, v)>> : nm \in {T, UT, TypeAttr, UTYPE, MTYPE, ClassAttr, UCLASS, IdAttr, UID}, v \in {VX, VUX}}

TypeS(n) == [k |-> "type", ns |-> Bare, name |-> n]
AttrS(nm, op, val, fl) == [k |-> "attr", ns |-> Bare, name |-> nm, op |-> op, val |-> val, flag |-> fl]
Cx1(c) == [cs |-> <<c>>, cb |-> <<>>]
PoolSet == {Cx1(<<TypeS(n)>>) : n \in NamesE}
      \cup {Cx1(<<AttrS(nm, "ex", <<>>, "n")>>) : nm \in {T, UT, TypeAttr, UTYPE}}
      \cup {Cx1(<<AttrS(nm, op, v, fl)>>) : nm \in {T, UT, TypeAttr, MTYPE}, op \in {"eq", "inc", "pre", "ne"},
                                            v \in {VX, VUX, VMX}, fl \in {"n", "i", "s"}}
      \cup {Cx1(<<[k |-> "class", v |-> v]>>) : v \in {VX, VUX}}
      \cup {Cx1(<<[k |-> "id", v |-> v]>>) : v \in {VX, VUX}}
      \cup {Cx1(<<TypeS(n), [k |-> "first-of-type"]>>) : n \in {<<97,98>>, <<65,66>>}}
      \cup {[cs |-> <<<<TypeS(R)>>, <<TypeS(n)>>>>, cb |-> <<">">>] : n \in {<<97,98>>, <<65,66>>}}
Pool == SetToSeq(PoolSet)
ASSUME PrintT(ToJson([pool |-> [s \in 1..Len(Pool) |-> <<Pool[s]>>]]))

\* three document types over the same logical tree
Root(mode) == IF mode = "xhtml" THEN AddElemNs(EmptyDoc("doc", TRUE), 0, R, XHTML, <<>>, <<>>)
              ELSE AddElem(EmptyDoc("doc", mode = "xml"), 0, R)
Init == doc \in {Root("html"), Root("xml"), Root("xhtml")}
IsXhtml == doc.xml /\ doc.ns[1] = XHTML
Next == /\ Len(doc.parent) < MaxKids + 1
        /\ \E n \in NamesE, at \in AttrChoices :
             doc' = AddElemNs(doc, 1, n, IF IsXhtml THEN XHTML ELSE <<>>, <<>>, at)

Env == [nsmap |-> <<>>, scope |-> RootOf(doc)]
Rel1(s) == {i \in Elems(doc) : Matches(doc, Env, <<Pool[s]>>, i)}
Res == [s \in 1..Len(Pool) |-> MaskUpTo(Rel1(s), Len(doc.parent))]
Emit == PrintT(ToJson([doc |-> doc, res |-> Res]))
=============================================================================
