----------------------------- MODULE Trace_C18 -----------------------------
\* B2 (code -> spec) for C18: validates a trace of select events recorded from the real soupsieve
\* on random documents of <input> elements against CssDecl / Calendar.  Same event format and the
\* same verdict as Trace_Select (the recorded list must be exactly the specification's SelectSet in
\* document order), restricted to what the property decides: an event whose document contains an
\* element with a string in an underdetermined zone (Calendar!CalGated) is accepted as it is and
\* counted with PrintT(<<"OPEN", id>>).
EXTENDS CssDecl, TLC, TLCExt, Json, IOUtils, SequencesExt
VARIABLE l

Tr == ndJsonDeserialize(IOEnv.TRACE_FILE)
\* Trace_C18_known.cfg substitutes CalLenientWeek53 <- KnownOn: the same validation under the variant
\* reading that describes the open finding F18 (used only to classify events already rejected)
KnownOn == TRUE

RECURSIVE SortedSeq(_)
SortedSeq(S) == IF S = {} THEN <<>> ELSE <<Min(S)>> \o SortedSeq(S \ {Min(S)})

Expected(e) == SortedSeq(SelectSet(e.doc, [nsmap |-> e.nsmap, scope |-> e.scope], e.sel, e.target))
Decided(e) == \A i \in Elems(e.doc) : CalGated(e.doc, i)
Conforms(e) == IF Decided(e) THEN e.res = Expected(e) ELSE PrintT(<<"OPEN", e.id>>)

Init == l = 0
Next == /\ l < Len(Tr)
        /\ l' = l + 1
        /\ (Conforms(Tr[l + 1]) \/ PrintT(<<"REJECT", Tr[l + 1].id, ToString(Expected(Tr[l + 1]))>>))
\* every line was consumed (one state per event plus the initial state)
Accepted == TLCGet("stats").diameter - 1 = Len(Tr)
=============================================================================
