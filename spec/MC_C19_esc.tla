---------------------------- MODULE MC_C19_esc -----------------------------
\* C19 configuration "esc": needles and texts containing the characters that need quoting or
\* escaping when the selector is written down (double quote, single quote, backslash, comma,
\* parenthesis, newline, a backslash followed by hex digits).  One element with a row of 1..MaxRow
\* text nodes (and a comment between them when MaxRow >= 2), HTML and XML.  The harness spells every
\* needle as a double-quoted string, a single-quoted string and with every character hex-escaped.
EXTENDS CssDecl, TLC, Json, SequencesExt
CONSTANTS MaxRow
VARIABLE doc

A == <<97>>
X == <<120>>
XY == <<120,121>>
XQ == <<120,34>>            \* x"
QXQ == <<34,120,34>>        \* "x"
XBY == <<120,92,121>>       \* x\y
XAY == <<120,39,121>>       \* x'y
XCY == <<120,44,121>>       \* x,y
XPY == <<120,41,121>>       \* x)y
XNY == <<120,10,121>>       \* x LF y
B78 == <<92,55,56>>         \* \78  (three characters)
BS == <<92>>                \* a single backslash
Texts == {X, XY, XQ, QXQ, XBY, XAY, XCY, XPY, XNY, B78, BS}
Needles == Texts \cup {<<34>>, <<39>>, <<44>>, <<10>>, <<41>>, <<92,92>>, <<121,41>>, <<32,44,32>>}

Ct(vals, own) == [k |-> "contains", vals |-> vals, own |-> own]
Cx1(c) == [cs |-> <<c>>, cb |-> <<>>]
PoolSet == {Cx1(<<Ct(<<v>>, o)>>) : v \in Needles, o \in BOOLEAN}
      \cup {Cx1(<<Ct(<<v, w>>, FALSE)>>) : v \in {XQ, XCY, BS}, w \in {XBY, <<44>>, <<39>>}}
Pool == SetToSeq(PoolSet)
ASSUME PrintT(ToJson([pool |-> [s \in 1..Len(Pool) |-> <<Pool[s]>>]]))

Init == doc \in {AddElem(EmptyDoc("doc", xml), 0, A) : xml \in BOOLEAN}
Next == /\ Cardinality(Children(doc, 1)) < MaxRow
        /\ \/ \E tx \in Texts : doc' = AddData(doc, 1, "t", tx)
           \/ /\ doc.kind[Len(doc.parent)] = "t"      \* a comment only between / after text nodes
              /\ doc' = AddData(doc, 1, "c", X)

Env == [nsmap |-> <<>>, scope |-> RootOf(doc)]
RelOf(cx) == {i \in Elems(doc) : Matches(doc, Env, <<cx>>, i)}
Res == [s \in 1..Len(Pool) |-> MaskUpTo(RelOf(Pool[s]), Len(doc.parent))]
Emit == PrintT(ToJson([doc |-> doc, res |-> Res, alt |-> <<>>]))

ThOwnImpliesDesc == TxThOwnImpliesDesc(doc, Needles)
ThJoinWeaker == TxThJoinWeaker(doc, Needles)
=============================================================================
