----------------------------- MODULE MC_C06_chars -----------------------------
\* C06 generator (a): every string of at most MaxLen symbols over a character-CLASS alphabet; the
\* harness concretises each class with several representative code points and places the string bare
\* and inside each of the syntactic contexts.  The oracle is the outcome class of compile().
EXTENDS Naturals, Sequences, TLC, Json
CONSTANTS MaxLen, Classes
VARIABLE s
Init == s = <<>>
Next == Len(s) < MaxLen /\ \E c \in Classes : s' = Append(s, c)
NextSim == Len(s) < MaxLen /\ s' = Append(s, RandomElement(Classes))      \* one successor per step, for -simulate
Emit == PrintT(ToJson([s |-> s]))
=============================================================================
