---------------------------- MODULE MC_C17_indet ----------------------------
\* C17 configuration "indet": forms, neutral containers and iframes (an iframe holds one document:
\* at most one child) with radio buttons of group names g / h / none / "", checked or not, type
\* in upper case, and a checked checkbox sharing the group name, against :indeterminate and
\* :checked.  Focus: the radio group = same name, same form owner (or none), same document.
EXTENDS CssDecl, TLC, Json, SequencesExt
CONSTANTS MaxNodes, MaxDepth, Rich
VARIABLE doc

At(nm, v) == [k |-> nm, ns |-> <<>>, local |-> nm, v |-> v, list |-> FALSE]
G == <<103>>
H == <<104>>
RADIOUP == <<82,65,68,73,79>>                      \* "RADIO"
Ty(v) == At(HsAType, v)
Nm(v) == At(HsAName, v)
Ck == At(HsAChecked, <<>>)
Containers == {HsNForm, HsNDiv, HsNIframe}
Leaves == { <<HsNInput, <<Ty(HsVRadio), Nm(G)>>>>,
            <<HsNInput, <<Ty(HsVRadio), Nm(G), Ck>>>>,
            <<HsNInput, <<Nm(H), Ck, Ty(RADIOUP)>>>>,
            <<HsNInput, <<Ty(HsVRadio)>>>>,                            \* no name
            <<HsNInput, <<Ty(HsVRadio), Nm(<<>>), Ck>>>>,              \* empty name, checked
            <<HsNInput, <<Ty(HsVCheckbox), Nm(G), Ck>>>> }             \* not a radio button
     \cup (IF Rich THEN { <<HsNInput, <<Ty(HsVRadio), Nm(<<>>)>>>>,
                          <<HsNInput, <<Ty(HsVRadio), Nm(H)>>>>,
                          <<HsNInput, <<Nm(G), Ck>>>> }                \* no type: not a radio button
           ELSE {})
Templates == {<<c, <<>>>> : c \in Containers} \cup Leaves

Cx1(c) == [cs |-> <<c>>, cb |-> <<>>]
Pool == << Cx1(<<HsK("indeterminate")>>), Cx1(<<HsK("checked")>>) >>
ASSUME PrintT(ToJson([pool |-> [s \in 1..Len(Pool) |-> <<Pool[s]>>]]))

DepthOf(p) == IF p = 0 THEN 0 ELSE Cardinality(Anc(doc, p)) + 1
CanHold(p) == IF p = 0 THEN TRUE
              ELSE /\ doc.name[p] \in Containers
                   /\ doc.name[p] = HsNIframe => Children(doc, p) = {}
Init == doc = EmptyDoc("doc", FALSE)
Next == /\ Len(doc.parent) < MaxNodes
        /\ \E p \in Spine(doc) : \E t \in Templates :
             /\ CanHold(p) /\ DepthOf(p) < MaxDepth
             /\ doc' = AddElemA(doc, p, t[1], t[2])

Env == [nsmap |-> <<>>, scope |-> RootOf(doc)]
Rel1(s) == {i \in Elems(doc) : Matches(doc, Env, <<Pool[s]>>, i)}
Res == [s \in 1..Len(Pool) |-> MaskUpTo(Rel1(s), Len(doc.parent))]
Emit == PrintT(ToJson([doc |-> doc, res |-> Res]))

ThGroup == HsThGroup(doc)
ThBoundary == HsThBoundary(doc)

\* T-StateDefs: the library's definition TEXTS of the state pseudo-classes (StateDefsGen, from the tree under test), parsed and compiled by the
\* specification's front end and evaluated by the matcher of Ir.tla, designate exactly what HtmlState.tla says
ST == INSTANCE IrState
SD == ST!FlaggedLists          \* constant of THIS module: evaluated once at start-up (see IrState)
ASSUME DOMAIN SD # {}
ThStateDefs == ST!StateDefsHoldL(SD, doc, [nsmap |-> <<>>, scope |-> RootOf(doc)])
=============================================================================
