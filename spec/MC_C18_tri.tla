----------------------------- MODULE MC_C18_tri -----------------------------
\* C18 configuration "tri": the order of calendar values and the element conditions.
\*   per type six valid spellings in increasing order (two of them equal: a five-digit spelling
\*   02020 of the year 2020; one below year 1000, one above 9999), one invalid, and missing:
\*   every (min, max, value) triple, i.e. also min > max (for time: ranges wrapping midnight)
\*   structure documents: which elements are candidates at all (tag name, type keyword and its
\*   case, presence of min / max, attribute-name case) in an HTML, an XML and an XHTML document
EXTENDS MC_C18_base
CONSTANTS BatchSize

DateV == <<
   <<48,48,48,49,45,48,49,45,48,49>>,                           \* '0001-01-01'
   <<48,57,57,57,45,49,50,45,51,49>>,                           \* '0999-12-31'
   <<50,48,50,48,45,48,50,45,50,57>>,                           \* '2020-02-29'
   <<48,50,48,50,48,45,48,50,45,50,57>>,                        \* '02020-02-29'
   <<50,48,50,48,45,48,51,45,48,49>>,                           \* '2020-03-01'
   <<49,48,48,48,48,45,48,49,45,48,49>>,                        \* '10000-01-01'
   <<50,48,49,57,45,48,50,45,50,57>> >>                         \* '2019-02-29'  invalid
MonthV == <<
   <<48,48,48,49,45,48,49>>,                                    \* '0001-01'
   <<48,57,57,57,45,49,50>>,                                    \* '0999-12'
   <<50,48,50,48,45,48,50>>,                                    \* '2020-02'
   <<48,50,48,50,48,45,48,50>>,                                 \* '02020-02'
   <<50,48,50,48,45,49,49>>,                                    \* '2020-11'
   <<49,48,48,48,48,45,48,49>>,                                 \* '10000-01'
   <<50,48,50,48,45,49,51>> >>                                  \* '2020-13'  invalid
WeekV == <<
   <<48,48,48,49,45,87,48,49>>,                                 \* '0001-W01'
   <<48,57,57,57,45,87,53,50>>,                                 \* '0999-W52'
   <<50,48,50,48,45,87,53,51>>,                                 \* '2020-W53'
   <<48,50,48,50,48,45,87,53,51>>,                              \* '02020-W53'
   <<50,48,50,49,45,87,48,49>>,                                 \* '2021-W01'
   <<49,48,48,48,48,45,87,48,49>>,                              \* '10000-W01'
   <<50,48,49,57,45,87,53,51>> >>                               \* '2019-W53'  invalid: 2019 has 52 weeks
TimeV == <<
   <<48,48,58,48,48>>,                                          \* '00:00'
   <<48,56,58,51,48>>,                                          \* '08:30'
   <<49,50,58,48,48>>,                                          \* '12:00'
   <<49,55,58,52,53>>,                                          \* '17:45'
   <<50,51,58,53,56>>,                                          \* '23:58'
   <<50,51,58,53,57>>,                                          \* '23:59'
   <<50,52,58,48,48>> >>                                        \* '24:00'  invalid
LocalV == <<
   <<48,48,48,49,45,48,49,45,48,49,84,48,48,58,48,48>>,         \* '0001-01-01T00:00'
   <<50,48,50,48,45,48,50,45,50,57,84,50,51,58,53,57>>,         \* '2020-02-29T23:59'
   <<48,50,48,50,48,45,48,50,45,50,57,84,50,51,58,53,57>>,      \* '02020-02-29T23:59'
   <<50,48,50,48,45,48,51,45,48,49,84,48,48,58,48,48>>,         \* '2020-03-01T00:00'
   <<50,48,50,48,45,48,51,45,48,49,84,48,48,58,48,49>>,         \* '2020-03-01T00:01'
   <<49,48,48,48,48,45,48,49,45,48,49,84,48,48,58,48,48>>,      \* '10000-01-01T00:00'
   <<50,48,50,48,45,48,50,45,51,48,84,48,48,58,48,48>> >>       \* '2020-02-30T00:00'  invalid
\* the pools are what they claim to be: six valid spellings in non-decreasing order, then an invalid one
PoolOk(t, V) == /\ \A n \in 1..6 : CalValid(t, V[n])
                /\ ~CalValid(t, V[7])
                /\ \A n \in 1..5 : CalCmp(t, CalParse(t, V[n]), CalParse(t, V[n + 1])) <= 0
                /\ CalCmp(t, CalParse(t, V[1]), CalParse(t, V[6])) < 0
ASSUME PoolOk(CalTDate, DateV) /\ PoolOk(CalTMonth, MonthV) /\ PoolOk(CalTWeek, WeekV)
       /\ PoolOk(CalTTime, TimeV) /\ PoolOk(CalTLocal, LocalV)

OptsOf(V) == {Missing} \cup {Some(V[n]) : n \in 1..Len(V)}
TriplesOf(t, V) == SetToSeq({In(Some(t), mn, mx, v) : mn \in OptsOf(V), mx \in OptsOf(V), v \in OptsOf(V)})
Cases == TriplesOf(CalTDate, DateV) \o TriplesOf(CalTMonth, MonthV) \o TriplesOf(CalTWeek, WeekV)
         \o TriplesOf(CalTTime, TimeV) \o TriplesOf(CalTLocal, LocalV)
NB == NumBatches(Len(Cases), BatchSize)

\* ---- structure documents -------------------------------------------------------
D1 == <<50,48,50,48,45,48,49,45,48,49>>          \* '2020-01-01'
D0 == <<50,48,49,57,45,49,50,45,51,49>>          \* '2019-12-31'
D2 == <<50,48,50,48,45,48,54,45,48,49>>          \* '2020-06-01'
X == <<120>>
SVG == <<104,116,116,112,58,47,47,119,119,119,46,119,51,46,111,114,103,47,50,48,48,48,47,115,118,103>>
WithType(ts) == In(Some(ts), Some(D1), Missing, Some(D0))          \* out of range when ts is a date type
Named(nm) == Elt(nm, WithType(CalTDate).attrs)
Keyed(kmin, kmax, kval) == Elt(CalInput, <<At(CalAType, CalTDate), At(kmin, D1), At(kmax, D2), At(kval, D0)>>)
\* spelling variants only an HTML document folds
Folded == <<
   WithType(<<68,65,84,69>>),                     \* type=DATE
   WithType(<<68,97,116,101>>),                   \* type=Date
   WithType(<<100,65,84,101>>),                   \* type=dATe
   In(Some(<<87,69,69,75>>), Some(<<50,48,50,48,45,87,53,51>>), Missing, Some(<<50,48,50,48,45,87,48,49>>)),   \* type=WEEK
   In(Some(<<78,117,109,98,101,114>>), Missing, Some(<<53>>), Some(<<55>>)),                                   \* type=Number
   Named(<<73,78,80,85,84>>),                     \* INPUT
   Keyed(<<77,73,78>>, CalAMax, CalAValue),       \* MIN=
   Keyed(CalAMin, <<77,97,120>>, CalAValue),      \* Max=
   Keyed(CalAMin, CalAMax, <<86,65,76,85,69>>),   \* VALUE=
   Elt(CalInput, <<At(<<84,89,80,69>>, CalTDate), At(CalAMin, D1), At(CalAValue, D0)>>) >>                    \* TYPE=
Plainly == <<
   WithType(CalTDate),
   In(Some(CalTDate), Some(D1), Missing, Some(D2)),                 \* in range
   WithType(<<116,101,120,116>>),                 \* type=text
   WithType(<<100,97,116,101,116,105,109,101>>),  \* type=datetime
   WithType(<<32,100,97,116,101>>),               \* type=' date'
   WithType(<<100,97,116,101,32>>),               \* type='date '
   WithType(<<>>),                                \* type=''
   Named(<<112>>),                                \* p
   Named(<<115,101,108,101,99,116>>),             \* select
   Named(<<105,110,112,117,116,120>>),            \* inputx
   In(Some(CalTDate), Missing, Missing, Some(D0)),                  \* no min, no max
   In(Some(CalTDate), Some(<<>>), Some(D2), Some(D0)),              \* min=''
   In(Some(CalTDate), Some(D1), Missing, Some(<<>>)),               \* value=''
   In(Some(CalTDate), Some(D1), Missing, Missing),                  \* no value
   In(Some(CalTDate), Missing, Some(X), Some(D0)),                  \* only an invalid max
   In(Some(CalTDate), Some(X), Some(X), Some(D0)),                  \* both bounds invalid
   In(Some(CalTDate), Some(X), Some(D1), Some(D2)),                 \* invalid min, valid max
   In(Some(CalTNumber), Some(D1), Missing, Some(D0)),               \* a date under type=number
   In(Some(CalTDate), Some(<<53>>), Missing, Some(<<51>>)),         \* numbers under type=date
   In(Some(CalTMonth), Some(D1), Missing, Some(D0)),                \* a date under type=month
   In(Some(CalTLocal), Some(D1), Missing, Some(D0)),
   In(Some(CalTRange), Some(<<53>>), Missing, Some(<<51>>)),
   In(Some(CalTNumber), Missing, Some(<<53>>), Some(<<55>>)) >>
NStruct == 5
StructDoc(k) ==
    CASE k = 1 -> MkDoc(Plainly \o Folded, FALSE, <<>>)          \* HTML
      [] k = 2 -> MkDoc(Plainly \o Folded, TRUE, <<>>)           \* XML without namespaces: nothing is an HTML input
      [] k = 3 -> MkDoc(Plainly, TRUE, XHTML)                    \* XHTML
      [] k = 4 -> MkDoc(Plainly \o SubSeq(Folded, 1, 9), TRUE, XHTML)   \* XHTML with folded spellings (type spellings not gated;
                                                                 \* no TYPE= key: an XML input without a type attribute is C08's F08)
      [] k = 5 -> MkDoc(Plainly, TRUE, SVG)                      \* XML, foreign namespace
ASSUME PrintT(<<"cases", Len(Cases), "batches", NB, "structure", NStruct>>)

Init == BInit
Next == BNext(NB + NStruct)
        /\ doc' = (IF b' <= 0 THEN NoDoc
                   ELSE IF b' <= NB THEN MkDoc(BatchOf(Cases, BatchSize, b'), FALSE, <<>>)
                   ELSE StructDoc(b' - NB))
Emit == b <= 0 \/ PrintT(ToJson(Answer(doc)))
Law == b <= 0 \/ Laws(doc)
=============================================================================
