---- MODULE MC_C07_selftest_poly ----
\* Hand-written automaton of x*x*y: ambiguous (an x can belong to either loop, degree-1 polynomial
\* ambiguity) but not exponentially: once a copy has moved to the second loop it cannot come back.
\* NoEDA must hold: the criterion does not flag polynomial ambiguity.
EXTENDS RegexAmb
MC_N == 3
MC_K == 2
MC_M == 5
MC_Anchors == {1, 2}
MC_Out == << {<<1, 1, 1>>, <<1, 2, 2>>, <<2, 3, 3>>},
             {<<1, 2, 4>>, <<2, 3, 5>>},
             {} >>
====
