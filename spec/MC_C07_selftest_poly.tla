---- MODULE MC_C07_selftest_poly ----
\* Hand-written automaton of x*x*y: ambiguous (an x can belong to either loop: polynomial ambiguity)
\* but not exponentially: once a copy has moved to the second loop it cannot come back.
\* NoEDA must hold: the criterion does not flag polynomial ambiguity.
EXTENDS Naturals
VARIABLES a, p1, p2, dv
MC_N == 3
MC_K == 2
MC_Anchors == {1, 2}
MC_Out == << << {<<1, 1>>, <<2, 1>>}, {<<3, 1>>} >>,
             << {<<2, 1>>}, {<<3, 1>>} >>,
             << {}, {} >> >>
INSTANCE RegexAmb WITH N <- MC_N, K <- MC_K, Out <- MC_Out, Anchors <- MC_Anchors
====
