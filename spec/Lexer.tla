-------------------------------- MODULE Lexer --------------------------------
\* Machine M2: the tokenizer loop of selector_iter over code-point sequences, one scanner per token
\* pattern, tried in the order of CSSParser.css_tokens.  A scanner X(s, i) returns the index just after the
\* match that starts at index i (1-based), or 0 when the pattern does not match there.  The scanners are
\* deterministic readings of the regular expressions (after the repair that made them unambiguous); where
\* a regular expression relies on backtracking (namespace prefix vs. "|=", lazy whitespace in front of a
\* combinator) the rule is spelled out.
\*   Lex(s) = [toks |-> sequence of [k |-> kind, a |-> start, b |-> end], err |-> 0 or the index of the first
\*             character no token pattern matches]
\* T-Spelling (checked by MC_C09_lex): every respelling Spelling.tla generates lexes to the same kind sequence
\* as the canonical spelling.
EXTENDS Naturals, Sequences, FiniteSets, Str

Ch(s, i) == IF i >= 1 /\ i <= Len(s) THEN s[i] ELSE 0 - 1
IsHex(c) == (c >= 48 /\ c <= 57) \/ (c >= 97 /\ c <= 102) \/ (c >= 65 /\ c <= 70)
IsDig(c) == c >= 48 /\ c <= 57
IsNl(c) == c \in {10, 12, 13}
IsWsC(c) == c \in {32, 9, 10, 12, 13}
IsAlpha(c) == (c >= 97 /\ c <= 122) \/ (c >= 65 /\ c <= 90)
NmStart(c) == IsAlpha(c) \/ c = 95 \/ c >= 128
NmChar(c) == NmStart(c) \/ IsDig(c) \/ c = 45
LowC(c) == IF c >= 65 /\ c <= 90 THEN c + 32 ELSE c

\* one whitespace unit: CR LF counts as one
Ws1(s, i) == IF Ch(s, i) = 13 /\ Ch(s, i + 1) = 10 THEN i + 2 ELSE IF IsWsC(Ch(s, i)) THEN i + 1 ELSE 0
\* a terminated comment
RECURSIVE CommentEnd(_, _)
CommentEnd(s, j) == IF j + 1 > Len(s) THEN 0 ELSE IF s[j] = 42 /\ s[j + 1] = 47 THEN j + 2 ELSE CommentEnd(s, j + 1)
Comment1(s, i) == IF Ch(s, i) = 47 /\ Ch(s, i + 1) = 42 THEN CommentEnd(s, i + 2) ELSE 0
Wsc1(s, i) == IF Ws1(s, i) # 0 THEN Ws1(s, i) ELSE Comment1(s, i)
RECURSIVE SkipWsc(_, _)
SkipWsc(s, i) == IF Wsc1(s, i) # 0 THEN SkipWsc(s, Wsc1(s, i)) ELSE i
RECURSIVE SkipComments(_, _)
SkipComments(s, i) == IF Comment1(s, i) # 0 THEN SkipComments(s, Comment1(s, i)) ELSE i

\* escapes: "\" hex{1,6} [one whitespace] | "\" non-hex non-newline | "\" at the end of input (identifiers) | "\" newline (strings)
RECURSIVE HexRun(_, _, _)
HexRun(s, i, n) == IF n < 6 /\ IsHex(Ch(s, i)) THEN HexRun(s, i + 1, n + 1) ELSE i
EscapeEnd(s, i, inString) ==        \* i points at the backslash
    IF Ch(s, i) # 92 THEN 0
    ELSE IF IsHex(Ch(s, i + 1))
         THEN LET h == HexRun(s, i + 1, 0) IN IF Ws1(s, h) # 0 THEN Ws1(s, h) ELSE h
    ELSE IF i + 1 > Len(s) THEN (IF inString THEN 0 ELSE i + 1)
    \* ("$" in the regular expression also matches before a final line feed: "\" LF at the very end counts as "\" at the end)
    ELSE IF ~inString /\ i + 1 = Len(s) /\ Ch(s, i + 1) = 10 THEN i + 1
    ELSE IF IsNl(Ch(s, i + 1)) THEN (IF inString THEN Ws1(s, i + 1) ELSE 0)
    ELSE i + 2

RECURSIVE IdentTail(_, _)
IdentTail(s, i) == IF NmChar(Ch(s, i)) THEN IdentTail(s, i + 1)
                   ELSE IF EscapeEnd(s, i, FALSE) # 0 THEN IdentTail(s, EscapeEnd(s, i, FALSE))
                   ELSE i
Ident(s, i) ==
    IF Ch(s, i) = 45 /\ Ch(s, i + 1) = 45 THEN IdentTail(s, i + 2)
    ELSE LET j == IF Ch(s, i) = 45 THEN i + 1 ELSE i IN
         IF NmStart(Ch(s, j)) THEN IdentTail(s, j + 1)
         ELSE IF EscapeEnd(s, j, FALSE) # 0 THEN IdentTail(s, EscapeEnd(s, j, FALSE))
         ELSE 0

RECURSIVE StringBody(_, _, _)
StringBody(s, i, q) ==      \* index after the closing quote, 0 when unterminated / raw newline
    IF i > Len(s) THEN 0
    ELSE IF s[i] = q THEN i + 1
    ELSE IF s[i] = 92 THEN (IF EscapeEnd(s, i, TRUE) # 0 THEN StringBody(s, EscapeEnd(s, i, TRUE), q) ELSE 0)
    ELSE IF IsNl(s[i]) THEN 0
    ELSE StringBody(s, i + 1, q)
Value(s, i) == IF Ch(s, i) \in {34, 39} THEN StringBody(s, i + 1, s[i]) ELSE Ident(s, i)

\* namespace prefix "(IDENT | *)? |" followed by something that makes the rest match (name(s, j) # 0)
NsPrefix(s, i) == LET j == IF Ch(s, i) = 42 THEN i + 1 ELSE IF Ident(s, i) # 0 THEN Ident(s, i) ELSE i
                  IN IF Ch(s, j) = 124 THEN j + 1 ELSE 0
TagName(s, i) == IF Ch(s, i) = 42 THEN i + 1 ELSE Ident(s, i)
Tag(s, i) == IF NsPrefix(s, i) # 0 /\ TagName(s, NsPrefix(s, i)) # 0 THEN TagName(s, NsPrefix(s, i)) ELSE TagName(s, i)

IsCaseFlag(c) == c \in {105, 73, 115, 83, 383, 304, 305}     \* [is] under re.I | re.U (incl. U+017F, U+0130, U+0131)
AttrRest(s, i) ==        \* after the attribute name: optional comparison, then WSC* "]"
    LET k == SkipWsc(s, i)
        c2 == IF Ch(s, k) \in {33, 126, 94, 124, 42, 36} /\ Ch(s, k + 1) = 61 THEN k + 2 ELSE IF Ch(s, k) = 61 THEN k + 1 ELSE 0
        close(j) == IF Ch(s, SkipWsc(s, j)) = 93 THEN SkipWsc(s, j) + 1 ELSE 0
    IN IF c2 = 0 THEN close(i)
       ELSE LET v == Value(s, SkipWsc(s, c2)) IN
            IF v = 0 THEN close(i)      \* (no comparison after all: only "]" can follow, which fails at the operator)
            ELSE LET f == SkipWsc(s, v) IN
                 IF IsCaseFlag(Ch(s, f)) /\ close(f + 1) # 0 THEN close(f + 1) ELSE close(v)
AttrFrom(s, j) == IF Ident(s, j) # 0 THEN AttrRest(s, Ident(s, j)) ELSE 0
Attr(s, i) == IF Ch(s, i) # 91 THEN 0
              ELSE LET j == SkipWsc(s, i + 1) IN
                   IF NsPrefix(s, j) # 0 /\ AttrFrom(s, NsPrefix(s, j)) # 0 THEN AttrFrom(s, NsPrefix(s, j)) ELSE AttrFrom(s, j)

PseudoClose(s, i) == IF Ch(s, SkipWsc(s, i)) = 41 THEN SkipWsc(s, i) + 1 ELSE 0
\* ":" IDENT [ "(" WSC* ]   -> <<end, opened>>
PseudoName(s, i) == IF Ch(s, i) = 58 /\ Ident(s, i + 1) # 0 THEN Ident(s, i + 1) ELSE 0
PseudoClass(s, i) == LET e == PseudoName(s, i) IN IF e = 0 THEN 0 ELSE IF Ch(s, e) = 40 THEN SkipWsc(s, e + 1) ELSE e
PseudoCustom(s, i) == IF Ch(s, i) = 58 /\ Ch(s, i + 1) = 45 /\ Ch(s, i + 2) = 45 THEN PseudoName(s, i) ELSE 0
PseudoElement(s, i) == IF Ch(s, i) = 58 THEN PseudoClass(s, i + 1) ELSE 0
AtRule(s, i) == IF Ch(s, i) = 64 /\ LowC(Ch(s, i + 1)) = 112 THEN Ident(s, i + 2) ELSE 0
IdTok(s, i) == IF Ch(s, i) = 35 THEN Ident(s, i + 1) ELSE 0
ClassTok(s, i) == IF Ch(s, i) = 46 THEN Ident(s, i + 1) ELSE 0
Amp(s, i) == IF Ch(s, i) = 38 THEN i + 1 ELSE 0

\* combinator: lazily skipped WSC, then a combinator character, or - when none follows the whole run - the first
\* whitespace unit of the run (a run of comments only is not a combinator)
RECURSIVE FirstWs(_, _)
FirstWs(s, i) == IF Ws1(s, i) # 0 THEN i ELSE IF Comment1(s, i) # 0 THEN FirstWs(s, Comment1(s, i)) ELSE 0
IsComb(c) == c \in {44, 43, 62, 126}
Combine(s, i) == LET k == SkipWsc(s, i) IN
                 IF IsComb(Ch(s, k)) THEN SkipWsc(s, k + 1)
                 ELSE IF FirstWs(s, i) # 0 THEN k ELSE 0
CombineRel(s, i) == LET k == SkipWsc(s, i) IN IF IsComb(Ch(s, k)) THEN <<Ch(s, k)>> ELSE <<32>>

\* ---- the five special pseudo-class patterns ---------------------------------
\* decoded, lower-cased name of ":" IDENT (escapes resolved) - only what the dispatcher needs: plain ASCII names
RECURSIVE NameText(_, _, _)
NameText(s, i, e) == IF i >= e THEN <<>>
                     ELSE IF s[i] = 92 /\ IsHex(Ch(s, i + 1))
                          THEN LET h == HexRun(s, i + 1, 0)
                                   RECURSIVE HexVal(_, _)
                                   HexVal(j, acc) == IF j >= h THEN acc
                                                     ELSE HexVal(j + 1, acc * 16 + (IF IsDig(s[j]) THEN s[j] - 48 ELSE LowC(s[j]) - 87))
                               IN <<LowC(HexVal(i + 1, 0))>> \o NameText(s, EscapeEnd(s, i, FALSE), e)
                     ELSE IF s[i] = 92 THEN <<LowC(Ch(s, i + 1))>> \o NameText(s, i + 2, e)
                     ELSE <<LowC(s[i])>> \o NameText(s, i + 1, e)
NContains == {<<58,99,111,110,116,97,105,110,115>>, <<58,45,115,111,117,112,45,99,111,110,116,97,105,110,115>>,
              <<58,45,115,111,117,112,45,99,111,110,116,97,105,110,115,45,111,119,110>>}
NNthChild == {<<58,110,116,104,45,99,104,105,108,100>>, <<58,110,116,104,45,108,97,115,116,45,99,104,105,108,100>>}
NNthType == {<<58,110,116,104,45,111,102,45,116,121,112,101>>, <<58,110,116,104,45,108,97,115,116,45,111,102,45,116,121,112,101>>}
NLang == {<<58,108,97,110,103>>}
NDir == {<<58,100,105,114>>}

RECURSIVE ValueList(_, _)
ValueList(s, i) ==      \* VALUE (WSC* "," WSC* VALUE)*  : index after the last value, 0 if none
    LET v == Value(s, i) IN
    IF v = 0 THEN 0
    ELSE LET c == SkipWsc(s, v) IN
         IF Ch(s, c) = 44 /\ ValueList(s, SkipWsc(s, c + 1)) # 0 THEN ValueList(s, SkipWsc(s, c + 1)) ELSE v
RECURSIVE Digits(_, _)
Digits(s, i) == IF IsDig(Ch(s, i)) THEN Digits(s, i + 1) ELSE i
WordAt(s, i, w) == \A n \in 1..Len(w) : LowC(Ch(s, i + n - 1)) = w[n]
NthBody(s, i) ==        \* NTH | even | odd
    LET j == IF Ch(s, i) \in {45, 43} THEN i + 1 ELSE i
        d == Digits(s, j)
        a == IF d > j THEN (IF LowC(Ch(s, d)) = 110 THEN d + 1 ELSE d) ELSE IF LowC(Ch(s, j)) = 110 THEN j + 1 ELSE 0
        hasN == a # 0 /\ LowC(Ch(s, a - 1)) = 110
        sg == SkipWsc(s, a)
        b == IF hasN /\ Ch(s, sg) \in {45, 43} /\ Digits(s, SkipWsc(s, sg + 1)) > SkipWsc(s, sg + 1) THEN Digits(s, SkipWsc(s, sg + 1)) ELSE a
    IN IF a # 0 THEN b
       ELSE IF WordAt(s, i, <<101,118,101,110>>) THEN i + 4
       ELSE IF WordAt(s, i, <<111,100,100>>) THEN i + 3 ELSE 0
OfPart(s, i) ==         \* COMMENTS* WS WSC* "of" COMMENTS* WS WSC*
    LET c1 == SkipComments(s, i) IN
    IF Ws1(s, c1) = 0 THEN 0
    ELSE LET o == SkipWsc(s, c1) IN
         IF ~WordAt(s, o, <<111,102>>) THEN 0
         ELSE LET c2 == SkipComments(s, o + 2) IN IF Ws1(s, c2) = 0 THEN 0 ELSE SkipWsc(s, c2)
\* <<kind, end>> of the special pattern matching at i, or <<"", 0>>
Special(s, i) ==
    LET e == PseudoName(s, i) IN
    IF e = 0 \/ Ch(s, e) # 40 THEN <<"", 0>>
    ELSE LET nm == NameText(s, i, e)
             a == SkipWsc(s, e + 1)
         IN CASE nm \in NContains \cup NLang ->
                   LET v == ValueList(s, a) IN
                   IF v # 0 /\ PseudoClose(s, v) # 0
                   THEN <<IF nm \in NLang THEN "pseudo_lang" ELSE "pseudo_contains", PseudoClose(s, v)>> ELSE <<"", 0>>
              [] nm \in NDir ->
                   IF (WordAt(s, a, <<108,116,114>>) \/ WordAt(s, a, <<114,116,108>>)) /\ PseudoClose(s, a + 3) # 0
                   THEN <<"pseudo_dir", PseudoClose(s, a + 3)>> ELSE <<"", 0>>
              [] nm \in NNthType ->
                   IF NthBody(s, a) # 0 /\ PseudoClose(s, NthBody(s, a)) # 0
                   THEN <<"pseudo_nth_type", PseudoClose(s, NthBody(s, a))>> ELSE <<"", 0>>
              [] nm \in NNthChild ->
                   LET n == NthBody(s, a) IN
                   IF n = 0 THEN <<"", 0>>
                   ELSE IF PseudoClose(s, n) # 0 THEN <<"pseudo_nth_child", PseudoClose(s, n)>>
                   ELSE IF OfPart(s, n) # 0 THEN <<"pseudo_nth_child", OfPart(s, n)>> ELSE <<"", 0>>
              [] OTHER -> <<"", 0>>

\* the first pattern of css_tokens that matches at i: <<kind, end>>
TokenAt(s, i) ==
    IF PseudoClose(s, i) # 0 THEN <<"pseudo_close", PseudoClose(s, i)>>
    ELSE IF Special(s, i)[2] # 0 THEN Special(s, i)
    ELSE IF PseudoCustom(s, i) # 0 THEN <<"pseudo_class_custom", PseudoCustom(s, i)>>
    ELSE IF PseudoClass(s, i) # 0 THEN <<"pseudo_class", PseudoClass(s, i)>>
    ELSE IF PseudoElement(s, i) # 0 THEN <<"pseudo_element", PseudoElement(s, i)>>
    ELSE IF Amp(s, i) # 0 THEN <<"amp", Amp(s, i)>>
    ELSE IF AtRule(s, i) # 0 THEN <<"at_rule", AtRule(s, i)>>
    ELSE IF IdTok(s, i) # 0 THEN <<"id", IdTok(s, i)>>
    ELSE IF ClassTok(s, i) # 0 THEN <<"class", ClassTok(s, i)>>
    ELSE IF Tag(s, i) # 0 THEN <<"tag", Tag(s, i)>>
    ELSE IF Attr(s, i) # 0 THEN <<"attribute", Attr(s, i)>>
    ELSE IF Combine(s, i) # 0 THEN <<"combine", Combine(s, i)>>
    ELSE <<"", 0>>

\* the loop: leading WSC trimmed; stop when only WSC is left
RECURSIVE LexFrom(_, _, _)
LexFrom(s, i, acc) ==
    IF i > Len(s) \/ SkipWsc(s, i) > Len(s) THEN [toks |-> acc, err |-> 0]
    ELSE LET t == TokenAt(s, i) IN
         IF t[2] = 0 THEN [toks |-> acc, err |-> i]
         ELSE LexFrom(s, t[2], Append(acc, [k |-> t[1], a |-> i, b |-> t[2]]))
Lex(s) == LexFrom(s, SkipWsc(s, 1), <<>>)
Kinds(r) == [n \in 1..Len(r.toks) |-> r.toks[n].k]
\* kind sequence with the relation of each combinator (",", ">", "+", "~" or descendant)
KindsRel(s) == LET r == Lex(s) IN
               [n \in 1..Len(r.toks) |-> IF r.toks[n].k = "combine" THEN <<"combine", CombineRel(s, r.toks[n].a)>> ELSE <<r.toks[n].k, <<>>>>]
=============================================================================
