---------------------------- MODULE MC_C04_hist ----------------------------
\* Generator of call histories for C04: a history is a sequence of API calls
\* [kind, doc, sel, tgt] over abstract pools (the harness binds doc / sel / tgt indices to real
\* documents, selectors and elements).  TLC enumerates every history of length H (BFS) or samples
\* longer ones (-simulate); each complete history is printed once.
EXTENDS Naturals, Sequences, TLC, Json
CONSTANTS H, NKinds, NDocs, NSels, NTgts, SameDoc
VARIABLE hist
Init == hist = <<>>
Next == /\ Len(hist) < H
        /\ \E k \in 1..NKinds, d \in 1..NDocs, s \in 1..NSels, t \in 1..NTgts :
             /\ (SameDoc /\ Len(hist) > 0) => d = hist[1].d
             /\ hist' = Append(hist, [k |-> k, d |-> d, s |-> s, t |-> t])
\* one random successor per step: used with `tlc -simulate` (which otherwise evaluates the invariant
\* on every successor of every step, not only on the one it follows)
NextSim == /\ Len(hist) < H
           /\ hist' = Append(hist, [k |-> RandomElement(1..NKinds), d |-> RandomElement(1..NDocs),
                                    s |-> RandomElement(1..NSels), t |-> RandomElement(1..NTgts)])
Emit == Len(hist) < H \/ PrintT(ToJson([hist |-> hist]))
=============================================================================
