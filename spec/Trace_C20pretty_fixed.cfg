CONSTANTS
  RuleSet = "fixed"
INIT Init
NEXT Next
PROPERTY Advances
CHECK_DEADLOCK FALSE
