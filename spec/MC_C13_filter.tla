--------------------------- MODULE MC_C13_filter ---------------------------
\* C13 configuration "filter": the complete (range, tag) table of the RFC 4647 extended filter.
\* Tags: every sequence of 1..MaxLen subtags over {de, en, x, latn} (x is a singleton), and the
\* empty string.  Ranges: the same over {de, en, x, latn, *}, and the empty string.
\* One emitted document = one chunk of the tag list: a root element without any language (unknown
\* language: nothing may match it) whose k-th child carries lang / xml:lang = tag k, in an HTML and
\* in an XML document; the pool is one :lang("range") per range plus a few comma lists.
\* ASCII case is mangled on both sides (every other tag, every other range) since the relation must
\* not depend on it.  The design-level laws of Lang.tla are checked on every pair (invariant Laws).
EXTENDS CssDecl, TLC, Json, SequencesExt
CONSTANTS MaxLen, Chunk, EmptySubtags
\* EmptySubtags: also ranges with empty subtags ("de-", "-", "de--x": arbitrary subtag sequences; an empty range subtag matches only an empty tag subtag)
VARIABLES doc, st

De == <<100,101>>
En == <<101,110>>
X == <<120>>
Latn == <<108,97,116,110>>
TagSubs == {De, En, X, Latn}
RangeSubs == TagSubs \cup {LangWild} \cup (IF EmptySubtags THEN {<<>>} ELSE {})

Strs(subs) == {Join(q, <<LangDash>>) : q \in UNION {[1..n -> subs] : n \in 1..MaxLen}} \cup {<<>>}
Tags == SetToSeq(IF EmptySubtags THEN Strs(TagSubs) \ {<<>>} ELSE Strs(TagSubs))      \* (what a range with an empty subtag means for an explicitly empty language is left open)
Ranges == SetToSeq(Strs(RangeSubs))
NTags == Len(Tags)
NChunks == (NTags + Chunk - 1) \div Chunk

\* upper-case the letters at odd positions
Mangle(s) == [i \in 1..Len(s) |-> IF i % 2 = 1 THEN L_UpperC(s[i]) ELSE s[i]]
TagText(k) == IF k % 2 = 0 THEN Mangle(Tags[k]) ELSE Tags[k]
RangeText(k) == IF k % 2 = 1 THEN Mangle(Ranges[k]) ELSE Ranges[k]

LangS(rs) == [k |-> "lang", ranges |-> rs]
Cx1(c) == [cs |-> <<c>>, cb |-> <<>>]
\* comma lists: (range k, range k + 7) for every 11th k
ListIdx == {k \in 1..Len(Ranges) : k % 11 = 0 /\ k + 7 <= Len(Ranges)}
Pool == [k \in 1..Len(Ranges) |-> Cx1(<<LangS(<<RangeText(k)>>)>>)]
        \o SetToSeq({Cx1(<<LangS(<<RangeText(k), RangeText(k + 7)>>)>>) : k \in ListIdx})
ASSUME PrintT(ToJson([pool |-> [s \in 1..Len(Pool) |-> <<Pool[s]>>]]))

A == <<97>>
R == <<114>>
XmlLang == <<120,109,108,58,108,97,110,103>>
LangAt(xml, v) == IF xml THEN [k |-> XmlLang, ns |-> XMLNS, local |-> LangAttrName, v |-> v, list |-> FALSE]
                  ELSE [k |-> LangAttrName, ns |-> <<>>, local |-> LangAttrName, v |-> v, list |-> FALSE]

ChunkIdx(c) == ((c - 1) * Chunk + 1)..(IF c * Chunk < NTags THEN c * Chunk ELSE NTags)
RECURSIVE AddTags(_, _, _, _)
AddTags(d, xml, k, hi) == IF k > hi THEN d
                          ELSE AddTags(AddElemA(d, 1, A, <<LangAt(xml, TagText(k))>>), xml, k + 1, hi)
Build(xml, c) == AddTags(AddElem(EmptyDoc("doc", xml), 0, R), xml, (c - 1) * Chunk + 1,
                         IF c * Chunk < NTags THEN c * Chunk ELSE NTags)

\* two-level fan-out so that the 16 workers share the chunks
Groups == 1..16
Init == doc = EmptyDoc("doc", FALSE) /\ st = <<"root", 0, FALSE>>
Next == \/ /\ st[1] = "root"
           /\ \E g \in Groups, xml \in BOOLEAN : st' = <<"grp", g, xml>>
           /\ UNCHANGED doc
        \/ /\ st[1] = "grp"
           /\ \E c \in 1..NChunks : /\ c % 16 = st[2] % 16
                                    /\ st' = <<"leaf", c, st[3]>>
                                    /\ doc' = Build(st[3], c)

Env == [nsmap |-> <<>>, scope |-> RootOf(doc)]
Rel1(s) == {i \in Elems(doc) : Matches(doc, Env, <<Pool[s]>>, i)}
Res == [s \in 1..Len(Pool) |-> MaskUpTo(Rel1(s), Len(doc.parent))]
Emit == st[1] = "leaf" => PrintT(ToJson([doc |-> doc, res |-> Res]))

\* design-level theorems, on the pairs of this chunk (all chunks together: the whole table)
Laws == st[1] = "leaf" =>
    \A k \in ChunkIdx(st[2]) :
        /\ LangLawTag(Tags[k])
        /\ \A r \in 1..Len(Ranges) :
              /\ LangLawCase(Ranges[r], Tags[k])
              /\ LangLawDecl(Ranges[r], Tags[k])
              /\ LangLawWild(Ranges[r], Tags[k])
\* the spec's relation read off the table equals the filter (the document plumbing adds nothing)
Plumb == st[1] = "leaf" =>
    /\ \A r \in 1..Len(Ranges) :
          LET rel == Rel1(r)
          IN /\ 1 \notin rel
             /\ \A k \in ChunkIdx(st[2]) :
                   ((k - (st[2] - 1) * Chunk + 1) \in rel) = LangFilter(Ranges[r], Tags[k])
=============================================================================
