--------------------------- MODULE MC_C20_errctx ---------------------------
\* C20 configuration "errctx": every pattern over {x, LF, CR} \cup Extra up to MaxLen (one state = one
\* pattern, built by appending one code point) x every offset 0..Len(p).  Emit prints, per
\* pattern, the specification's (line, col, context) for every offset; the harness replays
\* each into soupsieve.util.get_pattern_context / SelectorSyntaxError.
EXTENDS ErrCtx, TLC, Json
CONSTANTS MaxLen, Extra
VARIABLE p

\* Extra: further code points that are NOT line breaks for the error context (form feed, VT, NEL, LS / PS: str.splitlines() would split there)
Alphabet == {120, LF, CR} \cup Extra

Init == p = <<>>
Next == /\ Len(p) < MaxLen
        /\ \E c \in Alphabet : p' = Append(p, c)

\* index k of the sequence is offset k - 1
At(i) == [line |-> Line(p, i), col |-> Col(p, i), ctx |-> Context(p, i),
          inside |-> InsideBreak(p, i)]
Emit == PrintT(ToJson([p |-> p, lines |-> Lines(p), at |-> [k \in 1..(Len(p) + 1) |-> At(k - 1)]]))

\* design-level theorems of ErrCtx, checked on every enumerated pattern
LineInRange == ThLineInRange(p)
ColInRange == ThColInRange(p)
Recoverable == ThRecoverable(p)
Monotone == ThMonotone(p)
Partition == ThPartition(p)
Ends == ThEnds(p)
Format == ThFormat(p)
=============================================================================
