------------------------------- MODULE ErrCtx -------------------------------
\* C20 (R stratum, written from the property text): where a SelectorSyntaxError points.
\*
\* A pattern p is a sequence of code points; an error offset i is a 0-based offset
\* 0..Len(p) as Python uses (i = Len(p) is "at the very end").  Line breaks are
\* "\r\n" (ONE break), "\n" and "\r".  The property:
\*     line   = 1 + number of line breaks before the reported offset
\*     column = offset within that line + 1
\*     context reproduces the pattern's lines with a caret under that column.
\* A break is "before the offset" when it lies wholly before it (its end <= i), so an
\* offset AT a break character still belongs to the line that the break terminates
\* (column = length of the line + 1).
EXTENDS Integers, Sequences, FiniteSets, Str

LF == 10
CR == 13

\* ---- line breaks ---------------------------------------------------------
\* 1-based positions k of p at which a break starts (the LF of a CR LF pair starts none)
IsBreakStart(p, k) == \/ p[k] = CR
                      \/ p[k] = LF /\ ~(k > 1 /\ p[k - 1] = CR)
BreakLen(p, k) == IF p[k] = CR /\ k < Len(p) /\ p[k + 1] = LF THEN 2 ELSE 1
BreakStarts(p) == {k \in 1..Len(p) : IsBreakStart(p, k)}
\* the break starting at position k occupies the 0-based half-open offsets [BreakBeg, BreakEnd)
BreakBeg(p, k) == k - 1
BreakEnd(p, k) == k - 1 + BreakLen(p, k)
\* the n-th break in pattern order
NthBreak(p, n) == CHOOSE k \in BreakStarts(p) : Cardinality({j \in BreakStarts(p) : j < k}) = n - 1

\* offset i points strictly inside a break (only possible at the LF of a CR LF)
InsideBreak(p, i) == \E k \in BreakStarts(p) : BreakBeg(p, k) < i /\ i < BreakEnd(p, k)

\* ---- lines ---------------------------------------------------------------
NumLines(p) == Cardinality(BreakStarts(p)) + 1
\* 0-based half-open offsets [LineBeg, LineEnd) of the text of line n (break excluded)
LineBeg(p, n) == IF n = 1 THEN 0 ELSE BreakEnd(p, NthBreak(p, n - 1))
LineEnd(p, n) == IF n = NumLines(p) THEN Len(p) ELSE BreakBeg(p, NthBreak(p, n))
LineText(p, n) == SubSeq(p, LineBeg(p, n) + 1, LineEnd(p, n))
Lines(p) == [n \in 1..NumLines(p) |-> LineText(p, n)]

\* ---- the property's (line, column) ------------------------------------------
Line(p, i) == 1 + Cardinality({k \in BreakStarts(p) : BreakEnd(p, k) <= i})
Col(p, i) == i - LineBeg(p, Line(p, i)) + 1
\* the offsets a (line, col) pair designates
Positions(p, line, col) == {i \in 0..Len(p) : Line(p, i) = line /\ Col(p, i) = col}

\* ---- the context string in the format the library documents -----------------------
\* multi-line patterns: every line prefixed by 4 characters ("--> " on the offending line),
\* joined by LF, a caret line right under the offending line; single-line patterns: no prefix.
Spaces(n) == [j \in 1..n |-> 32]
Arrow == <<45, 45, 62, 32>>
Pad == Spaces(4)
Caret == 94
PrefixLen(p) == IF NumLines(p) = 1 THEN 0 ELSE 4
Row(p, i, n) == (IF NumLines(p) = 1 THEN <<>> ELSE IF n = Line(p, i) THEN Arrow ELSE Pad) \o LineText(p, n)
CaretRow(p, i) == Spaces(PrefixLen(p) + Col(p, i) - 1) \o <<Caret>>
Context(p, i) ==
    Join([n \in 1..NumLines(p) |->
            IF n = Line(p, i) THEN Row(p, i, n) \o <<LF>> \o CaretRow(p, i) ELSE Row(p, i, n)], <<LF>>)

\* ---- what the property itself demands of a context (format-independent) ---------
\* ctx, cut at LF, is the pattern's lines in order, each after a prefix of one common width K,
\* plus exactly one extra row directly under row `line` made of blanks and a final caret that
\* stands in the display column of pattern column ccol (K + ccol - 1 blanks before it).
Shows(p, ctx, line, ccol) ==
    LET E == Split(ctx, LF)
        NL == NumLines(p)
    IN /\ Len(E) = NL + 1
       /\ line \in 1..NL
       /\ LET C == E[line + 1]
              R == [n \in 1..NL |-> IF n <= line THEN E[n] ELSE E[n + 1]]
              K == Len(R[1]) - Len(LineText(p, 1))
          IN /\ Len(C) >= 1
             /\ C[Len(C)] = Caret
             /\ \A j \in 1..(Len(C) - 1) : C[j] = 32
             /\ K >= 0
             /\ \A n \in 1..NL : Len(R[n]) = K + Len(LineText(p, n)) /\ EndsWith(R[n], LineText(p, n))
             /\ Len(C) - 1 = K + ccol - 1

\* ---- design-level theorems (checked by TLC on every enumerated pattern) -----------
LexLess(a, b) == a[1] < b[1] \/ (a[1] = b[1] /\ a[2] < b[2])
RECURSIVE SumLen(_)
SumLen(ss) == IF Len(ss) = 0 THEN 0 ELSE Len(ss[1]) + SumLen(Tail(ss))

ThLineInRange(p) == \A i \in 0..Len(p) : Line(p, i) \in 1..NumLines(p)
\* 1 <= col <= length of the line + 1; only the LF of a CR LF pair lies one further
ThColInRange(p) == \A i \in 0..Len(p) :
    /\ Col(p, i) >= 1
    /\ Col(p, i) <= Len(LineText(p, Line(p, i))) + 1 + (IF InsideBreak(p, i) THEN 1 ELSE 0)
\* (line, col) determines the offset, and only that offset
ThRecoverable(p) == \A i \in 0..Len(p) :
    /\ LineBeg(p, Line(p, i)) + Col(p, i) - 1 = i
    /\ Positions(p, Line(p, i), Col(p, i)) = {i}
ThMonotone(p) == \A i \in 0..Len(p), j \in 0..Len(p) :
    i < j => LexLess(<<Line(p, i), Col(p, i)>>, <<Line(p, j), Col(p, j)>>)
\* the lines and the breaks partition the pattern; lines contain no break character
ThPartition(p) ==
    /\ SumLen(Lines(p)) + SumLen([n \in 1..(NumLines(p) - 1) |-> Spaces(BreakLen(p, NthBreak(p, n)))]) = Len(p)
    /\ \A n \in 1..NumLines(p) : \A j \in 1..Len(LineText(p, n)) : LineText(p, n)[j] \notin {LF, CR}
\* offset 0 is line 1 column 1; the end of input lies on the last line, one past its text
ThEnds(p) == /\ Line(p, 0) = 1 /\ Col(p, 0) = 1
             /\ Line(p, Len(p)) = NumLines(p)
             /\ Col(p, Len(p)) = Len(LineText(p, NumLines(p))) + 1
\* the documented format satisfies the format-independent reading, for the right (line, col) only
ThFormat(p) == \A i \in 0..Len(p) :
    LET ctx == Context(p, i)
    IN \A j \in 0..Len(p) : Shows(p, ctx, Line(p, j), Col(p, j)) <=> (j = i)
=============================================================================
