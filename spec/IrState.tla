------------------------------- MODULE IrState -------------------------------
\* The HTML state pseudo-classes as the implementation has them: each is DEFINED by a selector text (StateDefsGen, extracted from
\* css_parser.py of the tree under test), parsed by the specification's own front end (Lexer -> ParseSel) and compiled by Ir!Compile into an
\* HTML-only list that hangs off the compound that used the pseudo-class.  Expand rewrites the AST ParseSel produces ([k |-> "state", name])
\* into the kinds Ir compiles ("htmllist" / "flag"), following references between definitions (:enabled -> :disabled, :read-only ->
\* :read-write -> :disabled, :default -> :checked).
\*   CompileText(text) = the IR of any selector text, state pseudo-classes included  (bound to the code by Trace_Parse)
\*   T-StateDefs (MC_C17_defs): evaluating the compiled definition with the matcher of Ir.tla gives exactly HtmlState!StateHolds, i.e.
\*   the library's definition texts say what the HTML standard says, on every enumerated document.
EXTENDS Ir, StateDefsGen, TLC
PS == INSTANCE ParseSel

KeyOf(nm) ==      \* ":checked" (code points, lower case) -> "checked"
    CASE nm = <<58,108,105,110,107>> -> "link" [] nm = <<58,97,110,121,45,108,105,110,107>> -> "any-link"
      [] nm = <<58,99,104,101,99,107,101,100>> -> "checked" [] nm = <<58,100,101,102,97,117,108,116>> -> "default"
      [] nm = <<58,105,110,100,101,116,101,114,109,105,110,97,116,101>> -> "indeterminate"
      [] nm = <<58,100,105,115,97,98,108,101,100>> -> "disabled" [] nm = <<58,101,110,97,98,108,101,100>> -> "enabled"
      [] nm = <<58,114,101,113,117,105,114,101,100>> -> "required" [] nm = <<58,111,112,116,105,111,110,97,108>> -> "optional"
      [] nm = <<58,112,108,97,99,101,104,111,108,100,101,114,45,115,104,111,119,110>> -> "placeholder-shown"
      [] nm = <<58,114,101,97,100,45,111,110,108,121>> -> "read-only" [] nm = <<58,114,101,97,100,45,119,114,105,116,101>> -> "read-write"
      [] nm = <<58,105,110,45,114,97,110,103,101>> -> "in-range" [] nm = <<58,111,117,116,45,111,102,45,114,97,110,103,101>> -> "out-of-range"
      [] nm = <<58,100,101,102,105,110,101,100>> -> "defined"

\* custom aliases: cm = Seq([name |-> ":--x" (lower case, unescaped), def |-> definition text]); an alias compiles to the list of its
\* definition (parsed as pseudo-class arguments: no implied universal), exactly like :is(definition).  Cyclic maps are Custom.tla's subject.
CustomText(cm, nm) == cm[CHOOSE n \in 1..Len(cm) : cm[n].name = nm].def
RECURSIVE ExpandListC(_, _), ExpandCxC(_, _), ExpandSimpleC(_, _)
ExpandSimpleC(cm, s) ==
    CASE s.k = "custom" -> [k |-> "is", args |-> ExpandListC(cm, PS!ParseText(CustomText(cm, s.name)))]
      [] s.k = "state" -> IF KeyOf(s.name) = "defined" THEN [k |-> "flag", f |-> "defined"]
                          ELSE [k |-> "htmllist", args |-> ExpandListC(cm, PS!ParseText(DefText(KeyOf(s.name)))), flag |-> DefFlag(KeyOf(s.name))]
      [] s.k \in {"is", "where", "matches", "not"} -> [s EXCEPT !.args = ExpandListC(cm, @)]
      [] s.k = "has" -> [s EXCEPT !.args = [n \in 1..Len(s.args) |-> [s.args[n] EXCEPT !.cx = ExpandCxC(cm, @)]]]
      [] s.k = "nth" -> [s EXCEPT !.of = ExpandListC(cm, @)]
      [] OTHER -> s
ExpandCxC(cm, cx) == [cx EXCEPT !.cs = [n \in 1..Len(cx.cs) |-> [m \in 1..Len(cx.cs[n]) |-> ExpandSimpleC(cm, cx.cs[n][m])]]]
ExpandListC(cm, lst) == [n \in 1..Len(lst) |-> ExpandCxC(cm, lst[n])]
CompileTextC(text, cm) == Compile(ExpandListC(cm, PS!ParseText(text)))

RECURSIVE ExpandList(_), ExpandCx(_), ExpandSimple(_)
ExpandSimple(s) ==
    CASE s.k = "state" -> IF KeyOf(s.name) = "defined" THEN [k |-> "flag", f |-> "defined"]
                          ELSE [k |-> "htmllist", args |-> ExpandList(PS!ParseText(DefText(KeyOf(s.name)))), flag |-> DefFlag(KeyOf(s.name))]
      [] s.k \in {"is", "where", "matches", "not"} -> [s EXCEPT !.args = ExpandList(@)]
      [] s.k = "has" -> [s EXCEPT !.args = [n \in 1..Len(s.args) |-> [s.args[n] EXCEPT !.cx = ExpandCx(@)]]]
      [] s.k = "nth" -> [s EXCEPT !.of = ExpandList(@)]
      [] OTHER -> s
ExpandCx(cx) == [cx EXCEPT !.cs = [n \in 1..Len(cx.cs) |-> [m \in 1..Len(cx.cs[n]) |-> ExpandSimple(cx.cs[n][m])]]]
ExpandList(lst) == [n \in 1..Len(lst) |-> ExpandCx(lst[n])]

CompileText(text) == Compile(ExpandList(PS!ParseText(text)))

\* the compiled definition of one state pseudo-class, as it hangs in the IR
StateList(k) == [CompileList(ExpandList(PS!ParseText(DefText(k))), TRUE, FALSE, FALSE) EXCEPT !.is_html = TRUE]
\* (for the five definitions with a special flag the "additional logic" of the matcher is part of the meaning: Ir!AlgoSel has it)
StateLists == [k \in StateKeys |-> [CompileList(ExpandList(PS!ParseText(DefText(k))), TRUE, FALSE, FALSE) EXCEPT !.is_html = TRUE]]     \* constant level: computed once
FlaggedList(k) == LET l == StateLists[k] n == Len(l.selectors) IN
                  IF DefFlag(k) = "" THEN l ELSE [l EXCEPT !.selectors = [l.selectors EXCEPT ![n] = [@ EXCEPT !.flags = {DefFlag(k)}]]]
FlaggedLists == [k \in StateKeys |-> FlaggedList(k)]
\* TLC shares constant values between its worker threads and normalises them lazily (not thread-safe): force the whole value once, in the
\* single-threaded start-up phase (ASSUME ST!StateListsReady in the MC modules)
StateListsReady == Len(ToString(FlaggedLists)) > 0
\* T-StateDefs on one document.  The two range pseudo-classes are left out: what a valid date / number string is has zones the property does
\* not decide (Calendar.tla CalDecided) and one known open deviation (F18); C18 gates them element by element.
TheoremKeys == StateKeys \ {"in-range", "out-of-range"}
StateDefsHoldL(L, d, env) == \A k \in TheoremKeys : \A i \in Elems(d) : AlgoList(d, env, L[k], i) = StateHolds(d, [k |-> k], i)
\* (a model should bind FlaggedLists to a zero-arity definition of ITS OWN module - SD == ST!FlaggedLists - and pass that: TLC evaluates the
\* constant definitions of the root module once, before the workers start; a constant reached through INSTANCE is cached lazily, and about
\* one TLC process in sixty was seen to re-evaluate it - i.e. to parse all definition texts again - in every state)
StateDefsHold(d, env) == StateDefsHoldL(FlaggedLists, d, env)
=============================================================================
