---------------------------- MODULE MC_C18_base ----------------------------
\* Shared by the C18 model-checking configurations: string builders, element descriptors,
\* flat documents of sibling elements, the two-selector pool, the fan-out state machine that
\* lets 16 TLC workers evaluate batches side by side, and the emitted record.
\*
\* One TLC state with b > 0 = one document doc (batch b of the configuration's case list).  For every
\* document TLC prints the document and the specification's answer: the ids in :in-range, the ids
\* in :out-of-range, the ids whose strings lie in an underdetermined zone (not gated), and the ids
\* whose answer would differ under the variant reading that describes the open finding F18.
EXTENDS CssDecl, TLC, Json, SequencesExt
VARIABLES b, doc

\* ---- strings ---------------------------------------------------------------
Pad(n, w) == [k \in 1..w |-> 48 + ((n \div (10 ^ (w - k))) % 10)]
YearStr(y) == Pad(y, IF y < 10000 THEN 4 ELSE IF y < 100000 THEN 5 ELSE 6)
Dash == <<45>>
DashW == <<45, 87>>
Colon == <<58>>
TSep == <<84>>
DateStr(ys, m, dd) == ys \o Dash \o Pad(m, 2) \o Dash \o Pad(dd, 2)
MonthStr(ys, m) == ys \o Dash \o Pad(m, 2)
WeekStr(ys, w) == ys \o DashW \o Pad(w, 2)
TimeStr(h, mi) == Pad(h, 2) \o Colon \o Pad(mi, 2)
LocalStr(ds, ts) == ds \o TSep \o ts

\* single-character mutations of a string: deletions, insertions, replacements
DelAt(s, k) == SubSeq(s, 1, k - 1) \o SubSeq(s, k + 1, Len(s))
InsAt(s, k, c) == SubSeq(s, 1, k - 1) \o <<c>> \o SubSeq(s, k, Len(s))      \* k in 1..Len+1
RepAt(s, k, c) == [s EXCEPT ![k] = c]
Mutants(s, J) == {DelAt(s, k) : k \in 1..Len(s)}
            \cup {InsAt(s, k, c) : k \in 1..(Len(s) + 1), c \in J}
            \cup {RepAt(s, k, c) : k \in 1..Len(s), c \in J}
\* junk: x space LF - : / 0 9 T W t w . + e  ARABIC-INDIC DIGIT ONE  FULLWIDTH DIGIT ONE
Junk == {120, 32, 10, 45, 58, 47, 48, 57, 84, 87, 116, 119, 46, 43, 101, 1633, 65297}

\* ---- elements and documents -------------------------------------------------
At(nm, v) == [k |-> nm, ns |-> <<>>, local |-> nm, v |-> v, list |-> FALSE]
Opt(nm, o) == IF Len(o) = 0 THEN <<>> ELSE <<At(nm, o[1])>>
Some(s) == <<s>>
Missing == <<>>
\* an input element; t, mn, mx, v are optional strings (Missing or Some(s))
In(t, mn, mx, v) == [name |-> CalInput,
                     attrs |-> Opt(CalAType, t) \o Opt(CalAMin, mn) \o Opt(CalAMax, mx) \o Opt(CalAValue, v)]
Elt(nm, attrs) == [name |-> nm, attrs |-> attrs]

\* a document whose nodes are the given elements, all children of the container
MkDoc(cs, xml, nsu) ==
    [parent |-> [n \in 1..Len(cs) |-> 0], kind |-> [n \in 1..Len(cs) |-> "e"],
     name |-> [n \in 1..Len(cs) |-> cs[n].name], ns |-> [n \in 1..Len(cs) |-> nsu],
     pfx |-> [n \in 1..Len(cs) |-> <<>>], attrs |-> [n \in 1..Len(cs) |-> cs[n].attrs],
     text |-> [n \in 1..Len(cs) |-> <<>>], top |-> "doc", xml |-> xml]

\* probes that make the validity of one string s observable: as min under a smallest value, as
\* max above a largest value, as value under a largest min
AsMin(t, s, small) == In(Some(t), Some(s), Missing, Some(small))
AsMax(t, s, big) == In(Some(t), Missing, Some(s), Some(big))
AsVal(t, s, big) == In(Some(t), Some(big), Missing, Some(s))
Probe(p, t, s, small, big) == IF p = 1 THEN AsMin(t, s, small) ELSE IF p = 2 THEN AsMax(t, s, big) ELSE AsVal(t, s, big)
\* (sets of probes are written {Probe(p, ..) : p \in 1..3, ..}: TLC's UNION of many small sets is quadratic)

\* ---- the pool ----------------------------------------------------------------
Cx1(c) == [cs |-> <<c>>, cb |-> <<>>]
SelIn == Cx1(<<[k |-> "in-range"]>>)
SelOut == Cx1(<<[k |-> "out-of-range"]>>)
ASSUME PrintT(ToJson([pool |-> << <<SelIn>>, <<SelOut>> >>]))

\* ---- batches and the fan-out state machine ------------------------------------
G == 16
NumBatches(n, size) == (n + size - 1) \div size
BatchOf(cases, size, k) == SubSeq(cases, (k - 1) * size + 1, IF k * size < Len(cases) THEN k * size ELSE Len(cases))
\* 0 -> -1 .. -G -> first batch of each lane -> every G-th batch after it
NoDoc == EmptyDoc("doc", FALSE)
BInit == b = 0 /\ doc = NoDoc
BNext(nb) == \/ b = 0 /\ b' \in {0 - g : g \in 1..G}
             \/ b < 0 /\ 0 - b <= nb /\ b' = 0 - b
             \/ b > 0 /\ b + G <= nb /\ b' = b + G

Answer(d) ==
    LET env == [nsmap |-> <<>>, scope |-> RootOf(d)] IN
    [b |-> b, doc |-> d,
     inr |-> {i \in Elems(d) : Matches(d, env, <<SelIn>>, i)},
     outr |-> {i \in Elems(d) : Matches(d, env, <<SelOut>>, i)},
     open |-> {i \in Elems(d) : ~CalGated(d, i)},
\* per node: the answer under the variant reading of the open finding F18 where it differs, else "same"
     kcls |-> [i \in 1..Len(d.parent) |-> CalKnownClass(d, i)]]
\* the model's own laws on every enumerated element
Laws(d) == \A i \in Elems(d) : CalThmExclusive(d, i)
=============================================================================
