---------------------------- MODULE MC_C01_logic ---------------------------
\* C01 configuration "logic": element-only trees of at most MaxNodes nodes over names {a, b}
\* against :not / :is / :where / :matches / :has with complex and relative arguments, lists,
\* and one further level of nesting.
EXTENDS Ir, TLC, Json, SequencesExt
CONSTANTS MaxNodes, Nest
VARIABLE doc

A == <<97>>
B == <<98>>
TypeS(n) == [k |-> "type", ns |-> Bare, name |-> n]
Cx1(c) == [cs |-> <<c>>, cb |-> <<>>]
Cx2(c1, x, c2) == [cs |-> <<c1, c2>>, cb |-> <<x>>]
Atoms == {<<TypeS(A)>>, <<TypeS(B)>>, <<TypeS(Star)>>}
Combs == {" ", ">", "+", "~"}
ArgCx == {Cx1(c) : c \in Atoms} \cup {Cx2(c1, x, c2) : c1 \in {<<TypeS(A)>>, <<TypeS(Star)>>}, c2 \in {<<TypeS(B)>>}, x \in Combs}
Fn(k, args) == [k |-> k, args |-> args]
HasS(comb, cx) == [k |-> "has", args |-> <<[comb |-> comb, cx |-> cx]>>]
L1 == {Fn(k, <<cx>>) : k \in {"not", "is"}, cx \in ArgCx}
  \cup {Fn(k, <<Cx1(<<TypeS(A)>>)>>) : k \in {"where", "matches"}}
  \cup {Fn(k, <<Cx1(<<TypeS(A)>>), Cx2(<<TypeS(Star)>>, ">", <<TypeS(B)>>)>>) : k \in {"not", "is", "where"}}
  \cup {HasS(x, cx) : x \in Combs, cx \in ArgCx}
  \cup {[k |-> "has", args |-> <<[comb |-> ">", cx |-> Cx1(<<TypeS(A)>>)], [comb |-> "+", cx |-> Cx1(<<TypeS(B)>>)]>>]}
L1core == {Fn("not", <<Cx1(<<TypeS(A)>>)>>), Fn("is", <<Cx2(<<TypeS(A)>>, ">", <<TypeS(B)>>)>>),
           HasS(">", Cx1(<<TypeS(B)>>)), HasS(" ", Cx1(<<TypeS(A)>>)), HasS("+", Cx1(<<TypeS(Star)>>)), HasS("~", Cx1(<<TypeS(B)>>))}
L2 == {Fn(k, <<Cx1(<<l>>)>>) : k \in {"not", "is"}, l \in L1core}
  \cup {HasS(x, Cx1(<<l>>)) : x \in {" ", ">", "+"}, l \in L1core}
  \cup {Fn("not", <<Cx2(<<TypeS(Star)>>, x, <<l>>)>>) : x \in {">", "~"}, l \in L1core}
  \cup {HasS(">", Cx2(<<l>>, " ", <<TypeS(B)>>)) : l \in L1core}
Ls == L1 \cup (IF Nest >= 2 THEN L2 ELSE {})
PoolSet == {Cx1(<<l>>) : l \in Ls}
      \cup {Cx1(<<TypeS(A), l>>) : l \in Ls}
      \cup {Cx2(<<l>>, x, <<TypeS(B)>>) : l \in L1, x \in {" ", "+"}}
      \cup {Cx2(<<TypeS(A)>>, x, <<l>>) : l \in L1, x \in {">", "~"}}
Pool == SetToSeq(PoolSet)
ASSUME PrintT(ToJson([pool |-> [s \in 1..Len(Pool) |-> <<Pool[s]>>]]))

Init == doc \in {EmptyDoc("doc", FALSE), EmptyDoc("frag", FALSE)}
Next == /\ Len(doc.parent) < MaxNodes
        /\ \E p \in Spine(doc), n \in {A, B} : CanAdd(doc, p, "e") /\ doc' = AddElem(doc, p, n)

Env == [nsmap |-> <<>>, scope |-> RootOf(doc)]
Rel1(s) == {i \in Elems(doc) : Matches(doc, Env, <<Pool[s]>>, i)}
Res == [s \in 1..Len(Pool) |-> MaskUpTo(Rel1(s), Len(doc.parent))]
Emit == PrintT(ToJson([doc |-> doc, res |-> Res]))
\* T-AlgoEqDecl: the implementation-shaped matcher over the compiled IR agrees with the declarative semantics
AlgoEqDecl == \A s \in 1..Len(Pool) : \A i \in Elems(doc) :
                 AlgoMatches(doc, Env, <<Pool[s]>>, i) = Matches(doc, Env, <<Pool[s]>>, i)
=============================================================================
