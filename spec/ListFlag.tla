------------------------------ MODULE ListFlag ------------------------------
\* Design-level model behind C05 (machine M5, EnterHtmlList / LeaveHtmlList): a selector list is a
\* sequence of alternatives; an alternative that uses an HTML-only pseudo-class (:dir(), :defined) is
\* evaluated in the "HTML environment" (namespace map replaced by {html}, no crossing of iframes, and
\* never in a non-HTML document); every other alternative is evaluated in the caller's environment.
\*   alt = [h |-> uses an HTML-only pseudo-class, vc |-> truth in the caller's environment,
\*          vh |-> truth in the HTML environment]
\* Placement = "perlist": the flag is kept on the LIST (any alternative sets it for all)  -- negative model
\* Placement = "peralt" : the flag is kept with the alternative that needs it             -- intended
\* T-Boolean (union law): Eval(<<A, B>>) = Eval(<<A>>) \/ Eval(<<B>>) for all alternatives and documents.
EXTENDS Naturals, Sequences
CONSTANT Placement
VARIABLES a, b, isHtml

Alts == [h : BOOLEAN, vc : BOOLEAN, vh : BOOLEAN]
Init == a \in Alts /\ b \in Alts /\ isHtml \in BOOLEAN
Next == UNCHANGED <<a, b, isHtml>>

EvalAlt(x, html) == IF x.h THEN html /\ x.vh ELSE x.vc
Eval(lst, html) ==
    IF Placement = "peralt" THEN \E n \in 1..Len(lst) : EvalAlt(lst[n], html)
    ELSE LET flag == \E n \in 1..Len(lst) : lst[n].h
         IN IF flag THEN html /\ \E n \in 1..Len(lst) : lst[n].vh
            ELSE \E n \in 1..Len(lst) : lst[n].vc
\* an alternative that does not use an HTML-only pseudo-class has one truth value
WellFormed(x) == ~x.h => x.vc = x.vh
Union == (WellFormed(a) /\ WellFormed(b)) => (Eval(<<a, b>>, isHtml) = (Eval(<<a>>, isHtml) \/ Eval(<<b>>, isHtml)))
Monotone == (WellFormed(a) /\ WellFormed(b)) => (Eval(<<a>>, isHtml) => Eval(<<a, b>>, isHtml))
=============================================================================
