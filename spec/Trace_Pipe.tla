------------------------------ MODULE Trace_Pipe ------------------------------
\* B2 for the WHOLE implementation-shaped pipeline: the recorded result of select(text, target) must be what the I stratum computes from the
\* characters:  text --Lexer--> tokens --ParseSel--> AST --IrState!Expand, Ir!Compile--> IR --Ir!AlgoList (right-to-left matcher)--> elements.
\* Trace_Select validates the same events against the declarative CssDecl (R stratum) on the AST the harness generated; here nothing but the
\* text, the document and the call target is taken from the harness.  Events: those of Trace_Select plus text (Seq(Nat)).
\* (The special-flag logic of :default / :indeterminate / ranges / :placeholder-shown and custom aliases are outside the matcher of Ir.tla:
\* the harness does not send such events here.)
EXTENDS IrState, TLC, TLCExt, Json, IOUtils, SequencesExt
VARIABLE l

Tr == ndJsonDeserialize(IOEnv.TRACE_FILE)
RECURSIVE SortedSeqP(_)
SortedSeqP(S) == IF S = {} THEN <<>> ELSE <<Min(S)>> \o SortedSeqP(S \ {Min(S)})

ExpectedPipe(e) ==
    LET ir == CompileText(e.text)
        env == [nsmap |-> e.nsmap, scope |-> e.scope]
        cand == IF e.target = 0 THEN Elems(e.doc) ELSE ElDesc(e.doc, e.target)
    IN SortedSeqP({i \in cand : IsEl(e.doc, i) /\ AlgoList(e.doc, env, ir, i)})

InitPipe == l = 0
NextPipe == /\ l < Len(Tr)
            /\ l' = l + 1
            /\ (IF Tr[l + 1].res = ExpectedPipe(Tr[l + 1]) THEN TRUE ELSE PrintT(<<"REJECT", Tr[l + 1].id, ToString(ExpectedPipe(Tr[l + 1]))>>))
AcceptedPipe == TLCGet("stats").diameter - 1 = Len(Tr)
=============================================================================
