------------------------------- MODULE Trace_Lex -------------------------------
\* Binds Lexer.tla to the code: the token stream the real tokenizer printed under flags=DEBUG (kind, start, end of
\* every token it yielded before the parser stopped consuming) must be a prefix of Lex(text).toks, and when the real
\* tokenizer itself gave up ("Invalid character" / "Malformed ..." at position p) the model must give up at the same
\* position after the same tokens.
\*   event = [id, text (code points), toks (Seq of [k, a, b], 1-based start, exclusive end), lexerr (0 or 1-based index), complete (BOOLEAN)]
EXTENDS Lexer, TLC, TLCExt, Json, IOUtils, SequencesExt
VARIABLE l
Tr == ndJsonDeserialize(IOEnv.TRACE_FILE)
Conforms(e) ==
    LET r == Lex(e.text) IN
    /\ Len(e.toks) <= Len(r.toks)
    /\ \A n \in 1..Len(e.toks) : e.toks[n] = r.toks[n]
    /\ (e.lexerr # 0 => (r.err = e.lexerr /\ Len(r.toks) = Len(e.toks)))
    /\ (e.complete => (r.err = 0 /\ Len(r.toks) = Len(e.toks)))
Init == l = 0
Next == /\ l < Len(Tr)
        /\ l' = l + 1
        /\ (IF Conforms(Tr[l + 1]) THEN TRUE ELSE PrintT(<<"REJECT", Tr[l + 1].id, ToString(Lex(Tr[l + 1].text))>>))
Accepted == TLCGet("stats").diameter - 1 = Len(Tr)
=============================================================================
