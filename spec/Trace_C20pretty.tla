-------------------------- MODULE Trace_C20pretty --------------------------
\* Runs the pretty-printer loop model (Pretty.tla) on the repr strings of REAL compiled
\* selectors, recorded by the harness as ndjson lines [id, s (code points of repr)].
\* The token-class abstraction Abs is applied here, in the specification.  Per input the
\* model's prediction is printed:  <<"STUCK", id, index, class at index>>  when the loop of
\* the given RuleSet reaches a state in which no token rule applies (it never returns), or
\* <<"DONE", id, number of tokens>>.  The output is not kept (the reprs are long); the
\* input/output relation is checked on the bounded grammar of MC_C20_pretty instead.
EXTENDS Integers, Sequences, TLC, TLCExt, Json, IOUtils
CONSTANT RuleSet
VARIABLES n, x, ntok

Tr == ndJsonDeserialize(IOEnv.TRACE_FILE)
P == INSTANCE Pretty WITH Inputs <- <<>>, k <- 0, index <- 0, indent <- 0, out <- <<>>
\* constant-level, abstracted once; SubSeq forces TLC to build explicit tuples (a function
\* expression stays lazy and would be re-evaluated at every Len / application)
AbsTr == SubSeq([j \in 1..Len(Tr) |-> SubSeq(P!Abs(Tr[j].s), 1, Len(Tr[j].s))], 1, Len(Tr))

Init == n \in 1..Len(Tr) /\ x = 0 /\ ntok = 0
Next == /\ x >= 0 /\ x < Len(AbsTr[n])
        /\ n' = n
        /\ LET st == P!StepAt(AbsTr[n], x)
           IN IF st.tok = "none"
              THEN /\ PrintT(<<"STUCK", Tr[n].id, x, AbsTr[n][x + 1]>>)
                   /\ x' = -1 /\ ntok' = ntok
              ELSE /\ x' = st.end /\ ntok' = ntok + 1
                   /\ (st.end < Len(AbsTr[n]) \/ PrintT(<<"DONE", Tr[n].id, ntok + 1>>))
\* every non-stuck step consumes input
Advances == [][x' > x \/ x' = -1]_<<n, x, ntok>>
=============================================================================
