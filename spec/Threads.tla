------------------------------- MODULE Threads -------------------------------
\* Machine M8: N threads compile patterns concurrently.  Shared: the pattern cache and - depending on
\* the design - the "matched name" slot of the special-pseudo-class dispatcher.
\*
\* A pattern p is the sequence Pat[p] of the points at which a thread can be pre-empted around the
\* dispatcher, as extracted from the real tokenizer by a single-threaded dry run:
\*   [op |-> "B"]            call boundary: cache lookup (hit -> the call returns the cached value)
\*   [op |-> "M", k |-> kind] the dispatcher's match() is entered; when this position holds a special
\*                            pseudo-class of that kind the dispatcher REMEMBERS kind (k = "none" otherwise)
\*   [op |-> "G", k |-> kind] the dispatcher's get_name() is entered: the tokenizer asks which handler to use
\* The step taken from the last point also finishes the parse and inserts the result into the cache.
\* A call's value is the sequence of handler names it used.
\*
\* Placement = "shared"  the remembered kind lives in the one dispatcher object (negative model)
\* Placement = "percall" the remembered kind travels with the match (intended)
\* T-Serial: every completed call returned what a single-threaded parse returns, and every cache
\* entry is the single-threaded parse of its key.
EXTENDS Naturals, Sequences, FiniteSets
CONSTANTS Pat, ScriptSet, NThreads, Placement, MaxSwitches
\* scripts[t] = sequence of pattern ids thread t compiles; chosen once from ScriptSet
VARIABLES scripts, call, pc, shared, local, out, cache, done, sched, sw

Threads == 1..NThreads
Scripts == scripts
vars == <<scripts, call, pc, shared, local, out, cache, done, sched, sw>>

Expected(p) == LET gs == SelectSeq(Pat[p], LAMBDA s : s.op = "G") IN [n \in 1..Len(gs) |-> gs[n].k]

Init == /\ scripts \in ScriptSet
        /\ call = [t \in Threads |-> 1] /\ pc = [t \in Threads |-> 1]
        /\ shared = "none" /\ local = [t \in Threads |-> "none"]
        /\ out = [t \in Threads |-> <<>>] /\ cache = [p \in {} |-> <<>>]
        /\ done = [t \in Threads |-> <<>>] /\ sched = <<>> /\ sw = 0

Active(t) == call[t] <= Len(Scripts[t])
Cur(t) == Scripts[t][call[t]]

Finish(t, val) ==     \* the current call of t returns val
    /\ done' = [done EXCEPT ![t] = Append(@, [p |-> Cur(t), r |-> val])]
    /\ call' = [call EXCEPT ![t] = @ + 1]
    /\ pc' = [pc EXCEPT ![t] = 1]
    /\ out' = [out EXCEPT ![t] = <<>>]

Step(t) ==
    /\ Active(t)
    /\ UNCHANGED scripts
    /\ sw' = IF Len(sched) > 0 /\ sched[Len(sched)] # t THEN sw + 1 ELSE sw
    /\ sw' <= MaxSwitches
    /\ sched' = Append(sched, t)
    /\ LET p == Cur(t)
           s == Pat[p][pc[t]]
           last == pc[t] = Len(Pat[p])
           name == IF s.op = "G" THEN (IF Placement = "shared" THEN shared ELSE local[t]) ELSE "none"
           newout == IF s.op = "G" THEN Append(out[t], name) ELSE out[t]
       IN
       /\ IF s.op = "M" /\ s.k # "none"
          THEN IF Placement = "shared" THEN shared' = s.k /\ local' = local
               ELSE local' = [local EXCEPT ![t] = s.k] /\ shared' = shared
          ELSE UNCHANGED <<shared, local>>
       /\ IF s.op = "B" /\ p \in DOMAIN cache
          THEN Finish(t, cache[p]) /\ UNCHANGED cache                       \* cache hit
          ELSE IF last
               THEN /\ Finish(t, newout)                                    \* parse complete: insert
                    /\ cache' = [q \in DOMAIN cache \cup {p} |-> IF q = p THEN newout ELSE cache[q]]
               ELSE /\ pc' = [pc EXCEPT ![t] = @ + 1]
                    /\ out' = [out EXCEPT ![t] = newout]
                    /\ UNCHANGED <<cache, done, call>>
Next == \E t \in Threads : Step(t)
AllDone == \A t \in Threads : ~Active(t)

Serial == /\ \A t \in Threads : \A i \in 1..Len(done[t]) : done[t][i].r = Expected(done[t][i].p)
          /\ \A p \in DOMAIN cache : cache[p] = Expected(p)
=============================================================================
