\* negative configuration (vacuity guard): with the token rules of the pinned tree this MUST fail
CONSTANTS
  RuleSet = "asis"
  Inputs <- NegFlag
SPECIFICATION Spec
INVARIANT NoStuck
ALIAS Explain
CHECK_DEADLOCK FALSE
