---------------------------- MODULE MC_C01_struct --------------------------
\* C01 configuration "struct": rows of nodes over {element a, element b, text, whitespace text,
\* comment, CDATA} at the top level of a document and under elements (also under an HTML iframe,
\* and as a detached element) against :root, :empty, :first/last/only-child,
\* :first/last/only-of-type, alone, negated and combined with a type selector.
EXTENDS Ir, TLC, Json, SequencesExt
CONSTANTS MaxNodes
VARIABLE doc

A == <<97>>
B == <<98>>
UA == <<65>>                \* "A": the same type as "a" in HTML, a different one in XML
IFR == <<105,102,114,97,109,101>>
X == <<120>>
WS == <<32,10>>
TypeS(n) == [k |-> "type", ns |-> Bare, name |-> n]
Cx1(c) == [cs |-> <<c>>, cb |-> <<>>]
Ps == {"root", "empty", "first-child", "last-child", "only-child", "first-of-type", "last-of-type", "only-of-type"}
P(k) == [k |-> k]
PoolSet == {Cx1(<<P(k)>>) : k \in Ps}
      \cup {Cx1(<<[k |-> "not", args |-> <<Cx1(<<P(k)>>)>>]>>) : k \in Ps}
      \cup {Cx1(<<TypeS(n), P(k)>>) : n \in {A, B}, k \in Ps}
      \cup {[cs |-> <<<<P("root")>>, <<P(k)>>>>, cb |-> <<x>>] : k \in Ps \ {"root"}, x \in {">", " "}}
      \cup {[cs |-> <<<<P(k)>>, <<TypeS(Star)>>>>, cb |-> <<x>>] : k \in {"first-child", "empty", "only-of-type"}, x \in {"+", "~"}}
Pool == SetToSeq(PoolSet)
ASSUME PrintT(ToJson([pool |-> [s \in 1..Len(Pool) |-> <<Pool[s]>>]]))

Init == doc \in {EmptyDoc("doc", FALSE), EmptyDoc("frag", FALSE), EmptyDoc("doc", TRUE)}
Next == /\ Len(doc.parent) < MaxNodes
        /\ \E p \in Spine(doc) :
             \/ \E n \in {A, B, IFR, UA} : CanAdd(doc, p, "e") /\ doc' = AddElem(doc, p, n)
             \/ \E tx \in {X, WS} : CanAdd(doc, p, "t") /\ doc' = AddData(doc, p, "t", tx)
             \/ \E k \in {"c", "cd"} : CanAdd(doc, p, k) /\ doc' = AddData(doc, p, k, X)

Env == [nsmap |-> <<>>, scope |-> RootOf(doc)]
Rel1(s) == {i \in Elems(doc) : Matches(doc, Env, <<Pool[s]>>, i)}
Res == [s \in 1..Len(Pool) |-> MaskUpTo(Rel1(s), Len(doc.parent))]
Emit == PrintT(ToJson([doc |-> doc, res |-> Res]))
\* T-AlgoEqDecl: the implementation-shaped matcher over the compiled IR agrees with the declarative semantics
AlgoEqDecl == \A s \in 1..Len(Pool) : \A i \in Elems(doc) :
                 AlgoMatches(doc, Env, <<Pool[s]>>, i) = Matches(doc, Env, <<Pool[s]>>, i)
=============================================================================
