------------------------------ MODULE RegexAmb ------------------------------
\* C07 (a): exponential ambiguity of the automaton extracted from one regular expression.
\*
\* The harness (harness/regex_nfa.py) turns every compiled regex of the working tree into an
\* epsilon-free *multi-edge* NFA: states 1..N (1 = start) are pairs <Thompson state, constraint on the
\* next character> (fixed-length look-aheads become such constraints), classes 1..K are the minterms of
\* the pattern's character sets, and every edge is identified by the epsilon route taken to the consuming
\* transition.  Two edges q -c-> q' with different routes are two different ways for a backtracking
\* matcher to consume c; that is what makes (x+)* visible.  Only "one route or several" matters below,
\* so parallel edges are passed as one bundle <<target, m>> with m = 2 when there are two or more
\* routes, m = 1 otherwise (the harness keeps the individual edge identifiers and re-validates every
\* witness with them).
\*
\* A backtracking matcher needs exponential time on  prefix . pump^n . kill  exactly when the automaton
\* is exponentially ambiguous (Weber and Seidl 1991): some state a has two different paths a -w-> a
\* for one word w.  This module searches the product of two copies for such a pair of paths:
\*   state  = <a, p1, p2, dv>    a: the anchor, p1/p2: the two copies, dv: the copies took different edges
\*   NoEDA  = no reachable state with dv and p1 = p2 = a.
\* Anchors are the loop states whose continuation is *not* immediately accepting (if the rest of the
\* pattern accepts whatever follows, the first backtrack out of the loop succeeds: ambiguous but
\* harmless).  EDA is a property of a strongly connected component (if a has it, every state of its
\* component has it: prepend a path to a, append a path back), so the harness passes a few anchors per
\* cyclic component and only the edges inside components; a product cycle never leaves a's component.
\*
\* TLC cannot measure time.  A violation of NoEDA is a *candidate*: its trace gives the pump, and the
\* harness measures prefix . pump^n . kill on the real parser before anything is reported.
EXTENDS Naturals, FiniteSets, Sequences

CONSTANTS N,        \* number of states
          K,        \* number of character classes
          Out,      \* Out[q][c] = set of <<target, m>>: the edges q -c-> target, m = min(2, number of routes)
          Anchors   \* subset of 1..N

VARIABLES a, p1, p2, dv
vars == <<a, p1, p2, dv>>

To(e)   == e[1]
Mult(e) == e[2]

\* ---- well-formedness of what the harness generated (checked by TLC before the search) ----
ASSUME N \in Nat /\ K \in Nat /\ N >= 1
ASSUME DOMAIN Out = 1..N
ASSUME \A q \in 1..N : DOMAIN Out[q] = 1..K
ASSUME \A q \in 1..N : \A c \in 1..K : \A e \in Out[q][c] : To(e) \in 1..N /\ Mult(e) \in {1, 2}
\* one bundle per <source, class, target>
ASSUME \A q \in 1..N : \A c \in 1..K : \A e1, e2 \in Out[q][c] : To(e1) = To(e2) => e1 = e2
ASSUME Anchors \subseteq 1..N

Init == /\ a \in Anchors
        /\ p1 = a
        /\ p2 = a
        /\ dv = FALSE

\* both copies consume one character of the same class; they diverge when they take different edges:
\* different targets, or the same bundle when it stands for several routes
Step == \E c \in 1..K : \E e1 \in Out[p1][c] : \E e2 \in Out[p2][c] :
          /\ p1' = To(e1)
          /\ p2' = To(e2)
          /\ dv' = (dv \/ To(e1) # To(e2) \/ Mult(e1) = 2)
          /\ a' = a

Next == Step

Spec == Init /\ [][Next]_vars

TypeOK == a \in Anchors /\ p1 \in 1..N /\ p2 \in 1..N /\ dv \in BOOLEAN

\* design-level sanity of the product itself: while the copies have not diverged they are in the same
\* state (so "p1 # p2" never has to be tested in Step)
SameUntilDiverged == ~dv => p1 = p2

\* T-NoEDA
NoEDA == ~(dv /\ p1 = a /\ p2 = a)
=============================================================================
