------------------------------- MODULE MC_C12 --------------------------------
\* C12: namespace selectors compare namespace URIs through the caller's prefix map.  Namespace-aware
\* documents (XML builder; and an HTML5-style tree whose root is in the XHTML namespace) with elements
\* in {no namespace, U1, U2, XHTML} under document prefixes chosen independently of the caller's map,
\* attributes a in {no namespace, U1, U2}; every prefix map over {default, p, q} x {U1, U2, XHTML};
\* the element forms E, *|E, |E, p|E, q|E, u|E (unmapped), *, p|*, :is(E), :not(p|E) and the
\* attribute forms [a], [|a], [*|a], [p|a], [q|a], [u|a]; complex selectors whose non-subject compound has no type selector,
\* and lists of type-less alternatives inside :is / :not / :has / :nth-child(of).
EXTENDS CssDecl, TLC, Json, SequencesExt
CONSTANTS MaxKids
VARIABLE doc

R == <<114>>
E == <<101>>
F == <<102>>
A == <<97>>
U1 == <<117,114,110,58,49>>
U2 == <<117,114,110,58,50>>
P == <<112>>
Q == <<113>>
U == <<117>>
DP == <<100>>                                  \* a document prefix the caller never uses
X == <<120>>
NsChoices == {<<>>, U1, U2, XHTML}
AtNo == [k |-> A, ns |-> <<>>, local |-> A, v |-> X, list |-> FALSE]
AtNs(px, uri) == [k |-> px \o <<58>> \o A, ns |-> uri, local |-> A, v |-> X, list |-> FALSE]
Y == <<121>>
AtNoY == [k |-> A, ns |-> <<>>, local |-> A, v |-> Y, list |-> FALSE]
TY == <<116,121,112,101>>                      \* "type"
XUp == <<88>>
TyNo(v) == [k |-> TY, ns |-> <<>>, local |-> TY, v |-> v, list |-> FALSE]
TyNs(px, uri, v) == [k |-> px \o <<58>> \o TY, ns |-> uri, local |-> TY, v |-> v, list |-> FALSE]
AttrChoices == {<<AtNoY, AtNs(Q, U2)>>, <<AtNs(Q, U2), AtNoY>>, <<AtNs(P, U1), AtNoY, AtNs(Q, U2)>>,      \* the same local name with DIFFERENT values
                <<>>, <<AtNo>>, <<AtNs(P, U1)>>, <<AtNs(P, U2)>>, <<AtNs(DP, U1)>>, <<AtNo, AtNs(Q, U2)>>,
                <<AtNs(P, U1), AtNs(Q, U2)>>, <<AtNs(Q, U2), AtNs(P, U1)>>, <<AtNs(DP, U2), AtNs(Q, U1), AtNo>>,
                <<TyNo(XUp), TyNs(Q, U2, X)>>, <<TyNs(Q, U2, XUp), TyNo(X)>>}     \* the `type` attribute (case-insensitive value in HTML, exact in XML) twice, values differing in case

Map(seq) == seq
Maps == { <<>>,
          <<[p |-> P, u |-> U1]>>, <<[p |-> P, u |-> U2]>>,
          <<[p |-> P, u |-> U1], [p |-> Q, u |-> U2]>>,
          <<[p |-> <<>>, u |-> U1]>>, <<[p |-> <<>>, u |-> XHTML]>>,
          <<[p |-> <<>>, u |-> U1], [p |-> P, u |-> U2]>>,
          <<[p |-> <<>>, u |-> U2], [p |-> P, u |-> U1], [p |-> Q, u |-> XHTML]>>,
          <<[p |-> P, u |-> U1], [p |-> <<80>>, u |-> U2]>>, <<[p |-> <<80>>, u |-> U1]>> }          \* prefixes are case-sensitive: p and P
NsB == [t |-> "bare"]
NsN == [t |-> "none"]
NsA == [t |-> "any"]
NsP(x) == [t |-> "pfx", p |-> x]
TypeS(ns, n) == [k |-> "type", ns |-> ns, name |-> n]
AttrS(ns) == [k |-> "attr", ns |-> ns, name |-> A, op |-> "ex", val |-> <<>>, flag |-> "n"]
AttrU(ns) == [k |-> "attr", ns |-> ns, name |-> <<65>>, op |-> "ex", val |-> <<>>, flag |-> "n"]     \* the same name in upper case
Cx1(c) == [cs |-> <<c>>, cb |-> <<>>]
Forms == {Cx1(<<TypeS(ns, E)>>) : ns \in {NsB, NsN, NsA, NsP(P), NsP(Q), NsP(U), NsP(<<80>>)}}
    \cup {Cx1(<<TypeS(NsB, Star)>>), Cx1(<<TypeS(NsP(P), Star)>>), Cx1(<<TypeS(NsA, Star)>>), Cx1(<<TypeS(NsN, Star)>>)}
    \cup {Cx1(<<[k |-> "is", args |-> <<Cx1(<<TypeS(NsB, E)>>)>>]>>),
          Cx1(<<[k |-> "not", args |-> <<Cx1(<<TypeS(NsP(P), E)>>)>>]>>),
          Cx1(<<[k |-> "is", args |-> <<Cx1(<<AttrS(NsB)>>)>>]>>)}
    \cup {Cx1(<<AttrS(ns)>>) : ns \in {NsB, NsN, NsA, NsP(P), NsP(Q), NsP(U)}}
    \cup {Cx1(<<AttrU(ns)>>) : ns \in {NsB, NsA, NsP(P)}} \cup {Cx1(<<TypeS(NsP(P), <<69>>)>>)}
    \cup {Cx1(<<TypeS(NsP(P), E), AttrS(NsP(P))>>), Cx1(<<[k |-> "first-of-type"]>>), Cx1(<<AttrS(NsP(P)), AttrS(NsP(Q))>>)}
\* several compounds: a top-level compound WITHOUT a type selector is an implied universal subject to the default namespace wherever it
\* stands in the complex selector (not only as the subject); inside pseudo-class arguments no alternative of a list gets one
Cx2(c1, cb, c2) == [cs |-> <<c1, c2>>, cb |-> <<cb>>]
IsL(a, b) == [k |-> "is", args |-> <<Cx1(a), Cx1(b)>>]
NotL(a, b) == [k |-> "not", args |-> <<Cx1(a), Cx1(b)>>]
Forms2 == {Cx2(<<[k |-> "first-of-type"]>>, ">", <<TypeS(NsA, E)>>), Cx2(<<[k |-> "root"]>>, " ", <<TypeS(NsB, E)>>),
           Cx2(<<TypeS(NsA, R)>>, ">", <<AttrS(NsB)>>), Cx2(<<TypeS(NsB, Star)>>, ">", <<TypeS(NsA, Star)>>),
           Cx2(<<AttrS(NsB)>>, "~", <<TypeS(NsA, Star)>>), Cx2(<<AttrS(NsA)>>, "+", <<AttrS(NsA)>>),
           Cx1(<<TypeS(NsA, Star), IsL(<<AttrS(NsB)>>, <<AttrU(NsB)>>)>>), Cx1(<<TypeS(NsA, Star), NotL(<<AttrS(NsB)>>, <<AttrU(NsB)>>)>>),
           Cx1(<<TypeS(NsA, Star), [k |-> "nth", a |-> 0, b |-> 1, last |-> FALSE, oftype |-> FALSE, of |-> <<Cx1(<<AttrS(NsA)>>), Cx1(<<AttrU(NsA)>>)>>]>>),
           Cx1(<<TypeS(NsA, Star), [k |-> "has", args |-> <<[comb |-> ">", cx |-> Cx1(<<AttrS(NsA)>>)], [comb |-> " ", cx |-> Cx1(<<AttrU(NsA)>>)]>>]>>),
           Cx1(<<[k |-> "nth", a |-> 0, b |-> 2, last |-> FALSE, oftype |-> FALSE, of |-> <<>>]>>)}
\* value operators under *|: some attribute of that local name has the value, whatever the order of the attributes
AttrV(ns, op, v) == [k |-> "attr", ns |-> ns, name |-> A, op |-> op, val |-> v, flag |-> "n"]
Forms3 == {Cx1(<<AttrV(ns, op, v)>>) : ns \in {NsA, NsB, NsP(Q)}, op \in {"eq", "ne", "pre"}, v \in {X, Y}}
    \* != under a subject that is NOT confined to the default namespace: the negation is about the attribute only
    \cup {Cx1(<<TypeS(tns, nm), AttrV(NsB, "ne", v)>>) : tns \in {NsA, NsP(P)}, nm \in {Star, E}, v \in {X, Y}}
    \* the type attribute under *| and under a prefix: which attribute is looked at and how its value compares are decided together
    \cup {Cx1(<<[k |-> "attr", ns |-> ns, name |-> TY, op |-> op, val |-> v, flag |-> "n"]>>) : ns \in {NsA, NsB, NsP(Q)}, op \in {"eq", "ne"}, v \in {X, XUp}}
PoolSet == {[sel |-> <<f>>, ns |-> m] : f \in Forms \cup Forms2 \cup Forms3, m \in Maps}
Pool == SetToSeq(PoolSet)
ASSUME PrintT(ToJson([pool |-> Pool]))

\* xml: root r without namespace; html5: root in the XHTML namespace of an HTML (non-XML) document
Init == doc \in {AddElem(EmptyDoc("doc", TRUE), 0, R),
                 AddElemNs(EmptyDoc("doc", FALSE), 0, R, XHTML, <<>>, <<>>),
                 AddElemNs(EmptyDoc("doc", TRUE), 0, R, U1, P, <<>>),
                 AddElemNs(EmptyDoc("doc", TRUE), 0, R, XHTML, <<>>, <<>>)}        \* XHTML: XML builder, root in the XHTML namespace
Next == /\ Len(doc.parent) < MaxKids + 1
        /\ \E n \in {E, F}, nsu \in NsChoices, px \in {<<>>, P, DP}, at \in AttrChoices :
             /\ (nsu = <<>> => px = <<>>)
             /\ doc' = AddElemNs(doc, 1, n, nsu, px, at)

Rel1(s) == {i \in Elems(doc) : Matches(doc, [nsmap |-> Pool[s].ns, scope |-> RootOf(doc)], Pool[s].sel, i)}
Res == [s \in 1..Len(Pool) |-> MaskUpTo(Rel1(s), Len(doc.parent))]
Emit == PrintT(ToJson([doc |-> doc, res |-> Res]))
=============================================================================
