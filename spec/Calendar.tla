------------------------------ MODULE Calendar ------------------------------
\* C18: :in-range / :out-of-range. s = [k |-> "in-range"|"out-of-range"]
\* STUB - to be filled in.  Every operator other than the entry point must carry a module-specific
\* prefix, because CssDecl EXTENDS this module together with its siblings (shared name space).
EXTENDS Integers, Sequences, FiniteSets, Str, Dom

RangeHolds(d, s, i) == FALSE
=============================================================================
