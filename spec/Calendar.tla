------------------------------ MODULE Calendar ------------------------------
\* C18: :in-range / :out-of-range.  s = [k |-> "in-range"|"out-of-range"]
\*
\* R stratum.  Written from the HTML standard: "valid date string", "valid month string",
\* "valid week string", "valid time string", "valid local date and time string", "valid
\* floating-point number", the proleptic Gregorian calendar, ISO-8601 week numbering, and the
\* definitions of "suffering from an underflow / overflow" and of :in-range / :out-of-range.
\* Nothing here follows the shape of the implementation.
\*
\* Strings are Seq(Nat) code points.  Every operator but RangeHolds carries the prefix Cal
\* (the module shares a name space with Str, Dom, Lang, TextSem, HtmlState).
\*
\* Integers in TLC are 32 bit.  Years are therefore never converted to a number: a year is
\* its digit string; it is ordered by (length without leading zeros, lexicographic) and the
\* calendar questions (leap year, week count) are asked of its residue modulo 400, computed
\* digit by digit.  T-Calendar (CalThmPeriod400 and friends, checked by TLC in MC_C18_thm)
\* is what justifies the residue: leap years and week counts have period 400.
EXTENDS Integers, Sequences, FiniteSets, Str, Dom

\* ---------------------------------------------------------------------------
\* digit strings
\* ---------------------------------------------------------------------------
CalIsDigit(c) == c >= 48 /\ c <= 57
CalAllDigits(s) == \A n \in 1..Len(s) : CalIsDigit(s[n])
CalDigitRun(s, a, b) == a <= b /\ b <= Len(s) /\ a >= 1 /\ \A n \in a..b : CalIsDigit(s[n])

\* value of a short digit string (callers guarantee at most 9 digits)
RECURSIVE CalNat(_)
CalNat(s) == IF Len(s) = 0 THEN 0 ELSE 10 * CalNat(SubSeq(s, 1, Len(s) - 1)) + (s[Len(s)] - 48)

\* value of a digit string of any length modulo m (m small), digit by digit
RECURSIVE CalModFrom(_, _, _, _)
CalModFrom(s, m, n, acc) == IF n > Len(s) THEN acc ELSE CalModFrom(s, m, n + 1, (acc * 10 + (s[n] - 48)) % m)
CalMod(s, m) == CalModFrom(s, m, 1, 0)

\* without leading zeros (the empty string is zero)
RECURSIVE CalStrip(_)
CalStrip(s) == IF Len(s) > 0 /\ s[1] = 48 THEN CalStrip(Tail(s)) ELSE s
RECURSIVE CalStripR(_)
CalStripR(s) == IF Len(s) > 0 /\ s[Len(s)] = 48 THEN CalStripR(SubSeq(s, 1, Len(s) - 1)) ELSE s

\* three-way comparisons: -1, 0, 1
CalSgn(x) == IF x < 0 THEN -1 ELSE IF x > 0 THEN 1 ELSE 0
\* lexicographic on sequences of naturals; a proper prefix is smaller
RECURSIVE CalCmpLexFrom(_, _, _)
CalCmpLexFrom(a, b, n) ==
    IF n > Len(a) /\ n > Len(b) THEN 0
    ELSE IF n > Len(a) THEN -1
    ELSE IF n > Len(b) THEN 1
    ELSE IF a[n] # b[n] THEN CalSgn(a[n] - b[n])
    ELSE CalCmpLexFrom(a, b, n + 1)
CalCmpLex(a, b) == CalCmpLexFrom(a, b, 1)
\* natural numbers given as digit strings without leading zeros
CalCmpDigits(a, b) == IF Len(a) # Len(b) THEN CalSgn(Len(a) - Len(b)) ELSE CalCmpLex(a, b)

\* ---------------------------------------------------------------------------
\* the proleptic Gregorian calendar and ISO-8601 weeks, on integer years
\* ---------------------------------------------------------------------------
CalLeap(y) == (y % 4 = 0 /\ y % 100 # 0) \/ y % 400 = 0
CalDaysIn(y, m) == IF m = 2 THEN (IF CalLeap(y) THEN 29 ELSE 28)
                   ELSE IF m \in {4, 6, 9, 11} THEN 30 ELSE 31
CalYearLen(y) == IF CalLeap(y) THEN 366 ELSE 365

\* day of the week of 1 January, 0 = Sunday .. 6 = Saturday (Gauss's formula)
CalJan1(y) == (1 + 5 * ((y - 1) % 4) + 4 * ((y - 1) % 100) + 6 * ((y - 1) % 400)) % 7
\* ISO-8601: a year has 53 weeks iff it starts on a Thursday, or is a leap year starting on a
\* Wednesday; otherwise 52
CalWeeksIn(y) == IF CalJan1(y) = 4 \/ (CalLeap(y) /\ CalJan1(y) = 3) THEN 53 ELSE 52

\* -- an independent account of the same things, by counting days (used by the theorems) --
\* days before 1 January of year y, counted from 1 January of year 1 (a Monday)
CalDaysBefore(y) == 365 * (y - 1) + (y - 1) \div 4 - (y - 1) \div 100 + (y - 1) \div 400
\* weekday by day count: day number n (0 = 1 January of year 1) falls on (n + 1) % 7, 0 = Sunday
CalDowOfDayNo(n) == (n + 1) % 7
\* ISO week 1 of year y is the week (Monday .. Sunday) containing 4 January: day number of its Monday
CalWeek1Monday(y) == LET jan4 == CalDaysBefore(y) + 3
                         back == (CalDowOfDayNo(jan4) + 6) % 7     \* days since Monday
                     IN jan4 - back
\* number of ISO weeks by definition: the Mondays of week 1 of consecutive years are that many weeks apart
CalWeeksInByDef(y) == (CalWeek1Monday(y + 1) - CalWeek1Monday(y)) \div 7
\* the ISO week to which 31 December of y belongs is week 1 (of y + 1) exactly when ...
CalDec31InNextYear(y) == CalDaysBefore(y + 1) - 1 >= CalWeek1Monday(y + 1)

\* ---------------------------------------------------------------------------
\* years as digit strings
\* ---------------------------------------------------------------------------
\* "four or more ASCII digits, representing year, where year > 0"
CalYearOk(ys) == Len(ys) >= 4 /\ CalAllDigits(ys) /\ Len(CalStrip(ys)) > 0
\* a year in 1..400 with the same calendar (T-Calendar)
CalYearRep(ys) == LET r == CalMod(ys, 400) IN IF r = 0 THEN 400 ELSE r

\* ---------------------------------------------------------------------------
\* parsed values.  A value is a record with ok; valid calendar values carry
\*   y : the year as a digit string without leading zeros (<<>> for times)
\*   r : the remaining fields, most significant first (naturals)
\* ---------------------------------------------------------------------------
CalNone == [ok |-> FALSE]
CalVal(y, r) == [ok |-> TRUE, y |-> y, r |-> r]

\* YYYY-MM
CalParseMonth(s) ==
    LET n == Len(s) IN
    IF n >= 7 /\ s[n - 2] = 45 /\ CalDigitRun(s, n - 1, n) /\ CalYearOk(SubSeq(s, 1, n - 3))
    THEN LET m == CalNat(SubSeq(s, n - 1, n)) IN
         IF m >= 1 /\ m <= 12 THEN CalVal(CalStrip(SubSeq(s, 1, n - 3)), <<m>>) ELSE CalNone
    ELSE CalNone

\* YYYY-MM-DD
CalParseDate(s) ==
    LET n == Len(s) IN
    IF n >= 10 /\ s[n - 2] = 45 /\ CalDigitRun(s, n - 1, n)
    THEN LET ym == CalParseMonth(SubSeq(s, 1, n - 3))
             dd == CalNat(SubSeq(s, n - 1, n)) IN
         IF ym.ok /\ dd >= 1 /\ dd <= CalDaysIn(CalYearRep(SubSeq(s, 1, n - 6)), ym.r[1])
         THEN CalVal(ym.y, <<ym.r[1], dd>>) ELSE CalNone
    ELSE CalNone

\* The one open finding (F18, known_findings.txt: week53-accepted-when-dec31-in-week1).  A variant
\* reading, NOT the specification: "when 31 December belongs to week 1 of the next year, accept week
\* 53".  It exists only so that a disagreement can be classified as "explained exactly by that rule":
\* checks evaluate CalClassOfK(f, TRUE) next to the specification, and a configuration may set
\* CalLenientWeek53 <- TRUE to re-validate rejected trace events under the variant.
CalLenientWeek53 == FALSE
CalWeeksAccepted(y, lenient) == IF lenient /\ CalDec31InNextYear(y) THEN 53 ELSE CalWeeksIn(y)

\* YYYY-Www
CalParseWeekK(s, lenient) ==
    LET n == Len(s) IN
    IF n >= 8 /\ s[n - 3] = 45 /\ s[n - 2] = 87 /\ CalDigitRun(s, n - 1, n) /\ CalYearOk(SubSeq(s, 1, n - 4))
    THEN LET w == CalNat(SubSeq(s, n - 1, n)) IN
         IF w >= 1 /\ w <= CalWeeksAccepted(CalYearRep(SubSeq(s, 1, n - 4)), lenient)
         THEN CalVal(CalStrip(SubSeq(s, 1, n - 4)), <<w>>) ELSE CalNone
    ELSE CalNone
CalParseWeek(s) == CalParseWeekK(s, CalLenientWeek53)

\* HH:MM, optionally :SS, optionally .f, .ff or .fff   (value: hour, minute, second, millisecond)
CalParseTime(s) ==
    LET n == Len(s)
        hm == n >= 5 /\ CalDigitRun(s, 1, 2) /\ s[3] = 58 /\ CalDigitRun(s, 4, 5)
        sec == n >= 8 /\ s[6] = 58 /\ CalDigitRun(s, 7, 8)
        frac == n >= 10 /\ n <= 12 /\ s[9] = 46 /\ CalDigitRun(s, 10, n)
        shape == hm /\ (n = 5 \/ (sec /\ (n = 8 \/ frac)))
    IN IF shape
       THEN LET h == CalNat(SubSeq(s, 1, 2))
                mi == CalNat(SubSeq(s, 4, 5))
                se == IF n >= 8 THEN CalNat(SubSeq(s, 7, 8)) ELSE 0
                ms == IF n >= 10 THEN CalNat(SubSeq(s, 10, n)) * (IF n = 10 THEN 100 ELSE IF n = 11 THEN 10 ELSE 1) ELSE 0
            IN IF h <= 23 /\ mi <= 59 /\ se <= 59 THEN CalVal(<<>>, <<h, mi, se, ms>>) ELSE CalNone
       ELSE CalNone

\* date, then "T" or a space, then time
CalParseLocal(s) ==
    LET ks == {k \in 1..Len(s) : s[k] \in {84, 32}} IN
    IF Cardinality(ks) = 1
    THEN LET k == CHOOSE x \in ks : TRUE
             dt == CalParseDate(SubSeq(s, 1, k - 1))
             tm == CalParseTime(SubSeq(s, k + 1, Len(s))) IN
         IF dt.ok /\ tm.ok THEN CalVal(dt.y, dt.r \o tm.r) ELSE CalNone
    ELSE CalNone

\* order of calendar values of one type
CalCmpCal(a, b) == LET c == CalCmpDigits(a.y, b.y) IN IF c # 0 THEN c ELSE CalCmpLex(a.r, b.r)

\* ---------------------------------------------------------------------------
\* numbers: "valid floating-point number"
\*   optional "-"; digits, or digits "." digits, or "." digits; optional e|E, optional sign, digits
\* value = sign * 0.ds * 10^e with ds free of leading and trailing zeros (ds = <<>> is zero)
\* ---------------------------------------------------------------------------
RECURSIVE CalSkipDigits(_, _)
CalSkipDigits(s, p) == IF p <= Len(s) /\ CalIsDigit(s[p]) THEN CalSkipDigits(s, p + 1) ELSE p

CalParseNum(s) ==
    LET n == Len(s)
        p0 == IF n >= 1 /\ s[1] = 45 THEN 2 ELSE 1
        p1 == CalSkipDigits(s, p0)
        hasInt == p1 > p0
        hasDot == p1 <= n /\ s[p1] = 46
        p2 == IF hasDot THEN CalSkipDigits(s, p1 + 1) ELSE p1
        fracOk == hasDot => p2 > p1 + 1
        hasExp == p2 <= n /\ s[p2] \in {101, 69}
        p3 == IF hasExp /\ p2 + 1 <= n /\ s[p2 + 1] \in {45, 43} THEN p2 + 2 ELSE p2 + 1
        p4 == IF hasExp THEN CalSkipDigits(s, p3) ELSE p2
        expOk == hasExp => (p4 > p3 /\ p4 - p3 <= 6)      \* exponents of more than 6 digits are outside the model
    IN IF (hasInt \/ hasDot) /\ fracOk /\ expOk /\ p4 = n + 1
       THEN LET ints == SubSeq(s, p0, p1 - 1)
                frac == IF hasDot THEN SubSeq(s, p1 + 1, p2 - 1) ELSE <<>>
                all == ints \o frac
                lead == Len(all) - Len(CalStrip(all))
                ex == IF hasExp THEN (IF s[p2 + 1] = 45 THEN 0 - CalNat(SubSeq(s, p3, p4 - 1)) ELSE CalNat(SubSeq(s, p3, p4 - 1))) ELSE 0
                ds == CalStripR(CalStrip(all))
            IN [ok |-> TRUE, neg |-> (p0 = 2 /\ Len(ds) > 0), ds |-> ds,
                e |-> IF Len(ds) = 0 THEN 0 ELSE Len(ints) - lead + ex]
       ELSE CalNone

CalCmpMag(a, b) ==      \* magnitudes
    IF Len(a.ds) = 0 \/ Len(b.ds) = 0 THEN CalSgn(Len(a.ds) - Len(b.ds))
    ELSE IF a.e # b.e THEN CalSgn(a.e - b.e) ELSE CalCmpLex(a.ds, b.ds)
CalCmpNum(a, b) ==
    IF a.neg /\ ~b.neg THEN -1
    ELSE IF ~a.neg /\ b.neg THEN 1
    ELSE IF a.neg THEN CalCmpMag(b, a) ELSE CalCmpMag(a, b)

\* ---------------------------------------------------------------------------
\* the input types with a range, their values and their order
\* ---------------------------------------------------------------------------
CalTDate == <<100,97,116,101>>
CalTMonth == <<109,111,110,116,104>>
CalTWeek == <<119,101,101,107>>
CalTTime == <<116,105,109,101>>
CalTLocal == <<100,97,116,101,116,105,109,101,45,108,111,99,97,108>>
CalTNumber == <<110,117,109,98,101,114>>
CalTRange == <<114,97,110,103,101>>
CalTypes == {CalTDate, CalTMonth, CalTWeek, CalTTime, CalTLocal, CalTNumber, CalTRange}
CalNumeric(t) == t \in {CalTNumber, CalTRange}

CalParse(t, s) ==
    CASE t = CalTDate  -> CalParseDate(s)
      [] t = CalTMonth -> CalParseMonth(s)
      [] t = CalTWeek  -> CalParseWeek(s)
      [] t = CalTTime  -> CalParseTime(s)
      [] t = CalTLocal -> CalParseLocal(s)
      [] CalNumeric(t) -> CalParseNum(s)
      [] OTHER -> CalNone
CalValid(t, s) == CalParse(t, s).ok
CalCmp(t, a, b) == IF CalNumeric(t) THEN CalCmpNum(a, b) ELSE CalCmpCal(a, b)
CalLess(t, a, b) == CalCmp(t, a, b) < 0

\* an attribute that may be absent: <<>> or <<value>>; absent parses to nothing
CalParseOpt(t, o) == IF Len(o) = 0 THEN CalNone ELSE CalParse(t, o[1])

\* v is out of the range [mn, mx] (each of the three possibly not ok).
\* "an invalid or missing value is never out of range"; a bound that is invalid or missing does
\* not constrain; a time range with mn > mx wraps around midnight: the allowed values are
\* v >= mn or v <= mx, so out of range is mx < v < mn.
CalOut(t, mn, mx, v) ==
    /\ v.ok
    /\ IF t = CalTTime /\ mn.ok /\ mx.ok /\ CalLess(t, mx, mn)
       THEN CalLess(t, mx, v) /\ CalLess(t, v, mn)
       ELSE (mn.ok /\ CalLess(t, v, mn)) \/ (mx.ok /\ CalLess(t, mx, v))

\* ---------------------------------------------------------------------------
\* the pseudo-classes
\* ---------------------------------------------------------------------------
CalInput == <<105,110,112,117,116>>
CalAType == <<116,121,112,101>>
CalAMin == <<109,105,110>>
CalAMax == <<109,97,120>>
CalAValue == <<118,97,108,117,101>>

CalAttrOpt(d, i, nm) == IF HasAttr(d, i, nm) THEN <<AttrVal(d, i, nm)>> ELSE <<>>
\* the type keyword is ASCII case-insensitive
CalTypeOf(d, i) == IF HasAttr(d, i, CalAType) THEN Lower(AttrVal(d, i, CalAType)) ELSE <<>>

\* an HTML input element whose type has a range and that carries a min or a max attribute
CalCandidate(d, i) ==
    /\ IsEl(d, i) /\ IsHtml(d) /\ IsHtmlEl(d, i)
    /\ NameKey(d, d.name[i]) = CalInput
    /\ CalTypeOf(d, i) \in CalTypes
    /\ (HasAttr(d, i, CalAMin) \/ HasAttr(d, i, CalAMax))

\* what the pseudo-classes look at, read off the element once: candidate, type keyword, the three
\* attribute values as optional strings
CalFacts(d, i) == [cand |-> CalCandidate(d, i), t |-> CalTypeOf(d, i), mn |-> CalAttrOpt(d, i, CalAMin),
                   mx |-> CalAttrOpt(d, i, CalAMax), v |-> CalAttrOpt(d, i, CalAValue)]

\* "none": not a candidate, or no range limitation (no valid bound); otherwise "in" or "out"
\* (lenient: week strings read under the F18 variant; the specification is lenient = FALSE)
CalParseOptK(t, o, lenient) == IF t = CalTWeek /\ Len(o) = 1 THEN CalParseWeekK(o[1], lenient) ELSE CalParseOpt(t, o)
CalClassOfK(f, lenient) ==
    IF ~f.cand THEN "none"
    ELSE LET mn == CalParseOptK(f.t, f.mn, lenient)
             mx == CalParseOptK(f.t, f.mx, lenient)
         IN IF ~(mn.ok \/ mx.ok) THEN "none"
            ELSE IF CalOut(f.t, mn, mx, CalParseOptK(f.t, f.v, lenient)) THEN "out" ELSE "in"
CalClassOf(f) == CalClassOfK(f, CalLenientWeek53)
\* the class the F18 variant gives when it differs from the specification's, else "same"
CalKnownClass(d, i) ==
    LET f == CalFacts(d, i) IN
    IF f.cand /\ f.t = CalTWeek /\ CalClassOfK(f, TRUE) # CalClassOfK(f, FALSE) THEN CalClassOfK(f, TRUE) ELSE "same"
CalClass(d, i) == CalClassOf(CalFacts(d, i))
CalOutOfRange(d, i) == CalClass(d, i) = "out"
CalInRange(d, i) == CalClass(d, i) = "in"

RangeHolds(d, s, i) == IF s.k = "out-of-range" THEN CalOutOfRange(d, i) ELSE CalInRange(d, i)

\* ---------------------------------------------------------------------------
\* what the property decides (DESIGN section 5, underdetermined zones).  The definitions above
\* give HTML's reading everywhere; a check gates only on elements all of whose strings are decided:
\*  - numbers: the shape -?digits(.digits)? is valid under every reading, and strings that no
\*    reading accepts (after optional leading white space and one optional sign there is neither a
\*    digit nor "." digit) are invalid under every reading; everything else (exponents, ".5",
\*    "5.", "+5", " 5", "5x" ..) is read differently by HTML's grammar, HTML's parsing rules and the
\*    property text
\*  - times with seconds, local date-times with seconds or with a space instead of "T": valid for
\*    HTML, outside the forms the property text lists
\* ---------------------------------------------------------------------------
CalNumPlain(s) ==
    LET n == Len(s)
        p0 == IF n >= 1 /\ s[1] = 45 THEN 2 ELSE 1
        p1 == CalSkipDigits(s, p0)
        p2 == IF p1 <= n /\ s[p1] = 46 THEN CalSkipDigits(s, p1 + 1) ELSE p1
    IN p1 > p0 /\ (p1 = n + 1 \/ (s[p1] = 46 /\ p2 > p1 + 1 /\ p2 = n + 1))
RECURSIVE CalSkipWs(_, _)
CalSkipWs(s, p) == IF p <= Len(s) /\ IsWs(s[p]) THEN CalSkipWs(s, p + 1) ELSE p
CalNumHopeless(s) ==
    LET n == Len(s)
        q0 == CalSkipWs(s, 1)
        q1 == IF q0 <= n /\ s[q0] \in {45, 43} THEN q0 + 1 ELSE q0
    IN ~(q1 <= n /\ (CalIsDigit(s[q1]) \/ (s[q1] = 46 /\ q1 + 1 <= n /\ CalIsDigit(s[q1 + 1]))))

CalDecided(t, s) ==
    CASE CalNumeric(t) -> CalNumPlain(s) \/ CalNumHopeless(s)
      [] t = CalTTime  -> ~(CalParseTime(s).ok /\ Len(s) > 5)
      [] t = CalTLocal -> ~(CalParseLocal(s).ok /\ (\E k \in 1..Len(s) : s[k] = 32 \/ (s[k] = 84 /\ Len(s) - k > 5)))
      [] OTHER -> TRUE
CalDecidedOpt(t, o) == Len(o) = 0 \/ CalDecided(t, o[1])
\*  - XML / XHTML documents: whether the type keyword is still ASCII case-insensitive there (HTML: it is
\*    an enumerated attribute; Selectors: attribute values compare exactly outside HTML documents)
CalTypeSpellingDecided(d, i) ==
    (d.xml /\ HasAttr(d, i, CalAType)) => AttrVal(d, i, CalAType) = Lower(AttrVal(d, i, CalAType))
CalGatedOf(f) == f.cand => (CalDecidedOpt(f.t, f.mn) /\ CalDecidedOpt(f.t, f.mx) /\ CalDecidedOpt(f.t, f.v))
CalGated(d, i) == (IsEl(d, i) => CalTypeSpellingDecided(d, i)) /\ CalGatedOf(CalFacts(d, i))

\* ---------------------------------------------------------------------------
\* design-level theorems (each is an INVARIANT / ASSUME of MC_C18_thm; Y, strings are supplied there)
\* ---------------------------------------------------------------------------
\* T-Calendar: leap years, month lengths, 1 January's weekday and week counts have period 400
CalThmPeriod400(y) ==
    /\ CalLeap(y + 400) = CalLeap(y)
    /\ CalJan1(y + 400) = CalJan1(y)
    /\ CalWeeksIn(y + 400) = CalWeeksIn(y)
    /\ \A m \in 1..12 : CalDaysIn(y + 400, m) = CalDaysIn(y, m)
    /\ CalDaysBefore(y + 400) - CalDaysBefore(y) = 146097          \* = 20871 weeks
    /\ CalDec31InNextYear(y + 400) = CalDec31InNextYear(y)
\* Gauss's weekday formula is the day count
CalThmJan1(y) == CalJan1(y) = CalDowOfDayNo(CalDaysBefore(y))
\* the year is the sum of its months, consecutive years are a year apart
CalThmYearLen(y) ==
    /\ CalDaysBefore(y + 1) - CalDaysBefore(y) = CalYearLen(y)
    /\ CalYearLen(y) = CalDaysIn(y,1) + CalDaysIn(y,2) + CalDaysIn(y,3) + CalDaysIn(y,4) + CalDaysIn(y,5) + CalDaysIn(y,6)
                     + CalDaysIn(y,7) + CalDaysIn(y,8) + CalDaysIn(y,9) + CalDaysIn(y,10) + CalDaysIn(y,11) + CalDaysIn(y,12)
\* the Thursday rule is ISO-8601's definition of the week count; every year has 52 or 53 weeks;
\* when 31 December belongs to week 1 of the next year the year has 52 weeks, not 53
CalThmWeeks(y) ==
    /\ CalWeeksIn(y) = CalWeeksInByDef(y)
    /\ CalWeeksIn(y) \in {52, 53}
    /\ (CalDec31InNextYear(y) => CalWeeksIn(y) = 52)
    /\ CalWeek1Monday(y) - CalDaysBefore(y) \in -3..3
\* 31 December belongs to week 1 of the next year exactly when it is a Monday, Tuesday or Wednesday
    /\ (CalDec31InNextYear(y) <=> CalDowOfDayNo(CalDaysBefore(y + 1) - 1) \in {1, 2, 3})
\* 71 of every 400 consecutive years have 53 weeks
CalThm71(y0) == Cardinality({y \in y0..(y0 + 399) : CalWeeksIn(y) = 53}) = 71
\* a year given as a digit string has the calendar of its representative
CalThmRep(ys, y) == (CalYearRep(ys) - y) % 400 = 0 /\ CalYearRep(ys) \in 1..400
\* the order of valid values of a type is a strict total order compatible with equality of values
CalThmOrder(t, S) ==
    \A a \in S : \A b \in S :
        LET pa == CalParse(t, a)
            pb == CalParse(t, b) IN
        (pa.ok /\ pb.ok) =>
            /\ CalCmp(t, pa, pb) = 0 - CalCmp(t, pb, pa)
            /\ (CalCmp(t, pa, pb) = 0 <=> pa = pb)
            /\ \A c \in S : LET pc == CalParse(t, c) IN
                  (pc.ok /\ CalCmp(t, pa, pb) <= 0 /\ CalCmp(t, pb, pc) <= 0) => CalCmp(t, pa, pc) <= 0
\* an invalid or missing value is never out of range, and an element is in or out of range exactly
\* when it is a candidate with a valid bound (never both: CalClass is a function)
CalThmExclusive(d, i) ==
    LET f == CalFacts(d, i)
        c == CalClassOf(f) IN
    /\ (c = "out" => CalParseOpt(f.t, f.v).ok)
    /\ (c # "none" <=> (f.cand /\ (CalParseOpt(f.t, f.mn).ok \/ CalParseOpt(f.t, f.mx).ok)))
=============================================================================
