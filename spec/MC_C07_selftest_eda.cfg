INIT Init
NEXT Next
INVARIANT TypeOK
INVARIANT SameUntilDiverged
INVARIANT NoEDA
CHECK_DEADLOCK FALSE
