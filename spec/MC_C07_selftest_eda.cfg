CONSTANTS
  N <- MC_N
  K <- MC_K
  M <- MC_M
  Anchors <- MC_Anchors
  Out <- MC_Out
INIT Init
NEXT Next
INVARIANT TypeOK
INVARIANT DetNoDiv
INVARIANT NoEDA
CHECK_DEADLOCK FALSE
