INIT InitA
NEXT NextA
POSTCONDITION AcceptedA
CHECK_DEADLOCK FALSE
