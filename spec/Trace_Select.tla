---------------------------- MODULE Trace_Select ----------------------------
\* B2 (code -> spec): validates a trace of query events recorded from the real soupsieve
\* against CssDecl.  One ndjson line per event:
\*   [id, doc (Dom record), sel (Seq(Complex)), nsmap, scope, target, res (Seq of node ids)]
\* An event conforms when the recorded result list is exactly the specification's
\* SelectSet in document order.  The verdict is total: a non-conforming event is reported
\* with PrintT(<<"REJECT", id>>) and validation continues with the next event.
EXTENDS CssDecl, TLC, TLCExt, Json, IOUtils, SequencesExt
VARIABLE l

Tr == ndJsonDeserialize(IOEnv.TRACE_FILE)

RECURSIVE SortedSeq(_)
SortedSeq(S) == IF S = {} THEN <<>> ELSE <<Min(S)>> \o SortedSeq(S \ {Min(S)})

Expected(e) == SortedSeq(SelectSet(e.doc, [nsmap |-> e.nsmap, scope |-> e.scope], e.sel, e.target))
Conforms(e) == e.res = Expected(e)

Init == l = 0
Next == /\ l < Len(Tr)
        /\ l' = l + 1
        /\ (IF Conforms(Tr[l + 1]) THEN TRUE ELSE PrintT(<<"REJECT", Tr[l + 1].id, ToString(Expected(Tr[l + 1]))>>))
\* every line was consumed (one state per event plus the initial state)
Accepted == TLCGet("stats").diameter - 1 = Len(Tr)
=============================================================================
