-------------------------------- MODULE Cache --------------------------------
\* Machine M7: the pattern cache as an LRU of bound K over keys (pattern, namespaces, custom, flags).
\*   Compile(k)   hit: k moves to the front; miss: k is parsed and pushed, the least recently used
\*                entry is dropped when the bound is exceeded
\*   Purge        empties the cache and its statistics
\*   PassSame     compile(compiled object) returns the object, cache untouched
\*   PassExtra    compile(compiled object, extra argument) is rejected (ValueError), cache untouched
\* obs records, per action, what the implementation must show afterwards:
\*   [act, key, hit, hits, misses, size]   (key = 0 for actions without one)
EXTENDS Naturals, Sequences, FiniteSets
CONSTANTS NKeys, K, Depth
VARIABLES cache, hits, misses, obs

Init == cache = <<>> /\ hits = 0 /\ misses = 0 /\ obs = <<>>

InCache(k) == \E n \in 1..Len(cache) : cache[n] = k
Without(k) == SelectSeq(cache, LAMBDA x : x # k)
Ob(a, k, h, hs, ms, sz) == [act |-> a, key |-> k, hit |-> h, hits |-> hs, misses |-> ms, size |-> sz]

Compile(k) ==
    /\ Len(obs) < Depth
    /\ IF InCache(k)
       THEN /\ cache' = <<k>> \o Without(k)
            /\ hits' = hits + 1 /\ misses' = misses
            /\ obs' = Append(obs, Ob("compile", k, TRUE, hits + 1, misses, Len(cache)))
       ELSE /\ cache' = SubSeq(<<k>> \o cache, 1, IF Len(cache) + 1 > K THEN K ELSE Len(cache) + 1)
            /\ misses' = misses + 1 /\ hits' = hits
            /\ obs' = Append(obs, Ob("compile", k, FALSE, hits, misses + 1, IF Len(cache) + 1 > K THEN K ELSE Len(cache) + 1))
Purge == /\ Len(obs) < Depth
         /\ cache' = <<>> /\ hits' = 0 /\ misses' = 0
         /\ obs' = Append(obs, Ob("purge", 0, FALSE, 0, 0, 0))
Pass(a) == /\ Len(obs) < Depth /\ Len(cache) > 0
           /\ UNCHANGED <<cache, hits, misses>>
           /\ obs' = Append(obs, Ob(a, cache[1], FALSE, hits, misses, Len(cache)))
Next == (\E k \in 1..NKeys : Compile(k)) \/ Purge \/ Pass("pass_same") \/ Pass("pass_extra")

\* T-LRU
Bounded == Len(cache) <= K
NoDup == \A i, j \in 1..Len(cache) : i # j => cache[i] # cache[j]
StatsSound == hits + misses >= Len(cache)
PurgeEmpties == (Len(obs) > 0 /\ obs[Len(obs)].act = "purge") => cache = <<>>
\* a hit is exactly a key compiled since the last purge and not evicted: the most recent K distinct keys
RECURSIVE RecentKeys(_, _)
RecentKeys(n, acc) ==
    IF n = 0 \/ obs[n].act = "purge" \/ Cardinality(acc) = K THEN acc
    ELSE RecentKeys(n - 1, IF obs[n].act = "compile" THEN acc \cup {obs[n].key} ELSE acc)
CacheIsRecent == {cache[n] : n \in 1..Len(cache)} = RecentKeys(Len(obs), {})
=============================================================================
