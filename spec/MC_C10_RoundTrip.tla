-------------------------- MODULE MC_C10_RoundTrip --------------------------
\* T-EscapeRoundTrip (DESIGN 4, C10): the reference tokenizer applied to the reference
\* serialization of an identifier s, followed by anything that can follow an identifier in a
\* selector (the end of an attribute selector, a combinator, another simple selector, the end of
\* the selector), consumes exactly the serialization and yields s with NUL replaced by U+FFFD.
\* Shared by the enumerating configurations (MC_C10_build, MC_C10_lex) and the trace
\* specification (Trace_C10).  Constant level: no variables.
EXTENDS Escape, IdentLex

\* "]"   " "   "."   ","   ">"   ":"   "["   ")"   and the end of input
Terminators == { <<93>>, <<32>>, <<46>>, <<44>>, <<62>>, <<58>>, <<91>>, <<41>>, <<32, 98>>, <<>> }

\* text is consumed as exactly one identifier with value v, whatever terminator follows
LexesTo(text, v) ==
    \A t \in Terminators :
        LET r == LexIdent(text \o t) IN r.ok /\ r.consumed = Len(text) /\ r.value = v

RoundTrip(s) == Len(s) > 0 => LexesTo(Escape(s), NulFix(s))
=============================================================================
