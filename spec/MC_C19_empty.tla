--------------------------- MODULE MC_C19_empty ----------------------------
\* C19 configuration "empty": one element with a child row of length <= MaxRow over
\*   {empty text, " ", TAB LF FF CR, NBSP, "x", comment, CDATA, PI, doctype, declaration, element}
\* in HTML and XML, against :empty, :not(:empty) and :empty next to the text pseudo-classes.
\* :empty holds exactly when there is no element child and no text child with a non-whitespace
\* character (whitespace = space, tab, LF, FF, CR; NBSP is not whitespace; CDATA, comments, PIs,
\* doctypes and declarations are not text).
EXTENDS CssDecl, TLC, Json, SequencesExt
CONSTANTS MaxRow
VARIABLE doc

A == <<97>>
B == <<98>>
X == <<120>>
SP == <<32>>
WS4 == <<9,10,12,13>>
NBSP == <<160>>
Texts == {<<>>, SP, WS4, NBSP, X}
Specials == {"c", "cd", "pi", "dt", "dc"}

Ct(vals, own) == [k |-> "contains", vals |-> vals, own |-> own]
Cx1(c) == [cs |-> <<c>>, cb |-> <<>>]
Emp == [k |-> "empty"]
Not(c) == [k |-> "not", args |-> <<Cx1(c)>>]
TypeS(n) == [k |-> "type", ns |-> Bare, name |-> n]
PoolSet == {Cx1(<<Emp>>), Cx1(<<Not(<<Emp>>)>>), Cx1(<<TypeS(A), Emp>>),
            Cx1(<<Emp, Ct(<<SP>>, TRUE)>>), Cx1(<<Emp, Ct(<<<<>>>>, TRUE)>>), Cx1(<<Not(<<Emp>>), Ct(<<NBSP>>, FALSE)>>),
            Cx1(<<Ct(<<<<10>>>>, FALSE)>>)}
Pool == SetToSeq(PoolSet)
ASSUME PrintT(ToJson([pool |-> [s \in 1..Len(Pool) |-> <<Pool[s]>>]]))

Init == doc \in {AddElem(EmptyDoc("doc", xml), 0, A) : xml \in BOOLEAN}
Next == /\ Cardinality(Children(doc, 1)) < MaxRow
        /\ \/ \E tx \in Texts : doc' = AddData(doc, 1, "t", tx)
           \/ \E k \in Specials : doc' = AddData(doc, 1, k, X)
           \/ doc' = AddElem(doc, 1, B)

Env == [nsmap |-> <<>>, scope |-> RootOf(doc)]
RelOf(cx) == {i \in Elems(doc) : Matches(doc, Env, <<cx>>, i)}
Res == [s \in 1..Len(Pool) |-> MaskUpTo(RelOf(Pool[s]), Len(doc.parent))]
Emit == PrintT(ToJson([doc |-> doc, res |-> Res, alt |-> <<>>]))

\* :empty says nothing about comments etc.: removing every non-text, non-element child keeps it
ThEmptyText == \A i \in Elems(doc) :
                 /\ EmptyHolds(doc, i) => AllWs(TxTextOf(doc, i))
                 /\ EmptyHolds(doc, i) = (ElChildren(doc, i) = {} /\ \A m \in 1..Len(TxOwnTexts(doc, i)) : AllWs(TxOwnTexts(doc, i)[m]))
=============================================================================
