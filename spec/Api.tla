-------------------------------- MODULE Api --------------------------------
\* Machine M6/Api: every public entry point as a view of the one match relation CssDecl!Matches.
\* A call is [ep, target, sel, limit, ns, cu]; Outcome(call) is what the entry point must return.
\*   ep \in {"select", "iselect", "select_one", "match", "filter", "filter_iter", "closest"}
\*   target: node id the call is made on (0 = the BeautifulSoup object)
\*   ns / cu: whether the caller passed namespaces= / custom= (the values are constants NsArg / CuArg)
\* The module-level functions and the compiled object's methods have the same outcome: the
\* module-level function is compile(pattern, namespaces, flags, custom=custom) followed by the method.
EXTENDS CssDecl, SequencesExt

RECURSIVE SortedSeq(_)
SortedSeq(S) == IF S = {} THEN <<>> ELSE <<Min(S)>> \o SortedSeq(S \ {Min(S)})

ScopeOf(d, target) == IF target = 0 THEN RootOf(d) ELSE target
EnvOf(d, target, nsmap, custom) == [nsmap |-> nsmap, scope |-> ScopeOf(d, target), custom |-> custom]

Take(seq, k) == IF k < 1 \/ k >= Len(seq) THEN seq ELSE SubSeq(seq, 1, k)

SelectView(d, lst, target, limit, nsmap, custom) ==
    Take(SortedSeq(SelectSet(d, EnvOf(d, target, nsmap, custom), lst, target)), limit)
SelectOneView(d, lst, target, nsmap, custom) ==
    LET r == SelectView(d, lst, target, 1, nsmap, custom) IN IF r = <<>> THEN 0 ELSE r[1]
MatchView(d, lst, target, nsmap, custom) ==
    target # 0 /\ Matches(d, EnvOf(d, target, nsmap, custom), lst, target)
\* filter(tag): the matching element children of tag (the call target is the scope)
FilterView(d, lst, target, nsmap, custom) ==
    SortedSeq({i \in ElChildren(d, target) : Matches(d, EnvOf(d, target, nsmap, custom), lst, i)})
\* filter(iterable): the Tag items that match, in the caller's order, each asked about on its own
FilterIterView(d, lst, items, nsmap, custom) ==
    SelectSeq(items, LAMBDA i : i # 0 /\ IsEl(d, i) /\ Matches(d, EnvOf(d, i, nsmap, custom), lst, i))
\* closest(tag): nearest ancestor-or-self element that matches; never the document object
ClosestView(d, lst, target, nsmap, custom) ==
    IF target = 0 THEN 0
    ELSE LET S == {j \in AncOrSelf(d, target) : Matches(d, EnvOf(d, target, nsmap, custom), lst, j)}
         IN IF S = {} THEN 0 ELSE Max(S)
=============================================================================
