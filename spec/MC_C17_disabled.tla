--------------------------- MODULE MC_C17_disabled ---------------------------
\* C17 configuration "disabled": fieldsets (with and without disabled), legends, neutral
\* containers, optgroups, selects and iframes holding inputs (also type=HIDDEN), options, textareas
\* and buttons, against :enabled, :disabled, :read-write, :read-only.  Focus: the disabled-fieldset
\* rule with its first-legend exception, optgroup[disabled] > option, hidden inputs are no
\* controls, the iframe boundary, and read-write depending on disabled.
EXTENDS CssDecl, TLC, Json, SequencesExt
CONSTANTS MaxNodes, MaxDepth, Level     \* Level 0 slim, 1 normal, 2 rich template set
VARIABLE doc

At(nm, v) == [k |-> nm, ns |-> <<>>, local |-> nm, v |-> v, list |-> FALSE]
HIDDENUP == <<72,73,68,68,69,78>>                  \* "HIDDEN"
Dis == At(HsADisabled, <<>>)
\* container templates and leaf templates: <<name, attributes>>
ContainerT == { <<HsNFieldset, <<Dis>>>>, <<HsNLegend, <<>>>>, <<HsNDiv, <<>>>>,
                <<HsNOptgroup, <<Dis>>>>, <<HsNIframe, <<>>>> }
       \cup (IF Level >= 1 THEN { <<HsNFieldset, <<>>>> } ELSE {})
       \cup (IF Level >= 2 THEN { <<HsNOptgroup, <<>>>>, <<HsNSelect, <<>>>> } ELSE {})
LeafT == { <<HsNInput, <<>>>>,
           <<HsNOption, <<>>>> }
   \cup (IF Level >= 1 THEN { <<HsNInput, <<At(HsAType, HIDDENUP)>>>>, <<HsNTextarea, <<>>>> } ELSE {})
   \cup (IF Level >= 2 THEN { <<HsNButton, <<Dis>>>>, <<HsNInput, <<At(HsAReadonly, <<>>)>>>>,
                              <<HsNInput, <<At(HsAType, HsVHidden), Dis>>>> } ELSE {})
ContainerNames == {t[1] : t \in ContainerT}
Templates == ContainerT \cup LeafT

Cx1(c) == [cs |-> <<c>>, cb |-> <<>>]
Pool == << Cx1(<<HsK("enabled")>>), Cx1(<<HsK("disabled")>>), Cx1(<<HsK("read-write")>>), Cx1(<<HsK("read-only")>>) >>
ASSUME PrintT(ToJson([pool |-> [s \in 1..Len(Pool) |-> <<Pool[s]>>]]))

DepthOf(p) == IF p = 0 THEN 0 ELSE Cardinality(Anc(doc, p)) + 1
CanHold(p) == IF p = 0 THEN TRUE ELSE doc.name[p] \in ContainerNames
Init == doc = EmptyDoc("doc", FALSE)
Next == /\ Len(doc.parent) < MaxNodes
        /\ \E p \in Spine(doc) : \E t \in Templates :
             /\ CanHold(p) /\ DepthOf(p) < MaxDepth
             /\ doc' = AddElemA(doc, p, t[1], t[2])

Env == [nsmap |-> <<>>, scope |-> RootOf(doc)]
Rel1(s) == {i \in Elems(doc) : Matches(doc, Env, <<Pool[s]>>, i)}
Res == [s \in 1..Len(Pool) |-> MaskUpTo(Rel1(s), Len(doc.parent))]
Emit == PrintT(ToJson([doc |-> doc, res |-> Res]))

ThPartitions == HsThEnabledDisabled(doc) /\ HsThReadWriteOnly(doc)
ThBoundary == HsThBoundary(doc)

\* T-StateDefs: the library's definition TEXTS of the state pseudo-classes (StateDefsGen, from the tree under test), parsed and compiled by the
\* specification's front end and evaluated by the matcher of Ir.tla, designate exactly what HtmlState.tla says
ST == INSTANCE IrState
SD == ST!FlaggedLists          \* constant of THIS module: evaluated once at start-up (see IrState)
ASSUME DOMAIN SD # {}
ThStateDefs == ST!StateDefsHoldL(SD, doc, [nsmap |-> <<>>, scope |-> RootOf(doc)])
=============================================================================
