---------------------------- MODULE MC_C02_spell ---------------------------
\* C02, micro-syntax: for every (a, b) in a square and every spelling of it, a row of
\* R element siblings must match :nth-child(<spelling>) exactly at the positions An+B
\* designates.  One state per (a, b); also checks, on the model itself,
\*   T-NthClosed    closed form  <=>  exists n >= 0 : a*n + b = pos
\*   T-NthSpelling  ParseNth(spelling) = (a, b) for every spelling
EXTENDS CssDecl, Nth, TLC, Json, SequencesExt
CONSTANTS NegLo, Hi, Row
Lo == 0 - NegLo
VARIABLES a, b

A == <<97>>
RowDoc == [parent |-> [i \in 1..(Row + 1) |-> IF i = 1 THEN 0 ELSE 1],
           kind |-> [i \in 1..(Row + 1) |-> "e"], name |-> [i \in 1..(Row + 1) |-> A],
           ns |-> [i \in 1..(Row + 1) |-> <<>>], pfx |-> [i \in 1..(Row + 1) |-> <<>>],
           attrs |-> [i \in 1..(Row + 1) |-> <<>>], text |-> [i \in 1..(Row + 1) |-> <<>>],
           top |-> "doc", xml |-> FALSE]

Init == a \in Lo..Hi /\ b \in Lo..Hi
Next == UNCHANGED <<a, b>>

Forms == {<<l, t>> : l \in BOOLEAN, t \in BOOLEAN}
NthS2(f, raw) == [k |-> "nth", a |-> a, b |-> b, last |-> f[1], oftype |-> f[2], of |-> <<>>, raw |-> raw]
\* (state-level definitions are re-evaluated at every reference: bind the spelling sequence once with LET)
Emit == LET sp == SetToSeq(Spellings(a, b))
            entries == [n \in 1..Len(sp) |-> NthS2(<<FALSE, FALSE>>, sp[n])]
                       \o <<NthS2(<<TRUE, FALSE>>, sp[1]), NthS2(<<FALSE, TRUE>>, sp[1]), NthS2(<<TRUE, TRUE>>, sp[Len(sp)])>>
            poolOf == [n \in 1..Len(entries) |-> <<[cs |-> <<<<entries[n]>>>>, cb |-> <<>>]>>]
            \* all spellings of (a, b) mean the same: evaluate the relation once per form
            rel(l, t) == MaskUpTo({i \in Elems(RowDoc) : Matches(RowDoc, NoEnv, <<[cs |-> <<<<NthS2(<<l, t>>, <<>>)>>>>, cb |-> <<>>]>>, i)}, Row + 1)
            res == [n \in 1..Len(entries) |-> rel(entries[n].last, entries[n].oftype)]
        IN PrintT(ToJson([doc |-> RowDoc, pool |-> poolOf, res |-> res]))

NthClosed == \A pos \in 1..(Row + 2) : NthOk(a, b, pos) <=> NthExists(a, b, pos)
NthSpelling == \A s \in Spellings(a, b) : ParseNth(s) = <<a, b>>
=============================================================================
