---------------------------- MODULE MC_C02_spell ---------------------------
\* C02, micro-syntax: for every (a, b) in a square and every spelling of it, a row of
\* R element siblings must match :nth-child(<spelling>) exactly at the positions An+B
\* designates.  One state per (a, b); also checks, on the model itself,
\*   T-NthClosed    closed form  <=>  exists n >= 0 : a*n + b = pos
\*   T-NthSpelling  ParseNth(spelling) = (a, b) for every spelling
EXTENDS CssDecl, Nth, TLC, Json, SequencesExt
CONSTANTS NegLo, Hi, Row
Lo == 0 - NegLo
VARIABLES a, b

A == <<97>>
RowDoc == [parent |-> [i \in 1..(Row + 1) |-> IF i = 1 THEN 0 ELSE 1],
           kind |-> [i \in 1..(Row + 1) |-> "e"], name |-> [i \in 1..(Row + 1) |-> A],
           ns |-> [i \in 1..(Row + 1) |-> <<>>], pfx |-> [i \in 1..(Row + 1) |-> <<>>],
           attrs |-> [i \in 1..(Row + 1) |-> <<>>], text |-> [i \in 1..(Row + 1) |-> <<>>],
           top |-> "doc", xml |-> FALSE]

Init == a \in Lo..Hi /\ b \in Lo..Hi
Next == UNCHANGED <<a, b>>

Forms == {<<l, t>> : l \in BOOLEAN, t \in BOOLEAN}
Sp == SetToSeq(Spellings(a, b))
NthS2(f, raw) == [k |-> "nth", a |-> a, b |-> b, last |-> f[1], oftype |-> f[2], of |-> <<>>, raw |-> raw]
Entries == [n \in 1..Len(Sp) |-> NthS2(<<FALSE, FALSE>>, Sp[n])]
          \o <<NthS2(<<TRUE, FALSE>>, Sp[1]), NthS2(<<FALSE, TRUE>>, Sp[1]), NthS2(<<TRUE, TRUE>>, Sp[Len(Sp)])>>
PoolOf == [n \in 1..Len(Entries) |-> <<[cs |-> <<<<Entries[n]>>>>, cb |-> <<>>]>>]
Res == [n \in 1..Len(Entries) |->
          MaskUpTo({i \in Elems(RowDoc) : Matches(RowDoc, NoEnv, PoolOf[n], i)}, Row + 1)]
Emit == PrintT(ToJson([doc |-> RowDoc, pool |-> PoolOf, res |-> Res]))

NthClosed == \A pos \in 1..(Row + 2) : NthOk(a, b, pos) <=> NthExists(a, b, pos)
NthSpelling == \A s \in Spellings(a, b) : ParseNth(s) = <<a, b>>
=============================================================================
