----------------------------- MODULE MC_C17_dir -----------------------------
\* C17 configuration "dir": rooted documents (one top-level element) of div / bdi / script /
\* textarea / iframe containers with dir in {absent, rtl, auto, AUTO, junk}, text children that are
\* strong-L ("a"), strong-R (U+05D0), neutral (" 1") and inputs (tel; text / typeless with dir=auto and an
\* R, neutral or empty value), against :dir(ltr) and :dir(rtl).  An iframe holds one document: at
\* most one child, an element.
EXTENDS CssDecl, TLC, Json, SequencesExt
CONSTANTS MaxNodes, MaxDepth, Rich
VARIABLE doc

At(nm, v) == [k |-> nm, ns |-> <<>>, local |-> nm, v |-> v, list |-> FALSE]
TL == <<97>>                    \* strong L
TR == <<1488>>                  \* strong R (Hebrew alef)
TN == <<32,49>>                 \* neutral / weak only
AUTOUP == <<65,85,84,79>>
JUNK == <<106,117,110,107>>
Dir(v) == At(HsADir, v)
ContainerT == { <<HsNDiv, <<>>>>, <<HsNDiv, <<Dir(HsVRtl)>>>>, <<HsNDiv, <<Dir(HsVAuto)>>>>,
                <<HsNBdi, <<>>>>, <<HsNIframe, <<>>>>, <<HsNTextarea, <<Dir(AUTOUP)>>>> }
       \cup (IF Rich THEN { <<HsNDiv, <<Dir(JUNK)>>>>, <<HsNScript, <<>>>>, <<HsNTextarea, <<>>>>,
                            <<HsNBdi, <<Dir(HsVLtr)>>>> } ELSE {})
LeafT == { <<HsNInput, <<At(HsAType, HsVTel)>>>>,
           <<HsNInput, <<At(HsAType, HsVText), Dir(HsVAuto), At(HsAValue, TR)>>>>,
           <<HsNInput, <<At(HsAType, HsVText), Dir(HsVAuto), At(HsAValue, TN)>>>> }
   \cup (IF Rich THEN { <<HsNInput, <<At(HsAType, HsVText), Dir(HsVAuto)>>>>,
                        <<HsNInput, <<Dir(HsVAuto), At(HsAValue, TR)>>>>,               \* no type attribute
                        <<HsNInput, <<At(HsAType, HsVTel), Dir(HsVAuto), At(HsAValue, <<>>)>>>> } ELSE {})
Texts == {TL, TR, TN}
ContainerNames == {t[1] : t \in ContainerT}
TextOnly == {HsNTextarea, HsNScript}

Cx1(c) == [cs |-> <<c>>, cb |-> <<>>]
TypeS(n) == [k |-> "type", ns |-> Bare, name |-> n]
\* entries 3 and 4 (*:dir(x) in CSS) carry the coarser reading of HtmlState (alt): a
\* disagreement on entry 1 / 2 is recorded as drift when the code agrees with entry 3 / 4
DirAlt(x) == [k |-> "dir", d |-> x, alt |-> TRUE]
Pool == << Cx1(<<HsDirS("ltr")>>), Cx1(<<HsDirS("rtl")>>),
           Cx1(<<TypeS(Star), DirAlt("ltr")>>), Cx1(<<TypeS(Star), DirAlt("rtl")>>) >>
ASSUME PrintT(ToJson([pool |-> [s \in 1..Len(Pool) |-> <<Pool[s]>>]]))

DepthOf(p) == IF p = 0 THEN 0 ELSE Cardinality(Anc(doc, p)) + 1
\* p may take an element child / a text child
HoldsEl(p) == IF p = 0 THEN Len(doc.parent) = 0
              ELSE /\ doc.name[p] \in ContainerNames \ TextOnly
                   /\ doc.name[p] = HsNIframe => Children(doc, p) = {}
HoldsText(p) == IF p = 0 THEN FALSE
                ELSE /\ doc.name[p] \in ContainerNames \ {HsNIframe}
                     /\ \A c \in Children(doc, p) : ~IsText(doc, c) \/ c # Len(doc.parent)   \* no two adjacent text nodes
Init == doc = EmptyDoc("doc", FALSE)
Next == /\ Len(doc.parent) < MaxNodes
        /\ \E p \in Spine(doc) :
             /\ DepthOf(p) < MaxDepth
             /\ \/ \E t \in ContainerT \cup LeafT : HoldsEl(p) /\ doc' = AddElemA(doc, p, t[1], t[2])
                \/ \E tx \in Texts : HoldsText(p) /\ doc' = AddData(doc, p, "t", tx)

Env == [nsmap |-> <<>>, scope |-> RootOf(doc)]
Rel1(s) == {i \in Elems(doc) : Matches(doc, Env, <<Pool[s]>>, i)}
Res == [s \in 1..Len(Pool) |-> MaskUpTo(Rel1(s), Len(doc.parent))]
Emit == PrintT(ToJson([doc |-> doc, res |-> Res]))

ThPartitions == HsThDir(doc)
ThDirReadings == HsThDirReadings(doc)

\* T-StateDefs: the library's definition TEXTS of the state pseudo-classes (StateDefsGen, from the tree under test), parsed and compiled by the
\* specification's front end and evaluated by the matcher of Ir.tla, designate exactly what HtmlState.tla says
ST == INSTANCE IrState
SD == ST!FlaggedLists          \* constant of THIS module: evaluated once at start-up (see IrState)
ASSUME DOMAIN SD # {}
ThStateDefs == ST!StateDefsHoldL(SD, doc, [nsmap |-> <<>>, scope |-> RootOf(doc)])
=============================================================================
