----------------------------- MODULE ListAlgebra -----------------------------
\* Law-level trace specification for C05.  The rows of the match relation for the ATOMS are
\* unlogged state inferred by TLC from "atom" events; every "law" event (results the real code gave
\* for A, B / :is(A, B) / :not(A) / ... built from two atoms) must be explained by those rows and the
\* Boolean-algebra laws of the property.  Works for any selector the parser accepts - the atoms'
\* own semantics are not modelled here (and a defect inside an atom cannot fail C05).
\*   atom event: [t |-> "atom", id, ctx (document x namespace map), a (atom id), set (Seq of node ids)]
\*   law event:  [t |-> "law", id, ctx, a, b, c, x, univ, defaultns, ab, isab, isa, isb, nota, notab,
\*                whereab, matchesab, xisa, abc, fg1, fg2, fg3 (forgiving lists with a dropped alternative),
\*                anyuniv, anyisab, anyisba, anyisa, anyisb, anynota, anynotab (the same under an explicit *|* subject)]   (each a Seq of node ids, or <<-1>> when the call raised)
EXTENDS Naturals, Sequences, FiniteSets, TLC, TLCExt, Json, IOUtils, SequencesExt
VARIABLES l, row

Tr == ndJsonDeserialize(IOEnv.TRACE_FILE)
S(q) == ToSet(q)
R(e, n) == row[<<e.ctx, n>>]

Laws(e) ==
    LET A == R(e, e.a)  B == R(e, e.b)  C == R(e, e.c)  X == R(e, e.x)  U == S(e.univ) IN
    << <<"union",        S(e.ab) = A \cup B>>,
       <<"is-union",     S(e.isab) = S(e.isa) \cup S(e.isb)>>,
       <<"is-eq-list",   e.defaultns \/ S(e.isab) = S(e.ab)>>,
       <<"not",          S(e.nota) = U \ S(e.isa)>>,
       <<"not-list",     S(e.notab) = U \ S(e.isab)>>,
       <<"intersection", S(e.xisa) = X \cap S(e.isa)>>,
       <<"where",        S(e.whereab) = S(e.isab)>>,
       <<"matches",      S(e.matchesab) = S(e.isab)>>,
       <<"monotone",     S(e.ab) \subseteq S(e.abc)>>,
       <<"forgiving",    S(e.fg1) = S(e.isb) /\ S(e.fg2) = S(e.isb) /\ S(e.fg3) = S(e.isab)>>,
       <<"name-spelling", S(e.nota_e) = S(e.nota) /\ S(e.isab_e) = S(e.isab) /\ S(e.whereab_e) = S(e.isab)>>,
       <<"list-spelling", S(e.isab_c) = S(e.isab) /\ S(e.ab_c) = S(e.ab) /\ S(e.notab_c) = S(e.notab)>>,
       <<"any-is-union", S(e.anyisab) = S(e.anyisa) \cup S(e.anyisb) /\ S(e.anyisba) = S(e.anyisab)>>,
       <<"any-not",      S(e.anynota) = S(e.anyuniv) \ S(e.anyisa)>>,
       <<"any-not-list", S(e.anynotab) = S(e.anyuniv) \ S(e.anyisab)>>,
       <<"no-error",     \A f \in {e.ab, e.isab, e.isa, e.isb, e.nota, e.notab, e.whereab, e.matchesab, e.xisa, e.abc, e.fg1, e.fg2, e.fg3, e.anyisab, e.anyisa, e.anyisb, e.anynota, e.anynotab, e.anyisba, e.isab_c, e.ab_c, e.notab_c, e.nota_e, e.isab_e, e.whereab_e} : f # <<-1>> >> >>
Failed(e) == {n \in 1..Len(Laws(e)) : ~Laws(e)[n][2]}

Init == l = 0 /\ row = [k \in {} |-> {}]
Next ==
    /\ l < Len(Tr)
    /\ l' = l + 1
    /\ LET e == Tr[l + 1] IN
       IF e.t = "atom"
       THEN row' = [k \in DOMAIN row \cup {<<e.ctx, e.a>>} |-> IF k = <<e.ctx, e.a>> THEN S(e.set) ELSE row[k]]
       ELSE /\ UNCHANGED row
            /\ IF Failed(e) = {} THEN TRUE
               ELSE PrintT(<<"REJECT", e.id, Laws(e)[CHOOSE n \in Failed(e) : \A m \in Failed(e) : n <= m][1]>>)
Accepted == TLCGet("stats").diameter - 1 = Len(Tr)
=============================================================================
