"""C05 - selector lists and logical pseudo-classes form a Boolean algebra.

Design level: ListFlag.tla (where the HTML-only flag lives: per list = negative model that TLC must
refute, per alternative = intended; T-Boolean union / monotonicity).
Conformance (law-level trace validation): for every ordered pair (A, B) of an atom pool covering every
pseudo-class the parser accepts, namespaces and a custom alias, the real code's results for A, B,
'A, B', ':is(A, B)', ':is(A)', ':is(B)', ':not(A)', ':not(A, B)', 'X:is(A)', ':where', ':matches',
'A, B, C' are recorded; ListAlgebra.tla (atom rows inferred by TLC) accepts iff the laws explain them."""
import json
import multiprocessing as mp
import os
import tempfile

from harness import common, tlc, replay

SVG = 'http://www.w3.org/2000/svg'
XLINK = 'http://www.w3.org/1999/xlink'
XHTML = 'http://www.w3.org/1999/xhtml'

BODY = (
    '<head><meta http-equiv="content-language" content="de"/><title>t</title></head>'
    '<body>'
    '<div id="i1" class="c1" title="x"><p class="c1">x</p><p lang="fr-de">y</p><span title="X">z</span></div>'
    '<p id="e"></p>'
    '<a href="#x" id="l1">l</a>'
    '<form id="f"><input type="checkbox" checked="checked" id="cb"/><input type="radio" name="g" id="rd"/>'
    '<input type="text" required="required" placeholder="ph" id="tx"/>'
    '<input type="number" min="1" max="5" value="9" id="nm"/><input type="submit" id="sb"/><button type="submit" id="s2" class="c1">s</button>'
    '<button disabled="disabled" id="bt">b</button><textarea readonly="readonly" id="ta"></textarea>'
    '<select id="se"><option selected="selected" id="op">o</option></select></form>'
    '<svg xmlns="%s" xmlns:xlink="%s"><circle xlink:href="#c" id="ci"/><p id="sp">s</p></svg>'
    '<my-el id="cu">c</my-el>'
    '<div dir="rtl" id="dr"><span>r</span></div>'
    '<iframe id="if"><html><body><p id="ip">x</p><div><p>q</p></div></body></html></iframe>'
    '</body>') % (SVG, XLINK)
DOCS = [
    ('html.parser', '<html lang="en">' + BODY + '</html>'),
    ('html5lib', '<html lang="en">' + BODY + '</html>'),
    ('xml', '<html xmlns="%s" lang="en">' % XHTML + BODY + '</html>'),      # XHTML
    ('xml', '<root lang="en">' + BODY + '</root>'),                          # XML, not XHTML
    ('lxml', '<html lang="en">' + BODY + '</html>'),
    # language only through the <meta> pragma (no lang attribute on the root), iframe document without any language
    ('html.parser', '<html>' + BODY.replace('content="de"', 'content="en"') + '</html>'),
]
NSMAPS = [None, {'svg': SVG, 'xlink': XLINK, 'html': XHTML}, {'': XHTML, 'svg': SVG, 'xlink': XLINK}]
CUSTOM = {':--al': 'p.c1, span'}
ATOMS = [
    'p', '*', '#i1', '.c1', '[title]', '[title="x" i]', 'div p', 'div > p', 'p + p', 'p ~ span',
    ':root', ':empty', ':first-child', ':last-of-type', ':only-child', ':nth-child(2n+1)', ':nth-last-of-type(2)',
    ':nth-child(2 of p)', ':not(p)', ':is(p, span)', ':has(> p)', ':where(div)',
    ':link', ':any-link', ':checked', ':default', ':indeterminate', ':disabled', ':enabled', ':required', ':optional',
    ':read-only', ':read-write', ':in-range', ':out-of-range', ':placeholder-shown',
    ':dir(ltr)', ':dir(rtl)', ':defined', ':lang(en)', ':lang("*-de")', ':-soup-contains(x)', ':-soup-contains-own(y)',
    ':hover', ':active', ':focus', ':visited', ':target', ':current(p)', ':host', ':host(p)', ':host-context(p)',
    ':focus-within', ':paused', ':scope', '&', 'svg|circle', '*|circle', '|p', 'svg|*', '[xlink|href]', '[*|href]', '[|title]',
    ':--al', 'div p, x:dir(ltr)', 'p:dir(ltr)', 'span:defined', ':not(:dir(rtl))', ':is(:defined, svg|circle)',
    # atoms that split the document at the iframe boundary (evaluation-order effects of per-document memo tables)
    ':not(iframe *)', 'iframe *', 'p:lang(en)', ':lang(de)', '#i1 *', 'form *',
    # a memoised per-form / per-document fact asked first about an element that is NOT the one the fact is about
    'button:default', '.c1:default', 'input[type=radio]:indeterminate', 'span:lang(en)',
]
JUNK = ['', 'div >', 'p +', 'span ~', 'div > p >', ' ']
XS = [0, 1, 3]      # X in 'X:is(A)': p, *, .c1


def _ctx_list(tier):
    if tier == 'quick':
        return [(0, 0), (0, 1), (1, 1), (1, 2), (2, 1), (2, 2), (3, 1), (5, 0)]
    return [(d, n) for d in range(len(DOCS)) for n in range(len(NSMAPS))]


def _worker(args):
    import warnings
    wid, d, n, rows, stride = args
    warnings.simplefilter('ignore')
    sv, bs4 = common.import_repo()
    parser, markup = DOCS[d]
    soup = bs4.BeautifulSoup(markup, parser)
    idx = {id(t): i + 1 for i, t in enumerate(x for x in soup.descendants if isinstance(x, bs4.Tag))}
    ns = NSMAPS[n]
    ctx = d * 10 + n

    def run(css):
        try:
            return sorted(idx[id(t)] for t in sv.select(css, soup, namespaces=ns, custom=CUSTOM))
        except Exception:
            return [-1]
    lines = []
    atoms = {}
    for i, a in enumerate(ATOMS):
        atoms[i] = run(a)
        lines.append(json.dumps({'t': 'atom', 'id': 'w%d.atom%d' % (wid, i), 'ctx': ctx, 'a': i, 'set': atoms[i], 'css': a}))
    univ = run('*')
    anyuniv = run('*|*')
    N = len(ATOMS)
    for i in rows:
        A = ATOMS[i]
        for j in range(0, N, 1):
            if stride > 1 and (i + j) % stride and i != j and not (i >= N - 10 or j >= N - 10):
                continue
            B = ATOMS[j]
            c = (i + 2 * j + 1) % N
            C = ATOMS[c]
            x = XS[(i + j) % len(XS)]
            X = ATOMS[x]
            ev = {'t': 'law', 'id': 'w%d.%d.%d' % (wid, i, j), 'ctx': ctx, 'a': i, 'b': j, 'c': c, 'x': x,
                  'univ': univ, 'defaultns': bool(ns and '' in ns),
                  'ab': run('%s, %s' % (A, B)), 'isab': run(':is(%s, %s)' % (A, B)), 'isa': run(':is(%s)' % A),
                  'isb': run(':is(%s)' % B), 'nota': run(':not(%s)' % A), 'notab': run(':not(%s, %s)' % (A, B)),
                  'whereab': run(':where(%s, %s)' % (A, B)), 'matchesab': run(':matches(%s, %s)' % (A, B)),
                  'xisa': run('%s:is(%s)' % (X if X != '*' else '*', A)), 'abc': run('%s, %s, %s' % (A, B, C)),
                  # forgiving lists: an empty slot or an alternative ending in a combinator is dropped, the others keep their meaning
                  'fg1': run(':is(%s, %s)' % (JUNK[(i + j) % len(JUNK)], B)), 'fg2': run(':where(%s, %s)' % (B, ['', ' '][(i + j) % 2])),          # (a trailing-combinator alternative in LAST position is rejected by the parser)
                  'fg3': run(':is(%s, %s, %s)' % (A, JUNK[(i + 2 * j) % len(JUNK)], B)),
                  # the same laws under an explicit *|* subject: the default namespace is then out of the way, so that what a namespace map does
                  # to the ALTERNATIVES of a list (nothing: no implied universal inside pseudo-class arguments) is visible
                  'anyuniv': anyuniv, 'anyisab': run('*|*:is(%s, %s)' % (A, B)), 'anyisa': run('*|*:is(%s)' % A), 'anyisb': run('*|*:is(%s)' % B),
                  'anynota': run('*|*:not(%s)' % A), 'anynotab': run('*|*:not(%s, %s)' % (A, B)), 'anyisba': run('*|*:is(%s, %s)' % (B, A)),
                  # the same lists with a comment / line break before the comma (CSS-insignificant): no alternative may get lost
                  # the names of the logical pseudo-classes spelled with escapes (of the upper-case code points too): still :not / :is / :where
                  'nota_e': run(':n\\4ft(%s)' % A), 'isab_e': run(':\\49 s(%s, %s)' % (A, B)), 'whereab_e': run(':w\\48 ERE(%s, %s)' % (A, B)),
                  'isab_c': run(':is(%s /* c */, %s)' % (A, B)), 'ab_c': run('%s\n/**/ ,\t%s' % (A, B)), 'notab_c': run(':not(%s /**/ ,%s/* c */)' % (A, B)),
                  'A': A, 'B': B, 'doc': '%s#%d' % (parser, d), 'ns': n}
            lines.append(json.dumps(ev))
    return lines


def _validate(path):
    try:
        return tlc.run('ListAlgebra', workers=1, env={'TRACE_FILE': path}, timeout=3000, heap='4g'), None
    except tlc.TLCError as e:
        return None, str(e)[-1500:]


def main(tier):
    chk = common.Check('C05', tier)
    chk.assumptions += ['complement laws are taken relative to the universe the same namespace map gives to a top-level "*"',
                        'atom semantics are not modelled here: rows are inferred from the code (owned by C01/C11-C13/C17-C19)']
    for placement, must_hold in (('peralt', True), ('perlist', False)):
        cfg = replay.write_cfg('listflag_' + placement, {'Placement': '"%s"' % placement}, invariants=('Union', 'Monotone'))
        try:
            res = tlc.run('ListFlag', cfg=cfg, workers=4)
        finally:
            replay.rm_cfg(cfg)
        chk.add_tlc(res, 'listflag_' + placement)
        if must_hold and res.violation:
            chk.violation('spec|listflag', 'ListFlag.tla: T-Boolean fails for the intended placement', {'cfg': 'listflag', 'group': 'spec'})
        if not must_hold and not res.violation:
            chk.machinery('negative model perlist was not refuted (vacuity guard)')
    N = len(ATOMS)
    jobs = []
    wid = 0
    stride = 3 if tier == 'quick' else 1
    for (d, n) in _ctx_list(tier):
        for part in range(2 if tier == 'quick' else 4):
            rows = list(range(part, N, 2 if tier == 'quick' else 4))
            jobs.append((wid, d, n, rows, stride))
            wid += 1
    with mp.get_context('fork').Pool(16) as pool:
        traces = pool.map(_worker, jobs)
    tmpd = tempfile.mkdtemp(prefix='verif_c05_')
    try:
        paths = []
        events = {}
        for i, lines in enumerate(traces):
            p = os.path.join(tmpd, 'w%d.ndjson' % i)
            with open(p, 'w') as f:
                f.write('\n'.join(lines) + '\n')
            paths.append((p, len(lines)))
        with mp.get_context('fork').Pool(8) as pool:
            results = pool.map(_validate, [p for p, _ in paths])
        nlaw = 0
        for (res, err), (p, n), lines in zip(results, paths, traces):
            if err:
                chk.machinery('ListAlgebra.tla: ' + err)
                continue
            chk.coverage['states'] += res.distinct
            chk.coverage['transitions'] += res.generated
            if res.distinct != n + 1 or res.violation:
                chk.machinery('ListAlgebra.tla consumed %d of %d events (%s)' % (res.distinct - 1, n, res.violation))
            rej = {}
            for t in res.tuples:
                if t.startswith('<<"REJECT"'):
                    parts = [x.strip().strip('"') for x in t[2:-2].split(',')]
                    rej[parts[1]] = parts[2]
            nlaw += sum(1 for ln in lines if '"t": "law"' in ln)
            if rej:
                for ln in lines:
                    e = json.loads(ln)
                    if e['id'] in rej:
                        law = rej[e['id']]
                        chk.violation('%s|%s|%s|%s|ns%d' % (law, e['A'], e['B'], e['doc'], e['ns']),
                                      'law %s fails for A=%r B=%r on %s with namespace map %d' % (law, e['A'], e['B'], e['doc'], e['ns']),
                                      {'cfg': 'laws', 'group': '%s A=%s' % (law, e['A']), 'event': e})
        chk.count(nlaw * 19, traces=nlaw)
        chk.add_distinct(nlaw)
        e = json.loads(traces[0][len(ATOMS) + 5])
        chk.sample({k: e[k] for k in ('A', 'B', 'doc', 'ns', 'ab', 'isab', 'nota', 'xisa')})
    finally:
        for f in os.listdir(tmpd):
            os.remove(os.path.join(tmpd, f))
        os.rmdir(tmpd)
    return chk.finish()
