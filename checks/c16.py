"""C16 - importing works in either order and Beautiful Soup can always select.

Imports.tla is CPython's import statement as a state machine (sys.modules status, import stack, names
bound so far, exception unwinding with try handlers); the module bodies are CONSTANTS extracted with ast
from the working tree and the installed bs4 at check time.  TLC checks T-ImportSafe for every entry
script and prints each script's predicted outcome and module begin/end order.  Conformance: every
script runs in a fresh interpreter (clean run: exit status, output, warnings, select results) and once
more with a sys.meta_path logger whose recorded begin/end order is compared with the model's."""
import itertools
import json
import multiprocessing as mp
import os
import shutil
import subprocess
import sys
import tempfile

from harness import common, tlc, imports

ENTRY = ['import bs4', 'from bs4 import BeautifulSoup', 'import bs4.element', 'import soupsieve',
         'from soupsieve import select', 'import soupsieve.css_match', 'import soupsieve.css_parser',
         'import soupsieve.css_types', 'from soupsieve import *', 'from bs4 import *']
MARKUP = ('<!DOCTYPE html><html lang="en"><head><title>t</title></head><body><!--c--><div id="a"><p class="x">one</p><p>two<span lang="en">s</span></p>'
          '<p id="e"><!-- only a comment --></p><p id="pi"><?pi x?></p><input type="checkbox" checked><i></i></div><!--tail-->'
          '<style>p { color: red }</style><script>var s = "color";</script><template><b>color</b></template><textarea>color</textarea>'
          '<style id="es"></style><script id="ej"></script></body></html>')
# one selector per mechanism whose answer could depend on what was bound when soupsieve was imported
SELS = ['div > p:nth-child(2) span:lang(en), :checked, p.x:-soup-contains(one)', ':empty', ':root', 'p:-soup-contains-own(comment)', ':-soup-contains(pi)',
        'p:not(:empty)', ':root > body', 'style:-soup-contains("color"), script:-soup-contains-own("color"), template:-soup-contains("color")', 'style:empty, script:empty',
        ':-soup-contains-own("color")', 'body :not(:-soup-contains("color"))', ':is(p, i):last-child', ':default', ':dir(ltr)', '[id]', ':nth-last-of-type(1)', 'html:has(> body i:empty)']

NSDOC = ('<r xmlns:xlink="http://www.w3.org/1999/xlink" xmlns:o="urn:o"><a xlink:href="#1" o:k="v">x</a><a href="#2">y</a><o:a xlink:href="#3"/>'
         '<b xml:lang="en"><a/></b></r>')
NSSELS = ['[xlink|href]', '[*|href]', ':not([xlink|href])', 'o|a', '[o|k]', 'a[href]', ':lang(en) > a', 'o|*:not([o|k])']
NSMAP = {'xlink': 'http://www.w3.org/1999/xlink', 'o': 'urn:o'}

CHILD = r'''
import sys, io, json
_o, _e = io.StringIO(), io.StringIO()
_so, _se = sys.stdout, sys.stderr
sys.stdout, sys.stderr = _o, _e
import warnings
warnings.simplefilter('always')
_amb0 = _ambient()
_exc = None
try:
%s
except BaseException as _x:
    _exc = type(_x).__name__ + ': ' + str(_x)[:200]
_amb1 = _ambient()
sys.stdout, sys.stderr = _so, _se
_res = {'exc': _exc, 'out': _o.getvalue(), 'err': _e.getvalue(), 'ambient': sorted(k for k in _amb0 if _amb0[k] != _amb1[k])}
try:
    import bs4, soupsieve
    _s = bs4.BeautifulSoup(%r, 'html.parser')
    _res['r1'] = [[str(t)[:40] for t in _s.select(q)] for q in %r]
    _res['r2'] = [[str(t)[:40] for t in soupsieve.select(q, _s)] for q in %r]
    for _p in ('xml', 'html5lib'):
        _n = bs4.BeautifulSoup(%r, _p)
        _res['r1'] += [[str(t)[:40] for t in _n.select(q, namespaces=%r)] for q in %r]
        _res['r2'] += [[str(t)[:40] for t in soupsieve.select(q, _n, namespaces=%r)] for q in %r]
except BaseException as _x:
    _res['after'] = type(_x).__name__ + ': ' + str(_x)[:200]
%s
print(json.dumps(_res))
'''


# interpreter configurations (the property quantifies over configurations): assert statements and docstrings stripped, development mode,
# warnings as errors, no bytecode files
FLAGS = [[], ['-O'], ['-OO'], ['-X', 'dev'], ['-W', 'error'], ['-B']]


def _run_child(args):
    stmts, logged, repo = args[:3]
    flags = args[3] if len(args) > 3 else []
    body = '\n'.join('    ' + s for s in stmts)
    prog = (imports.LOGGER if logged else imports.AMBIENT) + CHILD % (body, MARKUP, SELS, SELS, NSDOC, NSMAP, NSSELS, NSMAP, NSSELS,
                                                                          "_res['events'] = _ev; _res['blame'] = {k: sorted(set(v)) for k, v in _blame.items()}" if logged else '')
    env = dict(os.environ)
    env['PYTHONPATH'] = repo
    env.pop('PYTHONWARNINGS', None)
    if '-W' in flags:
        prog = prog.replace("warnings.simplefilter('always')", 'pass')        # keep the filter the command line installed
    p = subprocess.run(['/venv/bin/python'] + flags + ['-c', prog], capture_output=True, text=True, env=env, timeout=120)
    try:
        res = json.loads(p.stdout.strip().splitlines()[-1]) if p.stdout.strip() else {}
    except Exception:
        res = {}
    res['rc'] = p.returncode
    res['raw_stderr'] = p.stderr[-800:]
    res['raw_stdout_extra'] = '\n'.join(p.stdout.strip().splitlines()[:-1])[-400:]
    return res


def main(tier):
    chk = common.Check('C16', tier)
    chk.assumptions += ['module bodies are a static over-approximation (ast): import statements, bindings and import-time attribute uses incl. '
                        'function bodies reachable by name from module-level calls',
                        'CPython 3.12 import semantics as modelled in Imports.tla; reload, zipimport, frozen builds are out']
    mods, bodies = imports.extract_all(common.REPO)
    maxlen = 2 if tier == 'quick' else 3
    scripts = []
    for n in range(1, maxlen + 1):
        for combo in itertools.permutations(ENTRY, n):
            scripts.append(list(combo))
    if tier == 'thorough':
        scripts = [s for s in scripts if len(s) < 3 or (hash(tuple(s)) + common.SEED) % 2 == 0] if False else scripts
    script_steps = [imports.script_steps(s, mods) for s in scripts]
    key = {json.dumps(st, sort_keys=True): s for s, st in zip(scripts, script_steps)}
    tmpd = tempfile.mkdtemp(prefix='verif_c16_')
    emitted = []
    try:
        shutil.copy(os.path.join(tlc.SPEC_DIR, 'Imports.tla'), tmpd)
        with open(os.path.join(tmpd, 'MC_C16_gen.tla'), 'w') as f:
            f.write(imports.gen_module(mods, bodies, script_steps))
        with open(os.path.join(tmpd, 'c16.cfg'), 'w') as f:
            f.write('CONSTANTS\n Body <- BodyDef\n Modules <- ModulesDef\n ScriptSet <- ScriptSetDef\n Submodule <- SubmoduleDef\n OwnModules <- OwnModulesDef\n'
                    'INIT Init\nNEXT Next\nINVARIANT Emit\nCHECK_DEADLOCK FALSE\n')
        res = tlc.run('MC_C16_gen', cfg='c16', cwd=tmpd, workers=8, line_cb=emitted.append)
        chk.add_tlc(res, 'imports')
    finally:
        shutil.rmtree(tmpd, ignore_errors=True)
    pred = {}
    for e in emitted:
        k = json.dumps(e['script'], sort_keys=True)
        pred[k] = e
    if len(pred) != len(scripts):
        chk.machinery('TLC finished %d of %d scripts' % (len(pred), len(scripts)))
    jobs = [(s, False, common.REPO) for s in scripts] + [(s, True, common.REPO) for s in scripts]
    with mp.get_context('fork').Pool(16) as pool:
        outs = pool.map(_run_child, jobs)
    clean, logged = outs[:len(scripts)], outs[len(scripts):]
    ref = None
    for s, st, c, lg in zip(scripts, script_steps, clean, logged):
        name = '; '.join(s)
        p = pred.get(json.dumps(st, sort_keys=True), {})
        model_err = p.get('err', '?') if p.get('soft', 'none') == 'none' else p.get('soft')
        chk.count(2, traces=1)
        chk.nontrivial(name)
        bad = []
        if c.get('rc') != 0:
            bad.append('interpreter exited with status %s: %s' % (c.get('rc'), c.get('raw_stderr', '')[-300:]))
        if c.get('exc'):
            bad.append('raised %s' % c['exc'])
        if c.get('out') or c.get('raw_stdout_extra'):
            bad.append('printed to stdout: %r' % (c.get('out') or c.get('raw_stdout_extra'))[:200])
        if c.get('err') or (c.get('rc') == 0 and c.get('raw_stderr')):
            bad.append('wrote to stderr / warned: %r' % (c.get('err') or c.get('raw_stderr'))[:300])
        if c.get('after'):
            bad.append('select after import failed: %s' % c['after'])
        blamed = {m: k for m, k in (lg.get('blame') or {}).items() if m.split('.')[0] == 'soupsieve'}
        if blamed:
            bad.append('executing %s changed process-wide state: %s' % (', '.join(sorted(blamed)), ', '.join(sorted({x for k in blamed.values() for x in k}))))
        if 'r1' in c and c.get('r1') != c.get('r2'):
            bad.append('BeautifulSoup.select and soupsieve.select differ: %r vs %r' % (c['r1'], c['r2']))
        if 'r1' in c:
            if ref is None:
                ref = c['r1']
            elif c['r1'] != ref:
                bad.append('select result depends on the import order: %r vs %r' % (c['r1'], ref))
            if not any(c['r1']):
                bad.append('reference selects returned nothing')
        for b in bad:
            chk.violation('%s|%s' % (name, b[:80]), 'fresh interpreter `%s`: %s (model predicted err=%s)' % (name, b, model_err),
                          {'cfg': 'fresh-interpreter', 'group': b[:60], 'script': s, 'model': p.get('err')})
        # model vs interpreter (not a verdict): outcome and module begin/end order
        real_err = 'none' if not c.get('exc') else c['exc'].split(':')[0]
        if model_err != real_err:
            chk.drift.append({'script': name, 'model_err': model_err, 'interpreter': real_err})
        ev_model = [e for e in p.get('events', [])]
        ev_real = [e for e in lg.get('events', []) if e[1] in mods]
        if ev_model != ev_real:
            chk.drift.append({'script': name, 'order_model': ev_model[:12], 'order_real': ev_real[:12]})
        else:
            chk.coverage['import_orders_matching_model'] = chk.coverage.get('import_orders_matching_model', 0) + 1
        if len(chk.coverage['samples']) < 3:
            chk.sample({'script': name, 'model_err': model_err, 'interpreter_exc': c.get('exc'), 'module_order': ev_real[:8]})
    # the same entry statements under other interpreter configurations: every single statement under every configuration, every pair
    # under one (rotating) configuration; oracle: succeeds silently, same select results
    cjobs = []
    for n, sc in enumerate(scripts):
        for fl in (FLAGS[1:] if len(sc) == 1 else [FLAGS[1 + n % (len(FLAGS) - 1)]] if len(sc) == 2 else []):
            cjobs.append((sc, False, common.REPO, fl))
    with mp.get_context('fork').Pool(16) as pool:
        couts = pool.map(_run_child, cjobs)
    for (sc, _, _, fl), c in zip(cjobs, couts):
        name = '%s [python %s]' % ('; '.join(sc), ' '.join(fl))
        chk.count(1, traces=1)
        chk.nontrivial(name)
        bad = []
        if c.get('rc') != 0:
            bad.append('interpreter exited with status %s: %s' % (c.get('rc'), c.get('raw_stderr', '')[-300:]))
        if c.get('exc'):
            bad.append('raised %s' % c['exc'])
        if c.get('out') or c.get('raw_stdout_extra'):
            bad.append('printed to stdout: %r' % (c.get('out') or c.get('raw_stdout_extra'))[:200])
        if c.get('err') or (c.get('rc') == 0 and c.get('raw_stderr')):
            bad.append('wrote to stderr / warned: %r' % (c.get('err') or c.get('raw_stderr'))[:300])
        if c.get('after'):
            bad.append('select after import failed: %s' % c['after'])
        if 'r1' in c and (c.get('r1') != c.get('r2') or (ref is not None and c['r1'] != ref)):
            bad.append('select results differ under this configuration')
        for b in bad:
            chk.violation('%s|%s' % (name, b[:80]), 'fresh interpreter `%s`: %s' % (name, b), {'cfg': 'interpreter-configurations', 'group': 'cfg ' + b[:50], 'script': sc, 'flags': fl})
    chk.notes['interpreter_configurations'] = {'flags': [' '.join(f) for f in FLAGS], 'runs': len(cjobs)}
    # T-ImportSafe on the model: a predicted failure that the interpreter does not confirm is drift, a confirmed one was reported above
    chk.notes['model_predicted_failures'] = sum(1 for p in pred.values() if p.get('err') != 'none' or p.get('soft', 'none') != 'none')
    return chk.finish()
