"""C14 - concurrent compilation behaves as if run one at a time.

Threads.tla: N threads x scripts of compile calls, pre-emption points around the special-pseudo-class
dispatcher (extracted from the real tokenizer by a dry run at check time), shared pattern cache.
TLC: Placement="percall" must satisfy T-Serial over all interleavings; Placement="shared" (the
dispatcher remembers the matched name in the one shared object) must be refuted (negative model).
Conformance (B1): every behaviour TLC enumerates is a schedule; a sys.settrace controller parks real
threads at exactly those points and releases them in the schedule's order (deterministic replay, no
racing); each call must return what it returns single-threaded and the cache must hold fresh parses.
Thorough adds spec-independent pre-emption at every Python line of one thread (1 pre-emption)."""
import json
import multiprocessing as mp
import os
import zlib
import shutil
import sys
import tempfile
import threading

from harness import common, tlc, replay, sched

POOL = [':nth-child(2n+1)', ':lang(en)', ':-soup-contains("x")', ':dir(ltr)', ':nth-of-type(2)', 'a',
        'p:lang(en) > :nth-child(2)', ':is(a, :lang(en))', ':--al > b', 'p:--al:dir(rtl)']
# patterns that mention the alias are compiled with this (shared, equal) custom map
def _custom(salt):
    # a fresh (never seen before) but structurally identical map per replay, so that no cache hidden anywhere
    # in the library can have been warmed by an earlier replay or by the dry run
    # (the salted attribute NAME also makes every replay miss the memo of util.lower)
    return {':--al': 'i.s%d[q%d]:lang(en), :--bl' % (salt, salt), ':--bl': 'b:nth-child(2)'}


_SALT = [0]


def _next_salt():
    import os
    _SALT[0] += 1
    return os.getpid() * 100000 + _SALT[0]


def _compile(sv, p, salt=0):
    return sv.compile(p, custom=_custom(salt)) if ':--' in p else sv.compile(p)


def _fresh(p, salt=0):
    from soupsieve import css_parser as cp, css_types as ct
    return cp._cached_css_compile.__wrapped__(p, None, ct.CustomSelectors(_custom(salt)) if ':--' in p else None, 0)


def _tla_str(s):
    return '"%s"' % s


def _gen_module(pats, scriptset, nthreads):
    pat_tla = '<< ' + ',\n  '.join(
        '<< ' + ', '.join('[op |-> "%s", k |-> "%s"]' % (o['op'], o['k']) for o in ops) + ' >>' for ops in pats) + ' >>'
    ss = '{ ' + ', '.join('<< ' + ', '.join('<< ' + ', '.join(str(p) for p in sc) + ' >>' for sc in scr) + ' >>'
                          for scr in scriptset) + ' }'
    return '''---- MODULE MC_C14_gen ----
\\* generated at check time: Pat is extracted from the working tree's tokenizer by a dry run
EXTENDS Threads, TLC, Json
PatDef == %s
ScriptSetDef == %s
Emit == ~AllDone \\/ PrintT(ToJson([sched |-> sched, scripts |-> scripts]))
====
''' % (pat_tla, ss)


def _run_tlc(tmpd, placement, nthreads, maxsw, emit, cb=None):
    with open(os.path.join(tmpd, 'c14_%s.cfg' % placement), 'w') as f:
        f.write('CONSTANTS\n Pat <- PatDef\n ScriptSet <- ScriptSetDef\n NThreads = %d\n Placement = "%s"\n MaxSwitches = %d\n'
                % (nthreads, placement, maxsw))
        f.write('INIT Init\nNEXT Next\nINVARIANT Serial\n')
        if emit:
            f.write('INVARIANT Emit\n')
        f.write('CHECK_DEADLOCK FALSE\n')
    return tlc.run('MC_C14_gen', cfg='c14_%s' % placement, cwd=tmpd, workers=8, line_cb=cb, coverage=not emit)


_W = {}


def _winit():
    import warnings
    warnings.simplefilter('ignore')
    sv, bs4 = common.import_repo()
    _W['sv'] = sv
    from soupsieve import css_parser as cp
    _W['cp'] = cp
    _W['ref'] = {}
    # capacity state: every bounded memo of the library (compile cache: 500, util.lower: 512) is full before the first replay, so the
    # eviction transitions of Cache.tla are the ones the interleavings run through
    for n in range(700):
        sv.compile('[w%dx%d]' % (os.getpid(), n))
    sys.setswitchinterval(1000)


def _ambient():
    """process-wide interpreter state that no library call may leave changed (whatever the interleaving)"""
    import decimal
    import locale
    import warnings
    return {'recursionlimit': sys.getrecursionlimit(), 'warnings.filters': [repr(f) for f in warnings.filters], 'switchinterval': sys.getswitchinterval(),
            'int_max_str_digits': sys.get_int_max_str_digits(), 'locale': locale.setlocale(locale.LC_ALL), 'decimal': repr(decimal.getcontext()),
            'excepthook': repr(sys.excepthook), 'threads': threading.active_count()}


def _ambient_diff(a, b):
    return sorted(k for k in a if a[k] != b[k])


def _replay_chunk(chunk):
    sv, cp, ref = _W['sv'], _W['cp'], _W['ref']
    out = []
    for case in chunk:
        scripts = {t + 1: [POOL[p - 1] for p in sc] for t, sc in enumerate(case['scripts'])}
        sv.purge()
        salt = _next_salt()
        amb0 = _ambient()
        ctl = sched.Controller(sv, len(scripts))
        results, leftover, skipped = ctl.run(scripts, case['sched'], lambda x: _compile(sv, x, salt))
        amb1 = _ambient()
        ref = {p: _fresh(p, salt) for sc in scripts.values() for p in sc}      # fresh parses, computed AFTER the run
        bad = []
        if _ambient_diff(amb0, amb1):
            bad.append('process-wide interpreter state differs after the calls returned: %s (%r -> %r)' % (
                ', '.join(_ambient_diff(amb0, amb1)), [amb0[k] for k in _ambient_diff(amb0, amb1)][:2], [amb1[k] for k in _ambient_diff(amb0, amb1)][:2]))
            sys.setrecursionlimit(amb0['recursionlimit'])
        for tid, sc in scripts.items():
            rs = results[tid]
            if len(rs) != len(sc):
                bad.append('thread %d finished %d of %d calls' % (tid, len(rs), len(sc)))
            for p, (kind, r) in zip(sc, rs):
                if kind == 'exc':
                    bad.append('thread %d compile(%r) raised %s' % (tid, p, r))
                elif not (r == ref[p]):
                    bad.append('thread %d compile(%r) returned the structure of another pattern: %r' % (tid, p, r.selectors))
        for p in {p for sc in scripts.values() for p in sc}:
            again = _compile(sv, p, salt)
            if not (again == ref[p]):
                bad.append('cache holds a wrong entry for %r: %r' % (p, again.selectors))
        if leftover or skipped:
            if not bad:
                bad.append('MACHINERY: schedule and code diverged (leftover=%d skipped=%d) with correct results' % (leftover, skipped))
        out.append((case, bad))
    return out


DOC = ('<html lang="en"><head><meta http-equiv="content-language" content="de"></head><body><div><p class="a">x</p><p>y</p>'
       '<form><input type="radio" name="g"><input type="submit"></form><span lang="fr">z</span></div></body></html>')
# two documents whose range inputs need DIFFERENT calendar facts (leap year / common year, 53-week / 52-week year): whatever table the
# validation fills for one must not be read by the other
DOC_LEAP = ('<form><input type="date" id="l1" min="2024-03-01" value="2024-02-29"><input type="week" id="l2" max="2020-W52" value="2020-W53">'
            '<input type="date" id="l3" value="2024-02-30" min="2025-01-01"><input type="datetime-local" id="l4" min="2024-03-01T00:00" value="2024-02-29T12:00"></form>')
DOC_COMMON = ('<form><input type="date" id="c1" min="2023-03-01" value="2023-02-28"><input type="week" id="c2" max="2021-W51" value="2021-W52">'
              '<input type="date" id="c3" value="2023-02-29" min="2024-01-01"><input type="datetime-local" id="c4" min="2023-03-01T00:00" value="2023-02-28T12:00"></form>')
SELS = ['p:nth-child(2n+1)', ':lang(en)', ':default', 'div :-soup-contains("x")', ':indeterminate', 'p + p', ':is(p, span):not(.a)']


def _do(op, salt=0):
    sv = _W['sv']
    kind, p = op
    if kind == 'compile':
        return _compile(sv, p, salt)
    if kind == 'storm':
        # an eviction storm: more distinct never-seen-before arguments than any bounded memo holds (compile cache 500, util.lower 512),
        # so that every bounded table of the library is driven through "full" at least once while the other thread is parked
        import bs4
        if 'storm' not in _W:
            _W['storm'] = bs4.BeautifulSoup('<div><p lang="x" class="x" t="x">x</p></div>', 'html.parser')
        el = _W['storm'].p
        out = []
        for n in range(p):
            w = 'w%d-%d' % (salt, n)
            el['lang'] = w + '-x'
            el['class'] = [w]
            out.append(bool(sv.match('.%s:lang("%s"):nth-child(%d), [t%s]' % (w, w, n % 7, w), el)))
        return out
    if kind == 'fragmatch':
        # two different detached (parent-less) elements: index chosen by the op
        import bs4
        if 'frags' not in _W:
            s0 = bs4.BeautifulSoup('', 'html.parser')
            _W['frags'] = [s0.new_tag('p'), s0.new_tag('b')]
            _W['frags'][1].append(s0.new_tag('i'))
        css, idx = p
        return [bool(sv.match(css, _W['frags'][idx])), bool(sv.match(css, _W['frags'][1 - idx]))]
    if 'soup' not in _W:
        import bs4
        _W['soup'] = bs4.BeautifulSoup(DOC, 'html.parser')
        _W['pos'] = {id(t): i for i, t in enumerate(_W['soup'].descendants)}
    if kind == 'rangedoc':
        import bs4
        if 'rangedocs' not in _W:
            _W['rangedocs'] = {'leap': bs4.BeautifulSoup(DOC_LEAP, 'html.parser'), 'common': bs4.BeautifulSoup(DOC_COMMON, 'html.parser')}
        css, which = p
        return [t.get('id') for t in sv.select(css, _W['rangedocs'][which])]
    if kind == 'select':
        return [_W['pos'][id(t)] for t in sv.select(p, _W['soup'])]
    if kind == 'match':
        return [bool(sv.match(p, t)) for t in _W['soup'].find_all(True)]
    return [_W['pos'][id(t)] for t in sv.filter(p, _W['soup'].body.div)]


def _line_preempt(args):
    """spec-independent: thread A stopped at its k-th line event inside soupsieve, B runs to completion, A resumes"""
    opa, opb, ks = args
    sv = _W['sv']
    sv.purge()
    out = []
    for k in ks:
        sv.purge()
        salt = _next_salt()
        go_b = threading.Event()
        done_b = threading.Event()
        res = {}
        cnt = [0]

        def tracer(frame, event, arg):
            if 'soupsieve' not in frame.f_code.co_filename:
                return None

            def local(frame, event, arg):
                if event == 'line':
                    cnt[0] += 1
                    if cnt[0] == k:
                        go_b.set()
                        done_b.wait(20)
                return local
            return local

        def a():
            sys.settrace(tracer)
            try:
                res['a'] = ('ok', _do(opa, salt))
            except BaseException as e:  # noqa
                res['a'] = ('exc', type(e).__name__)
            finally:
                sys.settrace(None)
                go_b.set()

        def b():
            go_b.wait(20)
            try:
                res['b'] = ('ok', _do(opb, salt))
            except BaseException as e:  # noqa
                res['b'] = ('exc', type(e).__name__)
            done_b.set()
        amb0 = _ambient()
        ta, tb = threading.Thread(target=a), threading.Thread(target=b)
        ta.start(); tb.start(); ta.join(30); tb.join(30)
        amb1 = _ambient()
        bad = []
        if _ambient_diff(amb0, amb1):
            bad.append('process-wide interpreter state differs after the calls returned: %s' % ', '.join(_ambient_diff(amb0, amb1)))
            sys.setrecursionlimit(amb0['recursionlimit'])
        expect = {}
        for op in (opa, opb):           # single-threaded expectations, computed AFTER the run
            try:
                expect[op] = _fresh(op[1], salt) if op[0] == 'compile' else _do(op, salt)
            except BaseException as e:  # noqa
                bad.append('after the interleaving a single-threaded %s(%r) raises %s: shared state was left corrupted' % (op[0], op[1], type(e).__name__))
        if bad:
            out.append(((opa, opb, k, cnt[0]), bad))
            continue
        for nm, op in (('a', opa), ('b', opb)):
            kind, r = res.get(nm, ('exc', 'no result'))
            if kind == 'exc':
                bad.append('%s %s(%r) raised %s' % (nm, op[0], op[1], r))
            elif not (r == expect[op]):
                bad.append('%s %s(%r) returned %r instead of %r' % (nm, op[0], op[1], getattr(r, 'selectors', r), getattr(expect[op], 'selectors', expect[op])))
        for op in (opa, opb):
            if op[0] == 'compile' and not (_compile(sv, op[1], salt) == expect[op]):
                bad.append('cache holds a wrong entry for %r' % (op[1],))
        out.append(((opa, opb, k, cnt[0]), bad))
        if cnt[0] < k:
            break
    return out


COLD_CHILD = r'''
import sys, threading, json
sys.path.insert(0, %(repo)r)
import soupsieve as sv
import bs4
K = %(k)d
HOT = %(hot)r
A = %(a)r
B = %(b)r
go_b, done_b = threading.Event(), threading.Event()
res = {}
cnt = [0]
def tracer(frame, event, arg):
    if 'soupsieve' not in frame.f_code.co_filename:
        return None
    if HOT and frame.f_code.co_name not in ('match', 'get_name', 'lower', 'css_unescape', 'process_custom', '_cached_css_compile', 'compile', '__init__', 'freeze'):
        return None
    def local(frame, event, arg):
        if event == 'line':
            cnt[0] += 1
            if cnt[0] == K:
                go_b.set()
                done_b.wait(20)
        return local
    return local
def a():
    sys.settrace(tracer)
    try:
        res['a'] = ('ok', repr(sv.compile(A).selectors))
    except BaseException as e:
        res['a'] = ('exc', type(e).__name__ + ': ' + str(e)[:80])
    finally:
        sys.settrace(None)
        go_b.set()
def b():
    go_b.wait(20)
    try:
        res['b'] = ('ok', repr(sv.compile(B).selectors))
    except BaseException as e:
        res['b'] = ('exc', type(e).__name__ + ': ' + str(e)[:80])
    done_b.set()
sys.setswitchinterval(1000)
ta, tb = threading.Thread(target=a), threading.Thread(target=b)
ta.start(); tb.start(); ta.join(30); tb.join(30)
sv.purge()
ref = {}
for nm, p in (('a', A), ('b', B)):
    try:
        ref[nm] = ('ok', repr(sv.compile(p).selectors))
    except BaseException as e:
        ref[nm] = ('exc', type(e).__name__)
print(json.dumps({'k': K, 'lines': cnt[0], 'res': res, 'ref': ref}))
'''


def _cold_child(args):
    import subprocess
    k, a, b, hot = args
    env = dict(os.environ, PYTHONPATH=common.REPO)
    p = subprocess.run(['/venv/bin/python', '-c', COLD_CHILD % {'repo': common.REPO, 'k': k, 'a': a, 'b': b, 'hot': hot}], capture_output=True, text=True, env=env, timeout=120)
    try:
        return json.loads(p.stdout.strip().splitlines()[-1])
    except Exception:
        return {'k': k, 'crash': (p.stdout + p.stderr)[-300:]}


def _lazy_models(chk):
    """LazyInit.tla: the design question behind the cold-start part (positive: eager / idempotent; negative: unguarded lazy build)"""
    for design, must_hold in (('eager', True), ('lazy_idempotent', True), ('lazy_unguarded', False)):
        cfg = replay.write_cfg('lazy_' + design, {'Threads': '{1, 2, 3}', 'Objects': '{"lang", "dir"}', 'Design': '"%s"' % design}, invariants=('FirstUse',))
        try:
            res = tlc.run('MC_C14_lazy', cfg=cfg, workers=2)
        finally:
            replay.rm_cfg(cfg)
        chk.add_tlc(res, 'lazyinit_' + design)
        if must_hold and res.violation:
            chk.violation('spec|lazyinit|' + design, 'LazyInit.tla: T-FirstUse fails for the design %s' % design, {'cfg': 'lazyinit', 'group': 'spec'})
        if not must_hold and not res.violation:
            chk.machinery('negative model LazyInit(%s) was not refuted (vacuity guard)' % design)


def _cold_part(chk, tier):
    """the FIRST call in a process is a state of its own (whatever is initialised lazily is not initialised yet): every pre-emption
    point of the very first compile in a fresh interpreter, with a second thread making its first call in the gap"""
    import json as _json
    globals()['json'] = _json
    a = ':lang(en):dir(ltr):nth-child(2n+1 of p):-soup-contains(x) > b:nth-of-type(2)'
    b = 'p:dir(rtl):-soup-contains-own(y):nth-last-child(2):lang(de), i:nth-last-of-type(1)'
    jobs = []
    totals = {}
    for hot in (True, False):
        probe = _cold_child((10 ** 9, a, b, hot))
        total = probe.get('lines', 0)
        if not total:
            chk.machinery('cold-start probe failed: %r' % probe)
            return
        totals[hot] = total
        # the functions through which shared objects are reached (token patterns' match / get_name, the memoised helpers, constructors):
        # every line; everything else: every line in the thorough tier, every third in the quick tier
        step = 1 if (hot or tier == 'thorough') else 3
        jobs += [(k, a, b, hot) for k in range(1 + (common.SEED % step), total + 1, step)]
    total = totals[False]
    ks = jobs
    with mp.get_context('fork').Pool(16) as pool:
        outs = pool.map(_cold_child, jobs, chunksize=4)
    for o in outs:
        if 'crash' in o:
            chk.machinery('cold-start child crashed: %s' % o['crash'][-200:])
            continue
        for nm in ('a', 'b'):
            got, want = o['res'].get(nm), o['ref'].get(nm)
            if got != want:
                chk.violation('cold|%d|%s|%r' % (o['k'], nm, got), 'first calls in a fresh interpreter: thread %s got %r instead of %r when the first compile is pre-empted at line event %d of %d' % (
                    nm, got, (want or ['?'])[0], o['k'], total), {'cfg': 'cold-start', 'group': 'cold start ' + str(got)[:50], 'k': o['k']})
    chk.count(len(outs), traces=len(outs))
    chk.notes['cold_start'] = {'line_events_of_the_first_compile': totals[False], 'of_which_in_shared_object_functions': totals[True], 'preemption_points_tried': len(jobs)}


def main(tier):
    chk = common.Check('C14', tier)
    chk.assumptions += ['pre-emption is explored at the dispatcher call boundaries for all interleavings (TLC), and at every Python line with one pre-emption (thorough); races inside one bytecode or inside C code (lru_cache, re) are out of reach',
                        'matching is per-call state (one CSSMatch per API call), so concurrent select/match share nothing but the compiled objects (covered by C15 immutability)']
    sv, bs4 = common.import_repo()
    pats = []
    for p in POOL:
        sv.purge()
        ops, res = sched.dry_run(sv, p, lambda x: _compile(sv, x, _next_salt()))
        if res[0] != 'ok' or not ops or ops[0]['op'] != 'B':
            chk.machinery('dry run of %r failed: %r' % (p, res))
            return chk.finish()
        pats.append(ops)
    sv.purge()
    chk.notes['extracted_patterns'] = {p: ''.join(o['op'] for o in ops) for p, ops in zip(POOL, pats)}
    n = len(POOL)
    if tier == 'quick':
        singles = [1, 2, 3, 4, 5, 6]
        runs = [(2, 99, [((a,), (b,)) for a in singles for b in singles] + [((7, 2), (1,)), ((2,), (8, 1)), ((1, 2), (2, 1))]),
                (2, 3, [((9,), (10,)), ((10,), (9,)), ((9,), (2,)), ((10, 9), (9,))])]
    else:
        singles = list(range(1, 7))       # single-token patterns: every interleaving
        runs = [(2, 99, [((a,), (b,)) for a in singles for b in singles]),
                (2, 3, [((a,), (b,)) for a in (7, 8, 9, 10) for b in range(1, n + 1)] + [((a,), (b,)) for a in range(1, 7) for b in (7, 8, 9, 10)]),
                (2, 4, [((a, b), (c, d)) for a in (1, 2, 3) for b in (2, 6) for c in (2, 3, 7) for d in (1, 3)]),
                (3, 5, [((a,), (b,), (c,)) for a in (1, 2, 3, 4) for b in (2, 3, 5) for c in (1, 2, 6)])]
    tmpd = tempfile.mkdtemp(prefix='verif_c14_')
    cases = []
    try:
        shutil.copy(os.path.join(tlc.SPEC_DIR, 'Threads.tla'), tmpd)
        for ri, (nth, maxsw, scriptset) in enumerate(runs):
            with open(os.path.join(tmpd, 'MC_C14_gen.tla'), 'w') as f:
                f.write(_gen_module(pats, scriptset, nth))
            got = []
            res = _run_tlc(tmpd, 'percall', nth, maxsw, True, got.append)
            chk.add_tlc(res, 'threads%d-percall-%d' % (nth, ri))
            if res.violation:
                chk.violation('spec|threads-percall', 'Threads.tla: T-Serial fails for the per-call placement', {'cfg': 'threads', 'group': 'spec', 'tlc': res.counterexample[:3000]})
            cases += got
            if ri == 0:
                neg = _run_tlc(tmpd, 'shared', nth, maxsw, False)
                chk.add_tlc(neg, 'threads%d-shared-negative' % nth)
                if not neg.violation:
                    chk.machinery('negative model Placement="shared" was not refuted (vacuity guard)')
                zero = [a for a, (d, t) in neg.coverage.items() if t == 0]
    finally:
        shutil.rmtree(tmpd, ignore_errors=True)
    if not cases:
        chk.machinery('TLC produced no schedules')
        return chk.finish()
    chunks = [cases[i::64] for i in range(64) if cases[i::64]]
    with mp.get_context('fork').Pool(16, initializer=_winit) as pool:
        outs = pool.map(_replay_chunk, chunks)
        nsched = 0
        for out in outs:
            for case, bad in out:
                nsched += 1
                scr = [[POOL[p - 1] for p in sc] for sc in case['scripts']]
                for b in bad:
                    if b.startswith('MACHINERY'):
                        # the code's pre-emption structure differs from the dry run although every result is right:
                        # model/code drift (e.g. a cache changed how often the alias is parsed), not a verdict
                        chk.drift.append({'diverged': b, 'scripts': scr, 'schedule': case['sched']})
                    else:
                        chk.violation('%s|%r|%r' % (b, scr, case['sched']), '%s under schedule %r of scripts %r' % (b, case['sched'], scr),
                                      {'cfg': 'schedules', 'group': b[:70], 'scripts': scr, 'schedule': case['sched']})
        chk.count(nsched, traces=nsched)
        chk.add_distinct(nsched)
        chk.sample({'scripts': [[POOL[p - 1] for p in sc] for sc in cases[0]['scripts']], 'schedule': cases[0]['sched']})
        ops = [('compile', p) for p in POOL[:6] + POOL[8:]] + [('select', x) for x in SELS] + [('match', SELS[1]), ('filter', SELS[0])] + \
            [('fragmatch', (':first-child', 0)), ('fragmatch', ('p:only-child, b:nth-child(1)', 1)), ('fragmatch', (':nth-last-of-type(1)', 0))]
        jobs = []
        step = 1 if tier == 'thorough' else 9
        limit = 4000 if tier == 'thorough' else 900
        pairs = [(x, y) for x in ops for y in ops if x != y]
        if tier == 'quick':
            always = lambda o: o[0] == 'fragmatch' or (o[0] == 'compile' and ':--' in o[1])  # noqa: E731
            pairs = [pr for n, pr in enumerate(pairs) if n % 5 == common.SEED % 5 or (always(pr[0]) and always(pr[1]))]
        for (x, y) in pairs:
            # the pairs that go through shared mutable state on a memo MISS (salted alias definitions, detached fragments) are pre-empted at
            # EVERY line in both tiers; the others at every 9th line in the quick tier
            st = 1 if (x[0] == 'fragmatch' or (x[0] == 'compile' and ':--' in x[1])) and (y[0] == 'fragmatch' or (y[0] == 'compile' and ':--' in y[1])) else step
            for start in range(1 + (zlib.crc32(repr(x).encode()) % st), limit, 60 * st):
                jobs.append((x, y, list(range(start, start + 60 * st, st))))
        # deeply nested selectors (40 levels, far below the recursion budget): a thread parked in the middle of one holds many frames of the
        # recursive descent - whatever the parser counts or stacks per PROCESS instead of per call shows when a second one starts
        nest_a = ':is(' * 40 + 'a' + ')' * 40
        nest_b = ':not(' * 40 + 'b' + ')' * 40
        for (x, y) in ((('compile', nest_a), ('compile', nest_b)), (('compile', nest_b), ('compile', nest_a)), (('compile', nest_a), ('select', SELS[0]))):
            allk = list(range(60, 9000, 83 if tier == 'quick' else 17))
            for i in range(0, len(allk), 12):
                jobs.append((x, y, allk[i:i + 12]))
        # (1) compilations that go through an internal REWRITE of the selector ([a!=v] -> :not([a=v]), the pre-compiled definitions of the
        # state pseudo-classes): whatever holder the rewrite uses must be per call; every line in both tiers.
        # (2) a parked select / match against an eviction storm of the other thread: check-then-act on any bounded process-wide table
        rew = [('compile', 'p[data-k!="1"]'), ('compile', '[class!="x"] > b:checked'), ('compile', ':not([t!=y]):default')]
        storm_pairs = [(('select', ':lang(en)'), ('storm', 600)), (('select', 'p:nth-child(2n+1)'), ('storm', 600)), (('compile', 'p:lang(en) > :nth-child(2)'), ('storm', 600))]
        for (x, y) in [(x, y) for x in rew for y in rew if x != y] + storm_pairs:
            allk = list(range(1, 700 if y[0] == 'storm' else 500))
            for i in range(0, len(allk), 20 if y[0] == 'storm' else 60):
                jobs.append((x, y, allk[i:i + (20 if y[0] == 'storm' else 60)]))
        for (x, y) in ((('rangedoc', ('input:out-of-range', 'leap')), ('rangedoc', ('input:out-of-range', 'common'))),
                       (('rangedoc', ('input:in-range', 'common')), ('rangedoc', ('input:out-of-range', 'leap'))),
                       (('rangedoc', ('input:out-of-range', 'common')), ('rangedoc', ('input:in-range', 'leap')))):
            allk = list(range(1, 2600, 2 if tier == 'quick' else 1))
            for i in range(0, len(allk), 60):
                jobs.append((x, y, allk[i:i + 60]))
        npre = 0
        for out in pool.imap_unordered(_line_preempt, jobs, chunksize=2):
            for (opa, opb, k, total), bad in out:
                npre += 1
                for b_ in bad:
                    chk.violation('line|%s|%s|%s|%d' % (b_, opa, opb, k), '%s when %s(%r) is pre-empted at line event %d by %s(%r)' % (b_, opa[0], opa[1], k, opb[0], opb[1]),
                                  {'cfg': 'line-preemption', 'group': b_[:70]})
        chk.count(npre, traces=npre)
        chk.add_distinct(npre)
        chk.notes['line_preemption_points'] = npre
    _lazy_models(chk)
    _cold_part(chk, tier)
    return chk.finish()
