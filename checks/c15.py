"""C15 - compiled selectors are immutable values; the pattern cache is transparent.

Cache.tla is the LRU machine (T-LRU invariants checked by TLC).  Its behaviours (all of depth D by
BFS, longer ones by -simulate) are replayed into the real compile()/purge(): a model key is
concretised as a block of 250 distinct patterns, so that the real lru_cache(500) behaves like the
model with K = 2; cache_info() is the projection of the abstract state (no hook).  At every step of
every behaviour the value half of the property is evaluated on the objects returned so far."""
import contextlib
import copy
import io
import pickle
from harness import common, replay, tlc

BLOCK = 250          # default; _work re-derives it from the real cache bound (maxsize // 2) so that K = 2 whatever the bound is
NKEYS = 6


def _key_args(k, variant):
    """model key -> (pattern template, namespaces, custom, flags)"""
    ns_a = {'a': 'urn:1', 'b': 'urn:2'}
    ns_b = {'b': 'urn:2', 'a': 'urn:1'}         # equal up to insertion order
    if k == 1:
        return ('div.c%d > p', None, None, 0)
    if k == 2:
        return ('span.c%d ~ i', None, None, 0)
    if k == 3:
        return ('div.c%d > p', ns_b if variant else ns_a, None, 0)
    if k == 4:
        return ('div.c%d > p', None, ({':--y': 'b', ':--x': 'p.q'} if variant else {':--x': 'p.q', ':--y': 'b'}), 0)
    if k == 6:     # same alias body as key 4, different nested dependency
        return ('div.c%d > p', None, ({':--y': 'i', ':--x': 'p.q'} if variant else {':--x': 'p.q', ':--y': 'i'}), 0)
    return ('div.c%d > p', None, None, 1)


def _ir_nodes(obj, ct, seen=None):
    """every Immutable node reachable from a compiled selector"""
    seen = [] if seen is None else seen
    if isinstance(obj, ct.Immutable):
        seen.append(obj)
        for s in obj.__slots__:
            if s != '_hash':
                _ir_nodes(getattr(obj, s), ct, seen)
    elif isinstance(obj, (tuple, list)):
        for x in obj:
            _ir_nodes(x, ct, seen)
    return seen


def _value_checks(sv, bs4, obj, soup, errs, tag):
    from soupsieve import css_types as ct
    nodes = _ir_nodes(obj, ct)
    for n in nodes:
        try:
            hash(n)
        except Exception as e:
            errs.append((tag, 'hash(%s) raised %s' % (type(n).__name__, type(e).__name__)))
        for s in n.__slots__:
            if s == '_hash':
                continue
            try:
                setattr(n, s, getattr(n, s))
                errs.append((tag, 'setattr(%s.%s) succeeded' % (type(n).__name__, s)))
            except AttributeError:
                pass
            try:
                old = getattr(n, s)
                delattr(n, s)
                object.__setattr__(n, s, old) if False else None
                errs.append((tag, 'delattr(%s.%s) succeeded' % (type(n).__name__, s)))
                # repair so that later steps are not polluted (the finding is already recorded)
                try:
                    super(ct.Immutable, n).__setattr__(s, old)
                except Exception:
                    pass
            except AttributeError:
                pass
            except TypeError:
                pass
    for m in (obj.namespaces, obj.custom):
        if m is not None:
            try:
                m['zz'] = 'q'
                errs.append((tag, 'item assignment on %s succeeded' % type(m).__name__))
            except TypeError:
                pass
            try:
                hash(m)
            except Exception as e:
                errs.append((tag, 'hash(%s) raised' % type(m).__name__))
    base = [id(t) for t in obj.select(soup)]
    dups = [('pickle protocol %d' % pr, lambda o, pr=pr: pickle.loads(pickle.dumps(o, protocol=pr))) for pr in range(0, pickle.HIGHEST_PROTOCOL + 1)]
    for name, dup in dups + [('copy', copy.copy), ('deepcopy', copy.deepcopy)]:
        try:
            c = dup(obj)
        except Exception as e:
            errs.append((tag, '%s raised %s' % (name, type(e).__name__)))
            continue
        if not (c == obj) or (c != obj):
            errs.append((tag, '%s gives an unequal object' % name))
        elif hash(c) != hash(obj):
            errs.append((tag, '%s gives an equal object with a different hash' % name))
        elif [id(t) for t in c.select(soup)] != base:
            errs.append((tag, '%s gives an object selecting different elements' % name))


RICH = [
    'p:first-child', 'p:last-child', 'p:only-child', 'p:first-of-type', 'p:last-of-type', 'p:only-of-type',
    ':nth-child(2n+1)', ':nth-last-child(-n+3)', ':nth-of-type(2)', ':nth-last-of-type(odd)', ':nth-child(2 of p.q, b)', ':nth-last-child(n+1 of :not(b))',
    'a|p[a|t~="x" i]', '*|*', '|b', '[t="x" s]', '[type="X"]', '[t!="y"]', '#i.q[lang|=en]', 'div > p + b ~ i span',
    ':not(p, :is(b > i)):has(> p, + b):where(div)', ':lang(en, "de-*")', ':-soup-contains("x", y)', ':-soup-contains-own(z)', ':dir(rtl)',
    ':root:empty:scope', ':checked, :default, :indeterminate, :disabled, :enabled', ':in-range:out-of-range', ':placeholder-shown:read-only:read-write',
    ':required:optional:link:any-link:defined', ':hover, :focus-within', ':current(p)', ':host(p)', ':--x > :--y', '& > p', 'p:is()',
]


def _alias_part(chk):
    """custom aliases with nested dependencies: what compile returns must select what the alias-free spelling selects, whatever was
    compiled before with maps that share alias bodies (no purge in between)"""
    sv, bs4 = common.import_repo()
    soup = bs4.BeautifulSoup('<div><p class="q">x<b>1</b><i>2</i></p><p><b>3</b></p><i><b>4</b></i><span><i>5</i></span></div>', 'html.parser')
    pos = {id(t): n for n, t in enumerate(soup.find_all(True))}
    maps = [({':--x': ':--y > b', ':--y': 'p'}, 'p > b'), ({':--x': ':--y > b', ':--y': 'i'}, 'i > b'), ({':--x': ':--y > b', ':--y': 'p.q'}, 'p.q > b'),
            ({':--x': ':--y > b', ':--y': ':--z', ':--z': 'span, i'}, ':is(span, i) > b'), ({':--x': ':--y > b', ':--y': ':--z', ':--z': 'p'}, 'p > b')]
    sv.purge()
    for rnd in range(2):
        for cu, plain in (maps if rnd == 0 else maps[::-1]):
            for pat, exp in ((':--x', plain), ('div :--x', 'div :is(%s)' % plain), (':not(:--x)', ':not(%s)' % plain)):
                got = [pos[id(t)] for t in sv.select(pat, soup, custom=cu)]
                want = [pos[id(t)] for t in sv.select(exp, soup)]
                chk.count(1)
                if got != want:
                    chk.violation('alias|%s|%r' % (pat, cu), 'compile(%r, custom=%r) selects %r, the alias-free spelling %r selects %r (stale alias?)' % (
                        pat, cu, got, exp, want), {'cfg': 'alias-transparency', 'group': 'stale alias body', 'selector': pat})


def _rich_part(chk):
    """the value half of the property on selectors that exercise every IR node type and every slot"""
    sv, bs4 = common.import_repo()
    soup = bs4.BeautifulSoup('<div class="c0 q" lang="en"><p class="q" t="x">x</p><p>y<b>z</b></p><b>y</b><i><span>s</span></i>'
                             '<input type="checkbox" checked></div><p></p>', 'html.parser')
    ns = {'a': 'urn:1'}
    cu = {':--x': 'p.q', ':--y': 'b, i'}
    for css in RICH:
        errs = []
        try:
            obj = sv.compile(css, ns, custom=cu)
        except Exception as e:
            chk.machinery('rich pattern %r does not compile: %s' % (css, e))
            continue
        _value_checks(sv, bs4, obj, soup, errs, 'rich pattern %r' % css)
        again = sv.compile(css, dict(reversed(list(ns.items()))), custom=dict(reversed(list(cu.items()))))
        if again is not obj:
            errs.append(('rich', 'compile with maps in another insertion order is not a cache hit for %r' % css))
        chk.count(1)
        chk.nontrivial('rich:' + css)
        for tag, what in errs:
            chk.violation('rich|%s|%s' % (css, what), '%s at %s' % (what, tag), {'cfg': 'rich-values', 'group': what[:60], 'selector': css})


def _caller_part(chk):
    """value semantics towards the CALLER: the compiled object is a function of the VALUES passed (pattern text as given, map contents at
    call time); later mutation of the caller's own dictionaries, or patterns that the parser normalises internally (NUL), must not show"""
    sv, bs4 = common.import_repo()
    from soupsieve import css_parser as cp, css_types as ct
    soup = bs4.BeautifulSoup('<div class="c0 q" lang="en"><p class="q" t="x" id="\ufffdpre">x</p><p>y<b>z</b></p><b>y</b><i><span>s</span></i></div>', 'html.parser')
    pos = {id(t): n for n, t in enumerate(soup.find_all(True))}
    for css in ['a|p, :--x', 'p:--x > :--y', '[a|t]', ':--y']:
        for style in ('dict', 'items'):
            sv.purge()
            ns = {'a': 'urn:1', 'b': 'urn:2'}
            cu = {':--x': 'p.q', ':--y': 'b, i'}
            ns0, cu0 = dict(ns), dict(cu)
            obj = sv.compile(css, ns, custom=cu)
            h = hash(obj)
            before = [pos[id(t)] for t in obj.select(soup)]
            fresh0 = cp._cached_css_compile.__wrapped__(css, ct.Namespaces(ns0), ct.CustomSelectors(cu0), 0)
            # the caller goes on using (and changing) its own dictionaries
            ns['a'] = 'urn:other'
            ns['zz'] = 'urn:zz'
            del ns['b']
            cu[':--x'] = 'i'
            cu[':--new'] = 'span'
            errs = []
            # the very next compile gets the SAME dict objects, changed in place (same size): it must see the new contents
            nxt = sv.compile(css, ns, custom=cu)
            if nxt is obj or nxt == obj:
                errs.append('compiling again with the same dict OBJECTS after they were changed in place returns the selector of the old contents')
            try:
                fresh1 = cp._cached_css_compile.__wrapped__(css, ct.Namespaces(dict(ns)), ct.CustomSelectors(dict(cu)), 0)
                if not (nxt == fresh1) or dict(nxt.namespaces) != dict(ns) or dict(nxt.custom) != dict(cu):
                    errs.append('compiling again with the same dict OBJECTS after they were changed in place does not give a fresh parse of the new contents')
            except Exception:
                pass
            if hash(obj) != h:
                errs.append('hash of the compiled selector changed after the caller mutated the dict it had passed')
            if dict(obj.namespaces) != ns0 or dict(obj.custom) != cu0:
                errs.append('the compiled selector sees the caller\'s later changes to the map it had passed')
            if not (obj == fresh0) or hash(obj) != hash(fresh0):
                errs.append('the compiled selector no longer equals a fresh parse of the values it was compiled from')
            if [pos[id(t)] for t in obj.select(soup)] != before:
                errs.append('the compiled selector selects different elements after the caller mutated its map')
            if sv.compile(css, dict(ns0), custom=dict(cu0)) is not obj:
                errs.append('compiling again from equal values is not a cache hit / not the same object')
            other = sv.compile(css, ns, custom=cu)
            if other == obj or other is obj:
                errs.append('a selector compiled from the CHANGED maps equals the one compiled from the original maps')
            chk.count(6)
            chk.nontrivial('caller:' + css)
            for what in errs:
                chk.violation('caller|%s|%s' % (css, what), '%s (pattern %r)' % (what, css), {'cfg': 'caller-values', 'group': what[:70], 'selector': css})
    # argument TYPE is not part of the value: a map given as a dict, as an OrderedDict, as a list / iterator of pairs (a repeated key: the last
    # one wins, as in dict(pairs)), denotes the same mapping
    import collections
    sv.purge()
    pairs_ns = [('a', 'urn:9'), ('b', 'urn:2'), ('a', 'urn:1')]
    pairs_cu = [(':--x', 'i'), (':--y', 'b, i'), (':--x', 'p.q')]
    ref = sv.compile('a|p:--x, :--y', dict(pairs_ns), custom=dict(pairs_cu))
    ref_sel = [pos[id(t)] for t in ref.select(soup)]
    variants = [('OrderedDict', collections.OrderedDict(pairs_ns), collections.OrderedDict(pairs_cu)),
                ('list of pairs with a repeated key', list(pairs_ns), list(pairs_cu)),
                ('reversed-insertion dict', dict(reversed(list(dict(pairs_ns).items()))), dict(reversed(list(dict(pairs_cu).items()))))]
    for vname, vns, vcu in variants:
        chk.count(1)
        try:
            o = sv.compile('a|p:--x, :--y', vns, custom=vcu)
        except Exception as ex:
            if vname.startswith('list'):
                continue          # (a list of pairs is not promised by the signature; if it is accepted it must mean dict(pairs))
            chk.violation('argtype|%s|raise' % vname, 'compile with maps given as %s raised %s' % (vname, type(ex).__name__), {'cfg': 'caller-values', 'group': 'argument type'})
            continue
        bad = []
        if not (o == ref) or o != ref:
            bad.append('is not equal to the selector compiled from the equivalent dict')
        elif hash(o) != hash(ref):
            bad.append('is equal to the selector compiled from the equivalent dict but hashes differently')
        if [pos[id(t)] for t in o.select(soup)] != ref_sel:
            bad.append('selects different elements')
        if dict(o.namespaces) != dict(pairs_ns) or dict(o.custom) != dict(pairs_cu):
            bad.append('stores a different mapping than dict(pairs)')
        for b in bad:
            chk.violation('argtype|%s|%s' % (vname, b), 'a selector compiled with maps given as %s %s' % (vname, b), {'cfg': 'caller-values', 'group': 'argument type: ' + b[:40]})
    # different values are unequal, pairwise, also where Python's hash() collides (hash(-1) == hash(-2), ints 2**61 - 1 apart)
    sv.purge()
    distinct = [':nth-child(-n+3)', ':nth-child(-2n+3)', ':nth-child(2n-1)', ':nth-child(2n-2)', ':nth-last-child(-1)', ':nth-last-child(-2)',
                ':nth-of-type(-n-1)', ':nth-of-type(-n-2)', ':nth-child(2305843009213693951)', ':nth-child(0)', ':nth-child(n+2305843009213693951)', ':nth-child(n)'] + RICH
    objs = [(p_, sv.compile(p_, {'a': 'urn:1'}, custom={':--x': 'p.q', ':--y': 'b, i'})) for p_ in distinct]
    for i in range(len(objs)):
        for j in range(i + 1, len(objs)):
            chk.count(1)
            (pa, oa), (pb, ob) = objs[i], objs[j]
            if oa == ob or not (oa != ob) or (j < 12 and (oa.selectors == ob.selectors or not (oa.selectors != ob.selectors))):      # (the twelve An+B patterns differ in structure)
                chk.violation('distinct|%s|%s' % (pa, pb), 'selectors compiled from %r and %r compare equal (== %r, != %r, .selectors == %r)' % (
                    pa, pb, oa == ob, oa != ob, oa.selectors == ob.selectors), {'cfg': 'caller-values', 'group': 'different values equal', 'selector': pa})
    fa, fb = sv.compile('p > a', flags=2), sv.compile('p > a', flags=2 ** 62)
    if fa == fb or fa is fb:
        chk.violation('distinct|flags', 'compile with flags=2 and flags=2**62 gives equal selectors', {'cfg': 'caller-values', 'group': 'different values equal'})
    # the pattern is part of the value: kept as given, and different texts are different values
    pairs = [('[id="\x00pre"]', '[id="\ufffdpre"]'), ('p\x00', 'p\ufffd'), (' p', 'p'), ('p ', 'p'), ('P', 'p'), ('p/**/', 'p'), (r'\70', 'p')]
    sv.purge()
    for a, b in pairs:
        oa, ob = sv.compile(a), sv.compile(b)
        errs = []
        if oa.pattern != a or ob.pattern != b:
            errs.append('compile(p).pattern is not p')
        if oa == ob or not (oa != ob):
            errs.append('selectors compiled from different pattern texts compare equal')
        for o, p in ((oa, a), (ob, b)):
            fr = ct and sv.css_match.SoupSieve(p, cp.CSSParser(p, custom=None, flags=0).process_selectors(), None, None, 0)
            if not (o == fr) or hash(o) != hash(fr):
                errs.append('compile(p) differs from an object built from scratch for p')
        if [pos[id(t)] for t in oa.select(soup)] != [pos[id(t)] for t in ob.select(soup)] and a.replace('\x00', '\ufffd') == b:
            errs.append('NUL and U+FFFD spellings select differently')
        chk.count(4)
        for what in errs:
            chk.violation('pattern|%r|%s' % (a, what), '%s (patterns %r / %r)' % (what, a, b), {'cfg': 'caller-values', 'group': what[:70], 'selector': a})


def _work(H, chunk):
    sv = H['sv']
    bs4 = H['bs4']
    from soupsieve import css_parser as cp
    viols = []
    ncalls = 0
    soup = bs4.BeautifulSoup('<div class="c0 c1 c2"><p class="q">x</p><b>y</b></div><span class="c0"></span><i></i>', 'html.parser')
    samp = None
    bound = cp._cached_css_compile.cache_info().maxsize
    if bound is None or bound < 2:
        return [('unbounded', 'the pattern cache has no bound (maxsize=%r)' % bound, {'group': 'unbounded cache'})], 0, 0, None
    BLOCK = bound // 2
    for case in chunk:
        obs = case['obs']
        sv.purge()
        returned = []     # (model key, variant, object) one representative per compile step
        label = ' '.join('%s%s' % (o['act'][0] if o['act'] != 'pass_extra' else 'x', o['key'] or '') for o in obs)
        errs = []
        for step, o in enumerate(obs):
            tag = 'step %d of [%s]' % (step + 1, label)
            act = o['act']
            if act == 'compile':
                variant = (step % 2 == 1)
                tmpl, ns, cu, fl = _key_args(o['key'], variant)
                out = io.StringIO()
                first = None
                with contextlib.redirect_stdout(out):
                    for n in range(BLOCK):
                        r = sv.compile(tmpl % n, ns, fl, custom=cu)
                        if n == 0:
                            first = r
                ncalls += BLOCK
                fresh = cp._cached_css_compile.__wrapped__(tmpl % 0, first.namespaces, first.custom, fl) if fl == 0 else None
                if fresh is not None and not (first == fresh and hash(first) == hash(fresh)):
                    errs.append((tag, 'cached compile() result differs from a fresh parse'))
                for (k2, v2, ob2) in returned:
                    same = (k2 == o['key'])
                    if (first == ob2) != same or (first != ob2) == same:
                        errs.append((tag, 'objects for model keys %d and %d: == is %s' % (o['key'], k2, first == ob2)))
                    if first == ob2 and hash(first) != hash(ob2):
                        errs.append((tag, 'equal objects with different hashes (keys %d, %d)' % (o['key'], k2)))
                    if same and o['hit'] and v2 == variant and first is not ob2 and False:
                        pass
                if o['hit']:
                    prev = [ob2 for (k2, v2, ob2) in returned if k2 == o['key']]
                    if prev and not any(first is p for p in prev):
                        errs.append((tag, 'cache hit returned a different object'))
                returned.append((o['key'], variant, first))
                if step == len(obs) - 1 or step == 0:
                    _value_checks(sv, bs4, first, soup, errs, tag)
            elif act == 'purge':
                sv.purge()
                returned = []
            elif act == 'pass_same':
                if returned:
                    ob = returned[-1][2]
                    if sv.compile(ob) is not ob:
                        errs.append((tag, 'compile(compiled) did not return the same object'))
            elif act == 'pass_extra':
                if returned:
                    ob = returned[-1][2]
                    for kw in ({'flags': 1}, {'namespaces': {'a': 'b'}}, {'custom': {':--z': 'a'}}, {'namespaces': {}}, {'custom': {}}):
                        try:
                            sv.compile(ob, **kw)
                            errs.append((tag, 'compile(compiled, %s) was accepted' % list(kw)[0]))
                        except ValueError:
                            pass
            info = cp._cached_css_compile.cache_info()
            got = (info.hits, info.misses, info.currsize, info.maxsize)
            exp = (o['hits'] * BLOCK, o['misses'] * BLOCK, o['size'] * BLOCK, bound)
            if got != exp:
                errs.append((tag, 'cache_info (hits, misses, currsize, maxsize) = %r, model says %r' % (got, exp)))
            if info.currsize > bound:
                errs.append((tag, 'cache holds %d > bound' % info.currsize))
        for tag, what in errs:
            viols.append(('%s|%s' % (what, label), '%s at %s' % (what, tag), {'group': what[:60], 'history': obs}))
        if samp is None:
            samp = {'history': label, 'final_obs': obs[-1]}
    return viols, ncalls, len(chunk), samp


def main(tier):
    chk = common.Check('C15', tier)
    chk.assumptions += ['a model key is a block of 250 distinct patterns, so lru_cache(500) is observed as K = 2 (all-or-nothing blocks)',
                        'cache_info() is trusted as the projection of the cache state',
                        'attribute-level mutation of the internal Namespaces/CustomSelectors mapping objects is not gated; flags=True vs 1 is not gated']
    depth = 3 if tier == 'quick' else 5
    consts = {'NKeys': NKEYS, 'K': 2, 'Depth': depth}
    inv = ('Emit', 'Bounded', 'NoDup', 'StatsSound', 'PurgeEmpties', 'CacheIsRecent')
    replay.stream(chk, 'MC_C15', consts, 'lru-bfs%d' % depth, _work, None, is_header=lambda v: False, invariants=inv, chunk=6)
    # longer behaviours
    num, d2 = (120, 9) if tier == 'quick' else (6000, 16)
    cases = []
    cfg = replay.write_cfg('lru-sim', {'NKeys': NKEYS, 'K': 2, 'Depth': d2}, invariants=inv, next_='NextSim')
    try:
        res = tlc.run('MC_C15', cfg=cfg, workers=1, simulate={'num': num}, depth=d2 + 1, seed=common.SEED + 15,
                      line_cb=lambda v: cases.append(v))
    finally:
        replay.rm_cfg(cfg)
    chk.add_tlc(res, 'lru-sim')
    import multiprocessing as mp
    chunks = [cases[i::16] for i in range(16) if cases[i::16]]
    with mp.get_context('fork').Pool(16, initializer=replay._ginit, initargs=([], None)) as pool:
        outs = pool.map(replay._gwork, [(_work, c) for c in chunks])
    for viols, ncalls, nt, samp in outs:
        chk.count(ncalls, traces=nt)
        chk.add_distinct(nt)
        for key, what, case in viols:
            case.setdefault('cfg', 'lru-sim')
            chk.violation('lru-sim|' + key, what, case)
    _rich_part(chk)
    _caller_part(chk)
    _alias_part(chk)
    return chk.finish()
