"""C06 - compile() accepts or rejects every string with a documented error only.

(a) MC_C06_chars.tla enumerates every string of <= MaxLen symbols over a character-class alphabet; each is
    concretised with representatives of every class and compiled bare and inside 13 syntactic contexts
    (closed and unterminated); oracle = outcome class {compiled, SelectorSyntaxError, NotImplementedError}.
(b) Custom.tla is the alias resolver (machine M4: delete-while-compiling); TLC checks T-Total (termination
    under fairness, bounded stack, no name compiled twice) and prints the predicted outcome of every map over
    3 names x {plain, refers to x, malformed, absent}; replayed into compile(':--n', custom=map).  Malformed
    names and case-colliding names are added by the harness (KeyError is the only further documented error)."""
import itertools
import random
from harness import common, replay, tlc

CLASSES = {
    'NUL': ['\x00'], 'C0': ['\x01', '\x1f'], 'SP': [' ', '\t'], 'NL': ['\n'], 'CR': ['\r'], 'FF': ['\f'],
    'DQ': ['"'], 'SQ': ["'"], 'HASH': ['#'], 'DOT': ['.'], 'COLON': [':'], 'LBR': ['['], 'RBR': [']'], 'LP': ['('], 'RP': [')'],
    'COMMA': [','], 'COMB': ['>', '+', '~'], 'PIPE': ['|'], 'STAR': ['*'], 'EQ': ['='], 'OPX': ['^', '$', '!'], 'SLASH': ['/'],
    'BSL': ['\\'], 'DASH': ['-'], 'US': ['_'], 'DIGIT': ['7', '0'], 'HEXL': ['a', 'F'], 'N': ['n', 'N'], 'LETTER': ['p', 'Z'],
    'UDIGIT': ['\u0663', '\uff12', '\u0967'],          # decimal digits outside ASCII (\\d matches them, [0-9] does not)
    'AMP': ['&'], 'AT': ['@'], 'PCT': ['%', '%s', '%d'], 'ESCPCT': ['\\%', '\\25 ', '\\{', '\\7b '], 'DEL': ['\x7f'], 'C1': ['\x80', '\x9f'], 'BMP': ['\xa0', '中'], 'SURR': ['\ud800'],
    'ASTRAL': ['\U0001f600', '\U0010ffff'],
    'ESCBIG': ['\\110000', '\\ffffff'], 'ESCZERO': ['\\0', '\\000000 '], 'ESCSURR': ['\\d800', '\\dfff '], 'ESCMAX': ['\\10ffff '],
    'FOLD': ['\u017f', '\u0130', '\u0131', '\u212a'],      # characters that Unicode case folding maps onto ASCII letters (re.I)
    'CMT': ['/**/', '/*'], 'NAME': [':is', ':nth-child', ':lang', ':--x', '::before', ':hover', ':contains'],
}
CONTEXTS = ['%s', '[a=%s]', '[%s]', ':is(%s)', ':not(%s)', ':has(%s)', ':lang(%s)', ':nth-child(%s)', ':-soup-contains(%s)',
            'a %s b', '[a="%s', ':is(%s', '/*%s', ':nth-child(2n+1 of %s)', "[a='%s']",
            '[a~=%s]', '[a|="%s"]', '[a^=%s]', '[a$="%s"]', '[a*=%s]', "[a!='%s']", '[a~="%s" i]',
            '[a=b %s]', '[a="b"%s]', ':nth-child(2%s+1)', ':dir(%s)', ':%s(a)', '%s|a', '[%s|a]', ':nth-child(2n+1 %s a)']
ALLOWED = ('SelectorSyntaxError', 'NotImplementedError')


def _init(H):
    H['rng'] = random.Random(common.SEED + 6)


def _outcome(sv, text, _secs=20, **kw):
    try:
        common.guard(lambda: sv.compile(text, **kw), _secs)
        return 'ok'
    except common.CallTimeout:
        return 'NoTermination: compile() did not return within %d s' % _secs
    except sv.SelectorSyntaxError:
        return 'SelectorSyntaxError'
    except NotImplementedError:
        return 'NotImplementedError'
    except BaseException as ex:  # noqa
        return type(ex).__name__ + ': ' + str(ex)[:60]


def _work(H, chunk):
    sv = H['sv']
    rng = H['rng']
    viols = []
    n = 0
    nontriv = 0
    samp = None
    for case in chunk:
        classes = case['s']
        reps = [CLASSES[c] for c in classes]
        combos = list(itertools.product(*reps)) if reps else [()]
        if len(combos) > 4:
            combos = [combos[0], combos[-1]] + rng.sample(combos[1:-1], 2)
        for combo in combos:
            body = ''.join(combo)
            for ctx in CONTEXTS:
                text = ctx % body
                out = _outcome(sv, text)
                n += 1
                if out != 'ok' and out not in ALLOWED:
                    viols.append(('%r' % text, 'compile(%r) raised %s' % (text, out),
                                  {'selector': text, 'classes': classes, 'group': out.split(':')[0] + ' ' + ' '.join(classes)}))
                elif out != 'ok':
                    nontriv += 1
        if samp is None and classes:
            samp = {'classes': classes, 'example': CONTEXTS[3] % ''.join(combos[0])}
    return viols, n, nontriv, samp


def _custom_part(chk, tier):
    sv, bs4 = common.import_repo()
    names = ['a', 'b', 'c']
    cfg = replay.write_cfg('custom', {'Names': '{"a", "b", "c"}', 'NoRef': '"none"'}, invariants=('NoRepeat', 'Bounded', 'Emit'),
                           spec='Spec', properties=('Terminates',))
    got = []
    try:
        res = tlc.run('MC_C06_custom', cfg=cfg, workers=4, line_cb=got.append)
    finally:
        replay.rm_cfg(cfg)
    chk.add_tlc(res, 'custom-resolver')
    if res.violation:
        chk.violation('spec|custom', 'Custom.tla: %s' % res.violation, {'cfg': 'custom', 'group': 'spec', 'tlc': res.counterexample[:3000]})
    # every map in two spellings: references written ":--x", and with the dashes / the name written as CSS escapes and in upper case
    # (the same alias: names are matched after unescaping, case-insensitively)
    for e, refstyle in [(e, st) for e in got for st in (':--%s', ':\\2d-%s', ':-\\-%s', ':--\\%s')]:
        m = {}
        for nme in names:
            d = e['def'][nme]
            if d['k'] == 'plain':
                m[':--' + nme] = 'p.x, :is(b)'
            elif d['k'] == 'bad':
                m[':--' + nme] = 'p[ >'
            elif d['k'] == 'ref':
                ref = refstyle % (d['m'].upper() if refstyle != ':--%s' and d['m'].lower() not in 'abcdef' else d['m'])
                m[':--' + nme] = 'div %s > b' % ref
        out = _outcome(sv, ':--%s' % e['start'], custom=m)
        sv.purge()
        chk.count(1, traces=1)
        chk.nontrivial(str(sorted(m.items())) + e['start'])
        if out != 'ok' and out not in ALLOWED:
            chk.violation('custom|%r|%s' % (sorted(m.items()), e['start']), "compile(':--%s', custom=%r) raised %s" % (e['start'], m, out),
                          {'cfg': 'custom', 'group': out.split(':')[0], 'map': m})
        elif out != e['outcome']:
            chk.drift.append({'map': m, 'start': e['start'], 'model': e['outcome'], 'code': out})
    # harness-side: malformed names, case collisions, odd definitions
    extra = [({':--a': 'p', ':--A': 'b'}, 'KeyError'), ({':--a': 'p', ':--\\41': 'b'}, None), ({'a': 'p'}, 'SelectorSyntaxError'),
             ({':-a': 'p'}, 'SelectorSyntaxError'), ({':--': 'p'}, None), ({':--a b': 'p'}, 'SelectorSyntaxError'),
             ({':--a': ''}, None), ({':--a': ':--a'}, 'SelectorSyntaxError'), ({':--a': ':--A'}, 'SelectorSyntaxError'),
             ({':--a': '\\110000'}, None), ({':--\\110000': 'p'}, None), ({'': 'p'}, 'SelectorSyntaxError'), ({':--a': ':--b', ':--b': ':--c', ':--c': ':--a'}, 'SelectorSyntaxError'),
             ({':--a': '@page'}, 'NotImplementedError'), ({':--a': 'p::before'}, 'NotImplementedError'), ({':--\x00': 'p'}, None)]
    for m, expect in extra:
        for pat in (':--a', 'p:--A', ':is(:--a, :--b)'):
            try:
                sv.compile(pat, custom=m)
                out = 'ok'
            except sv.SelectorSyntaxError:
                out = 'SelectorSyntaxError'
            except NotImplementedError:
                out = 'NotImplementedError'
            except KeyError:
                out = 'KeyError'
            except BaseException as ex:  # noqa
                out = type(ex).__name__ + ': ' + str(ex)[:60]
            sv.purge()
            chk.count(1)
            lowered = [k.lower() for k in m]
            collision = len(set(lowered)) < len(lowered)
            ok = out in ('ok',) + ALLOWED or (out == 'KeyError' and collision)
            if not ok:
                chk.violation('custom-extra|%r|%s' % (m, pat), 'compile(%r, custom=%r) raised %s' % (pat, m, out),
                              {'cfg': 'custom-extra', 'group': out.split(':')[0], 'map': m})
            elif expect and out != expect and pat == ':--a':
                chk.drift.append({'map': m, 'expected': expect, 'code': out})


def main(tier):
    chk = common.Check('C06', tier)
    chk.assumptions += ['Unicode is abstracted by 43 character classes with 1-7 representatives each (incl. multi-character escapes as atoms)',
                        'nesting depth far below the recursion budget', 'escapes naming surrogates: only "no other exception" is gated']
    maxlen = 2 if tier == 'quick' else 3
    classes = '{' + ', '.join('"%s"' % c for c in sorted(CLASSES)) + '}'
    replay.stream(chk, 'MC_C06_chars', {'MaxLen': maxlen, 'Classes': classes}, 'chars%d' % maxlen, _work, _init,
                  is_header=lambda v: False, chunk=40 if tier == 'quick' else 200)
    # longer strings: sampled walks (every prefix of a walk is a case)
    num, depth = (500, 6) if tier == 'quick' else (40000, 8)
    cases = []
    cfg = replay.write_cfg('chars-sim', {'MaxLen': depth, 'Classes': classes}, next_='NextSim')
    try:
        res = tlc.run('MC_C06_chars', cfg=cfg, workers=1, simulate={'num': num}, depth=depth + 1, seed=common.SEED + 6, line_cb=cases.append)
    finally:
        replay.rm_cfg(cfg)
    chk.add_tlc(res, 'chars-sim')
    import multiprocessing as mp
    chunks = [cases[i::64] for i in range(64) if cases[i::64]]
    with mp.get_context('fork').Pool(16, initializer=replay._ginit, initargs=([], _init)) as pool:
        outs = pool.map(replay._gwork, [(_work, c) for c in chunks])
    for viols, n, nontriv, samp in outs:
        chk.count(n)
        chk.add_distinct(nontriv)
        for key, what, case in viols:
            case.setdefault('cfg', 'chars-sim')
            chk.violation('chars-sim|' + key, what, case)
    chk.coverage['traces_validated_against_impl'] += len(cases)
    _custom_part(chk, tier)
    _parser_part(chk, tier)
    _lexer_part(chk, tier, cases)
    _pump_part(chk, tier)
    return chk.finish()


TOK_TEXT = {'tag': 'a', 'idcls': '.c', 'attr': '[t]', 'ps': ':root', 'ps_nomatch': ':hover', 'ps_bad': ':foo', 'nth': ':nth-child(2n+1)',
            'nth_of': ':nth-child(2 of ', 'lang': ':lang(en)', 'dir': ':dir(ltr)', 'contains': ':-soup-contains(x)', 'open_is': ':is(',
            'open_not': ':not(', 'open_has': ':has(', 'open_matches': ':matches(', 'open_nomatch': ':current(', 'custom': ':--al',
            'custom_undef': ':--zz', 'amp': '&', 'close': ')', 'comma': ',', 'ws': ' ', 'comb': '>', 'at': '@page', 'pe': '::before', 'inv': '$'}
TOK_ALT = {'idcls': '#i', 'open_is': ':where(', 'comb': '~', 'ps': ':checked', 'open_nomatch': ':host(', 'ps_bad': ':is', 'nth': ':nth-of-type(odd)',
           'contains': ':-soup-contains-own("x", y)', 'lang': ':lang("de-*", en)', 'attr': '[t~="x" i]', 'comma': ' , ', 'inv': '\x01'}


def _pwork(H, chunk):
    sv = H['sv']
    viols = []
    n = 0
    agree = 0
    samp = None
    for case in chunk:
        toks = case['toks']
        for table in (TOK_TEXT, dict(TOK_TEXT, **TOK_ALT)):
            text = ''.join(table[t] for t in toks)
            out = _outcome(sv, text, custom={':--al': 'b'})
            n += 1
            if out != 'ok' and out not in ALLOWED:
                viols.append(('%r' % text, 'compile(%r) raised %s' % (text, out), {'selector': text, 'group': out.split(':')[0]}))
            elif out == case['outcome']:
                agree += 1
            else:
                viols.append(('DRIFT', {'tokens': toks, 'text': text, 'model': case['outcome'], 'code': out}, None))
        if samp is None and len(toks) > 2 and case['outcome'] == 'ok':
            samp = {'tokens': toks, 'text': ''.join(TOK_TEXT[t] for t in toks), 'predicted': case['outcome']}
    return viols, n, agree, samp


def _parser_part(chk, tier):
    """Parser.tla (machine M3 over token kinds): T-Total checked by TLC incl. liveness; every lexically possible token sequence is
    concretised (two spellings per token) and compiled: the outcome class is gated, agreement with the model's prediction is recorded."""
    import multiprocessing as mp
    toks = '{' + ', '.join('"%s"' % t for t in sorted(TOK_TEXT)) + '}'
    maxlen = 3 if tier == 'quick' else 4
    cfg = replay.write_cfg('parser', {'Tokens': toks, 'MaxLen': maxlen}, invariants=('StackBounded', 'OneOutcome', 'NoStuck', 'Emit'),
                           spec='Spec', properties=('Terminates',) if tier == 'quick' else ())
    cases = []
    try:
        res = tlc.run('MC_C06_parser', cfg=cfg, workers=16, line_cb=cases.append)
    finally:
        replay.rm_cfg(cfg)
    chk.add_tlc(res, 'parser-tokens%d' % maxlen)
    if res.violation:
        chk.violation('spec|parser', 'Parser.tla: %s' % res.violation, {'cfg': 'parser', 'group': 'spec', 'tlc': res.counterexample[:3000]})
    chunks = [cases[i::128] for i in range(128) if cases[i::128]]
    with mp.get_context('fork').Pool(16, initializer=replay._ginit, initargs=([], _init)) as pool:
        outs = pool.map(replay._gwork, [(_pwork, c) for c in chunks])
    total = agree_total = 0
    for viols, n, agree, samp in outs:
        total += n
        agree_total += agree
        chk.count(n)
        chk.add_distinct(agree)
        if samp:
            chk.sample(samp, cap=12)
        for key, what, case in viols:
            if key == 'DRIFT':
                chk.drift.append(what)
            else:
                case.setdefault('cfg', 'parser-tokens')
                chk.violation('parser|' + key, what, case)
    chk.coverage['traces_validated_against_impl'] += len(cases)
    chk.notes['parser_model'] = {'token_sequences': len(cases), 'compiles': total, 'outcome_agrees_with_model': agree_total}



def _lexer_part(chk, tier, cases):
    """Lexer.tla <-> code on hostile input: for a sample of the generated class strings (first representative, five contexts) the token
    stream printed by the real tokenizer under DEBUG must be the one Lexer.tla computes (Trace_Lex).  Agreement is recorded (drift), the
    verdict of C06 stays the outcome class."""
    import json
    from harness import lexrec, trace
    sv, bs4 = common.import_repo()
    rng = random.Random(common.SEED + 66)
    texts = set()
    ctxs = ['%s', '[a=%s]', ':is(%s)', 'a %s b', ':nth-child(%s)', ':lang(%s)', '[%s]', 'a%s']
    sample = cases if len(cases) < 1500 else rng.sample(cases, 1500)
    for c in sample:
        body = ''.join(rng.choice(CLASSES[k]) for k in c['s'])
        for ctx in rng.sample(ctxs, 3):
            texts.add(ctx % body)
    lines = []
    for k, t in enumerate(sorted(texts)):
        if any(0xD800 <= ord(ch) <= 0xDFFF for ch in t):
            continue          # lone surrogates cannot be written to the trace file
        r = lexrec.record(sv, t)
        seen = t.replace('\x00', '\ufffd')          # what the tokenizer is given (CSSParser.__init__ replaces NUL)
        lines.append(json.dumps({'id': 'c%d' % k, 'text': common.cps(seen), 'toks': r['toks'], 'lexerr': r['lexerr'],
                                 'complete': bool(r['complete']), 'res': 'tokens', 'css': t}))
    sub = common.Check('C06-lex', chk.tier)
    rej = trace.validate(sub, lines, 'Trace_Lex', 'lexer-binding', batch=800)
    chk.coverage['states'] += sub.coverage['states']
    chk.coverage['transitions'] += sub.coverage['transitions']
    chk.coverage['traces_validated_against_impl'] += len(lines)
    for m in sub.machinery_errors:
        chk.machinery(m)
    chk.notes['lexer_binding'] = {'texts': len(lines), 'token_streams_equal_to_Lexer_tla': len(lines) - len(rej)}
    ev = {json.loads(l)['id']: json.loads(l) for l in lines}
    for rid, exp in rej[:40]:
        chk.drift.append({'lexer_model_disagrees': ev[rid]['css'], 'real': [(t['k'], t['a'], t['b']) for t in ev[rid]['toks']],
                          'lexerr': ev[rid]['lexerr'], 'spec': (exp or '')[:260]})


# ---- pumping: the repetitions of the lexical grammar, far beyond what TLC enumerates --------------------------------------------
# (prefix, unit, suffix): unit sits inside a "*" / "+" / "{4,}" repetition of one token of Lexer.tla
PUMP = [(':nth-child(', '9', ')'), (':nth-child(2n+', '9', ')'), (':nth-child(', '9', 'n+1)'), (':nth-of-type(-', '0', '1)'), (':nth-last-child(2n - ', '0', ')'),
        (':nth-child(2n+1 of a', 'a', ')'), (':nth-last-of-type(', '7', 'n)'), ('a', 'b', ''), ('.', 'x', ''), ('#a', '-', ''), ('[a', '_', ']'), ('[a=', 'v', ']'),
        ('[a="', 'v', '"]'), ("[a='", ' ', "']"), (':is(', ' ', 'a)'), ('a', ' ', '> b'), ('a ', '/**/', ' b'), ('a /*', 'x', '*/ b'), ('a /*', '*', '*/ b'), ('[a="', '\\41 ', '"]'),
        ('', '\\41 ', ''), ('', '\\+', ''), (':lang(', 'e', ')'), (':lang("', 'e', '")'), (':lang(en', ' ', ', de)'), (':-soup-contains("', 'x', '")'), (':--', 'x', ''),
        (':nth-child(2n', ' ', '+1)'), (':nth-child(2n+1', ' ', ' of a)'), ('a:', 'x', ''), ('@p', 'p', ''), ('::', 'x', ''), ('a', '\n', 'b'), ('[a="', '\\\n', '"]'),
        ('[a=b', '/**/', ' i]'), (':dir(', ' ', 'ltr)'), ('ns', 's', '|a'), ('[ns', 's', '|a]'), ('/*', '/', ''), ('"', 'a', ''), ('[a="', "'", ''), ('a', '$', ''),
        ('9', '9', ''), ('-', '-', 'a'), ('a', '\x00', ''), ('[a=', '\\0', ']'), ('.a', '\\110000', '')]


def _pump_work(H, chunk):
    sv = H['sv']
    out = []
    for (k, pre, unit, suf, ns) in chunk:
        base = _outcome(sv, pre + unit + suf, namespaces={'ns': 'urn:n'})
        for n in ns:
            # several token patterns are quadratic in the length of a white space run (allowed: C07 bounds the growth, not the constant);
            # the watchdog only has to tell "slow" from "never"
            out.append((k, n, base, _outcome(sv, pre + unit * n + suf, _secs=600, namespaces={'ns': 'urn:n'})))
    return out


def _pump_part(chk, tier):
    """Lexer.tla reads the repetitions of the token grammar (digit runs, identifier characters, white space, comment and string bodies)
    with recursive scanners that have no length bound: TLC checks for N <= MaxN that pumping such a run leaves the token kinds unchanged
    (PumpInvariant), so by Parser.tla - a function of the token kinds - the outcome does not depend on N in the model.  The code is then run with the
    same sites pumped to thousands of repetitions (where e.g. CPython's 4300-digit int() limit lives): gated is C06 itself (only documented errors); an outcome that changes with N is
    recorded as drift from the model."""
    import os
    import shutil
    import tempfile
    import multiprocessing as mp
    tmpd = tempfile.mkdtemp(prefix='verif_c06p_')
    try:
        for m in ('Lexer.tla', 'Str.tla'):
            shutil.copy(os.path.join(tlc.SPEC_DIR, m), tmpd)
        cp = lambda t: '<< ' + ', '.join(str(ord(c)) for c in t) + ' >>'
        with open(os.path.join(tmpd, 'MC_C06_pump.tla'), 'w') as f:
            f.write('---- MODULE MC_C06_pump ----\n\\* generated from PUMP in checks/c06.py: pumping a repetition inside one token\nEXTENDS Lexer, TLC\n'
                    'CONSTANT MaxN\nVARIABLES site, n\n'
                    'Sites == << %s >>\n'
                    'RECURSIVE Rep(_, _)\nRep(u, k) == IF k = 0 THEN <<>> ELSE u \\o Rep(u, k - 1)\n'
                    'Text(s, k) == s.pre \\o Rep(s.unit, k) \\o s.suf\n'
                    'Init == site \\in 1..Len(Sites) /\\ n = 1\nNext == n < MaxN /\\ n\' = n + 1 /\\ UNCHANGED site\n'
                    'PumpInvariant == KindsRel(Text(Sites[site], n)) = KindsRel(Text(Sites[site], 1)) /\\ (Lex(Text(Sites[site], n)).err = 0) = (Lex(Text(Sites[site], 1)).err = 0)\n====\n'
                    % ',\n  '.join('[pre |-> %s, unit |-> %s, suf |-> %s]' % (cp(a), cp(u), cp(b)) for a, u, b in PUMP))
        with open(os.path.join(tmpd, 'pump.cfg'), 'w') as f:
            f.write('CONSTANTS\n MaxN = %d\nINIT Init\nNEXT Next\nINVARIANT PumpInvariant\nCHECK_DEADLOCK FALSE\n' % (6 if tier == 'quick' else 24))
        res = tlc.run('MC_C06_pump', cfg='pump', cwd=tmpd, workers=8)
        chk.add_tlc(res, 'pump')
        if res.violation:
            chk.machinery('MC_C06_pump: a PUMP site of checks/c06.py is not a repetition inside one token (%s)' % res.violated_name)
            return
    finally:
        shutil.rmtree(tmpd, ignore_errors=True)
    ns = [2, 7, 100, 4299, 4300, 4301, 5000] + ([12000] if tier == 'quick' else [12000, 40000])
    jobs = [(k, a, u, b, ns) for k, (a, u, b) in enumerate(PUMP)]
    with mp.get_context('fork').Pool(16, initializer=replay._ginit, initargs=([], _init)) as pool:
        outs = pool.map(replay._gwork, [(_pump_work, [j]) for j in jobs])
    n = 0
    for out in outs:
        for (k, rep, base, got) in out:
            n += 1
            a, u, b = PUMP[k]
            brief = '%r + %r*%d + %r' % (a, u, rep, b)
            if got != 'ok' and got not in ALLOWED:
                chk.violation('pump|%d|%s' % (k, got.split(':')[0]), 'compile(%s) raised %s' % (brief, got),
                              {'cfg': 'pump', 'pre': a, 'unit': u, 'suf': b, 'n': rep, 'group': 'pump ' + got.split(':')[0]})
            elif got != base:
                # allowed by C06 (a documented error); the model says the token kinds are the same, so record where the code departs from it
                chk.drift.append({'pump_outcome_depends_on_run_length': brief, 'one_repetition': base, 'pumped': got})
            if got != 'ok':
                chk.add_distinct(1)
    chk.count(n, traces=n)
    chk.notes['pump'] = {'sites': len(PUMP), 'repetitions': ns}
    chk.sample({'pumped': '%r + %r*N + %r' % PUMP[0], 'N': ns}, cap=14)
