"""C12 - namespace selectors compare namespace URIs through the supplied prefix map."""
import json
from harness import common, replay, trace, dom
from harness.common import cps


def _spelled(selmod, ast, rng):
    """a random respelling of the AST (escapes, case of keywords, white space / comments): the document-type rules are about names and
    values, not about how the selector is spelled"""
    import random as _r
    import zlib
    selmod.SPELL = _r.Random(zlib.crc32(repr(ast).encode()) + common.SEED)
    try:
        return selmod.selector_list(ast)
    finally:
        selmod.SPELL = None


def main(tier):
    chk = common.Check('C12', tier)
    chk.assumptions += ['CssDecl.ElemNsOk / AttrNsOk are the reading of CSS Namespaces 3 and the property statement',
                        'namespace-aware trees only (XML builder, html5lib-style XHTML root); prefixes of the document are generated independently of the map']
    replay.run_cfg(chk, 'MC_C12', {'MaxKids': 1 if tier == 'quick' else 2}, 'ns%d' % (1 if tier == 'quick' else 2))
    # the caller's map next to the library's own definitions: `h|*:checked`, `*|*:link` ... under a map with a default namespace (MC_C17_ns,
    # second pool family): the map decides h|* and *|*, never how the definition of the pseudo-class is read
    # (two nodes in both tiers: with three, nested forms and foreign parents between an element and its dir ancestor appear - zones the
    # property C17 leaves open and checks/c17.py routes to drift; the namespace dimension needs no depth)
    replay.run_cfg(chk, 'MC_C17_ns', {'MaxNodes': 2}, 'ns-state')
    trace_part(chk, tier)
    return chk.finish()


U1, U2 = 'urn:1', 'urn:2'
XML_DOCS = [
    '<r xmlns="urn:1" xmlns:p="urn:2" xmlns:d="urn:1"><e a="x" p:a="y"/><p:e d:a="z"/><d:e/><f xmlns="" a="n"><e/></f>'
    '<e xmlns="urn:2" xmlns:p="urn:1"><p:e p:a="r"/></e></r>',
    '<r xmlns:p="urn:1"><e/><p:e a="x"/><u:e xmlns:u="urn:9"/><e xmlns:p="urn:2"><p:e p:a="w"/></e></r>',
    '<r xmlns:m="urn:1" xmlns:t="urn:2"><m:e m:a="1" t:a="2"/><m:e t:a="2" m:a="1" checked="checked"/><m:e a="0"/><t:e m:a="1"/><m:e/><e checked="checked"/></r>',
]
HTML5 = '<div><p id="h">x</p><svg><circle xlink:href="#a" id="c"/><e/></svg><math><mi a="q"/></math></div>'


def trace_part(chk, tier):
    """B2: documents parsed by lxml-xml (default / prefixed / redeclared / undeclared declarations) and html5lib
    foreign content, projected back; recorded selects validated by TLC."""
    sv, bs4 = common.import_repo()
    from harness import sel as selmod
    B, N, A_ = {'t': 'bare'}, {'t': 'none'}, {'t': 'any'}
    P = lambda x: {'t': 'pfx', 'p': cps(x)}  # noqa: E731
    forms = []
    for ns in (B, N, A_, P('p'), P('q'), P('svg'), P('zz')):
        for name in ('e', '*', 'circle'):
            forms.append([{'cs': [[{'k': 'type', 'ns': ns, 'name': cps(name)}]], 'cb': []}])
        for an in ('a', 'href'):
            forms.append([{'cs': [[{'k': 'attr', 'ns': ns, 'name': cps(an), 'op': 'ex', 'val': [], 'flag': 'n'}]], 'cb': []}])
    forms.append([{'cs': [[{'k': 'not', 'args': [{'cs': [[{'k': 'type', 'ns': P('p'), 'name': cps('e')}]], 'cb': []}]}]], 'cb': []}])
    # namespace selectors combined with HTML-only pseudo-classes (internally evaluated under a private prefix map)
    for ns in (P('p'), P('q'), B):
        for st in ('checked', 'disabled', 'link', 'required'):
            forms.append([{'cs': [[{'k': 'type', 'ns': ns, 'name': cps('e')}, {'k': 'not', 'args': [{'cs': [[{'k': st}]], 'cb': []}]}]], 'cb': []}])
            forms.append([{'cs': [[{'k': 'type', 'ns': ns, 'name': cps('e')}]], 'cb': []}, {'cs': [[{'k': st}]], 'cb': []}])
    forms.append([{'cs': [[{'k': 'attr', 'ns': P('p'), 'name': cps('a'), 'op': 'ex', 'val': [], 'flag': 'n'},
                           {'k': 'attr', 'ns': P('q'), 'name': cps('a'), 'op': 'ex', 'val': [], 'flag': 'n'}]], 'cb': []}])
    # the caller's map may use ANY prefix, also the one the library uses privately for its HTML-only lists ("html"), for any URI; an HTML
    # state pseudo-class evaluated first in the same call must not change what the caller's prefix means afterwards (and vice versa)
    for nm in ('e', 'circle', 'p', '*'):
        T = {'k': 'type', 'ns': P('html'), 'name': cps(nm)}
        forms.append([{'cs': [[T]], 'cb': []}])
        for st in ('checked', 'link', 'disabled'):
            forms.append([{'cs': [[{'k': st}]], 'cb': []}, {'cs': [[T]], 'cb': []}])
            forms.append([{'cs': [[T]], 'cb': []}, {'cs': [[{'k': st}]], 'cb': []}])
            forms.append([{'cs': [[T, {'k': 'not', 'args': [{'cs': [[{'k': st}]], 'cb': []}]}]], 'cb': []}])
            forms.append([{'cs': [[{'k': 'type', 'ns': A_, 'name': cps('*')}, {'k': 'not', 'args': [{'cs': [[{'k': st}]], 'cb': []}]},
                                   {'k': 'attr', 'ns': P('html'), 'name': cps('a'), 'op': 'ex', 'val': [], 'flag': 'n'}]], 'cb': []}])
    maps = [None, {'p': U1}, {'p': U2, 'q': U1}, {'': U1, 'p': U2}, {'': 'http://www.w3.org/1999/xhtml', 'svg': 'http://www.w3.org/2000/svg',
                                                                       'q': 'http://www.w3.org/1999/xlink'}, {'': U2},
            {'html': 'http://www.w3.org/2000/svg'}, {'html': U1, 'p': U2}, {'html': 'http://www.w3.org/1999/xhtml'}]
    lines = []
    docs = [('xml', m) for m in XML_DOCS] + [('html5lib', HTML5)]
    for dn, (parser, markup) in enumerate(docs):
        soup = bs4.BeautifulSoup(markup, parser)
        d, nodes = dom.project(soup, bs4)
        idmap = dom.ids_of(nodes)
        root = min([i + 1 for i, (p, k) in enumerate(zip(d['parent'], d['kind'])) if p == 0 and k == 'e'] or [0])
        for mn, nsmap in enumerate(maps):
            for j, ast in enumerate(forms):
                css = _spelled(selmod, ast, rng if 'rng' in dir() else None)
                ev = {'id': 'd%d.m%d.%d' % (dn, mn, j), 'doc': d, 'sel': ast,
                      'nsmap': [{'p': cps(p), 'u': cps(u)} for p, u in (nsmap or {}).items()], 'scope': root, 'target': 0, 'css': css}
                try:
                    ev['res'] = [idmap[id(t)] for t in sv.select(css, soup, namespaces=nsmap)]
                except Exception as e:
                    ev['res'] = [-2]
                    ev['exc'] = type(e).__name__
                lines.append(json.dumps(ev))
    trace.validate(chk, lines, 'Trace_Select', 'trace-parsed-ns')
    e = json.loads(lines[7])
    chk.sample({'trace_event': {'id': e['id'], 'css': e['css'], 'nsmap': maps[0], 'res': e['res']}}, cap=14)
