"""C20 - diagnostics point at the right place and always terminate.

Four parts, one verdict:

1. errctx  (B1) TLC enumerates every pattern over {x, LF, CR} up to a bound (MC_C20_errctx / ErrCtx.tla) and
   prints the specification's (line, col, context) for every offset 0..len; each is replayed into
   soupsieve.util.get_pattern_context and SelectorSyntaxError(msg, pattern, offset).  Literal agreement passes;
   everything else is judged by TLC (Trace_C20.tla: REJECT = violation, DRIFT = format/ambiguous zone only).
2. e2e     (B2) invalid selectors (pool x line-break styles x truncation / insertion) are compiled by the real
   parser, every SelectorSyntaxError is recorded (pattern, "position N" of the message, line, col, context) and
   validated by TLC against ErrCtx (Trace_C20.tla).
3. debug   every selector of a written-out pool is compiled with and without soupsieve.DEBUG: equal .selectors,
   equal select() results on three documents.
4. pretty  soupsieve.pretty.pretty / SelectorList.pretty() under a deterministic budget of line events
   (sys.settrace) must return and equal repr() up to whitespace.  The loop itself is modelled in Pretty.tla:
   MC_C20_pretty_fixed must pass (NoStuck, OutRel, StepAdvances, Terminates), the three as-is configurations
   must FAIL (vacuity guard), and Trace_C20pretty runs the as-is model on the real repr strings to explain
   each hang (index and token class at which no rule applies).
"""
from __future__ import annotations
import contextlib
import io
import json
import multiprocessing as mp
import os
import random
import re
import sys
import tempfile
import threading
import warnings

from harness import common, tlc

LABEL_B1 = 'errctx'
LABEL_E2E = 'e2e'
LABEL_DBG = 'debug'
LABEL_PRETTY = 'pretty'


# ---------------------------------------------------------------------------------------------
# pools
# ---------------------------------------------------------------------------------------------

NAMESPACES = {'ns': 'http://example.com/ns', 'svg': 'http://www.w3.org/2000/svg',
              'xlink': 'http://www.w3.org/1999/xlink', 'html': 'http://www.w3.org/1999/xhtml'}
CUSTOM = {':--header': 'h1, h2, h3, h4', ':--parent': ':has(> *|*)', ':--odd-item': 'li:nth-child(odd)',
          ':--named': '[name], [id]', ':--deep': ':--header:not(:--parent)'}


def _strict_stdout():
    """what a program's standard output normally is: a UTF-8 text stream that REFUSES what cannot be encoded (lone surrogates).  The DEBUG
    trace must get through it whatever the selector contains (io.StringIO would accept anything)."""
    return io.TextIOWrapper(io.BytesIO(), encoding='utf-8', errors='strict', write_through=True)

# ~150 valid selectors of every kind the parser knows (the DEBUG and pretty-printer pool)
POOL = [
    # type, universal, id, class
    'a', '*', 'div', 'p.x', 'p.x.y', '#i1', 'div#i1.x', 'li.item', 'h1, h2', 'a, b, c', '.x, #i2, p',
    # namespaces
    'ns|a', '*|a', '|a', 'ns|*', '*|*', 'svg|circle', 'svg|*[r]', '[xlink|href]', '[*|href]', '[|href]',
    'html|div', 'svg|svg > svg|circle',
    # attribute operators and flags
    '[a]', '[a=b]', '[a="b"]', "[a='b']", '[a~=b]', '[a|=b]', '[a^=b]', '[a$=b]', '[a*=b]', '[a!=b]',
    '[a=b i]', '[a="b" i]', '[a=b s]', '[a="b c" i]', '[type=text]', '[type="TEXT" i]', '[type=text s]',
    '[type~="x" i]', '[class~=x]', '[lang|=en]', '[href^="http"]', '[href$=".png" i]', '[title*="lo w"]',
    '[a=""]', '[a^=""]', '[data-x="1"][data-y="2"]', 'a[href][title]', 'input[name=n1][value]',
    '[a="-1"]', '[a="b.c|d"]', '[a="it\'s"]', '[a=\'say "x"\']', '[a="\\"q\\""]',
    # combinators
    'a b', 'a > b', 'a + b', 'a ~ b', 'div > p + p ~ span', 'ul li a', 'ul > li > a', 'h1 + p', 'h1 ~ p',
    'a,b>c', 'a>b,c+d,e~f',
    # structural
    ':root', ':empty', ':first-child', ':last-child', ':only-child', ':first-of-type', ':last-of-type',
    ':only-of-type', 'p:first-child', 'li:last-child', ':root > body',
    # An+B
    ':nth-child(2)', ':nth-child(odd)', ':nth-child(even)', ':nth-child(2n+1)', ':nth-child(2n + 1)',
    ':nth-child(-n+3)', ':nth-child(-n + 3)', ':nth-child(-2n+5)', ':nth-child(n)', ':nth-child(-n)',
    ':nth-child(3n-2)', ':nth-child(-3n-2)', ':nth-child(+n+2)', ':nth-child(0n+1)', ':nth-child(n-1)',
    ':nth-last-child(2)', ':nth-last-child(-n+2)', ':nth-of-type(2n)', ':nth-of-type(-2n+3)',
    ':nth-last-of-type(odd)', ':nth-last-of-type(-n+1)', 'li:nth-child(2n+1 of .x)',
    ':nth-child(-n+3 of li, p)', ':nth-last-child(2 of :not(.x))', ':nth-child(odd of :is(li, p).x)',
    ':nth-child(2 of [a=b])', ':nth-child(-2n-1 of :nth-child(-n+2))',
    # logical
    ':is(a, b)', ':is(a, b) > c', ':where(a, .x)', ':matches(a)', ':not(a)', ':not(a, b)', ':not(.x):not(.y)',
    ':not(:is(a, b))', ':is(:not(a), :not(b))', ':is()', ':is(a,)', ':has(a)', ':has(> a)', ':has(+ a)',
    ':has(~ a)', ':has(> a, + b)', 'div:has(> p:not(.x))', ':has(:has(a))', ':not(:has(> :is(a, b)))',
    ':is(div, section):has(> :is(h1, h2):nth-child(-n+2))', ':is(ul, ol) > :not(li:nth-child(-n+1))',
    ':is([a=b], [a="c" i]) :not([type=text])',
    # lang, dir, contains
    ':lang(en)', ':lang("en")', ':lang(en, de)', ':lang("*-US")', ':lang(de-DE, "fr-*")', 'p:lang(en)',
    ':dir(ltr)', ':dir(rtl)', 'span:dir(rtl)', ':-soup-contains("x")', ':-soup-contains(x, "y z")',
    ':-soup-contains-own("x")', ':-soup-contains("-1")', 'p:-soup-contains("a.b|c")',
    # html state pseudo-classes (compiled from internal selector lists with attribute patterns)
    ':link', ':any-link', ':checked', ':default', ':disabled', ':enabled', ':indeterminate', ':optional',
    ':required', ':placeholder-shown', ':read-only', ':read-write', ':in-range', ':out-of-range', ':scope',
    ':defined', 'input:checked + label', 'form :disabled', ':is(:checked, :default)', ':not(:read-only)',
    # never-matching
    ':hover', ':active', ':focus', ':visited', ':target', ':host', ':host(a)', ':host-context(a)',
    ':current', ':current(a)', ':past', ':future', ':paused', ':playing', 'a:hover > b',
    # custom
    ':--header', ':--parent', ':--odd-item', ':--named', ':--deep', 'div > :--header', ':is(:--header, :--named)',
    # escapes, comments, odd spacing
    'a\\.b', '#\\31 23', '.\\-x', 'a /* c */ b', ' a , b ', 'a\n>\nb', 'a\r\n,\r\nb', ':is( a , b )',
    # code points a strict output stream cannot take raw (lone surrogates, as bs4 trees and escape() can carry them), controls, non-BMP
    'p.a, span.\ud800', '[t="\udfff"]', '#\udbff\ud800', ':-soup-contains("\ud83d")', '.\U0001f600', '[t="\x7f\x1b"]', ':lang("\udc00")',
]

# additional objects for the pretty-printer: negative An+B terms, regex flags, nested lists, long values
PRETTY_EXTRA = [
    ':nth-child(-1n-1)', ':nth-child(-5n+10)', ':nth-child(-7)', ':nth-last-of-type(-2n-3)', ':nth-last-child(-2n-3 of a)', ':nth-child(-0n-0)',
    '[a="b" i]', '[a="b" s]', '[type="b" i]', '[type="b" s]', '[type="b"]', '[a~="b" i]', '[a|="b" i]', '[a^="b" i]',
    '[a$="b" i]', '[a*="b" i]', '[a!="b" i]', '[a="(" i]', '[a=")"]', '[a="[{"]', '[a=","]', '[a=":"]', '[a=" "]',
    '[a="x=y"]', "[a=\"'\"]", '[a="\\\\"]',
    ':is(:is(:is(a, b), c), :not(:not(d, e), f))', ':has(> :has(+ :has(~ a)))',
    ':nth-child(-n+3 of :nth-child(-n+2 of :nth-child(-n+1)))',
    ':not(:is(:where([a="b" i], [c|=d]), :nth-child(-2n+1)), :lang(en, "de-*"))',
    '[a="' + 'x' * 250 + '"]',
    # long runs of quotes / backslashes / brackets: the repr of the compiled regex is cut at 200 characters, possibly in the middle of an
    # escape or of a quoted string
    '[a="' + '\\\\' * 60 + '"]', '[a=\'' + '\\"' * 70 + '\']', '[a="' + "'" * 120 + '"]', '[a="' + '(' * 130 + '"]', '[a~="' + '\\\\' * 40 + 'x"]',
    '.' + '\\\\' * 80, '#' + '\\"' * 90, ':-soup-contains("' + '\\\\' * 110 + '")', ':lang("' + '\\\\' * 101 + '")',
    'a' * 300, ':-soup-contains("' + 'y ' * 150 + '")',
]

# bases for the end-to-end diagnostics part (valid and invalid; spaces are where line breaks go)
E2E_BASES = [
    'a, b', 'a > b ~ c + d', ':is(a, b) > c', 'a[b="c d"] , e', ':nth-child(2n + 1 of a, b)',
    ':not(a, .b) :has(> c, + d)', 'a:lang(en, "de-*")', ':-soup-contains("x", "y") b', 'ns|a , *|b',
    'a.b#c[d~=e i]', ':root > :first-child , :last-of-type', 'p:dir(rtl) , q:empty',
    ':is(a', 'a[b', ':nth-child(2n + 1 of a', 'a > , b', ':not(', 'a , , b', 'a > > b', '> a', 'a ,', ', a',
    'a b)', 'a :foo', 'a :foo(b)', 'a :--undef', 'a $ b', 'a .', 'a #', 'a [b=]', 'div a:nth-child(2n+)',
    ':not(a, )', 'a + ', ':nth-child(2n + 1 of', ':lang(', ':-soup-contains(', ':has(> )', 'a b|', 'a b c d !',
    'a , b c div', 'a.b , div p.c span#d [e] div', ':is(a , b', ':is(a , :not(b , :has(> c', 'a , :nth-child(odd',
    'a :hover :checked(', 'a :dir(up)', 'a :lang()', 'a :nth-child(x)', 'a :nth-child()', '[a=b] [c="d] e',
]
BREAKS = ['\n', '\r\n', '\r']


# ---------------------------------------------------------------------------------------------
# worker side (real code)
# ---------------------------------------------------------------------------------------------

_G = {}


def _winit():
    warnings.simplefilter('ignore')
    sv, bs4 = common.import_repo()
    _G['sv'] = sv
    _G['bs4'] = bs4


def _b1_work(chunk):
    """chunk: emitted TLC states [p, lines, at].  -> (ncases, residual events, consistency notes)"""
    sv = _G['sv']
    from soupsieve import util
    residual = []
    notes = []
    n = 0
    for d in chunk:
        p = common.st(d['p'])
        for i, at in enumerate(d['at']):
            n += 1
            exp = (at['line'], at['col'], common.st(at['ctx']))
            try:
                e = sv.SelectorSyntaxError('msg', p, i)
                got = (e.line, e.col, e.context)
            except Exception as ex:  # the constructor must not fail
                got = (None, None, '%s: %s' % (type(ex).__name__, ex))
            try:
                c, l, k = util.get_pattern_context(p, i)
                if (l, k, c) != got:
                    notes.append('get_pattern_context(%r, %d) = %r but SelectorSyntaxError carries %r' % (p, i, (l, k, c), got))
            except Exception as ex:
                notes.append('get_pattern_context(%r, %d) raised %s' % (p, i, type(ex).__name__))
            if got != exp:
                residual.append({'p': d['p'], 'pos': i, 'line': got[0], 'col': got[1],
                                 'ctx': common.cps(got[2]) if isinstance(got[2], str) else None,
                                 'exp': list(exp), 'inside': at['inside']})
    return n, residual, notes


_RE_POS = re.compile(r'position (\d+)')


def _e2e_work(chunk):
    """chunk: list of (pattern, custom dict or None, pattern the error refers to).  -> events"""
    sv = _G['sv']
    out = []
    ncompiled = 0
    other = 0
    for pat, custom, refpat in chunk:
        ncompiled += 1
        try:
            sv.compile(pat, namespaces=NAMESPACES, custom=custom)
        except sv.SelectorSyntaxError as e:
            full = str(e)
            msg = full
            if e.context is not None:
                tail = '\n  line %s:\n%s' % (e.line, e.context)
                if full.endswith(tail):
                    msg = full[:-len(tail)]
            ms = _RE_POS.findall(msg)
            ev = {'p': refpat, 'pos': int(ms[-1]) if ms else -1, 'line': e.line, 'col': e.col,
                  'ctx': e.context, 'msg': msg}
            # the DEBUG flag changes no result: the same diagnostics with flags=DEBUG
            try:
                with contextlib.redirect_stdout(_strict_stdout()):
                    sv.compile(pat, namespaces=NAMESPACES, custom=custom, flags=sv.DEBUG)
                ev['dbg'] = 'compiled'
            except sv.SelectorSyntaxError as e2:
                if (str(e2), e2.line, e2.col, e2.context) != (full, e.line, e.col, e.context):
                    ev['dbg'] = 'SelectorSyntaxError %r line=%r col=%r' % (str(e2).split('\n')[0], e2.line, e2.col)
            except Exception as e2:
                ev['dbg'] = '%s: %s' % (type(e2).__name__, str(e2).split('\n')[0])
            out.append(ev)
        except Exception:
            other += 1
    return ncompiled, other, out


def _docs():
    if 'docs' in _G:
        return _G['docs']
    bs4 = _G['bs4']
    html = ('<html lang="en"><head><title>t</title></head><body dir="ltr"><div id="i1" class="x y" a="b" title="hello world">'
            '<h1 class="x">Head -1</h1><p class="x" lang="de-DE">x <span dir="rtl">y z</span><a href="http://e.com/a.png" '
            'title="T">link</a></p><p a="B" type="text">a.b|c<b>x</b></p><p></p><ul><li class="item x">1</li><li class="item">2</li>'
            '<li>3</li><li class="x" data-x="1" data-y="2">4</li></ul></div><form><input type="checkbox" checked name="n1" value="v">'
            '<label>l</label><input type="text" required placeholder="p" id="i2"><input type="radio" name="r"><input type="number" '
            'min="1" max="5" value="7"><input type="number" min="1" max="5" value="3"><input disabled><textarea readonly></textarea>'
            '<select><option selected>o</option><option>q</option></select><button type="submit">go</button></form>'
            '<section><h2>two</h2><h3 name="n2">three</h3><ol><li>a</li><li>b</li></ol></section></body></html>')
    xml = ('<?xml version="1.0"?><root xmlns="http://example.com/ns" xmlns:svg="http://www.w3.org/2000/svg" '
           'xmlns:xlink="http://www.w3.org/1999/xlink"><a type="TEXT" a="b">x<b/></a><a type="text">y</a>'
           '<svg:svg><svg:circle r="1" xlink:href="#h"/><svg:circle/></svg:svg><c xmlns="" href="u"><a id="i1">z</a></c>'
           '<div class="x"><p>1</p><p class="x">2</p><p>3</p></div></root>')
    d1 = bs4.BeautifulSoup(html, 'html.parser')
    d2 = bs4.BeautifulSoup(xml, 'lxml-xml')
    d3 = bs4.BeautifulSoup(html, 'html5lib')
    _G['docs'] = [('html.parser', d1), ('lxml-xml', d2), ('html5lib', d3)]
    return _G['docs']


def _debug_work(chunk):
    """chunk: selectors.  Compile with and without DEBUG, compare IR and select results."""
    sv = _G['sv']
    docs = _docs()
    out = []
    ncmp = 0
    for s in chunk:
        rec = {'selector': s, 'problems': [], 'stdout_chars': 0, 'selected': 0}
        plain = dbg = None
        errs = [None, None]
        try:
            plain = sv.compile(s, namespaces=NAMESPACES, custom=CUSTOM)
        except Exception as e:
            errs[0] = '%s: %s' % (type(e).__name__, str(e).split('\n')[0])
        buf = _strict_stdout()
        try:
            with contextlib.redirect_stdout(buf):
                dbg = sv.compile(s, namespaces=NAMESPACES, custom=CUSTOM, flags=sv.DEBUG)
        except Exception as e:
            errs[1] = '%s: %s' % (type(e).__name__, str(e).split('\n')[0])
        if errs[0] is not None and errs[0] == errs[1]:
            rec['pool_error'] = errs[0]        # the pool is meant to be valid: a harness problem
            out.append(rec)
            continue
        if errs[0] is not None or errs[1] is not None:
            ncmp += 1
            rec['problems'].append('compile without DEBUG: %s; with DEBUG: %s' % (errs[0] or 'compiles', errs[1] or 'compiles'))
            out.append(rec)
            continue
        rec['stdout_chars'] = len(buf.buffer.getvalue())
        ncmp += 1
        if not (plain.selectors == dbg.selectors) or repr(plain.selectors) != repr(dbg.selectors):
            rec['problems'].append('.selectors differ: %s vs %s' % (repr(plain.selectors)[:300], repr(dbg.selectors)[:300]))
        for name, doc in docs:
            res = []
            for obj in (plain, dbg):
                b2 = io.StringIO()
                try:
                    with contextlib.redirect_stdout(b2):
                        r = [id(t) for t in obj.select(doc)]
                        one = obj.select_one(doc)
                        r.append(id(one) if one is not None else 0)
                except Exception as e:
                    r = '%s: %s' % (type(e).__name__, str(e).split('\n')[0])
                res.append(r)
            ncmp += 1
            if res[0] != res[1]:
                rec['problems'].append('select on %s differs: %r vs %r' % (
                    name, len(res[0]) if isinstance(res[0], list) else res[0],
                    len(res[1]) if isinstance(res[1], list) else res[1]))
            elif isinstance(res[0], list):
                rec['selected'] += len(res[0]) - 1
        out.append(rec)
    return ncmp, out


class _Budget(BaseException):
    pass


def _run_budget(fn, budget, fname):
    """Run fn() counting 'line' events of frames whose code lives in file `fname`; stop after `budget`.
    -> (result | None, events used, locals of the frame when the budget ran out | None)"""
    state = {'n': 0, 'loc': None}

    def local(frame, ev, arg):
        if ev == 'line':
            state['n'] += 1
            if state['n'] > budget:
                loc = frame.f_locals
                state['loc'] = {k: loc[k] for k in ('index', 'indent') if isinstance(loc.get(k), int)}
                raise _Budget()
        return local

    def glob(frame, ev, arg):
        if frame.f_code.co_filename == fname:
            return local
        return None

    sys.settrace(glob)
    try:
        r = fn()
        return r, state['n'], None
    except _Budget:
        return None, state['n'], state['loc'] or {}
    finally:
        sys.settrace(None)


def _strip_ws(s):
    return ''.join(s.split())


def _pretty_work(args):
    """args: (chunk of (id, selector, kind), factor).  kind 'list' -> obj.selectors.pretty() (prints),
    'sieve' -> pretty.pretty(obj)."""
    chunk, factor = args
    sv = _G['sv']
    from soupsieve import pretty as pm
    fname = pm.__file__
    out = []
    for pid, s, kind in chunk:
        rec = {'id': pid, 'selector': s, 'kind': kind}
        try:
            obj = sv.compile(s, namespaces=NAMESPACES, custom=CUSTOM)
        except Exception as e:
            rec['pool_error'] = '%s: %s' % (type(e).__name__, str(e).split('\n')[0])
            out.append(rec)
            continue
        target = obj.selectors if kind == 'list' else obj
        r = repr(target)
        rec['repr'] = r
        budget = factor * len(r) + 20000
        buf = io.StringIO()

        def call():
            if kind == 'list':
                with contextlib.redirect_stdout(buf):
                    target.pretty()
                v = buf.getvalue()
                return v[:-1] if v.endswith('\n') else v
            return pm.pretty(target)
        try:
            # (the line-event budget cannot see a loop inside the regular-expression engine: a wall-clock watchdog on top)
            res, used, loc = common.guard(lambda: _run_budget(call, budget, fname), 40)
        except common.CallTimeout:
            sys.settrace(None)
            rec['status'] = 'budget'
            rec['budget'] = budget
            rec['events'] = -1
            rec['stuck_index'] = None
            rec['detail'] = 'no return within 40 s and no line events: stuck inside a regular expression'
            out.append(rec)
            continue
        except Exception as e:
            rec['status'] = 'raised'
            rec['detail'] = '%s: %s' % (type(e).__name__, str(e).split('\n')[0])
            out.append(rec)
            continue
        rec['events'] = used
        if loc is not None:
            rec['status'] = 'budget'
            rec['budget'] = budget
            rec['stuck_index'] = loc.get('index')
        elif not isinstance(res, str):
            rec['status'] = 'notstr'
            rec['detail'] = repr(res)[:200]
        elif _strip_ws(res) != _strip_ws(r):
            rec['status'] = 'differs'
            a, b = _strip_ws(res), _strip_ws(r)
            k = next((j for j in range(min(len(a), len(b))) if a[j] != b[j]), min(len(a), len(b)))
            rec['detail'] = 'first difference (whitespace removed) at %d: pretty %r vs repr %r' % (k, a[k:k + 40], b[k:k + 40])
        else:
            rec['status'] = 'ok'
            rec['lines'] = res.count('\n') + 1
        out.append(rec)
    return out


# ---------------------------------------------------------------------------------------------
# the four parts run side by side; each records into its own Rec, merged in a fixed order
# ---------------------------------------------------------------------------------------------

class Rec:
    """Stand-in for common.Check inside one part (a thread): records the calls, applied later in order."""
    _METHODS = ('violation', 'machinery', 'count', 'add_distinct', 'nontrivial', 'sample', 'add_tlc')

    def __init__(self):
        self.calls = []
        self.drift = []
        self.notes = {}
        self.coverage = {'states': 0, 'transitions': 0}

    def __getattr__(self, name):
        if name in Rec._METHODS:
            return lambda *a, **k: self.calls.append((name, a, k))
        raise AttributeError(name)

    def apply(self, chk):
        for name, a, k in self.calls:
            getattr(chk, name)(*a, **k)
        chk.drift += self.drift
        chk.coverage['states'] += self.coverage['states']
        chk.coverage['transitions'] += self.coverage['transitions']
        for k, v in self.notes.items():
            if k == 'tlc_runs':
                chk.notes.setdefault('tlc_runs', []).extend(v)
            else:
                chk.notes[k] = v


# ---------------------------------------------------------------------------------------------
# TLC helpers
# ---------------------------------------------------------------------------------------------

def _write_cfg(text):
    d = tempfile.mkdtemp(prefix='verif_c20_cfg_')
    path = os.path.join(d, 'c')
    with open(path + '.cfg', 'w') as f:
        f.write(text)
    return path


def _rm_cfg(path):
    try:
        os.remove(path + '.cfg')
        os.rmdir(os.path.dirname(path))
    except OSError:
        pass


_RE_TUP = re.compile(r'^<<"(REJECT|DRIFT|STUCK|DONE)", "([^"]*)"(?:, (.*))?>>$')


def _validate_trace(module, cfg, events, workers=1, batch=4000, timeout=3600, exact_states=True):
    """events: list of dicts with 'id'.  Splits into batches, one TLC each (run side by side).
    -> (verdict tuples [(kind, id, rest)], distinct, generated, errors)"""
    tmpd = tempfile.mkdtemp(prefix='verif_c20_tr_')
    files = []
    if isinstance(batch, int):
        sizes = [min(batch, len(events) - b) for b in range(0, len(events), batch)]
    else:
        sizes = [n for n in batch if n]
    b = 0
    for n in sizes:
        path = os.path.join(tmpd, 't%d.ndjson' % b)
        with open(path, 'w') as f:
            for e in events[b:b + n]:
                f.write(json.dumps(e) + '\n')
        files.append((path, n))
        b += n
    results = [None] * len(files)

    def one(k):
        path, n = files[k]
        try:
            res = tlc.run(module, cfg=cfg, workers=workers, env={'TRACE_FILE': path}, timeout=timeout)
            results[k] = (res, n, None)
        except tlc.TLCError as e:
            results[k] = (None, n, str(e)[-1500:])
    ths = []
    sem = threading.Semaphore(8)

    def guarded(k):
        with sem:
            one(k)
    for k in range(len(files)):
        t = threading.Thread(target=guarded, args=(k,))
        t.start()
        ths.append(t)
    for t in ths:
        t.join()
    for f in os.listdir(tmpd):
        os.remove(os.path.join(tmpd, f))
    os.rmdir(tmpd)
    tuples, distinct, generated, errors = [], 0, 0, []
    for res, n, err in results:
        if err:
            errors.append(err)
            continue
        distinct += res.distinct
        generated += res.generated
        if res.violation:
            errors.append('%s: %s' % (module, res.violation))
        for t in res.tuples:
            m = _RE_TUP.match(t)
            if m:
                tuples.append((m.group(1), m.group(2), m.group(3)))
        if exact_states and not res.violation and res.distinct != n + 1:
            errors.append('%s: expected %d states (one per event), got %d' % (module, n + 1, res.distinct))
    return tuples, distinct, generated, errors, [(r.distinct, n) for r, n, e in results if r is not None]


# ---------------------------------------------------------------------------------------------
# part 1: ErrCtx, spec -> code
# ---------------------------------------------------------------------------------------------

ERRCTX_THEOREMS = ['LineInRange', 'ColInRange', 'Recoverable', 'Monotone', 'Partition', 'Ends', 'Format']


def _b1_group(ev):
    p = common.st(ev['p'])
    multi = ('\n' in p) or ('\r' in p)
    if ev['inside']:
        return 'offset at the LF of a CR LF pair'
    if ev['pos'] == len(p) and multi:
        return 'offset == len(pattern) on a multi-line pattern'
    if ev['pos'] == len(p):
        return 'offset == len(pattern) on a single-line pattern'
    return 'offset inside the pattern'


def part_errctx(chk, pool, tier):
    _part_errctx(chk, pool, 6 if tier == 'quick' else 8, '{12}' if tier == 'quick' else '{}', '')
    # characters that are line breaks for str.splitlines() / for CSS white space but not for the error context
    _part_errctx(chk, pool, 4 if tier == 'quick' else 6, '{12, 11, 133, 8232, 8233}' if tier == 'quick' else '{12, 133, 8232}', 'x')


def _part_errctx(chk, pool, maxlen, extra, tag):
    cfg = _write_cfg('CONSTANTS\n  MaxLen = %d\n  Extra = %s\nINIT Init\nNEXT Next\nINVARIANT Emit\n%sCHECK_DEADLOCK FALSE\n' % (
        maxlen, extra, ''.join('INVARIANT %s\n' % t for t in ERRCTX_THEOREMS)))
    pending = []
    buf = []

    def on_line(val):
        buf.append(val)
        if len(buf) >= 64:
            pending.append(pool.apply_async(_b1_work, (list(buf),)))
            del buf[:]
    try:
        res = tlc.run('MC_C20_errctx', cfg=cfg, line_cb=on_line)
    finally:
        _rm_cfg(cfg)
    if buf:
        pending.append(pool.apply_async(_b1_work, (list(buf),)))
    label = '%s%d%s' % (LABEL_B1, maxlen, tag)
    chk.add_tlc(res, label)
    if res.violation:
        chk.violation('%s|spec|%s' % (label, res.violated_name),
                      'design-level theorem %s of ErrCtx.tla violated' % res.violated_name,
                      {'cfg': label, 'group': 'spec theorem', 'tlc': res.counterexample[:4000]})
    ncases = 0
    residual = []
    notes = []
    for pnd in pending:
        n, r, nt = pnd.get()
        ncases += n
        residual += r
        notes += nt
    if ncases == 0:
        chk.machinery('%s: TLC emitted no patterns' % label)
        return
    npat = len(pending)
    chk.count(ncases, traces=res.distinct)
    chk.add_distinct(ncases)
    chk.notes['errctx'] = {'patterns': res.distinct, 'pattern_offset_pairs': ncases, 'max_len': maxlen,
                           'literal_agreement': ncases - len(residual), 'judged_by_trace_spec': len(residual)}
    for nt in notes[:50]:
        chk.drift.append('errctx: ' + nt)
    # everything that is not literally the specification's answer is judged by TLC (Trace_C20)
    bad = [ev for ev in residual if ev['ctx'] is None or ev['line'] is None]
    for ev in bad:
        p = common.st(ev['p'])
        chk.violation('%s|%r|%d' % (LABEL_B1, p, ev['pos']),
                      'SelectorSyntaxError(msg, %r, %d) carries no line/col/context: %r' % (p, ev['pos'], ev['ctx']),
                      {'cfg': label, 'group': 'no diagnostics', 'pattern': p, 'offset': ev['pos']})
    badids = {id(ev) for ev in bad}
    residual = [ev for ev in residual if id(ev) not in badids]
    for k, ev in enumerate(residual):
        ev['id'] = 'r%d' % k
    if residual:
        evs = [{k: ev[k] for k in ('id', 'p', 'pos', 'line', 'col', 'ctx')} for ev in residual]
        tuples, distinct, generated, errors, _ = _validate_trace('Trace_C20', 'Trace_C20', evs)
        for e in errors:
            chk.machinery('%s trace: %s' % (label, e))
        chk.coverage['states'] += distinct
        chk.coverage['transitions'] += generated
        byid = {ev['id']: ev for ev in residual}
        ndrift = 0
        for kind, rid, rest in tuples:
            ev = byid[rid]
            p = common.st(ev['p'])
            got = (ev['line'], ev['col'], common.st(ev['ctx']))
            if kind == 'REJECT':
                chk.violation('%s|%r|%d' % (LABEL_B1, p, ev['pos']),
                              'SelectorSyntaxError(msg, %r, %d): line=%r col=%r context=%r; the property demands line=%r '
                              'col=%r and a caret under that column, e.g. context=%r' % (
                                  p, ev['pos'], got[0], got[1], got[2], ev['exp'][0], ev['exp'][1], ev['exp'][2]),
                              {'cfg': label, 'group': _b1_group(ev), 'pattern': p, 'offset': ev['pos'],
                               'observed': {'line': got[0], 'col': got[1], 'context': got[2]},
                               'expected': {'line': ev['exp'][0], 'col': ev['exp'][1], 'context': ev['exp'][2]},
                               'replay': {'part': 'errctx', 'pattern': ev['p'], 'offset': ev['pos']}})
            elif kind == 'DRIFT':
                ndrift += 1
                if ndrift <= 12:
                    chk.drift.append('errctx (%s): (%r, %d) -> %r, specification %r' % (
                        _b1_group(ev), p, ev['pos'], got, tuple(ev['exp'])))
                else:
                    chk.drift.append('errctx (%s): (%r, %d)' % (_b1_group(ev), p, ev['pos']))
        chk.notes['errctx']['accepted_with_drift'] = ndrift
    chk.sample({'cfg': label, 'pattern': 'x\\r\\nx', 'offset': 4,
                'spec': 'line 2, col 2; context "    x\\n--> x\\n     ^"'})


# ---------------------------------------------------------------------------------------------
# part 2: end to end, code -> spec
# ---------------------------------------------------------------------------------------------

def gen_e2e(tier):
    rng = random.Random(common.SEED * 104729 + 20)
    pats = []
    seen = set()

    def add(p, custom=None, ref=None):
        key = (p, json.dumps(custom, sort_keys=True) if custom else None)
        if '\x00' in p or key in seen:
            return
        seen.add(key)
        pats.append((p, custom, ref if ref is not None else p))

    def respell(base, style):
        """every blank becomes a line break of the given style ('mix': seeded choice per blank)"""
        return ''.join((rng.choice(BREAKS + [' ']) if style == 'mix' else style) if c == ' ' else c for c in base)
    nmix = 2 if tier == 'quick' else 12
    for base in E2E_BASES:
        variants = [base]
        for br in BREAKS:
            variants.append(respell(base, br))
            # one blank at a time
            for i, c in enumerate(base):
                if c == ' ':
                    variants.append(base[:i] + br + base[i + 1:])
            # a break before / after the whole pattern, and doubled breaks
            variants.append(br + base)
            variants.append(base + br)
            variants.append(respell(base, br + br))
        for _ in range(nmix):
            variants.append(respell(base, 'mix'))
        for v in variants:
            add(v)
        multi = [v for v in variants if '\n' in v or '\r' in v]
        sub = multi if tier != 'quick' else multi[:3] + rng.sample(multi, min(4, len(multi)))
        for v in sub:
            # truncate at every position, insert an invalid character / a break at every position
            for i in range(len(v) + 1):
                add(v[:i])
                add(v[:i] + '$' + v[i:])
                if tier != 'quick' or i % 3 == 0:
                    add(v[:i] + rng.choice(BREAKS) + v[i:])
    # errors inside a custom selector definition refer to the definition's own text
    for br in BREAKS:
        for body in ['a,%s:is(' % br, 'a%s> , b' % br, 'a,%sb $' % br, ':is(a,%s:not(' % br]:
            add(':--c', {':--c': body}, body)
            add('a >%s:--c' % br, {':--c': body}, body)
    return pats


def _e2e_group(e):
    kind = re.sub(r"'[^']*'", "'..'", e['msg'].split(' at position')[0].split(' position')[0].split(' found')[0])[:44]
    if e['pos'] < 0:
        where = 'no position in the message'
    elif e['pos'] == len(e['p']):
        where = 'offset == len(pattern)'
    else:
        where = 'offset inside the pattern'
    return '%s [%s]' % (kind, where)


def part_e2e(chk, pool, tier):
    pats = gen_e2e(tier)
    chunks = [pats[i::64] for i in range(64)]
    outs = pool.map(_e2e_work, [c for c in chunks if c])
    events = []
    ncompiled = other = 0
    for n, o, evs in outs:
        ncompiled += n
        other += o
        events += evs
    events.sort(key=lambda e: (e['p'], e['msg']))
    for e in events:
        if 'dbg' in e:
            chk.violation('%s|debug|%r' % (LABEL_E2E, e['p']),
                          'flags=DEBUG changes the outcome of compile(%r): %r without, %s with' % (e['p'], e['msg'], e['dbg']),
                          {'cfg': LABEL_E2E, 'group': 'DEBUG changes the diagnostics', 'pattern': e['p'],
                           'replay': {'part': 'e2e', 'pattern': e['p']}})
    noline = [e for e in events if e['line'] is None or e['ctx'] is None]
    nolineids = {id(e) for e in noline}
    events = [e for e in events if id(e) not in nolineids]
    for e in noline[:5]:
        chk.drift.append('e2e: SelectorSyntaxError without pattern/offset (nothing to check): %r' % e['msg'])
    if not events:
        chk.machinery('e2e: no SelectorSyntaxError was recorded')
        return
    for k, e in enumerate(events):
        e['id'] = 'e%d' % k
    evs = [{'id': e['id'], 'p': common.cps(e['p']), 'pos': e['pos'], 'line': e['line'], 'col': e['col'],
            'ctx': common.cps(e['ctx'])} for e in events]
    tuples, distinct, generated, errors, _ = _validate_trace('Trace_C20', 'Trace_C20', evs)
    for e in errors:
        chk.machinery('e2e trace: %s' % e)
    chk.coverage['states'] += distinct
    chk.coverage['transitions'] += generated
    chk.notes.setdefault('tlc_runs', []).append({'cfg': 'trace-c20-e2e', 'distinct': distinct, 'generated': generated})
    chk.count(2 * len(events), traces=len(events))
    byid = {e['id']: e for e in events}
    nopos = sum(1 for e in events if e['pos'] < 0)
    multi = sum(1 for e in events if '\n' in e['p'] or '\r' in e['p'])
    atend = sum(1 for e in events if e['pos'] == len(e['p']))
    for e in events:
        if '\n' in e['p'] or '\r' in e['p']:
            chk.nontrivial('e2e|' + e['p'] + '|' + e['msg'])
    chk.notes['e2e'] = {'patterns_compiled': ncompiled, 'syntax_errors_recorded': len(events),
                        'other_exceptions_ignored': other, 'multi_line': multi, 'message_without_position': nopos,
                        'offset_at_end_of_input': atend}
    ndrift = 0
    for kind, rid, rest in tuples:
        e = byid[rid]
        if kind == 'REJECT':
            where = ('the message says position %d' % e['pos']) if e['pos'] >= 0 else 'the message names no position'
            chk.violation('%s|%r|%s' % (LABEL_E2E, e['p'], e['msg'][:60]),
                          'compile(%r) -> %r: line=%r col=%r context=%r; %s, the specification demands (line, col)=%s '
                          'and a caret under that column' % (e['p'], e['msg'], e['line'], e['col'], e['ctx'], where, rest),
                          {'cfg': LABEL_E2E, 'group': _e2e_group(e),
                           'pattern': e['p'], 'event': e, 'spec_expected': rest,
                           'replay': {'part': 'e2e', 'pattern': e['p']}})
        elif kind == 'DRIFT':
            ndrift += 1
            chk.drift.append('e2e: compile(%r): line=%r col=%r context=%r accepted, not literally the documented format' % (
                e['p'], e['line'], e['col'], e['ctx']))
    chk.notes['e2e']['accepted_with_drift'] = ndrift
    s = next((e for e in events if e['pos'] >= 0 and '\r\n' in e['p'] and e['line'] > 1), events[0])
    chk.sample({'cfg': LABEL_E2E, 'pattern': s['p'], 'message': s['msg'], 'line': s['line'], 'col': s['col'],
                'context': s['ctx']})


# ---------------------------------------------------------------------------------------------
# part 3: DEBUG
# ---------------------------------------------------------------------------------------------

def part_debug(chk, pool, tier):
    sels = list(POOL) + (PRETTY_EXTRA if tier != 'quick' else PRETTY_EXTRA[:12])
    chunks = [sels[i::32] for i in range(32)]
    outs = pool.map(_debug_work, [c for c in chunks if c])
    ncmp = 0
    recs = []
    for n, o in outs:
        ncmp += n
        recs += o
    printed = 0
    for r in recs:
        if 'pool_error' in r:
            chk.machinery('debug: pool selector %r does not compile: %s' % (r['selector'], r['pool_error']))
            continue
        if r['stdout_chars']:
            printed += 1
        if r['selected']:
            chk.nontrivial('debug|' + r['selector'])
        for pr in r['problems']:
            chk.violation('%s|%s|%s' % (LABEL_DBG, r['selector'], pr[:40]),
                          'flags=DEBUG changes a result for %r: %s' % (r['selector'], pr),
                          {'cfg': LABEL_DBG, 'selector': r['selector'], 'problem': pr,
                           'replay': {'part': 'debug', 'selector': r['selector']}})
    chk.count(ncmp)
    chk.notes['debug'] = {'selectors': len(recs), 'comparisons': ncmp, 'selectors_with_debug_output': printed,
                          'selectors_selecting_something': sum(1 for r in recs if r.get('selected'))}
    if printed == 0:
        chk.machinery('debug: flags=DEBUG printed nothing for any selector (flag not exercised)')
    chk.sample({'cfg': LABEL_DBG, 'selector': recs[0]['selector'], 'debug_stdout_chars': recs[0]['stdout_chars'],
                'elements_selected_on_3_docs': recs[0]['selected']})


# ---------------------------------------------------------------------------------------------
# part 4: pretty printer
# ---------------------------------------------------------------------------------------------

NEGATIVE_CFGS = [('MC_C20_pretty_asis_key', 'one-letter keyword a='), ('MC_C20_pretty_asis_int', 'negative integer'),
                 ('MC_C20_pretty_asis_flag', 'flag expression re.X|re.Y')]


def _run_model_configs(results):
    """the loop model on the bounded grammar: positive configuration and the three negative ones"""
    def pos():
        try:
            results['fixed'] = tlc.run('MC_C20_pretty', cfg='MC_C20_pretty_fixed', workers=8)
        except tlc.TLCError as e:
            results['fixed'] = e

    def neg(cfg):
        try:
            results[cfg] = tlc.run('MC_C20_pretty', cfg=cfg, workers=1, expect_violation=True)
        except tlc.TLCError as e:
            # this TLC words a liveness counterexample "Temporal property X was violated", which harness/tlc.py
            # does not recognise as a verdict
            txt = str(e)
            m = re.search(r'Error: Temporal property (\w+) was violated', txt)
            if m:
                i = txt.find(m.group(0))
                results[cfg] = ('liveness', m.group(1), txt[i:i + 3000])
            else:
                results[cfg] = e
    ths = [threading.Thread(target=pos)] + [threading.Thread(target=neg, args=(c,)) for c, _ in NEGATIVE_CFGS]
    for t in ths:
        t.start()
    return ths


def part_pretty_model(chk, results):
    r = results.get('fixed')
    if isinstance(r, Exception) or r is None:
        chk.machinery('pretty model (fixed rules): %s' % str(r)[-800:])
    else:
        chk.add_tlc(r, 'pretty_fixed')
        if r.violation:
            chk.machinery('pretty model: the repaired token rules violate %s (the positive configuration must hold)\n%s' % (
                r.violated_name, r.counterexample[:1500]))
    expl = {}
    for cfg, what in NEGATIVE_CFGS:
        r = results.get(cfg)
        if isinstance(r, tuple):
            expl[what] = {'violated': r[1], 'counterexample': _shorten(r[2])}
        elif isinstance(r, Exception) or r is None:
            chk.machinery('pretty model %s: %s' % (cfg, str(r)[-800:]))
        elif not r.violation:
            chk.machinery('vacuity guard: negative configuration %s (%s) unexpectedly PASSED' % (cfg, what))
        else:
            chk.add_tlc(r, cfg.replace('MC_C20_', ''))
            expl[what] = {'violated': r.violated_name, 'counterexample': _shorten(r.counterexample)}
    chk.notes['pretty_model_negative_configurations'] = expl


def _shorten(txt):
    txt = re.sub(r'<<\s+', '<<', txt)
    txt = re.sub(r',\s*\n\s+', ', ', txt)
    txt = re.sub(r'\s+>>', '>>', txt)
    return txt[:2500]


def part_pretty(chk, pool, tier):
    factor = 300 if tier == 'quick' else 2000
    sels = list(dict.fromkeys(POOL + PRETTY_EXTRA))
    jobs = []
    for k, s in enumerate(sels):
        jobs.append(('p%d' % k, s, 'list'))
    step = 4 if tier == 'quick' else 1
    for k, s in enumerate(sels[::step]):
        jobs.append(('q%d' % k, s, 'sieve'))
    # longest first, spread over the workers
    chunks = [jobs[i::48] for i in range(48)]
    outs = pool.map(_pretty_work, [(c, factor) for c in chunks if c])
    recs = [r for o in outs for r in o]
    recs.sort(key=lambda r: (r['id'][0], int(r['id'][1:])))
    good = []
    for r in recs:
        if 'pool_error' in r:
            chk.machinery('pretty: pool selector %r does not compile: %s' % (r['selector'], r['pool_error']))
        else:
            good.append(r)
    # the as-is / fixed loop model on the real repr strings (distinct ones)
    byrepr = {}
    for r in good:
        byrepr.setdefault(r['repr'], []).append(r)
    reprs = sorted(byrepr, key=lambda s: (len(s), s))
    reprs_m = reprs
    # deal the reprs round-robin (they are sorted by length) into batches, one single-worker JVM each
    nb = 4
    order = [s for b in range(nb) for s in reprs_m[b::nb]]
    per = [len(reprs_m[b::nb]) for b in range(nb)]
    evs = [{'id': 'm%d' % k, 's': common.cps(s)} for k, s in enumerate(order)]
    model = {}
    runs = {}

    def run_model(rules):
        runs[rules] = _validate_trace('Trace_C20pretty', 'Trace_C20pretty_' + rules, evs, workers=1,
                                      batch=per, exact_states=False)
    mts = [threading.Thread(target=run_model, args=(r,)) for r in ('asis', 'fixed')]
    for t in mts:
        t.start()
    for t in mts:
        t.join()
    for rules in ('asis', 'fixed'):
        tuples, distinct, generated, errors, _ = runs[rules]
        for e in errors:
            chk.machinery('pretty trace (%s): %s' % (rules, e))
        chk.coverage['states'] += distinct
        chk.coverage['transitions'] += generated
        chk.notes.setdefault('tlc_runs', []).append({'cfg': 'trace-c20pretty-' + rules, 'distinct': distinct,
                                                     'generated': generated})
        verdict = {}
        for kind, rid, rest in tuples:
            verdict[rid] = (kind, rest)
        if len(verdict) != len(evs) and not errors:
            chk.machinery('pretty trace (%s): %d verdicts for %d inputs' % (rules, len(verdict), len(evs)))
        model[rules] = {order[int(rid[1:])]: v for rid, v in verdict.items()}
    fixed_stuck = [s for s, v in model['fixed'].items() if v[0] != 'DONE']
    if fixed_stuck:
        chk.machinery('pretty model: the repaired token rules get stuck on a real repr: %r' % fixed_stuck[0][:200])
    agree = explained = 0
    nviol = 0
    for r in good:
        chk.count(1)
        m = model['asis'].get(r['repr'])
        if r['status'] == 'ok':
            chk.nontrivial('pretty|' + r['repr'])
            if m is not None and m[0] == 'DONE':
                agree += 1
            continue
        nviol += 1
        if r['status'] == 'budget':
            what = 'pretty(%s of %r) did not return within %d line events (%d x len(repr) + 20000); loop state index=%r' % (
                'compile(..).selectors' if r['kind'] == 'list' else 'compile(..)', r['selector'][:80], r['budget'], factor,
                r['stuck_index'])
            if m is not None and m[0] == 'STUCK':
                idx, cls = [x.strip().strip('"') for x in m[1].split(',')]
                at = int(idx)
                what += '; Pretty.tla (as-is token rules) predicts: stuck at index %s, no token rule applies to class %s: ...%r' % (
                    idx, cls, r['repr'][max(0, at - 12):at] + '[HERE]' + r['repr'][at:at + 16])
                if r['stuck_index'] == at:
                    agree += 1
                    explained += 1
                else:
                    chk.drift.append('pretty: model predicts the hang at %s, the real loop hangs at %r for %r' % (
                        idx, r['stuck_index'], r['selector'][:60]))
            elif m is not None:
                chk.drift.append('pretty: the as-is loop model terminates on %r but the real loop does not' % r['selector'][:60])
        else:
            what = 'pretty(%r): %s %s' % (r['selector'][:80], r['status'], r.get('detail', ''))
        chk.violation('%s|%s|%s' % (LABEL_PRETTY, r['kind'], r['selector'][:120]), what,
                      {'cfg': LABEL_PRETTY, 'group': _pretty_group(r, m), 'selector_text': r['selector'], 'kind': r['kind'],
                       'repr': r['repr'][:3000], 'status': r['status'], 'stuck_index': r.get('stuck_index'),
                       'replay': {'part': 'pretty', 'selector': r['selector'], 'kind': r['kind']}})
    chk.notes['pretty'] = {'objects': len(good), 'distinct_reprs': len(reprs), 'not_ok': nviol,
                           'budget_factor': factor, 'reprs_run_through_loop_model': len(reprs_m),
                           'asis_model_agrees_with_code_on': agree, 'hangs_explained_by_model': explained,
                           'fixed_model_terminates_on_all': not fixed_stuck}
    ok = next((r for r in good if r['status'] == 'ok'), None)
    if ok:
        chk.sample({'cfg': LABEL_PRETTY, 'selector': ok['selector'], 'repr_chars': len(ok['repr']),
                    'pretty_lines': ok['lines'], 'line_events': ok['events']})


def _pretty_group(r, m):
    if r['status'] != 'budget':
        return 'output differs from repr'
    if m is None or m[0] != 'STUCK':
        return 'never returns'
    cls = m[1].split(',')[1].strip().strip('"')
    return {'L': 'never returns: one-letter keyword (a=, n=, b=)', 'MINUS': 'never returns: negative integer',
            'DOT': 'never returns: re flag expression', 'BAR': 'never returns: re flag expression'}.get(
        cls, 'never returns: no rule for class %s' % cls)


# ---------------------------------------------------------------------------------------------

def main(tier):
    chk = common.Check('C20', tier)
    chk.assumptions += [
        'ErrCtx.tla is the reading of the property text: a break is before an offset when it ends at or before it; '
        'CR LF is one break; offsets at the LF of a CR LF pair are an ambiguous zone (weak reading gated, the rest is drift)',
        'the context is gated on the format-independent predicate Shows (lines reproduced after a common prefix, one caret '
        'row under the reported line with the caret in the column); the literal "--> " format is drift only',
        'non-termination = no return within %s x len(repr) + 20000 line events of soupsieve/pretty.py (sys.settrace)' % (
            '300' if tier == 'quick' else '2000'),
    ]
    try:
        # imported in the parent first: a tree that cannot be imported is a machinery error, not a verdict
        # (a failing pool initializer would make multiprocessing respawn workers for ever)
        _winit()
    except Exception as e:
        chk.machinery('cannot import soupsieve from %s: %s: %s' % (common.REPO, type(e).__name__, str(e).split('\n')[0]))
        chk.sample({'cfg': 'import', 'error': type(e).__name__})
        return chk.finish()
    ctx = mp.get_context('fork')
    pool = ctx.Pool(16)                           # forked before any thread is started
    import time
    try:
        results = {}
        ths = _run_model_configs(results)
        parts = [part_errctx, part_e2e, part_debug, part_pretty]
        recs = [Rec() for _ in parts]
        crashes = [None] * len(parts)

        def run(k):
            t0 = time.time()
            try:
                parts[k](recs[k], pool, tier)
            except Exception:
                import traceback
                crashes[k] = traceback.format_exc()
            if os.environ.get('C20_TIMING'):
                print('  [%s %.1fs]' % (parts[k].__name__, time.time() - t0))
        pts = [threading.Thread(target=run, args=(k,)) for k in range(len(parts))]
        for t in pts:
            t.start()
        for t in pts + ths:
            t.join()
        for k, r in enumerate(recs):
            r.apply(chk)
            if crashes[k]:
                chk.machinery('%s crashed: %s' % (parts[k].__name__, crashes[k][-1500:]))
        part_pretty_model(chk, results)
    finally:
        pool.close()
        pool.join()
    return chk.finish()


def replay(path):
    """./check C20 --replay PATH: re-run the single case of a replay file against the real code and print it."""
    case = json.load(open(path))
    rp = case.get('case', {}).get('replay')
    print('replay of %s: %s' % (path, case.get('what', '')[:300]))
    if not rp:
        print('no replayable input in this file')
        return 2
    _winit()
    sv = _G['sv']
    if rp['part'] == 'errctx':
        p = common.st(rp['pattern'])
        e = sv.SelectorSyntaxError('msg', p, rp['offset'])
        exp = case['case']['expected']
        print('observed line=%r col=%r context=%r' % (e.line, e.col, e.context))
        print('expected line=%r col=%r context=%r' % (exp['line'], exp['col'], exp['context']))
        return 0 if (e.line, e.col) == (exp['line'], exp['col']) and e.context == exp['context'] else 1
    if rp['part'] == 'e2e':
        ev = case['case'].get('event') or {}
        try:
            sv.compile(rp['pattern'], namespaces=NAMESPACES)
        except sv.SelectorSyntaxError as e:
            print('observed %s' % e)
            print('specification: (line, col) = %s' % case['case'].get('spec_expected'))
            same = (e.line, e.col, e.context) == (ev.get('line'), ev.get('col'), ev.get('ctx'))
            print('same diagnostics as recorded: %s' % same)
            return 1 if same else 0
        print('no SelectorSyntaxError any more')
        return 0
    if rp['part'] == 'debug':
        n, out = _debug_work([rp['selector']])
        print(out[0]['problems'])
        return 1 if out[0]['problems'] else 0
    if rp['part'] == 'pretty':
        out = _pretty_work(([('p0', rp['selector'], rp['kind'])], 1000))
        print({k: v for k, v in out[0].items() if k != 'repr'})
        return 0 if out[0].get('status') == 'ok' else 1
    return 2
