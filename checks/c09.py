"""C09 - compiled meaning depends only on the token sequence, not on its spelling.

Spelling.tla holds the lexical rewrite rules (whitespace/comment variants per slot, CSS escapes per
identifier / string character, quote styles, ASCII case of keywords); TLC enumerates every spelling
with at most MaxDev deviating items of every selector of an annotated pool and prints its text.
Oracle (law over the code): compile(spelling).selectors == compile(canonical).selectors, equal select
results on three documents, and no syntax error for a respelling of a valid selector."""
import os
import re
import shutil
import tempfile

from harness import common, replay, tlc

# {o} optional whitespace/comment slot, {r} required whitespace, {id:x} identifier, {s:x} string value, {kw:x} keyword
POOL = [
    '{o}{id:div}{o}>{o}{id:p}{o}',
    '{id:div}{r}{id:p}',
    '{id:a}{o},{o}{id:b}',
    '{id:a}{o}+{o}{id:b}{o}~{o}{id:i}',
    '{id:p}.{id:c1}#{id:i1}',
    '[{o}{id:title}{o}]',
    '[{o}{id:title}{o}={o}{s:x}{o}]',
    '[{id:title}~={s:x}{r}{kw:i}{o}]',
    '{id:p}[{id:t}*={s:ab}]{o}~{o}#{id:i1}{o}',
    '[{id:lang}|={s:en}{r}{kw:s}]',
    '[{id:t}!={s:zz}]',
    ':{kw:not}({o}{id:a}{o},{o}{id:b}{o})',
    ':{kw:is}({o}{id:a}{o},{o}{id:b}{o})',
    ':{kw:where}({o}{id:a}{r}{id:b}{o})',
    ':{kw:matches}({id:a}{o}>{o}{id:b})',
    '{id:div}:{kw:has}({o}>{o}{id:p}{o},{o}+{o}{id:b}{o})',
    '{id:div}:{kw:has}({o}{id:p}{r}{id:b}{o})',
    ':{kw:nth-child}({o}{kw:2n}{o}+{o}1{o})',
    ':{kw:nth-child}({o}{kw:even}{o})',
    ':{kw:nth-last-child}({kw:-n}+3{r}{kw:of}{r}{id:p}{o},{o}{id:b}{o})',
    ':{kw:nth-of-type}({o}{kw:odd}{o})',
    ':{kw:nth-last-of-type}({o}2{o})',
    ':{kw:lang}({o}{s:en}{o},{o}{s:de-DE}{o})',
    ':{kw:dir}({o}{kw:ltr}{o})',
    ':{kw:-soup-contains}({o}{s:x y}{o},{o}{s:z}{o})',
    ':{kw:-soup-contains-own}({s:x})',
    '{id:p}:{kw:first-child}:{kw:not}(:{kw:empty})',
    ':{kw:root}{r}:{kw:checked}',
    '{id:ns}|{id:a}{o}>{o}*|{id:b}',
    '[{id:ns}|{id:href}={s:u}]',
    '{id:a}{o},{o}{id:b}{o},{o}{id:p}',
    '{o}:{kw:is}({id:a}{r}{id:b}{o}>{o}{id:i}){o}',
    ':{kw:not}({id:a}{o},{o}{id:b}{r}{id:i})',
    '{id:p}{r}/* all */{o}*{o}>{o}{id:b}{r}/* end */{o}',
    '{id:p}[{id:t}{o}*={s:a}]{o}~{o}#{id:i1}{r}/**/',
    '{id:p}:{kw:only-of-type}{o}~{o}{id:p}:{kw:last-of-type}',
    ':{kw:current}({id:p}{o},{o}{id:a})',
    '{id:div}{r}{id:p}{r}{id:b}',
]
DOCS = [
    ('html.parser', '<div id="i1" class="c1" title="x" t="cab" lang="en"><p class="c1" id="i1" t="ab">x y<b>z</b><i></i></p><p lang="de-DE">q<b>r</b></p>'
                    '<a href="u">l</a><b></b><i>x</i><input type="checkbox" checked></div><p></p><b>bb</b>'),
    ('xml', '<div xmlns:n="urn:n" title="x" lang="en"><n:a href="u" n:href="u"><n:b>x</n:b><b/></n:a><p t="zz">x y<b>z</b></p><a/><b/><i/></div>'),
]


def _items(ann):
    out = []
    pos = 0
    for m in re.finditer(r'\{(o|r|id:[^}]*|s:[^}]*|kw:[^}]*)\}', ann):
        if m.start() > pos:
            out.append(('lit', ann[pos:m.start()]))
        g = m.group(1)
        if g == 'o':
            out.append(('ows', ''))
        elif g == 'r':
            out.append(('rws', ''))
        else:
            t, s = g.split(':', 1)
            out.append(({'s': 'str'}.get(t, t), s))
        pos = m.end()
    if pos < len(ann):
        out.append(('lit', ann[pos:]))
    return out


def _tla_items(items):
    out = []
    for n, (t, s) in enumerate(items):
        # a keyword that directly follows ':' is a pseudo-class NAME (an identifier token: escapes allowed)
        esc = 'TRUE' if (t == 'kw' and n > 0 and items[n - 1][0] == 'lit' and items[n - 1][1].endswith(':')) else 'FALSE'
        out.append('[t |-> "%s", s |-> << %s >>, esc |-> %s]' % (t, ', '.join(str(ord(c)) for c in s), esc))
    return '<< ' + ', '.join(out) + ' >>'


def _init(H):
    bs4 = H['bs4']
    H['docs'] = [bs4.BeautifulSoup(m, p) for p, m in DOCS]
    H['canon'] = {}


def _work(H, chunk):
    sv = H['sv']
    viols = []
    ncalls = 0
    nontriv = 0
    samp = None
    NS = {'ns': 'urn:n'}
    for case in chunk:
        text = common.st(case['text'])
        k = case['sel']
        canon = common.st(case['canon'])
        if k not in H['canon']:
            try:
                obj = sv.compile(canon, namespaces=NS)
                H['canon'][k] = (obj, [[id(t) for t in obj.select(d)] for d in H['docs']])
            except Exception as ex:
                H['canon'][k] = None
                viols.append(('canon|%r' % canon, 'the valid selector %r (canonical spelling) raised %s: %s' % (
                    canon, type(ex).__name__, str(ex).split('\n')[0][:80]), {'selector': canon, 'spelling': canon, 'group': 'raise ' + canon}))
        if H['canon'][k] is None:
            continue
        cobj, cres = H['canon'][k]
        ncalls += 1
        if text != canon:
            nontriv += 1
        try:
            obj = common.guard(lambda: sv.compile(text, namespaces=NS), 20)
        except common.CallTimeout:
            viols.append(('%r|%r' % (canon, text), 'respelling %r of %r: compile() did not return within 20 s' % (text, canon),
                          {'selector': canon, 'spelling': text, 'group': 'no termination ' + canon}))
            continue
        except Exception as ex:
            viols.append(('%r|%r' % (canon, text), 'respelling %r of %r raised %s: %s' % (text, canon, type(ex).__name__, str(ex).split('\n')[0][:80]),
                          {'selector': canon, 'spelling': text, 'group': 'raise ' + canon}))
            continue
        if not (obj.selectors == cobj.selectors):
            res = [[id(t) for t in obj.select(d)] for d in H['docs']]
            viols.append(('%r|%r' % (canon, text), 'respelling %r of %r compiles to a different structure%s' % (
                text, canon, ' and selects different elements' if res != cres else ''),
                {'selector': canon, 'spelling': text}))
        if samp is None and text != canon:
            samp = {'canonical': canon, 'spelling': text}
    return viols, ncalls, nontriv, samp


def _lex_binding(chk, texts):
    """Lexer.tla <-> code: the token stream the real tokenizer prints under DEBUG for every spelling must be the one Lexer.tla computes
    (Trace_Lex).  Model/code agreement, recorded as drift: the verdict of C09 is the structural-equality law above."""
    import json
    from harness import lexrec, trace
    sv, bs4 = common.import_repo()
    lines = []
    for k, t in enumerate(sorted(set(texts))):
        r = lexrec.record(sv, t)
        lines.append(json.dumps({'id': 'x%d' % k, 'text': common.cps(t), 'toks': r['toks'], 'lexerr': r['lexerr'], 'complete': bool(r['complete']),
                                 'res': 'tokens', 'css': t}))
    sub = common.Check('C09-lex', chk.tier)
    rej = trace.validate(sub, lines, 'Trace_Lex', 'lexer-binding', batch=600)
    chk.coverage['states'] += sub.coverage['states']
    chk.coverage['transitions'] += sub.coverage['transitions']
    chk.coverage['traces_validated_against_impl'] += len(lines)
    for m in sub.machinery_errors:
        chk.machinery(m)
    chk.notes['lexer_binding'] = {'texts': len(lines), 'token_streams_equal_to_Lexer_tla': len(lines) - len(rej)}
    for rid, exp in rej[:20]:
        chk.drift.append({'lexer_model_disagrees': rid, 'spec': (exp or '')[:300]})


def main(tier):
    chk = common.Check('C09', tier)
    chk.assumptions += ['slots are annotated by hand in the pool (where CSS allows whitespace); whitespace-significant places are not slots',
                        'oracle is code-vs-code: structure equality with the canonical spelling and equal select results on 2 documents']
    items = [_items(a) for a in POOL]
    tmpd = tempfile.mkdtemp(prefix='verif_c09_')
    try:
        for fn in os.listdir(tlc.SPEC_DIR):
            if fn.endswith('.tla') and not fn.startswith(('MC_', 'Trace_')):
                shutil.copy(os.path.join(tlc.SPEC_DIR, fn), tmpd)
        # pool entries inside the grammar of ParseSel.tla / Ir.tla (no HTML state pseudo-classes)
        ir_pool = [k + 1 for k, a in enumerate(POOL) if not re.search(r'checked', a)]
        with open(os.path.join(tmpd, 'MC_C09_gen.tla'), 'w') as f:
            f.write('---- MODULE MC_C09_gen ----\n\\* generated from the annotated pool of checks/c09.py\nEXTENDS Spelling, Lexer, Json\n'
                    '\\* T-Spelling: a respelling lexes (Lexer.tla) to the same token kinds and combinators as the canonical spelling\n'
                    'TSpelling == KindsRel(Render(Pool[sel], sp)) = KindsRel(Render(Pool[sel], [i \\in 1..Len(sp) |-> 0]))\n'
                    '\\* T-SpellingIR: the composed front end text -> tokens -> AST -> IR (Lexer, ParseSel, Ir) gives a respelling the IR of the canonical spelling\n'
                    'P == INSTANCE ParseSel\nI == INSTANCE Ir\nIrPool == { %s }\n'
                    'TSpellingIR == sel \\in IrPool => I!Compile(P!ParseText(Render(Pool[sel], sp))) = I!Compile(P!ParseText(Render(Pool[sel], [i \\in 1..Len(sp) |-> 0])))\n'
                    'PoolDef == << %s >>\n'
                    'Emit == PrintT(ToJson([sel |-> sel, text |-> Render(Pool[sel], sp), canon |-> Render(Pool[sel], [i \\in 1..Len(sp) |-> 0])]))\n====\n'
                    % (', '.join(str(k) for k in ir_pool), ',\n  '.join(_tla_items(it) for it in items)))
        dev = 1 if tier == 'quick' else 2
        cfgdir = tmpd
        with open(os.path.join(tmpd, 'c09.cfg'), 'w') as f:
            f.write('CONSTANTS\n Pool <- PoolDef\n MaxDev = %d\nINIT Init\nNEXT Next\nINVARIANT Emit\nINVARIANT CanonicalIsIdentity\nINVARIANT TSpelling\nINVARIANT TSpellingIR\nCHECK_DEADLOCK FALSE\n' % dev)
        # reuse the streaming machinery with a pre-written cfg
        import multiprocessing as mp
        ctx = mp.get_context('fork')
        pool = ctx.Pool(16, initializer=replay._ginit, initargs=([], _init))
        pending = []
        buf = []
        n = [0]

        texts = []

        def on_line(v):
            texts.append(common.st(v['text']))
            buf.append(v)
            n[0] += 1
            if len(buf) >= 200:
                pending.append(pool.apply_async(replay._gwork, ((_work, list(buf)),)))
                del buf[:]
        res = tlc.run('MC_C09_gen', cfg='c09', cwd=tmpd, workers=16, line_cb=on_line)
        if buf:
            pending.append(pool.apply_async(replay._gwork, ((_work, list(buf)),)))
        chk.add_tlc(res, 'spelling-dev%d' % dev)
        if res.violation:
            chk.violation('spec|spelling', 'Spelling.tla invariant violated: %s' % res.violated_name, {'cfg': 'spelling', 'group': 'spec'})
        for p in pending:
            viols, ncalls, nontriv, samp = p.get()
            chk.count(ncalls)
            chk.add_distinct(nontriv)
            if samp:
                chk.sample(samp, cap=10)
            for key, what, case in viols:
                case.setdefault('cfg', 'spelling')
                chk.violation(key, what, case)
        chk.coverage['traces_validated_against_impl'] += n[0]
        pool.close()
        pool.join()
        _lex_binding(chk, texts if tier == 'quick' else texts[::7])
    finally:
        shutil.rmtree(tmpd, ignore_errors=True)
    _respell_part(chk, tier)
    from harness import parsebind
    parsebind.part(chk, tier, 'trace-parse', seed=9)
    return chk.finish()


def _respell_work(H, chunk):
    import random
    from harness import sel as selmod
    sv = H['sv']
    viols = []
    n = 0
    for (ast, seed) in chunk:
        selmod.SPELL = None
        canon = selmod.selector_list(ast)
        try:
            cobj = sv.compile(canon, namespaces={'ns': 'urn:n'})
        except Exception:
            continue          # (validity of the generated canonical text is C06's / C01's business)
        for j in range(4):
            selmod.SPELL = random.Random(seed * 4 + j)
            try:
                text = selmod.selector_list(ast)
            finally:
                selmod.SPELL = None
            n += 1
            try:
                obj = common.guard(lambda: sv.compile(text, namespaces={'ns': 'urn:n'}), 20)
            except Exception as ex:
                viols.append(('respell|%r|%r' % (canon, text), 'respelling %r of %r raised %s' % (text, canon, type(ex).__name__),
                              {'selector': canon, 'spelling': text, 'group': 'respell raise', 'cfg': 'respell'}))
                continue
            if not (obj.selectors == cobj.selectors):
                viols.append(('respell|%r|%r' % (canon, text), 'respelling %r of %r compiles to a different structure' % (text, canon),
                              {'selector': canon, 'spelling': text, 'group': 'respell structure', 'cfg': 'respell'}))
    return viols, n, n, None


def _respell_part(chk, tier):
    """The rewrite rules of Spelling.tla applied at random positions of RANDOM selectors of the whole modelled grammar (harness/gen.py ASTs,
    harness/sel.py SPELL): every identifier / string character escaped in one of the ways of Spelling.tla, quote style, bare identifier
    values, line continuations, keyword case, white space and comments in the optional slots.  Oracle = the property's law
    (equal structures); the same texts go through Trace_Parse below, where the specification computes the IR from the characters."""
    import random
    import multiprocessing as mp
    from harness import gen
    rng = random.Random(common.SEED * 7919 + 909)
    gen.EXCLUDE = set()
    n = 1500 if tier == 'quick' else 40000
    jobs = []
    for k in range(n):
        ast = gen.rand_list(rng, depth=rng.choice([0, 1, 2, 2, 3]))
        for cx in ast:
            for comp in cx['cs']:
                if rng.random() < 0.35:
                    comp.append(gen.rand_extra(rng))
                if rng.random() < 0.15 and comp and comp[0]['k'] == 'type':
                    comp[0]['ns'] = rng.choice([{'t': 'any'}, {'t': 'none'}, {'t': 'pfx', 'p': common.cps('ns')}])
        jobs.append((ast, rng.getrandbits(30)))
    chunks = [jobs[i::64] for i in range(64) if jobs[i::64]]
    with mp.get_context('fork').Pool(16, initializer=replay._ginit, initargs=([], _init)) as pool:
        outs = pool.map(replay._gwork, [(_respell_work, c) for c in chunks])
    for viols, ncalls, nontriv, samp in outs:
        chk.count(ncalls, traces=ncalls)
        chk.add_distinct(nontriv)
        for key, what, case in viols:
            chk.violation(key, what, case)
