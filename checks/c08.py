"""C08 - matching never raises on any tree.

Design level: MatchOrder.tla (the compound evaluator's checks with definedness preconditions,
T-Defined); the order found in the code before repair is kept as a negative model TLC must refute.
Conformance: MC_C08_shapes.tla enumerates "every element name x attribute x value shape x context";
the harness runs one selector per pseudo-class / attribute operator (taken from the parser's own tables
at check time) through every entry point on every element; oracle = outcome class.  The order in which
the real matcher runs its checks is recorded with sys.setprofile and validated against MatchOrder."""
import signal
import sys
from harness import common, replay, dom, tlc


def _selectors(sv):
    from soupsieve import css_parser as cp
    sels = []
    for p in sorted(cp.PSEUDO_SIMPLE | cp.PSEUDO_SIMPLE_NO_MATCH):
        sels.append(p)
    sels += [':not(:in-range)', ':is(:checked, :default)', ':has(> :indeterminate)', ':where(:disabled)', ':matches(a)',
             ':-soup-contains("x")', ':-soup-contains-own("x", "y")', ':contains(x)', ':current(p)', ':host(p)', ':host-context(p)',
             ':dir(ltr)', ':dir(rtl)', ':lang(en)', ':lang("*-x", "")', ':nth-child(2n+1)', ':nth-last-child(-n+2 of p)',
             ':nth-of-type(2)', ':nth-last-of-type(odd)', ':root:in-range', 'input:out-of-range:not([type])',
             ':nth-child(0n+9)', ':nth-last-of-type(0n+40)', ':nth-child(0n+7 of *)', ':nth-last-child(-0n+3)', ':nth-child(99999n-99998)', ':nth-of-type(-5n+1)']
    for op in ('', '=', '~=', '|=', '^=', '$=', '*=', '!='):
        for an in ('t', 'class', 'id', 'type'):
            sels.append('[%s%s%s]' % (an, op, '"x"' if op else ''))
            if op:
                sels.append('[%s%s"x" i]' % (an, op))
    # the same under a namespace prefix: another path through the attribute look-up on namespace-aware trees
    for op in ('', '=', '~=', '!=', '*='):
        for an in ('t', 'class', 'type'):
            sels.append('[*|%s%s%s]' % (an, op, '"x"' if op else ''))
            sels.append('[svg|%s%s%s]' % (an, op, '"x"' if op else ''))
    sels += ['.x', '#x', '.x.y', 'p.x > *', '* + input', 'div ~ *', ':not(.x, #x)', '[t="5" s]', 'svg|circle', '*|*', '|p']
    return sels


class _Timeout(BaseException):
    pass


def _alarm(signum, frame):
    raise _Timeout()


def _init(H):
    signal.signal(signal.SIGALRM, _alarm)
    sv = H['sv']
    H['sels'] = []
    for css in _selectors(sv):
        H['sels'].append((css, sv.compile(css, namespaces={'svg': 'urn:svg'})))


def _work(H, chunk):
    sv, bs4 = H['sv'], H['bs4']
    viols = []
    ncalls = 0
    samp = None
    cases = []
    for case in chunk:
        cases.append(case['doc'])
        # "over-long digits": a run of >= 15 nines is also tried as 5000 nines (beyond the interpreter's int-string limit)
        d0 = case['doc']
        if any(len(a.get('v', [])) >= 15 and a['v'][:15] == [57] * 15 for at in d0['attrs'] for a in at):
            import copy
            d1 = copy.deepcopy(d0)
            for at in d1['attrs']:
                for a in at:
                    if a.get('v', [])[:15] == [57] * 15:
                        k = 0
                        while k < len(a['v']) and a['v'][k] == 57:
                            k += 1
                        a['v'] = [57] * 5000 + a['v'][k:]
            cases.append(d1)
    for d in cases:
        container, nodes = dom.build(d, bs4)
        els = [n for n in nodes[1:] if isinstance(n, bs4.Tag)]
        brief = replay.doc_brief(d)
        if len(brief) > 300:
            brief = brief[:140] + '...(%d chars)...' % len(brief) + brief[-100:]
        for css, obj in H['sels']:
            if css in H.setdefault('hung', set()):
                continue            # already reported as not terminating: do not wait for it on every document
            calls = [('select', lambda: obj.select(container)), ('select_one', lambda: obj.select_one(container)),
                     ('iselect', lambda: list(obj.iselect(container, 1)))]
            for e in els:
                calls += [('match', lambda e=e: obj.match(e)), ('closest', lambda e=e: obj.closest(e)),
                          ('filter', lambda e=e: obj.filter(e)), ('select(el)', lambda e=e: obj.select(e))]
            calls.append(('filter(list)', lambda: obj.filter(list(nodes[1:]))))
            for name, fn in calls:
                ncalls += 1
                try:
                    signal.alarm(10)          # "terminate and return a value": a call that runs this long on a 5-node tree never will
                    try:
                        fn()
                    finally:
                        signal.alarm(0)
                except _Timeout:
                    viols.append(('%s|%s|%s' % (css, name, brief), '%s(%r) did not terminate within 10 s on %s' % (name, css, brief),
                                  {'selector': css, 'doc': d, 'call': name, 'exc': 'no termination'}))
                    H['hung'].add(css)
                    break
                except Exception as ex:
                    viols.append(('%s|%s|%s' % (css, name, brief), '%s(%r) raised %s: %s on %s' % (name, css, type(ex).__name__, str(ex)[:80], brief),
                                  {'selector': css, 'doc': d, 'call': name, 'exc': type(ex).__name__}))
        if samp is None:
            samp = {'doc': brief, 'selectors': len(H['sels']), 'calls_per_selector': len(calls)}
    return viols, ncalls, len(chunk), samp


DEEP = {'quick': 1200, 'thorough': 3000}          # beyond CPython's default recursion limit (1000); several selectors are quadratic in the depth


def _deep_docs(bs4, N):
    """the depth pump: the one-to-three level trees of MC_C08_shapes stretched to DEEP levels (html.parser builds such trees from
    unclosed tags in a few milliseconds).  Dom.tla / CssDecl.tla define every tree relation by recursion on the depth without a bound;
    the code has to get there without the interpreter's call stack."""
    out = []
    out.append(('chain', 'html.parser', '<html lang="en"><body>' + '<div>' * N + '<p id="leaf">x</p>' + '</div>' * N + '</body></html>'))
    out.append(('auto-top', 'html.parser', '<html><body><div dir="auto">' + '<span>' * N + '\u05d0<b id="leaf">y</b>' + '</span>' * N + '</div></body></html>'))
    out.append(('controls', 'html.parser', '<form><fieldset disabled>' + '<div>' * N + '<input id="leaf" type="text" dir="auto" value=""><input type="radio" name="g">'
                '<button>b</button>' + '</div>' * N + '</fieldset><input type="submit"></form>'))
    out.append(('xml', 'xml', '<r xml:lang="en">' + '<a>' * N + '<b id="leaf">x</b>' + '</a>' * N + '</r>'))
    out.append(('auto-chain', 'html.parser', '<html><body>' + '<div dir="auto">' * N + '<bdi id="leaf">123</bdi> 456 ' + '</div>' * N + '</body></html>'))
    out.append(('bdi-chain', 'html.parser', '<html><body>' + '<bdi>' * N + '<input id="leaf" type="text" dir="auto" value="">' + '</bdi>' * N + '</body></html>'))
    out.append(('iframe', 'html.parser', '<html><body><iframe>' + '<div>' * N + '<p id="leaf" dir="auto"></p>' + '</div>' * N + '</iframe><p>z</p></body></html>'))
    res = []
    for name, parser, markup in out:
        import warnings
        warnings.simplefilter('ignore')
        soup = bs4.BeautifulSoup(markup, parser)
        leaf = soup.find(id='leaf')
        res.append((name, soup, leaf))
    return res


def _deep_work(H, chunk):
    sv, bs4 = H['sv'], H['bs4']
    if 'deep' not in H:
        H['deep'] = _deep_docs(bs4, DEEP[H.get('tier', 'quick')])
    out = []
    for css in chunk:
        try:
            obj = sv.compile(css, namespaces={'svg': 'urn:svg'})
        except Exception:
            continue
        hung = False
        for name, soup, leaf in H['deep']:
            if hung:
                break
            top = [t for t in soup.contents if isinstance(t, bs4.Tag)][0]
            calls = [('select', lambda: obj.select(soup, 3)), ('select_one', lambda: obj.select_one(soup)), ('match(leaf)', lambda: obj.match(leaf)),
                     ('closest(leaf)', lambda: obj.closest(leaf)), ('filter(top)', lambda: obj.filter(top)), ('match(top)', lambda: obj.match(top)),
                     ('select(leaf.parent)', lambda: obj.select(leaf.parent))]
            for cname, fn in calls:
                try:
                    signal.alarm(60)
                    try:
                        fn()
                    finally:
                        signal.alarm(0)
                    out.append((css, name, cname, None))
                except _Timeout:
                    out.append((css, name, cname, 'no termination within 60 s'))
                    hung = True
                    break           # one report per selector is enough: do not wait a minute for each of its other calls
                except BaseException as ex:  # noqa  (RecursionError is an Exception; MemoryError etc. are reported too)
                    out.append((css, name, cname, type(ex).__name__))
    return out


def _deep_part(chk, tier):
    import multiprocessing as mp
    sv, bs4 = common.import_repo()
    sels = _selectors(sv) + ['div p', 'div > p', ':has(> p)', ':has(p)', 'p:dir(ltr)', 'b:dir(rtl)', 'input:dir(ltr)', ':is(div div) p', ':not(span b)',
                             'p:lang(en)', 'b:lang(en)', ':nth-child(1 of div p)', 'div ~ p', 'a b', 'a > b', ':disabled', 'input:read-write', ':root :empty']
    if tier == 'quick':
        sels = [x for n, x in enumerate(sels) if n % 3 == common.SEED % 3 or 'dir' in x or 'lang' in x or 'has' in x or 'disabled' in x or 'contains' in x]
    chunks = [[x] for x in sels]

    def init(H):
        _init(H)
        H['tier'] = tier
    with mp.get_context('fork').Pool(16, initializer=replay._ginit, initargs=([], init)) as pool:
        outs = pool.map(replay._gwork, [(_deep_work, c) for c in chunks], chunksize=1)
    n = 0
    for out in outs:
        for css, name, cname, err in out:
            n += 1
            if err:
                chk.violation('deep|%s|%s|%s' % (css, name, err), '%s of %r on the %d-level document "%s": %s' % (cname, css, DEEP[tier], name, err),
                              {'cfg': 'deep', 'selector': css, 'doc': name, 'call': cname, 'group': 'deep %s %s' % (err, css)})
    chk.count(n, traces=n)
    chk.notes['deep'] = {'levels': DEEP[tier], 'documents': 7, 'selectors': len(sels), 'calls': n}


def _degenerate_part(chk):
    """documents without any element (empty, text only, comment only, emptied after parsing) and elements without anything around them:
    the BeautifulSoup object is a Tag and a legal call target; Api.tla gives the empty result / None / False for every entry point"""
    import warnings
    sv, bs4 = common.import_repo()
    warnings.simplefilter('ignore')
    docs = []
    for parser in ('html.parser', 'lxml', 'xml', 'html5lib'):
        for markup in ('', 'just text', '<!-- only a comment -->', '<!DOCTYPE html>', '  \n '):
            try:
                docs.append(('%s:%r' % (parser, markup), bs4.BeautifulSoup(markup, parser)))
            except Exception:
                pass
        d = bs4.BeautifulSoup('<p>x</p>', parser)
        for t in list(d.contents):
            t.extract()
        docs.append(('%s:emptied' % parser, d))
    lone = bs4.BeautifulSoup('', 'html.parser').new_tag('p')
    docs.append(('lone new_tag', lone))
    n = 0
    slow = set()
    for css in _selectors(sv):
        try:
            obj = sv.compile(css, namespaces={'svg': 'urn:svg'})
        except Exception:
            continue
        for name, d in docs:
            for cname, fn in (('select', lambda: obj.select(d)), ('select_one', lambda: obj.select_one(d)), ('iselect', lambda: list(obj.iselect(d))),
                              ('match', lambda: obj.match(d)), ('closest', lambda: obj.closest(d)), ('filter', lambda: obj.filter(d)),
                              ('filter(list)', lambda: obj.filter(list(d.contents)))):
                n += 1
                if css in slow:
                    continue
                try:
                    common.guard(fn, 20)
                except common.CallTimeout:
                    slow.add(css)
                    chk.violation('degenerate|%s|timeout' % css, '%s(%r) on the element-less document %s did not return within 20 s' % (cname, css, name),
                                  {'cfg': 'degenerate', 'selector': css, 'doc': name, 'call': cname, 'group': 'degenerate no termination'})
                except BaseException as ex:  # noqa
                    chk.violation('degenerate|%s|%s|%s' % (css, name, cname), '%s(%r) on the element-less document %s raised %s' % (cname, css, name, type(ex).__name__),
                                  {'cfg': 'degenerate', 'selector': css, 'doc': name, 'call': cname, 'group': 'degenerate %s %s' % (type(ex).__name__, cname)})
    chk.count(n, traces=n)


def _type_error_part(chk):
    """TypeError is raised exactly when the call target is not a Tag"""
    sv, bs4 = common.import_repo()
    soup = bs4.BeautifulSoup('<p>x<!--c--></p>', 'html.parser')
    text = soup.p.contents[0]
    bad = [None, 'p', 5, b'x', text, soup.p.contents[1], [soup.p], object()]
    for fn in (sv.select, sv.select_one, sv.match, sv.closest, lambda s, t: list(sv.iselect(s, t))):
        for t in bad:
            chk.count(1)
            try:
                fn('p', t)
                chk.violation('typeerror|%s|%r' % (getattr(fn, '__name__', 'iselect'), type(t).__name__),
                              '%s accepted a %s as call target' % (getattr(fn, '__name__', 'iselect'), type(t).__name__),
                              {'cfg': 'typeerror', 'group': 'no TypeError'})
            except TypeError:
                pass
            except Exception as ex:
                chk.violation('typeerror2|%s|%r' % (getattr(fn, '__name__', 'iselect'), type(t).__name__),
                              'non-Tag target raised %s instead of TypeError' % type(ex).__name__, {'cfg': 'typeerror', 'group': 'wrong exception'})
        for t in (soup, soup.p):
            try:
                fn('p', t)
            except Exception as ex:
                chk.violation('typeerror3|%s' % type(t).__name__, 'Tag target raised %s' % type(ex).__name__, {'cfg': 'typeerror', 'group': 'Tag raised'})


def _order_part(chk):
    """B2: the order of match_* calls per element, recorded hook-free with sys.setprofile, must respect MatchOrder's Order"""
    sv, bs4 = common.import_repo()
    import json
    name_map = {'match_tag': 'tag', 'match_defined': 'defined', 'match_root': 'root', 'match_scope': 'scope',
                'match_placeholder_shown': 'placeholder', 'match_nth': 'nth', 'match_empty': 'empty', 'match_id': 'id',
                'match_classes': 'class', 'match_attributes': 'attributes', 'match_range': 'range', 'match_lang': 'lang',
                'match_subselectors': 'subselectors', 'match_relations': 'relation', 'match_default': 'default',
                'match_indeterminate': 'indeterminate', 'match_dir': 'dir', 'match_contains': 'contains'}
    soup = bs4.BeautifulSoup('<html lang="en"><body><form><input type="number" min="1" max="9" value="5" id="a" class="k" placeholder="p">'
                             '<input type="submit" checked id="b"><p id="c" class="k">x</p></form></body></html>', 'html.parser')
    sels = ['input#a.k[type]:in-range:lang(en):not(p):first-child:default', 'p#c.k:-soup-contains(x):dir(ltr):empty',
            'form > input:indeterminate', ':root:defined:scope', 'input:placeholder-shown[min]', '#b:default:checked:nth-child(2)']
    seqs = []
    depth = [0]
    cur = []

    def prof(frame, event, arg):
        if event == 'call':
            n = frame.f_code.co_name
            if n == 'match_selectors':
                depth[0] += 1
                if depth[0] == 1:
                    cur.clear()
            elif depth[0] == 1 and n in name_map and (not cur or cur[-1] != name_map[n] or n != 'match_dir'):
                cur.append(name_map[n])
        elif event == 'return' and frame.f_code.co_name == 'match_selectors':
            if depth[0] == 1 and cur:
                seqs.append(list(cur))
            depth[0] -= 1
    for css in sels:
        obj = sv.compile(css)
        for el in soup.find_all(True):
            sys.setprofile(prof)
            try:
                obj.match(el)
            finally:
                sys.setprofile(None)
    uniq = sorted({tuple(s) for s in seqs})
    chk.notes['recorded_check_orders'] = len(uniq)
    # validate with TLC: every recorded sequence must be a subsequence of Order (ASSUME in a generated module)
    import os, shutil, tempfile
    tmpd = tempfile.mkdtemp(prefix='verif_c08_')
    try:
        for f in ('MatchOrder.tla', 'MC_C08_order.tla'):
            shutil.copy(os.path.join(tlc.SPEC_DIR, f), tmpd)
        seq_tla = '{ ' + ', '.join('<< ' + ', '.join('"%s"' % x for x in s) + ' >>' for s in uniq) + ' }'
        with open(os.path.join(tmpd, 'Trace_C08_order.tla'), 'w') as f:
            f.write('---- MODULE Trace_C08_order ----\nEXTENDS MC_C08_order, TLCExt\nRecorded == %s\n'
                    'Bad == {s \\in Recorded : ~IsSubseqFrom(s, 1, OrderAsIs, 1) /\\ ~IsSubseqFrom(s, 1, OrderReordered, 1)}\n'
                    'ASSUME PrintT(<<"BAD", Bad>>)\n====\n' % seq_tla)
        with open(os.path.join(tmpd, 'Trace_C08_order.cfg'), 'w') as f:
            f.write('CONSTANTS\n Order <- MOrder\n Needs <- MNeeds\n Gives <- MGives\n Compounds <- MCompounds\n Variant = "guarded"\n'
                    'INIT Init\nNEXT Next\nINVARIANT Defined\nCHECK_DEADLOCK FALSE\n')
        res = tlc.run('Trace_C08_order', cwd=tmpd, workers=2)
        chk.add_tlc(res, 'order-trace')
        i = res.stdout.find('"BAD"')
        if i < 0:
            chk.machinery('order trace: no verdict line')
        else:
            verdict = res.stdout[i:i + 2000].split('>>\n')[0]
            if verdict.replace(' ', '').replace('\n', '') not in ('"BAD",{}', '"BAD",{}>>'):
                # the code runs its checks in an order the model does not know: model/code drift, never a verdict
                chk.drift.append({'check_order_not_in_model': ' '.join(verdict.split())[:600]})
        chk.count(len(uniq), traces=len(uniq))
    finally:
        shutil.rmtree(tmpd, ignore_errors=True)


def main(tier):
    chk = common.Check('C08', tier)
    chk.assumptions += ['value shapes: strings for every attribute; lists and odd API values (None, numbers, bytes, nested lists) only on attributes that '
                        'attribute/class/id selectors read (class, id, t)', 'depth: exhaustive up to 3 levels, plus five %d-level documents (depth pump)' % DEEP[tier]]
    for variant, must_hold in (('guarded', True), ('reordered', True), ('asis', False)):
        cfg = replay.write_cfg('order_' + variant, {'Order': None}, invariants=('Defined',)) if False else None
        import os, tempfile
        tmp = tempfile.mkdtemp(prefix='verif_c08cfg_')
        try:
            path = os.path.join(tmp, 'o')
            with open(path + '.cfg', 'w') as f:
                f.write('CONSTANTS\n Order <- MOrder\n Needs <- MNeeds\n Gives <- MGives\n Compounds <- MCompounds\n Variant = "%s"\n'
                        'INIT Init\nNEXT Next\nINVARIANT Defined\nCHECK_DEADLOCK FALSE\n' % variant)
            res = tlc.run('MC_C08_order', cfg=path, workers=4)
        finally:
            import shutil
            shutil.rmtree(tmp, ignore_errors=True)
        chk.add_tlc(res, 'order_' + variant)
        if must_hold and res.violation:
            chk.violation('spec|order|' + variant, 'MatchOrder.tla: T-Defined fails for the %s design' % variant, {'cfg': 'order', 'group': 'spec'})
        if not must_hold and not res.violation:
            chk.machinery('negative model (as-is check order) was not refuted (vacuity guard)')
    ctxs = '{"rooted", "detached", "multi", "foreign", "iframe", "xhtml"}'
    replay.stream(chk, 'MC_C08_shapes', {'NAttrs': 1, 'Contexts': ctxs if tier == 'thorough' else '{"rooted", "detached", "iframe", "multi", "xhtml"}',
                                         'TypeFirst': 'FALSE', 'OnlyInput': 'FALSE'},
                  'shapes1', _work, _init, is_header=lambda v: False, chunk=8)
    replay.stream(chk, 'MC_C08_shapes', {'NAttrs': 2, 'Contexts': ctxs if tier == 'thorough' else '{"rooted", "detached"}',
                                         'TypeFirst': 'TRUE', 'OnlyInput': 'TRUE' if tier == 'quick' else 'FALSE'},
                  'shapes-type', _work, _init, is_header=lambda v: False, chunk=8)
    if tier == 'thorough':
        replay.stream(chk, 'MC_C08_shapes', {'NAttrs': 2, 'Contexts': '{"rooted", "xhtml"}', 'TypeFirst': 'FALSE', 'OnlyInput': 'TRUE'},
                      'shapes2', _work, _init, is_header=lambda v: False, chunk=8)
    _deep_part(chk, tier)
    _degenerate_part(chk)
    _type_error_part(chk)
    _order_part(chk)
    return chk.finish()
