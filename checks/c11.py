"""C11 - name and value case rules follow the document type (HTML / XHTML / XML)."""
import json
import random
from harness import common, replay, trace, dom, gen
from harness.common import cps

HTML_ONLY = ['checked', 'default', 'indeterminate', 'disabled', 'enabled', 'required', 'optional', 'read-only', 'read-write',
             'in-range', 'out-of-range', 'placeholder-shown', 'link', 'any-link', 'defined']


def _spelled(selmod, ast, rng):
    """a random respelling of the AST (escapes, case of keywords, white space / comments): the document-type rules are about names and
    values, not about how the selector is spelled"""
    import random as _r
    import zlib
    selmod.SPELL = _r.Random(zlib.crc32(repr(ast).encode()) + common.SEED)
    try:
        return selmod.selector_list(ast)
    finally:
        selmod.SPELL = None


def main(tier):
    chk = common.Check('C11', tier)
    chk.assumptions += ['CssDecl.NameKey / Insensitive are the reading of the property; ASCII letters only (Python re.I is Unicode-wide)',
                        'mixed-case HTML trees are built through the API (no parser would produce them); parser-built trees are covered by the trace part']
    replay.run_cfg(chk, 'MC_C11', {'MaxKids': 1 if tier == 'quick' else 2}, 'case%d' % (1 if tier == 'quick' else 2))
    trace_part(chk, tier)
    rand_case_part(chk, tier)
    return chk.finish()


def rand_case_part(chk, tier):
    """B2 on random trees: element names, attribute names and values in random ASCII case, the same abstract tree built as an HTML
    document (html.parser builder, case preserved through the API), as XML and as XHTML (lxml-xml builder); random selectors of the C01
    grammar whose names / values are re-cased at random, with random i / s flags.  Trace_Select (CssDecl!NameKey / Insensitive) decides."""
    rng = random.Random(common.SEED * 7919 + 1111)
    ndocs, nsel = (24, 10) if tier == "quick" else (2500, 16)

    def recase(cp_list):
        return [c - 32 if 97 <= c <= 122 and rng.random() < 0.4 else c + 32 if 65 <= c <= 90 and rng.random() < 0.4 else c for c in cp_list]

    def recase_ast(node):
        if isinstance(node, dict):
            out = {}
            for k, v in node.items():
                if k in ('name', 'v', 'val') and isinstance(v, list) and rng.random() < 0.6:
                    out[k] = recase(v)
                elif k == 'flag' and node.get('op') not in (None, 'ex') and rng.random() < 0.4:
                    out[k] = rng.choice(['n', 'i', 's'])
                else:
                    out[k] = recase_ast(v)
            return out
        if isinstance(node, list):
            return [recase_ast(x) for x in node] if not (node and all(isinstance(x, int) for x in node)) else node
        return node
    jobs = []
    gen.EXCLUDE = set()
    for k in range(ndocs):
        base = gen.rand_doc(rng, nmax=12, xml=False, names=['az', 'AZ', 'Az', 'c'])
        for a_list in base['attrs']:
            for a in a_list:
                if rng.random() < 0.5:
                    a['k'] = recase(a['k'])
                    a['local'] = list(a['k'])
                if rng.random() < 0.5 and not a.get('list'):
                    a['v'] = recase(a['v'])
            # an element cannot carry the same attribute name twice
        asts = [recase_ast(gen.rand_list(rng, depth=rng.choice([0, 1, 2]), names=['az', 'AZ', 'c'])) for _ in range(nsel)]
        import copy
        for mode in ('html', 'xml', 'xhtml'):
            d = copy.deepcopy(base)
            d['xml'] = mode != 'html'
            if mode == 'xhtml':
                d['ns'] = [cps('http://www.w3.org/1999/xhtml') if kk == 'e' else [] for kk in d['kind']]
            # duplicate attribute names (after case folding in HTML they would be two spellings of one attribute): keep the first
            for a_list in d['attrs']:
                seen = set()
                for a in list(a_list):
                    key = common.st(a['k']).lower()
                    if key in seen:
                        a_list.remove(a)
                    seen.add(key)
            jobs.append(('rc%d.%s' % (k, mode), d, asts, [0], None))
    lines = trace.record_select(jobs)
    trace.validate(chk, lines, 'Trace_Select', 'trace-randcase')
    chk.notes['rand_case'] = {'documents': len(jobs), 'events': len(lines)}


XLINK = 'http://www.w3.org/1999/xlink'
MARKUP = ('<DIV ID="Top" Class="Xy"><P TITLE="Xy" type="Xy">t</P><input TYPE="CheckBox" CHECKED="checked" Value="V"/>'
          '<a HREF="#" hreflang="EN">l</a><Span data-K="xY">s</Span>'
          '<svg xmlns:xlink="%s" viewBox="0 0 1 1"><use xlink:href="#u" xlink:Title="T"/><foreignObject><p>f</p></foreignObject>'
          '<linearGradient id="lg"/><g type="simple" xlink:type="SIMPLE"/><g xlink:type="simple" type="SIMPLE"/></svg></DIV>' % XLINK)
# a plain XML document (not XHTML) that embeds XHTML-namespaced elements: HTML-only pseudo-classes must still never match
EMBED = ('<feed xmlns="urn:atom"><entry><div xmlns="http://www.w3.org/1999/xhtml" dir="rtl"><input type="checkbox" checked="checked"/>'
         '<a href="#">l</a><p dir="ltr">t</p></div></entry></feed>')


def trace_part(chk, tier):
    """B2: the same logical tree through every installed parser; the tree each parser built is projected back
    to an abstract document and TLC validates the recorded selects (incl. HTML-only pseudo-classes in XML)."""
    sv, bs4 = common.import_repo()
    rng = random.Random(common.SEED + 11)
    lines = []
    nm = lambda s: cps(s)  # noqa: E731
    sels = []
    for tag in ('div', 'DIV', 'p', 'P', 'span', 'Span', 'SPAN', 'foreignObject', 'foreignobject', 'FOREIGNOBJECT', 'linearGradient', 'lineargradient'):
        sels.append([{'cs': [[{'k': 'type', 'ns': gen.BARE, 'name': nm(tag)}]], 'cb': []}])
    for an in ('id', 'ID', 'title', 'TITLE', 'type', 'TYPE', 'data-k', 'data-K', 'class', 'hreflang'):
        for val in ('xy', 'Xy', 'XY', 'top', 'Top', 'checkbox', 'CheckBox', 'en'):
            for fl in ('n', 'i', 's'):
                if rng.random() < (0.35 if tier == 'quick' else 1.0):
                    sels.append([{'cs': [[{'k': 'attr', 'ns': gen.BARE, 'name': nm(an), 'op': rng.choice(['eq', 'pre', 'inc', 'sub']),
                                          'val': nm(val), 'flag': fl}]], 'cb': []}])
    for k in HTML_ONLY:
        sels.append([{'cs': [[{'k': k}]], 'cb': []}])
    for dd in ('ltr', 'rtl'):
        sels.append([{'cs': [[{'k': 'dir', 'd': dd}]], 'cb': []}])
    nssels = []          # namespaced attribute names: case-sensitive in XML and XHTML, folded in HTML
    for spec in ({'t': 'pfx', 'p': cps('x')}, {'t': 'any'}):
        for an in ('href', 'HREF', 'Href', 'title', 'Title', 'viewBox', 'viewbox', 'VIEWBOX', 'data-K', 'data-k'):
            nssels.append([{'cs': [[{'k': 'attr', 'ns': spec, 'name': nm(an), 'op': 'ex', 'val': [], 'flag': 'n'}]], 'cb': []}])
    # the `type` attribute twice on one element (no namespace / xlink), values differing in case only: which attribute is looked at and how its
    # value compares (exactly in XML / XHTML, ASCII-case-insensitively in HTML) are decided together
    for spec in ({'t': 'pfx', 'p': cps('x')}, {'t': 'any'}, gen.BARE):
        for val in ('simple', 'SIMPLE', 'Simple'):
            for fl in ('n', 'i', 's'):
                for op in ('eq', 'ne'):
                    nssels.append([{'cs': [[{'k': 'attr', 'ns': spec, 'name': nm('type'), 'op': op, 'val': nm(val), 'flag': fl}]], 'cb': []}])
    for parser in ('html.parser', 'lxml', 'html5lib', 'xml'):
        for variant in ('plain', 'xhtml', 'embed'):
            if variant != 'plain' and parser != 'xml':
                continue
            markup = MARKUP if variant == 'plain' else EMBED if variant == 'embed' else \
                '<html xmlns="http://www.w3.org/1999/xhtml"><body>%s</body></html>' % MARKUP
            soup = bs4.BeautifulSoup(markup, parser)
            d, nodes = dom.project(soup, bs4)
            idmap = dom.ids_of(nodes)
            from harness import sel as selmod
            root = min([i + 1 for i, (p, k) in enumerate(zip(d['parent'], d['kind'])) if p == 0 and k == 'e'] or [0])
            is_plain_xml = parser == 'xml' and variant in ('plain', 'embed')
            for j, ast in enumerate(nssels):
                css = _spelled(selmod, ast, rng if 'rng' in dir() else None)
                ev = {'id': '%s.%s.ns%d' % (parser, variant, j), 'doc': d, 'sel': ast, 'nsmap': [{'p': cps('x'), 'u': cps(XLINK)}],
                      'scope': root, 'target': 0, 'css': css}
                if not (d['xml'] or any(n and common.st(n) == 'http://www.w3.org/1999/xhtml' for n in d['ns'])):
                    continue          # namespace-unaware trees (html.parser, lxml HTML): prefix selectors are outside C11/C12
                try:
                    ev['res'] = [idmap[id(t)] for t in sv.select(css, soup, namespaces={'x': XLINK})]
                except Exception as e:
                    ev['res'] = [-2]
                    ev['exc'] = type(e).__name__
                lines.append(json.dumps(ev))
            for j, ast in enumerate(sels):
                k0 = ast[0]['cs'][0][0]['k']
                if (k0 in HTML_ONLY or k0 == 'dir') and not is_plain_xml:
                    continue      # the definitions of the HTML state pseudo-classes belong to C17; here: never in plain XML
                css = _spelled(selmod, ast, rng if 'rng' in dir() else None)
                # the document kind is a property of the DOCUMENT, whatever element the call is made on: besides the document object, every
                # element with element children is a call target (e.g. the XHTML-namespaced <div> embedded in a plain XML feed)
                inner = [i + 1 for i, kk in enumerate(d['kind']) if kk == 'e' and any(p == i + 1 and k2 == 'e' for p, k2 in zip(d['parent'], d['kind']))]
                targets = [0] + (inner if (k0 in HTML_ONLY or k0 == 'dir') else ([inner[j % len(inner)]] if inner else []))
                for tg in targets:
                    ev = {'id': '%s.%s.%d.%d' % (parser, variant, j, tg), 'doc': d, 'sel': ast, 'nsmap': [], 'scope': tg or root, 'target': tg, 'css': css}
                    try:
                        ev['res'] = [idmap[id(t)] for t in sv.select(css, soup if tg == 0 else nodes[tg])]
                    except Exception as e:
                        ev['res'] = [-2]
                        ev['exc'] = type(e).__name__
                    lines.append(json.dumps(ev))
    # the type KEYWORD in HTML documents is ASCII-case-insensitive for every pseudo-class that reads it (also where the library scans the
    # form by hand: the default button, radio groups); flat forms only (nested forms are C17's drift zone)
    KW = ('<form><input type="SUBMIT" id="u1"/><input type="submit" id="u2"/><input type="CHECKBOX" checked="checked" id="u3"/>'
          '<input type="Radio" name="g" id="u4"/><input type="RADIO" name="g" id="u5"/><input type="NUMBER" min="1" max="3" value="5" id="u6"/>'
          '<input type="Text" placeholder="p" id="u7"/><input type="HIDDEN" disabled="disabled" id="u8"/></form>'
          '<form><button type="Submit" id="u9">b</button><input type="radio" NAME="g" Checked="checked" id="u10"/><input type="radio" name="g" id="u11"/></form>')
    kwsels = ['default', 'checked', 'indeterminate', 'enabled', 'disabled', 'read-write', 'read-only', 'placeholder-shown', 'in-range', 'out-of-range']
    for parser in ('html.parser', 'lxml', 'html5lib'):
        soup = bs4.BeautifulSoup(KW, parser)
        d, nodes = dom.project(soup, bs4)
        idmap = dom.ids_of(nodes)
        root = min([i + 1 for i, (p, k) in enumerate(zip(d['parent'], d['kind'])) if p == 0 and k == 'e'] or [0])
        for k in kwsels:
            ast = [{'cs': [[{'k': k}]], 'cb': []}]
            css = ':' + k
            ev = {'id': 'kw.%s.%s' % (parser, k), 'doc': d, 'sel': ast, 'nsmap': [], 'scope': root, 'target': 0, 'css': css}
            try:
                ev['res'] = [idmap[id(t)] for t in sv.select(css, soup)]
            except Exception as e:
                ev['res'] = [-2]
                ev['exc'] = type(e).__name__
            lines.append(json.dumps(ev))
    trace.validate(chk, lines, 'Trace_Select', 'trace-parsers')
    e = json.loads(lines[5])
    chk.sample({'trace_event': {'id': e['id'], 'css': e['css'], 'res': e['res']}}, cap=14)
