"""C04 - answers do not depend on query history; matching never mutates the tree.

Design level: Session.tla (memo tables of one matcher; T-MemoTransparent; the "remember a failed
search as the empty value" design is kept as a negative model that TLC must refute).
Conformance: MC_C04_hist.tla generates call histories (BFS: every history of length H over the pools;
-simulate: longer ones); the harness executes them on real documents, recording every observation
"element el is / is not matched by sel (scope sc)" plus what it measured about the document around the
call; History.tla (law-level trace spec, the match relation is an unlogged variable TLC infers)
accepts iff ONE relation explains every observation and the document never changed."""
import copy
import json
import multiprocessing as mp
import os
import random
import tempfile

from harness import common, tlc, replay

META = '<meta http-equiv="content-language" content="%s">'
DOCS = [
    # 0: meta language en, explicit empty lang, two forms sharing a radio group name
    ('html.parser', '<html><head>' + META % 'en' + '</head><body><p id="p1">x</p><div lang=""><p id="p2">y</p></div>'
     '<form id="f1"><input type="radio" name="g" id="r1"><input type="radio" name="g" id="r2" checked>'
     '<input type="submit" id="s1"><button type="submit" id="s2">b</button></form>'
     '<form id="f2"><input type="radio" name="g" id="r3"><input type="checkbox" id="c1" checked><input type="submit" id="s3"></form>'
     '</body></html>'),
    # 1: no language information at all, radio outside any form, iframe with its own document
    ('html.parser', '<html><head><title>t</title></head><body><p id="q1">x</p><p id="q2" lang="de">y</p>'
     '<input type="radio" name="h" id="r4"><input type="radio" name="h" id="r5">'
     '<iframe id="if"><html><head>' + META % 'fr' + '</head><body><p id="q3">i</p>'
     '<form id="f3"><button id="b1">n</button><input type="submit" id="s4"></form></body></html></iframe>'
     '<span id="q4">z</span></body></html>'),
    # 2: XML with xml:lang
    ('xml', '<r xmlns:x="urn:x"><a xml:lang="en"><b id="m1">t</b></a><a id="m2"><b>u</b><x:c id="m3"/></a></r>'),
    # 3: html5lib document (namespaces present), meta language, nested lang
    ('html5lib', '<html lang="en-US"><head>' + META % 'de' + '</head><body><div lang="fr"><p id="h1">a</p></div>'
     '<form><input type="radio" name="k" checked id="h2"><input type="radio" name="k" id="h3"><input type="submit" id="h4"></form>'
     '<p id="h5" dir="rtl">b</p></body></html>'),
    # 4: outer document with a <meta> language, iframe whose own document has no language information at all
    ('html.parser', '<html><head>' + META % 'en' + '</head><body><p id="o1">x</p><div><p id="o2">y</p></div>'
     '<iframe id="if2"><html><head><title>i</title></head><body><p id="i1">i</p><form><input type="radio" name="g" id="i2"><input type="submit" id="i3"></form>'
     '</body></html></iframe><p id="o3">z</p><form id="of"><input type="radio" name="g" checked id="o4"><input type="radio" name="g" id="o5"></form></body></html>'),
    # 5: plain XML with a prefixed namespace and HTML-looking attributes
    # 6: structurally identical twins: two forms with the same markup, two identical rows (bs4 compares Tags by markup)
    ('html.parser', '<html><body><form><input type="radio" name="g"><input type="submit"></form><p>t</p>'
     '<form><input type="radio" name="g"><input type="submit"></form><table><tr><td>a</td></tr><tr><td>a</td></tr></table>'
     '<form><input type="radio" name="g" checked><input type="submit"></form></body></html>'),
    ('xml', '<r xmlns:x="urn:x"><x:item id="1"/><x:item id="2" checked="checked"/><x:item id="3" disabled="disabled"/><item id="4"/>'
     '<x:item id="5"><x:item id="6"/></x:item></r>'),
    # radio groups of one form whose names differ only in case / surrounding white space: different groups, in both evaluation orders
    ('html.parser', '<html><body><form><input type="radio" name="Size" id="z1"><input type="radio" name="Size" id="z2">'
     '<input type="radio" name="size" id="z3" checked><input type="radio" name="size" id="z4"><input type="radio" name="size " id="z5"></form>'
     '<form><input type="radio" name="k" id="z6" checked><input type="radio" name="K" id="z7"><input type="radio" name="k" id="z8"></form></body></html>'),
    # XHTML through the XML parser: attribute names and the type keyword are case-sensitive there (CHECKED is not checked, RADIO not radio)
    ('xml', '<html xmlns="http://www.w3.org/1999/xhtml"><body><form><input type="radio" name="g" id="y1"/><input type="radio" name="g" id="y2" CHECKED=""/>'
     '<input type="RADIO" name="g" id="y3" checked=""/><input type="SUBMIT" id="y4"/><input type="submit" id="y5"/></form>'
     '<form><input type="radio" name="g" id="y6" CHECKED=""/><input type="radio" name="g" id="y7"/></form></body></html>'),
    # two documents in one tree (iframe) whose root elements get DIFFERENT :root verdicts: stray text next to the inner / the outer root
    ('html.parser', '<html><body><p id="ra">a</p><iframe id="rf">stray text<html><body><p id="rb">x</p></body></html></iframe><p>z</p></body></html>'),
    ('html.parser', 'stray text<html><body><p id="rc">a</p><iframe id="rg"><html><body><p id="rd">x</p></body></html></iframe></body></html>'),
    # several top-level elements (an html.parser fragment): which of them is "the root" must not depend on where the call was made
    ('html.parser', '<div id="ma"><p id="mb">a</p></div><div dir="rtl" id="mc"><p id="md">b</p><input type="radio" name="g" id="me"></div>'
     '<section id="mf"><p id="mg" lang="de">c</p><form><input type="submit" id="mh"></form></section>'),
    # an XHTML document (xml parser) with a pragma language and an iframe, carrying its own lang, around a NON-XHTML inner document: what was
    # found out about one element's namespace must not colour the next element
    ('xml', '<html xmlns="http://www.w3.org/1999/xhtml"><head><meta http-equiv="content-language" content="en"/></head><body>'
     '<iframe lang="de"><svg xmlns="http://www.w3.org/2000/svg"><text id="xt">t</text></svg></iframe><p id="xp1">a</p><p id="xp2">b</p></body></html>'),
    # siblings that inherit their direction from the same parent, asked for BOTH directions in one query
    ('html.parser', '<div dir="rtl" id="da"><span id="db">a</span><p id="dc">b</p><span id="dd">c</span><p id="de">d</p></div>'
     '<div id="df"><span id="dg">e</span><p id="dh">f</p><bdi id="di">g</bdi></div>'),
    # a form whose controls sit partly inside an iframe: the library's own definitions (:default = "html|form input ..." evaluated without
    # crossing the iframe) next to the SAME relation written by the caller (which does cross it)
    ('html.parser', '<form id="fa"><input type="submit" id="fb"><iframe id="fi"><html><body><input type="submit" id="fc"><input id="fd"></body></html></iframe>'
     '<input type="submit" id="fe"></form>'),
]
# edits made through the bs4 API after parsing (to the working tree and to the pristine copy alike): attribute values of the shapes the API
# permits (lists holding non-strings, bytes, numbers) on attributes that attribute / class selectors read.  Reading them must not rewrite them.
EDITS = {0: [('p1', 'data-n', [3, '4']), ('p2', 'class', ['a', b'b']), ('s1', 'data-n', 7), ('r1', 'data-n', ['x', ['y']])]}
NS = {'x': 'urn:x', 'html': 'http://www.w3.org/1999/xhtml'}


def _rand_doc(rng):
    """seeded random HTML document over the features whose evaluation is memoised or document-wide"""
    def block(depth):
        k = rng.randrange(7)
        if k == 0:
            return '<p%s>t</p>' % rng.choice(['', ' lang="de"', ' lang=""', ' lang="en-GB"'])
        if k == 1 and depth < 2:
            return '<div%s>%s</div>' % (rng.choice(['', ' lang=""', ' lang="fr"', ' dir="rtl"']), ''.join(block(depth + 1) for _ in range(rng.randint(1, 3))))
        if k == 2:
            name = rng.choice(['g', 'h'])
            # group names that collide under case folding / trimming are DIFFERENT groups (memo keys must not be normalised)
            return '<form>%s%s</form>' % (''.join('<input type="radio" name="%s"%s>' % (rng.choice([name, name.upper(), name + ' ', 'k']), rng.choice(['', '', ' checked']))
                                                  for _ in range(rng.randint(1, 3))),
                                          rng.choice(['', '<input type="submit">', '<button type="submit">b</button><input type="submit">']))
        if k == 3 and depth < 2:
            return '<iframe><html><head>%s</head><body>%s</body></html></iframe>' % (
                rng.choice(['', META % 'fr', META % 'en']), ''.join(block(depth + 1) for _ in range(rng.randint(1, 3))))
        if k == 4:
            return '<input type="radio" name="%s"%s>' % (rng.choice(['g', 'h']), rng.choice(['', ' checked']))
        if k == 5:
            return '<input type="checkbox"%s><span>x</span>' % rng.choice(['', ' checked', ' indeterminate'])
        return '<p>x</p><p>x</p>'
    body = []
    for _ in range(rng.randint(2, 5)):
        body.append(rng.choice(body) if body and rng.random() < 0.3 else block(0))      # verbatim twins are likely
    return ('html.parser', '<html%s><head>%s</head><body>%s</body></html>' % (
        rng.choice(['', '', ' lang="en"']), rng.choice(['', META % 'en', META % 'de']), ''.join(body)))


def _all_docs():
    rng = random.Random(common.SEED * 131 + 4)
    return DOCS + [_rand_doc(rng) for _ in range(6)]
SELS = [':lang("")', ':lang(en)', ':lang("*")', ':default', ':indeterminate', ':checked', 'p',
        ':is(:default, p:lang(en))', ':root', 'form :default', ':not(:lang(en))', '[lang]', ':dir(ltr)',
        ':has(> :default)', ':nth-child(2 of :lang(en))', ':scope > *', ':lang(de, fr)', 'input:not(:indeterminate)',
        ':-soup-contains(x)', ':enabled', 'x|item:not(:checked)', 'x|item, :checked', ':is(x|item):not(:disabled)', 'x|*', 'p:lang(en)']
# the order matters for the reduced BFS pools (prefixes of these lists): most history-sensitive first
SELS += [':scope + tr td', 'form:has(:default)', 'span:dir(rtl), p:dir(ltr)', 'p:dir(rtl), span:dir(ltr)', ':lang(en), :lang(de)', '[data-n~="4"]', '.a', '[data-n]:not([data-n="7"])',
         ':default, html|form input', 'html|form input, :default', 'html|form :is(input, button):not(:default)']
SELS = [SELS[i] for i in (1, 20, 3, 4, 0, 24, 16, 21)] + [x for i, x in enumerate(SELS) if i not in (1, 20, 3, 4, 0, 24, 16, 21)]
USES_SCOPE = {':scope > *', ':scope + tr td'}
KINDS = ['select', 'match', 'filter', 'closest', 'select_one', 'iselect1', 'filter_iter']


def _targets(soup, bs4):
    els = [n for n in soup.descendants if isinstance(n, bs4.Tag)]
    return [soup, els[0], els[len(els) // 2], els[-1], els[len(els) // 3], els[(2 * len(els)) // 3]]


def _snapshot(soup, bs4):
    try:
        ser = soup.decode()
    except TypeError:          # bs4 cannot serialise lists holding non-strings: a structural serialisation instead
        ser = [(type(n).__name__, getattr(n, 'name', None), str(n) if not isinstance(n, bs4.Tag) else None) for n in soup.descendants]
    return (ser, [id(n) for n in soup.descendants],
            [(id(n), [(k, repr(v), id(v) if isinstance(v, list) else 0) for k, v in n.attrs.items()])
             for n in soup.descendants if isinstance(n, bs4.Tag)])


def _run_histories(args):
    """worker: executes histories on its own set of documents; returns ndjson lines (one trace)"""
    import warnings
    wid, hists = args
    warnings.simplefilter('ignore')
    sv, bs4 = common.import_repo()
    docs = _all_docs()
    soups = [bs4.BeautifulSoup(m, p) for p, m in docs]

    def edit(d, soup):
        for eid, k, v in EDITS.get(d, ()):
            t = soup.find(id=eid)
            if t is not None:
                import copy as _c
                t[k] = _c.deepcopy(v)
    for d, soup in enumerate(soups):
        edit(d, soup)
    lines = []
    index = []
    for soup in soups:
        index.append({id(n): i + 1 for i, n in enumerate(soup.descendants)})
    snaps = [_snapshot(s, bs4) for s in soups]
    # pristine reference: every element of a deep copy asked on its own (a new matcher per question)
    for d, soup in enumerate(soups):
        # (copy.deepcopy of an html5lib BeautifulSoup object re-creates html5lib's skeleton: re-parse instead)
        cp = bs4.BeautifulSoup(docs[d][1], docs[d][0])
        edit(d, cp)
        assert [(type(n).__name__, getattr(n, 'name', None)) for n in cp.descendants] == \
            [(type(n).__name__, getattr(n, 'name', None)) for n in soup.descendants]
        cidx = {id(n): i + 1 for i, n in enumerate(cp.descendants)}
        els = [n for n in cp.descendants if isinstance(n, bs4.Tag)]
        for s, css in enumerate(SELS):
            if css in USES_SCOPE:
                continue
            try:
                obs = [{'sc': 0, 'el': cidx[id(e)], 'v': bool(sv.match(css, e, NS))} for e in els]
                exc0 = None
            except Exception as ex:          # a query that raises is reported through the frozen clause (nothing is observed)
                obs, exc0 = [], type(ex).__name__
            lines.append(json.dumps({'id': 'w%d.pristine.%d.%d' % (wid, d, s), 'doc': d, 'sel': s, 'obs': obs,
                                     'frozen': exc0 is None, 'what': 'pristine copy, match(%r) per element%s' % (css, '' if exc0 is None else ' raised ' + exc0)}))
    tg = [_targets(s, bs4) for s in soups]
    for hn, hist in enumerate(hists):
        for cn, c in enumerate(hist):
            kind = KINDS[c['k'] - 1]
            d = c['d'] - 1
            s = c['s'] - 1
            css = SELS[s]
            soup = soups[d]
            idx = index[d]
            target = tg[d][(c['t'] - 1) % len(tg[d])]
            is_doc = target is soup
            sc = lambda node: (idx.get(id(node), 0) if css in USES_SCOPE else 0)  # noqa: E731
            tsc = (idx[id([n for n in soup.descendants if isinstance(n, bs4.Tag)][0])] if is_doc else idx[id(target)]) \
                if css in USES_SCOPE else 0
            obs = []
            try:
                if kind == 'select':
                    res = {id(x) for x in sv.select(css, target, NS)}
                    obs = [{'sc': tsc, 'el': idx[id(e)], 'v': id(e) in res}
                           for e in target.descendants if isinstance(e, bs4.Tag)]
                elif kind == 'match':
                    if not is_doc:
                        obs = [{'sc': sc(target), 'el': idx[id(target)], 'v': bool(sv.match(css, target, NS))}]
                elif kind == 'filter':
                    res = {id(x) for x in sv.filter(css, target, NS)}
                    obs = [{'sc': tsc, 'el': idx[id(e)], 'v': id(e) in res} for e in target.contents if isinstance(e, bs4.Tag)]
                elif kind == 'closest':
                    if not is_doc:
                        r = sv.closest(css, target, NS)
                        cur = target
                        while cur is not None and not isinstance(cur, bs4.BeautifulSoup):
                            obs.append({'sc': sc(target), 'el': idx[id(cur)], 'v': cur is r})
                            if cur is r:
                                break
                            cur = cur.parent
                elif kind in ('select_one', 'iselect1'):
                    if kind == 'select_one':
                        r = sv.select_one(css, target, NS)
                    else:
                        it = sv.iselect(css, target, NS)
                        r = next(it, None)
                        del it
                    for e in target.descendants:
                        if isinstance(e, bs4.Tag):
                            obs.append({'sc': tsc, 'el': idx[id(e)], 'v': e is r})
                            if e is r:
                                break
                else:
                    items = [e for e in soup.descendants if isinstance(e, bs4.Tag)][::-1]
                    res = {id(x) for x in sv.filter(css, items, NS)}
                    obs = [{'sc': sc(e), 'el': idx[id(e)], 'v': id(e) in res} for e in items]
                exc = None
            except Exception as ex:
                exc = type(ex).__name__
            frozen = _snapshot(soup, bs4) == snaps[d]
            ev = {'id': 'w%d.h%d.c%d' % (wid, hn, cn), 'doc': d, 'sel': s, 'obs': obs, 'frozen': frozen and exc is None,
                  'what': '%s(%r) on doc %d target %d' % (kind, css, d, c['t'])}
            if exc:
                ev['exc'] = exc
            lines.append(json.dumps(ev))
    return lines


def _validate(path):
    try:
        res = tlc.run('History', workers=1, env={'TRACE_FILE': path}, timeout=1800, heap='3g')
    except tlc.TLCError as e:
        return None, str(e)[-1500:]
    return res, None


def _alone_part(chk):
    """the first sentence of the property, exhaustively over the document and selector pools (the histories sample it): what select /
    filter / closest say about an element in a whole-document or subtree call equals match() on that element alone"""
    import warnings
    warnings.simplefilter('ignore')
    sv, bs4 = common.import_repo()
    n = 0
    for d, (parser, markup) in enumerate(_all_docs()):
        soup = bs4.BeautifulSoup(markup, parser)
        for eid, k, v in EDITS.get(d, ()):
            t = soup.find(id=eid)
            if t is not None:
                t[k] = copy.deepcopy(v)
        els = [t for t in soup.descendants if isinstance(t, bs4.Tag)]
        pos = {id(t): i + 1 for i, t in enumerate(els)}
        for css in SELS:
            if css in USES_SCOPE:
                continue
            try:
                alone = {pos[id(t)] for t in els if sv.match(css, t, NS)}
            except Exception:
                continue
            for tg in _targets(soup, bs4):
                try:
                    got = {pos[id(t)] for t in sv.select(css, tg, NS)}
                except Exception as ex:
                    got = type(ex).__name__
                want = {pos[id(t)] for t in tg.descendants if isinstance(t, bs4.Tag)} & alone
                n += 1
                if got != want:
                    chk.violation('alone|%d|%s|%s' % (d, css, pos.get(id(tg), 0)), 'document %d: select(%r) on %s gives elements %r, asking each element alone gives %r' % (
                        d, css, 'the document' if tg is soup else 'element %d' % pos[id(tg)], sorted(got) if isinstance(got, set) else got, sorted(want)),
                        {'cfg': 'alone', 'group': 'select vs match alone ' + css, 'selector': css, 'doc': d})
    chk.count(n, traces=n)


def _mutation_part(chk):
    """state that survives between calls: a document is queried, then CHANGED through the bs4 API (a radio button gets checked, a language
    changes, the first submit button is removed, an element is re-parented), then queried again.  Every answer after the change must be the
    answer a pristine parse of the changed document gives - whatever the library remembered from the earlier calls."""
    import warnings
    warnings.simplefilter('ignore')
    sv, bs4 = common.import_repo()
    docs = _all_docs()
    n = 0

    def answers(soup):
        out = {}
        idx = {id(t): i for i, t in enumerate(x for x in soup.descendants if isinstance(x, bs4.Tag))}
        for css in SELS:
            if css in USES_SCOPE:
                continue
            try:
                out[css] = sorted(idx[id(t)] for t in sv.select(css, soup, NS))
            except Exception as ex:
                out[css] = type(ex).__name__
        return out

    def mutations(soup):
        ms = []
        radios = [t for t in soup.find_all('input') if (t.get('type') or '').lower() == 'radio']
        for t in radios[:3]:
            ms.append(('check radio', lambda t=t: t.__setitem__('checked', '') if not t.has_attr('checked') else t.__delitem__('checked')))
        subs = [t for t in soup.find_all(['input', 'button']) if (t.get('type') or '').lower() == 'submit']
        if subs:
            ms.append(('remove the first submit button', lambda t=subs[0]: t.extract()))
        langs = [t for t in soup.find_all(True) if t.has_attr('lang')]
        if langs:
            ms.append(('change lang', lambda t=langs[0]: t.__setitem__('lang', 'fr' if t['lang'] != 'fr' else 'de')))
        metas = soup.find_all('meta')
        if metas:
            ms.append(('change the pragma', lambda t=metas[0]: t.__setitem__('content', 'fr')))
        ps = soup.find_all('p')
        if len(ps) >= 2:
            ms.append(('move a paragraph', lambda a=ps[0], b=ps[-1]: b.append(a.extract())))
        return ms
    for d, (parser, markup) in enumerate(docs):
        if parser == 'html5lib':
            continue            # (re-parsing html5lib output is not the identity on these documents)
        probe = bs4.BeautifulSoup(markup, parser)
        for mi in range(len(mutations(probe))):
            soup = bs4.BeautifulSoup(markup, parser)
            answers(soup)                                   # whatever can be remembered is remembered now
            name, fn = mutations(soup)[mi]
            fn()
            after = answers(soup)
            try:
                ser = soup.decode()
            except Exception:
                continue
            fresh = bs4.BeautifulSoup(ser, parser)
            if [getattr(t, 'name', None) for t in fresh.descendants] != [getattr(t, 'name', None) for t in soup.descendants]:
                continue            # the serialisation does not re-parse to the same shape (parser repairs): no reference
            want = answers(fresh)
            n += len(SELS)
            for css in after:
                if after[css] != want[css]:
                    chk.violation('mutation|%d|%s|%s' % (d, name, css), 'after "%s" on document %d, select(%r) = %r but a pristine parse of the changed document gives %r: '
                                  'something remembered from the calls before the change' % (name, d, css, after[css], want[css]),
                                  {'cfg': 'mutation', 'group': 'stale after ' + name, 'selector': css, 'doc': d})
    chk.count(n, traces=n)


LAZY_SELS = ['li:nth-child(1 of .todo)', 'li:nth-last-child(1 of .todo)', 'li:nth-child(2n+1 of .todo)', 'li:nth-child(odd of :not(.done))',
             '.todo', 'li.todo + li', 'li:not(.done)', 'ul:has(> .todo) li', 'li:nth-of-type(2)', 'li:first-child ~ .todo', 'li.todo ~ li', '[class~="todo"]',
             'li:is(.todo, .x)', 'li:nth-last-of-type(-n+2)', 'ul > li:nth-child(n+2 of li.todo)', ':root li.todo']
LAZY_DOCS = ['<ul><li class="todo" id="a1">1</li><li class="todo" id="a2">2</li><li class="todo" id="a3">3</li></ul>',
             '<ul><li class="todo">1</li>t<li class="x">2</li><!--c--><li class="todo">3</li><li class="done">4</li><li class="todo">5</li></ul><ul><li class="todo">6</li><li class="todo">7</li></ul>',
             '<div><ul><li class="todo">1<ul><li class="todo">a</li><li class="todo">b</li></ul></li><li class="todo">2</li></ul></div>']


def _lazy_part(chk):
    """one lazy call that spans changes of the tree: iselect() is consumed element by element and the consumer ticks the element it was just
    handed (class todo -> done) - or its previous sibling - before asking for the next one.  Every element must be judged against the tree as
    it is when the walk reaches it: the reference walks the same elements in document order, asks match() about each one alone (a fresh
    matcher, nothing remembered) and applies the same change after each hit.  Only class changes and selectors without a per-call memo in
    the library (no :lang / :default / :indeterminate / :dir) are used: what a lazy call may remember of THOSE is not stated by the property."""
    import warnings
    warnings.simplefilter('ignore')
    sv, bs4 = common.import_repo()
    n = 0

    def tick(el, mode):
        t = el if mode == 'self' else el.find_previous_sibling(True)
        if t is not None and t.get('class') is not None:
            cl = t['class'] if isinstance(t['class'], list) else t['class'].split()
            cl = ['done' if c == 'todo' else c for c in cl]
            t['class'] = cl if isinstance(t['class'], list) else ' '.join(cl)

    for d, markup in enumerate(LAZY_DOCS):
        for parser in ('html.parser', 'lxml', 'xml'):
            for css in LAZY_SELS:
                for mode in ('self', 'prev'):
                    n += 1
                    want, got = [], []
                    ref = bs4.BeautifulSoup(markup, parser)
                    els = [t for t in ref.descendants if isinstance(t, bs4.Tag)]
                    try:
                        for i, el in enumerate(els):
                            if sv.match(css, el):
                                want.append(i)
                                tick(el, mode)
                        soup = bs4.BeautifulSoup(markup, parser)
                        idx = {id(t): i for i, t in enumerate(t for t in soup.descendants if isinstance(t, bs4.Tag))}
                        for el in sv.iselect(css, soup):
                            got.append(idx[id(el)])
                            tick(el, mode)
                    except Exception as ex:
                        got = type(ex).__name__ + ': ' + str(ex)[:80]
                    if got != want:
                        chk.violation('lazy|%d|%s|%s|%s' % (d, parser, css, mode),
                                      'iselect(%r) over %r (%s), the consumer turning class todo into done on %s after each element it is handed: yielded '
                                      'elements %r, but judged one by one against the tree as it is when the walk reaches them: %r' %
                                      (css, markup, parser, 'that element' if mode == 'self' else 'its previous sibling', got, want),
                                      {'cfg': 'lazy', 'group': 'lazy iteration over a changing tree', 'selector': css, 'doc': d})
    chk.count(n, traces=n)


# documents for the process part: the same attribute TEXT (prefix:name) bound to different namespaces in different documents and within one
# document; same-named radio groups / languages in different documents
PROC_DOCS = [('xml', '<r xmlns:p="urn:x"><e p:t="1" id="pa"/><f p:t="2" id="pb"/></r>'),
             ('xml', '<r xmlns:p="urn:y"><e p:t="1" id="pc"/><f xmlns:q="urn:x" q:t="2" id="pd"/></r>'),
             ('xml', '<r><e xmlns:p="urn:y" p:t="1" id="pe"/><e xmlns:p="urn:x" p:t="1" id="pf"/><e xmlns:p="urn:y" p:t="1" id="pg"/></r>'),
             ('xml', '<p:r xmlns:p="urn:y"><p:item id="ph"/><item xmlns="urn:x" id="pi"/></p:r>'),
             ('xml', '<p:r xmlns:p="urn:x"><p:item id="pj"/><item xmlns="urn:y" id="pk"/></p:r>')]
PROC_SELS = ['[x|t]', '[x|t="1"]', '[*|t]', '[t]', 'x|item', 'x|*', ':not([x|t])', 'e:nth-of-type(2)', 'x|r > x|item']
PROC_CHILD = r"""
import sys, json, warnings
sys.path.insert(0, %(repo)r)
warnings.simplefilter('ignore')
import soupsieve as sv
import bs4
docs, sels, order, ns = json.loads(%(payload)r)
out = {}
for d in order:
    parser, markup = docs[d]
    soup = bs4.BeautifulSoup(markup, parser)
    idx = {id(t): i for i, t in enumerate(x for x in soup.descendants if isinstance(x, bs4.Tag))}
    for css in sels:
        try:
            out['%%d|%%s' %% (d, css)] = sorted(idx[id(t)] for t in sv.select(css, soup, ns))
        except Exception as ex:
            out['%%d|%%s' %% (d, css)] = type(ex).__name__
print(json.dumps(out))
"""


def _process_part(chk):
    """what a PROCESS remembers (Session.tla, Lifetime = "process": refuted by TLC above).  The same documents are queried with the same
    selectors in fresh interpreters, in different document orders; the answer for a (document, selector) must be the same in every one of
    them.  Within one process every order after the first is already coloured by the first, so the orders are run in separate processes."""
    import subprocess
    docs = [d for d in _all_docs() if d[0] != 'html5lib'] + PROC_DOCS
    sels = [c for c in SELS if c not in USES_SCOPE] + PROC_SELS
    n = len(docs)
    rng = random.Random(common.SEED * 17 + 5)
    orders = [list(range(n)), list(reversed(range(n)))]
    for _ in range(2):
        o = list(range(n))
        rng.shuffle(o)
        orders.append(o)
    env = dict(os.environ, PYTHONHASHSEED='0')
    outs = []
    for o in orders:
        payload = json.dumps([docs, sels, o, NS])
        p = subprocess.run(['/venv/bin/python', '-c', PROC_CHILD % {'repo': common.REPO, 'payload': payload}], capture_output=True, text=True, env=env, timeout=600)
        try:
            outs.append(json.loads(p.stdout.strip().splitlines()[-1]))
        except Exception:
            chk.machinery('process part: child failed: ' + (p.stdout + p.stderr)[-300:])
            return
    for key in outs[0]:
        vals = [o[key] for o in outs]
        if any(v != vals[0] for v in vals):
            d, css = key.split('|', 1)
            chk.violation('process|' + key, 'select(%r) on document %s (%s) answered %r when the documents are visited in the order %r of a fresh interpreter, but %r in another order: '
                          'the answer depends on what the process was asked before' % (css, d, docs[int(d)][1][:120], vals[0], orders[0][:6], [v for v in vals if v != vals[0]][0]),
                          {'cfg': 'process', 'group': 'answers depend on the order of documents in a process', 'selector': css, 'doc': int(d)})
    chk.count(len(outs) * len(outs[0]), traces=len(outs) * len(outs[0]))


def main(tier):
    chk = common.Check('C04', tier)
    chk.assumptions += ['observations are compared through abstract node positions of each document; a pristine deepcopy gives the reference rows',
                        'histories: exhaustive pairs over reduced pools (BFS) + sampled longer histories (-simulate)']
    # ---- design level: Session.tla positive / negative ---------------------------------------
    for policy, lifetime, must_hold in (('store_none', 'call', True), ('store_empty', 'call', False), ('store_none', 'process', False)):
        cfg = replay.write_cfg('session_' + policy + '_' + lifetime, {'Policy': '"%s"' % policy, 'Lifetime': '"%s"' % lifetime}, invariants=('MemoTransparent',))
        try:
            res = tlc.run('MC_C04_session', cfg=cfg, workers=4, coverage=True)
        finally:
            replay.rm_cfg(cfg)
        chk.add_tlc(res, 'session_' + policy + '_' + lifetime)
        if must_hold and res.violation:
            chk.violation('spec|session', 'Session.tla: T-MemoTransparent fails for the intended design', {'cfg': 'session', 'group': 'spec', 'tlc': res.counterexample[:3000]})
        if not must_hold and not res.violation:
            chk.machinery('negative model %s / %s was not refuted (vacuity guard)' % (policy, lifetime))
    # ---- histories from TLC ------------------------------------------------------------------
    hists = []
    nk, nd, ns, nt = len(KINDS), len(_all_docs()), len(SELS), 6
    if tier == 'quick':
        gens = [({'H': 2, 'NKinds': 3, 'NDocs': nd, 'NSels': 8, 'NTgts': 2, 'SameDoc': 'TRUE'}, None)]
        sim = (2500, 6)
    else:
        gens = [({'H': 2, 'NKinds': 5, 'NDocs': nd, 'NSels': 10, 'NTgts': 2, 'SameDoc': 'TRUE'}, None)]
        sim = (15000, 8)
    for consts, _ in gens:
        cfg = replay.write_cfg('hist', consts)
        try:
            res = tlc.run('MC_C04_hist', cfg=cfg, workers=16, line_cb=lambda v: hists.append(v['hist']))
        finally:
            replay.rm_cfg(cfg)
        chk.add_tlc(res, 'hist-bfs')
    # longer histories over the full pools: -simulate, behaviours printed by the same invariant
    consts = {'H': sim[1], 'NKinds': nk, 'NDocs': nd, 'NSels': ns, 'NTgts': nt, 'SameDoc': 'FALSE'}
    cfg = replay.write_cfg('histsim', consts, next_='NextSim')
    simh = []
    try:
        res = tlc.run('MC_C04_hist', cfg=cfg, workers=1, simulate={'num': sim[0]}, depth=sim[1] + 1, seed=common.SEED + 11,
                      line_cb=lambda v: simh.append(v['hist']))
    finally:
        replay.rm_cfg(cfg)
    chk.notes['histories'] = {'bfs_pairs': len(hists), 'simulated': len(simh)}
    allh = hists + simh
    if not allh:
        chk.machinery('no histories generated')
        return chk.finish()
    rng = random.Random(common.SEED + 4)
    rng.shuffle(allh)
    nproc = 16
    parts = [allh[i::nproc] for i in range(nproc)]
    with mp.get_context('fork').Pool(nproc) as pool:
        traces = pool.map(_run_histories, [(i, p) for i, p in enumerate(parts) if p])
    tmpd = tempfile.mkdtemp(prefix='verif_c04_')
    try:
        paths = []
        events = {}
        for i, lines in enumerate(traces):
            p = os.path.join(tmpd, 'w%d.ndjson' % i)
            with open(p, 'w') as f:
                f.write('\n'.join(lines) + '\n')
            paths.append((p, len(lines)))
            for ln in lines:
                e = json.loads(ln)
                events[e['id']] = e
        with mp.get_context('fork').Pool(8) as pool:
            results = pool.map(_validate, [p for p, _ in paths])
        for (res, err), (p, n) in zip(results, paths):
            if err:
                chk.machinery('History.tla: ' + err)
                continue
            chk.coverage['states'] += res.distinct
            chk.coverage['transitions'] += res.generated
            if res.distinct != n + 1 or res.violation:
                chk.machinery('History.tla consumed %d of %d events (%s)' % (res.distinct - 1, n, res.violation))
            for t in res.tuples:
                if t.startswith('<<"REJECT"'):
                    parts_ = [x.strip().strip('"') for x in t[2:-2].split(',')]
                    eid, clause = parts_[1], parts_[2]
                    e = events.get(eid, {})
                    chk.violation('%s|%s|%s' % (clause, e.get('what'), eid.split('.')[0]),
                                  'history-dependence / mutation: clause %s rejected event %s: %s%s' % (
                                      clause, eid, e.get('what'), (' raised ' + e['exc']) if e.get('exc') else ''),
                                  {'cfg': 'history', 'group': '%s %s' % (clause, SELS[e['sel']] if 'sel' in e else ''), 'event': e})
        nev = sum(n for _, n in paths)
        chk.count(nev, traces=len(allh))
        chk.add_distinct(len({json.dumps(h) for h in allh}))
        chk.sample({'history': allh[0], 'kinds': KINDS, 'selectors': [SELS[c['s'] - 1] for c in allh[0]]})
        chk.sample({'event': {k: v for k, v in json.loads(traces[0][-1]).items() if k != 'obs'}})
    finally:
        for f in os.listdir(tmpd):
            os.remove(os.path.join(tmpd, f))
        os.rmdir(tmpd)
    _alone_part(chk)
    _mutation_part(chk)
    _lazy_part(chk)
    _process_part(chk)
    return chk.finish()
