"""C03 - all query entry points are views of one match relation.
Api.tla states each entry point as a view of CssDecl!Matches; MC_C03 enumerates documents x calls
(entry point, target, selector, limit, presence of namespaces / custom); every predicted outcome is
replayed into BOTH the module-level function and compile(...).method(...), with flags absent / DEBUG
and positional / keyword argument passing."""
import contextlib
import io
from harness import common, replay, dom, sel as selmod
from harness.common import st


def _init(H):
    hdr = H['header'][0]
    pool = []
    for e in hdr['apipool']:
        pool.append(selmod.selector_list(e['sel']))
    H['pool'] = pool
    H['ns'] = {st(e['p']): st(e['u']) for e in hdr['nsarg']}
    H['cu'] = {':' + st(e['name']): selmod.selector_list(e['def']) for e in hdr['cuarg']}


def _norm(ep, val, idmap):
    if ep in ('select', 'iselect', 'filter', 'filter_iter'):
        return {'seq': [idmap.get(id(t), -1) for t in val]}
    if ep in ('select_one', 'closest'):
        return {'one': 0 if val is None else idmap.get(id(val), -1)}
    return {'bool': bool(val)}


def _call(H, style, ep, css, tnode, items, lim, nsmap, custom, flags):
    """style: 'mod-kw' | 'mod-pos' | 'method'"""
    sv = H['sv']
    kw = {}
    if nsmap is not None:
        kw['namespaces'] = nsmap
    if custom is not None:
        kw['custom'] = custom
    if flags is not None:
        kw['flags'] = flags
    out = io.StringIO()
    with contextlib.redirect_stdout(out):
        if style == 'method':
            obj = sv.compile(css, **kw)
            if ep == 'select':
                return obj.select(tnode, lim) if lim is not None else obj.select(tnode)
            if ep == 'iselect':
                return list(obj.iselect(tnode, lim) if lim is not None else obj.iselect(tnode))
            if ep == 'select_one':
                return obj.select_one(tnode)
            if ep == 'match':
                return obj.match(tnode)
            if ep == 'filter':
                return obj.filter(tnode)
            if ep == 'filter_iter':
                return obj.filter(items)
            return obj.closest(tnode)
        fn = {'select': sv.select, 'iselect': sv.iselect, 'select_one': sv.select_one, 'match': sv.match,
              'filter': sv.filter, 'filter_iter': sv.filter, 'closest': sv.closest}[ep]
        arg = items if ep == 'filter_iter' else tnode
        if style == 'mod-pos':
            # positional: (select, tag, namespaces, [limit,] flags) then custom= by keyword (keyword-only)
            pos = [css, arg, nsmap]
            if ep in ('select', 'iselect'):
                pos += [0 if lim is None else lim, 0 if flags is None else flags]
            else:
                pos += [0 if flags is None else flags]
            r = fn(*pos, **({'custom': custom} if custom is not None else {}))
        else:
            if ep in ('select', 'iselect') and lim is not None:
                kw['limit'] = lim
            r = fn(css, arg, **kw)
        return list(r) if ep == 'iselect' else r


def _work(H, chunk):
    bs4 = H['bs4']
    viols = []
    ncalls = 0
    nontriv = 0
    samp = None
    for case in chunk:
        d = case['doc']
        container, nodes = dom.build(d, bs4)
        if container is None:
            continue
        idmap = dom.ids_of(nodes)
        n = len(d['parent'])
        rev = [nodes[i] for i in range(n, 0, -1)]
        for k, rec in enumerate(case['calls']):
            ep, t, s, lim, ns, cu = rec['c']
            exp = rec['o']
            css = H['pool'][s - 1]
            tnode = container if (t == 0 or (d['top'] == 'frag' and t == 1 and False)) else nodes[t]
            if t == 0:
                tnode = container
            nsmap = H['ns'] if ns else None
            custom = H['cu'] if cu else None
            variants = []
            eps = [ep] + (['iselect'] if ep == 'select' else [])
            lims = [lim] + ([-1, None] if (ep == 'select' and lim == 0) else [])
            flagset = [None, 1] if (k % 3 == 0) else [None]
            for e2 in eps:
                for l2 in lims:
                    for fl in flagset:
                        for style in ('mod-kw', 'mod-pos', 'method'):
                            variants.append((style, e2, l2, fl))
            outs = {}
            for (style, e2, l2, fl) in variants:
                try:
                    got = _norm(e2, common.guard(lambda: _call(H, style, e2, css, tnode, rev, l2, nsmap, custom, fl), 30), idmap)
                except common.CallTimeout:
                    got = {'err': 'no termination within 30 s'}
                except Exception as ex:
                    got = {'err': type(ex).__name__}
                ncalls += 1
                outs[(style, e2, l2, fl)] = got
                if got != exp:
                    key = '%s|%s|t=%s|lim=%s|ns=%s|cu=%s|fl=%s|%s|%s' % (e2, css, t, l2, ns, cu, fl, style, replay.doc_brief(d))
                    viols.append((key, '%s(%r, target=%s, limit=%s, namespaces=%s, custom=%s, flags=%s) via %s on %s -> %r, view says %r' % (
                        e2, css, t, l2, 'given' if ns else '-', 'given' if cu else '-', fl, style, replay.doc_brief(d), got, exp),
                        {'selector': '%s %s %s' % (e2, css, style), 'doc': d, 'call': rec['c'], 'observed': got, 'expected': exp}))
            if exp.get('seq') or exp.get('one') or exp.get('bool'):
                nontriv += 1
            if samp is None and exp.get('seq'):
                samp = {'call': {'ep': ep, 'selector': css, 'target': t, 'limit': lim, 'namespaces': bool(ns), 'custom': bool(cu)},
                        'doc': replay.doc_brief(d), 'predicted': exp}
    return viols, ncalls, nontriv, samp


def main(tier):
    chk = common.Check('C03', tier)
    chk.assumptions += ['Api.tla views over CssDecl!Matches are the reading of the property statement',
                        'the optional arguments are made observable by a prefix selector, a custom alias and DEBUG output']
    replay.stream(chk, 'MC_C03', {'MaxNodes': 3 if tier == 'quick' else 4}, 'api%d' % (3 if tier == 'quick' else 4),
                  _work, _init, is_header=lambda v: 'apipool' in v, invariants=('Emit', 'ViewsAgree'), chunk=4)
    trace_part(chk, tier)
    return chk.finish()


def _record(args):
    """B2 worker: random docs/selectors, every entry point on random targets, recorded as ndjson"""
    import json
    import random
    import warnings
    from harness import gen
    seed, ndocs, nsel = args
    warnings.simplefilter('ignore')
    sv, bs4 = common.import_repo()
    rng = random.Random(seed)
    gen.EXCLUDE = set()
    lines = []
    for k in range(ndocs):
        # every other document has <iframe> elements WITH element content (as html.parser / the XML builder of XHTML keep it): the API
        # walks (closest's ancestors, select's descendants, filter's children) cross that boundary like any other element
        names = gen.NAMES + (['iframe', 'iframe'] if k % 2 else [])
        d = gen.rand_doc(rng, nmax=12, names=names)
        container, nodes = dom.build(d, bs4)
        idmap = dom.ids_of(nodes)
        n = len(d['parent'])
        els = [i + 1 for i, kk in enumerate(d['kind']) if kk == 'e']
        for j in range(nsel):
            ast = gen.rand_list(rng, depth=rng.choice([0, 1, 2]), names=names)
            if rng.random() < 0.5:   # make :scope observable (at any position of the compound: before or after the other flags)
                comp = ast[0]['cs'][rng.randrange(len(ast[0]['cs']))]
                lo = 1 if comp and comp[0]['k'] == 'type' else 0
                comp.insert(rng.randint(lo, len(comp)), {'k': rng.choice(['scope', 'amp'])})
                if rng.random() < 0.3:
                    comp.insert(rng.randint(lo, len(comp)), {'k': rng.choice(['root', 'empty'])})
            selmod.SPELL = random.Random(rng.getrandbits(32))        # the call is made with a random respelling of the selector
            try:
                css = selmod.selector_list(ast)
            finally:
                selmod.SPELL = None
            obj = sv.compile(css)
            for en, ep in enumerate(('select', 'iselect', 'select_one', 'match', 'filter', 'filter_iter', 'closest') + (('closest',) * 4 if k % 2 else ())):
                t = rng.choice(els + ([0] if d['top'] == 'doc' else []))
                tnode = container if t == 0 else nodes[t]
                lim = rng.choice([0, 0, 1, 2, 3, -1])
                items = [rng.randrange(1, n + 1) for _ in range(rng.randint(0, 5))]
                ev = {'id': '%d.%d.%d.%s%d' % (seed, k, j, ep, en), 'doc': d, 'sel': ast, 'nsmap': [], 'ep': ep,
                      'target': t, 'limit': lim, 'items': items, 'css': css, 'text': common.cps(css)}
                try:
                    if ep == 'select':
                        out = [idmap[id(x)] for x in obj.select(tnode, lim)]
                    elif ep == 'iselect':
                        out = [idmap[id(x)] for x in sv.iselect(css, tnode, None, lim)]
                    elif ep == 'select_one':
                        r = obj.select_one(tnode)
                        out = 0 if r is None else idmap[id(r)]
                    elif ep == 'match':
                        out = bool(sv.match(css, tnode))
                    elif ep == 'filter':
                        out = [idmap[id(x)] for x in obj.filter(tnode)]
                    elif ep == 'filter_iter':
                        out = [idmap[id(x)] for x in sv.filter(css, [nodes[i] for i in items])]
                    else:
                        r = obj.closest(tnode)
                        out = 0 if r is None else -7 if isinstance(r, bs4.BeautifulSoup) else idmap[id(r)]
                except Exception as ex:
                    out = 'EXC:' + type(ex).__name__
                ev['out'] = out
                ev['res'] = out
                lines.append(json.dumps(ev))
        # selectors that NO element of the tree satisfies, but that the attribute-less, nameless document object would if it were asked:
        # closest() must come back with None (never the document), select / filter with nothing
        for cj, ccss in enumerate([':not(*)', ':not([id], :not([id]))', ':not(%s)' % ', '.join(sorted(set(names)))]):
            cast = None
            try:
                cobj = sv.compile(ccss)
            except Exception:
                continue
            for t in [0] + els[:3] + els[-2:]:
                if t == 0 and d['top'] != 'doc':
                    continue
                tnode = container if t == 0 else nodes[t]
                for ep in ('closest', 'select_one'):
                    try:
                        r = cobj.closest(tnode) if ep == 'closest' else cobj.select_one(tnode)
                        out = 0 if r is None else 'the document object' if isinstance(r, bs4.BeautifulSoup) else idmap.get(id(r), -9)
                    except Exception as ex:
                        out = 'EXC:' + type(ex).__name__
                    if out != 0:
                        lines.append(json.dumps({'id': '%d.%d.none%d.%s.%d' % (seed, k, cj, ep, t), 'doc': d, 'sel': [], 'nsmap': [], 'ep': 'none', 'target': t,
                                                 'limit': 0, 'items': [], 'css': ccss, 'text': common.cps(ccss), 'out': out, 'res': out, 'expect_none': True}))
    return lines


def trace_part(chk, tier):
    import multiprocessing as mp
    from harness import trace
    nproc = 16
    ndocs, nsel = (6, 6) if tier == 'quick' else (40, 10)
    with mp.get_context('fork').Pool(nproc) as pool:
        outs = pool.map(_record, [(common.SEED * 1000 + 31 * p + 5, ndocs, nsel) for p in range(nproc)])
    lines = [l for o in outs for l in o]
    import json as _json
    keep = []
    for l in lines:
        if '"expect_none": true' in l:
            e = _json.loads(l)
            chk.violation('none|%s|%s|%s' % (e['css'], e['id'], e['out']), '%s(%r) on target %d returned %r although no element of the tree matches (the document object is never a result)' % (
                e['id'].split('.')[-2], e['css'], e['target'], e['out']), {'cfg': 'unsatisfiable', 'group': 'document object returned', 'event': e})
        else:
            keep.append(l)
    lines = keep
    trace.validate(chk, lines, 'Trace_Api', 'trace-api')
    # the same calls as views of the relation the implementation-shaped pipeline computes from the TEXT (Trace_ApiPipe)
    from harness import statedefs, tlc
    import os
    if not os.path.basename(tlc.SPEC_DIR).startswith('verif_spec_'):
        statedefs.use_tree_under_test()
    trace.validate(chk, lines if tier == 'thorough' else lines[::2], 'Trace_ApiPipe', 'trace-api-pipe', batch=400)
    import json
    e = json.loads(lines[3])
    chk.sample({'trace_event': {k: e[k] for k in ('ep', 'css', 'target', 'limit', 'items', 'out')}}, cap=14)
