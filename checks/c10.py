"""C10 - escape() output always parses back to the original identifier.

Specification: spec/Escape.tla (CSSOM serialize-an-identifier), spec/IdentLex.tla (CSS Syntax 3 identifier
tokenizer as a state machine), theorem T-EscapeRoundTrip in spec/MC_C10_RoundTrip.tla.

B1  MC_C10_build enumerates every string over the class alphabet up to a length, checks the theorem on the
    model and emits (s, Escape(s)) for three concretisations of each string; each is replayed into the real
    escape / compile / select.  MC_C10_lex explores the tokenizer as an explicit state machine.
B2  seeded random longer identifiers through the real code, recorded as ndjson, judged by Trace_C10.tla.

Gate (the property as worded): escape never raises; '#'/'.'/'[a=' + escape(s) compile to exactly one id / class /
attribute value equal to s with NUL -> U+FFFD and nothing else; on a probe document exactly the intended elements
are selected; a following ' > b', ' b', ', c' keeps its meaning.  Not gated (drift): escape(s) differing from the
CSSOM text byte for byte; the reference tokenizer disagreeing about a recorded escape(s).
"""
from __future__ import annotations
import json
import multiprocessing as mp
import os
import random
import re
import tempfile
import warnings

from harness import common, tlc

# ---------------------------------------------------------------------------------------------
# class alphabet: (representative used by TLC, members the harness may substitute)
# ---------------------------------------------------------------------------------------------


def _r(a, b):
    return list(range(a, b + 1))


def _o(chars):
    return [ord(c) for c in chars]


CLASSES = [
    (0x00, [0x00]),                                   # NUL
    (0x01, _r(1, 8) + [0x0B] + _r(0x0E, 0x1F)),       # C0 controls that are not whitespace
    (0x09, [0x09]),                                   # tab
    (0x0A, [0x0A, 0x0C, 0x0D]),                       # newlines
    (0x20, [0x20]),                                   # space
    (0x22, _o('!"$%&\'')),                            # quotes and other delimiters
    (0x23, _o('#()*+,')),                             # hash, parentheses, combinators
    (0x2D, [0x2D]),                                   # -
    (0x2E, _o('./')),                                 # .
    (0x37, _o('0123456789')),                         # digits
    (0x3A, _o(':;<=>?@')),                            # colon ...
    (0x66, _o('abcdef')),                             # lower-case hex letters
    (0x46, _o('ABCDEF')),                             # upper-case hex letters
    (0x67, _r(0x67, 0x7A)),                           # other lower-case letters
    (0x47, _r(0x47, 0x5A)),                           # other upper-case letters
    (0x5C, [0x5C]),                                   # backslash
    (0x5D, _o('[]^`')),                               # brackets
    (0x5F, [0x5F]),                                   # _
    (0x7E, _o('{|}~')),                               # braces, tilde
    (0x7F, [0x7F]),                                   # DEL
    (0x80, _r(0x80, 0x9E)),                           # C1 controls
    (0x9F, _r(0x81, 0x9F)),                           # C1 controls (upper end)
    (0xA0, _r(0xA0, 0x2FF)),                          # Latin-1 and neighbours
    (0x4E2D, _r(0x300, 0xD7FF) + _r(0xE000, 0xFFFF)),  # rest of the BMP
    (0xD800, _r(0xD800, 0xDFFF)),                     # lone surrogates
    (0x1F600, _r(0x10000, 0x10FFFF)),                 # astral planes
]
FULL = [c for c, _ in CLASSES]
# fewer classes for the longest strings: every Escape case and every tokenizer state is still reached
REDUCED = [0x00, 0x01, 0x20, 0x2D, 0x37, 0x66, 0x5C, 0x7F, 0x80, 0x1F600]
SMALL = [0x00, 0x01, 0x0A, 0x2D, 0x37, 0x66, 0x5C, 0x5D, 0x9F, 0xD800]


def alt_table(seed):
    rng = random.Random(seed * 104729 + 10)
    rows = []
    for rep, members in CLASSES:
        a = [rng.choice(members), rng.choice(members)]
        # make sure the extremes of the interesting ranges are seen with every seed
        if rep == 0x80:
            a[1] = 0x80 + (seed % 2)
        if rep == 0x9F:
            a[0] = 0x9F - (seed % 2)
        if rep == 0x1F600:
            a[1] = 0x10FFFF
        rows.append({'r': rep, 'a': a})
    return rows


# ---------------------------------------------------------------------------------------------
# the real code on one identifier
# ---------------------------------------------------------------------------------------------

_G = {}
ASCII_WS = ' \t\r\n\f'


def _init():
    warnings.simplefilter('ignore')
    sv, bs4 = common.import_repo()
    _G['sv'] = sv
    _G['bs4'] = bs4


def asc(x):
    """ASCII-only rendering (lone surrogates and controls cannot be printed)"""
    if isinstance(x, str):
        x = x.encode('ascii', 'backslashreplace').decode('ascii')
        return ''.join(c if ' ' <= c <= '~' else '\\x%02x' % ord(c) for c in x)
    if isinstance(x, (list, tuple)):
        return [asc(v) for v in x]
    if isinstance(x, dict):
        return {k: asc(v) for k, v in x.items()}
    return x


def _err(e):
    return asc('%s: %s' % (type(e).__name__, str(e).split('\n')[0]))


def show(s):
    """readable rendering of a string with arbitrary code points"""
    return ' '.join('U+%04X' % ord(c) for c in s) if not isinstance(s, list) else ' '.join('U+%04X' % c for c in s)


def ascii_swap(s):
    return ''.join(c.swapcase() if c.isascii() else c for c in s)


def _unre(p):
    """inverse of re.escape on '^' + re.escape(value) + END, END being the end-of-value anchor the library uses ('\\Z' since F01d, '$' before)"""
    if p.startswith('^') and p.endswith('\\Z'):
        body = p[1:-2]
    elif p.startswith('^') and p.endswith('$'):
        body = p[1:-1]
    else:
        return None
    out = []
    i = 0
    while i < len(body):
        if body[i] == '\\':
            i += 1
            if i >= len(body):
                return None
        out.append(body[i])
        i += 1
    return ''.join(out)


def shape(x):
    """normal form of a compiled compound: what it holds"""
    tag = x.tag
    t = None
    if tag is not None and not (tag.name == '*' and tag.prefix is None):
        t = '%s|%s' % (tag.prefix, tag.name) if tag.prefix is not None else tag.name
    d = {'tag': t, 'ids': list(x.ids), 'classes': list(x.classes),
         'attrs': [[a.attribute, a.prefix, _unre(a.pattern.pattern) if a.pattern is not None else None,
                    a.xml_type_pattern is not None] for a in x.attributes],
         'other': bool(x.nth or x.selectors or x.contains or x.lang or x.flags),
         'rel_type': x.rel_type, 'rel': [shape(r) for r in x.relation]}
    return d


def want_shape(tag=None, ids=(), classes=(), attrs=(), rel_type=None, rel=()):
    return {'tag': tag, 'ids': list(ids), 'classes': list(classes),
            'attrs': [['a', '', v, False] for v in attrs], 'other': False, 'rel_type': rel_type, 'rel': list(rel)}


def examine(s):
    """Run the real escape / compile / select on identifier s.  Returns the event record (strings, not yet
    code points) with `problems`: list of (kind, selector, text) - everything C10 does not admit."""
    sv, bs4 = _G['sv'], _G['bs4']
    sp = s.replace('\x00', '\ufffd')
    ev = {'s': s, 'esc': '', 'exc': '', 'ids': [], 'classes': [], 'attrs': [], 'clean': True, 'sel': True,
          'problems': [], 'calls': 0}
    pr = ev['problems']
    try:
        e = sv.escape(s)
    except Exception as ex:
        ev['exc'] = 'escape: ' + _err(ex)
        ev['clean'] = ev['sel'] = False
        pr.append(('escape-raises', 'escape', ev['exc']))
        return ev
    ev['esc'] = e
    ev['calls'] += 1

    # -- the probe document -------------------------------------------------------------------
    soup = bs4.BeautifulSoup('', 'html.parser')
    root = soup.new_tag('div')
    soup.append(root)
    label = {}

    def add(parent, name, lab, **attrs):
        t = soup.new_tag(name)
        for k, v in attrs.items():
            t.attrs['class' if k == 'cls' else k] = v
        parent.append(t)
        label[id(t)] = lab
        return t

    near = []
    for v in (sp + 'x', 'x' + sp, ascii_swap(sp), sp[:-1], s):
        if v != sp and v not in near:
            near.append(v)
    vals = [sp] + near
    for j, v in enumerate(vals):
        p = add(root, 'p', 'id%d' % j, id=v)
        add(p, 'b', 'id%d/b' % j)
        i = add(p, 'i', 'id%d/i' % j)
        add(i, 'b', 'id%d/i/b' % j)
        add(root, 'p', 'cls%d' % j, cls=[v])
        add(root, 'p', 'attr%d' % j, a=v)
    single_token = not any(c in ASCII_WS for c in sp) and sp != ''
    if single_token:
        add(root, 'p', 'clsS', cls=sp)            # class attribute as a string: one token
    add(root, 'p', 'clsM', cls=['k', sp, 'm'])     # among other classes
    add(root, 'b', 'b')
    add(root, 'a', 'a0', cls=[sp])
    add(root, 'a', 'a1', cls=[sp + 'x'])
    add(root, 'a', 'a2')
    add(root, 'c', 'c0')
    add(root, 'c', 'c1', cls=[sp])
    add(root, 'p', 'both', a=sp, cls=[sp])
    add(root, 'p', 'both1', a=sp + 'x', cls=[sp])
    add(root, 'p', 'both2', a=sp, cls=['x' + sp])

    cls_hits = ['cls0', 'clsM', 'a0', 'c1', 'both', 'both1'] + (['clsS'] if single_token else [])
    probes = [
        ('id', '#' + e, [want_shape(ids=[sp])], ['id0']),
        ('class', '.' + e, [want_shape(classes=[sp])], cls_hits),
        ('attr', '[a=' + e + ']', [want_shape(attrs=[sp])], ['attr0', 'both', 'both2']),
        ('ctx-child', '#' + e + ' > b', [want_shape(tag='b', rel=[want_shape(ids=[sp], rel_type='>')])], ['id0/b']),
        ('ctx-desc', '#' + e + ' b', [want_shape(tag='b', rel=[want_shape(ids=[sp], rel_type=' ')])],
         ['id0/b', 'id0/i/b']),
        ('ctx-list', 'a.' + e + ', c', [want_shape(tag='a', classes=[sp]), want_shape(tag='c')], ['a0', 'c0', 'c1']),
        ('ctx-attr-flag', '[a=' + e + ' s].' + e, [want_shape(attrs=[sp], classes=[sp])], ['both']),
    ]
    failed_ident = False
    for kind, css, want, hits in probes:
        basic = kind in ('id', 'class', 'attr')
        if failed_ident and 'attr' in kind and len(s) > 8:
            # When the parser rejects escape(s) as an identifier, the attribute pattern (IDENTIFIER+ followed by
            # "]") backtracks exponentially in the length of s before failing (finding F07, property C07).  The
            # violation for this s is already recorded from '#' / '.'; do not hang the check on long strings.
            ev['clean'] = ev['sel'] = False
            continue
        try:
            c = sv.compile(css)
            ev['calls'] += 1
        except Exception as ex:
            msg = _err(ex)
            pr.append((kind + ':compile-raises', asc(css), msg))
            if basic and not ev['exc']:
                ev['exc'] = 'compile(%s): %s' % (kind, msg)
            if kind in ('id', 'class'):
                failed_ident = True
            ev['clean'] = ev['sel'] = False
            continue
        got = [shape(x) for x in c.selectors]
        if kind == 'id':
            ev['ids'] = [i for g in got for i in g['ids']]
        elif kind == 'class':
            ev['classes'] = [i for g in got for i in g['classes']]
        elif kind == 'attr':
            ev['attrs'] = [a[2] if a[2] is not None else '' for g in got for a in g['attrs']]
        if got != want:
            ev['clean'] = False
            pr.append((kind + ':structure', asc(css), asc('compiled to %r, expected %r' % (got, want))))
        try:
            res = sorted(label.get(id(t), '?') for t in c.select(soup))
            ev['calls'] += 1
        except Exception as ex:
            pr.append((kind + ':select-raises', asc(css), _err(ex)))
            ev['sel'] = False
            continue
        if res != sorted(hits):
            ev['sel'] = False
            pr.append((kind + ':select', asc(css), 'selected %r, expected %r' % (res, sorted(hits))))
    return ev


def to_event(eid, ev):
    return {'id': eid, 's': common.cps(ev['s']), 'esc': common.cps(ev['esc']), 'exc': ev['exc'],
            'ids': [common.cps(v) for v in ev['ids']], 'classes': [common.cps(v) for v in ev['classes']],
            'attrs': [common.cps(v) for v in ev['attrs']], 'clean': ev['clean'], 'sel': ev['sel']}


# ---------------------------------------------------------------------------------------------
# B1: replay of TLC-emitted (s, Escape(s))
# ---------------------------------------------------------------------------------------------

def _work_b1(chunk):
    """chunk: list of emitted states {c: [s0, s1, s2], e: [Escape(s0), ...]}"""
    out = []       # (s cps, kind, css, text)
    drift = []
    ncases = ncalls = 0
    samps = []
    for st in chunk:
        seen = set()
        for s_cp, e_cp in zip(st['c'], st['e']):
            key = tuple(s_cp)
            if key in seen:
                continue
            seen.add(key)
            s = common.st(s_cp)
            ev = examine(s)
            ncases += 1
            ncalls += ev['calls']
            if not ev['exc'].startswith('escape') and common.cps(ev['esc']) != e_cp:
                drift.append({'s': show(s_cp), 'escape': asc(ev['esc']), 'cssom': asc(common.st(e_cp))})
            for kind, css, text in ev['problems'][:3]:
                out.append((s_cp, kind, css, text))
            h = ((sum((i + 3) * c for i, c in enumerate(s_cp)) + 977 * len(s_cp) + 131) * 2654435761) % 1000003
            if h % 499 == 0 and len(samps) < 4:
                samps.append(asc({'s': show(s_cp), 'spec_escape': common.st(e_cp), 'escape': ev['esc'],
                                  'ids': ev['ids'], 'clean': ev['clean'], 'sel': ev['sel'], 'h': h}))
    return out, drift, ncases, ncalls, samps


def group_of(s_cp):
    """which class of code point is likely responsible (for the summary only)"""
    tags = []
    if any(0x80 <= c <= 0x9F for c in s_cp):
        tags.append('has U+0080-009F')
    if any(c == 0 for c in s_cp):
        tags.append('has NUL')
    if any(0xD800 <= c <= 0xDFFF for c in s_cp):
        tags.append('has surrogate')
    return ','.join(tags) or 'other'


class B1:
    def __init__(self, chk, label, procs=16, chunk=64):
        self.chk, self.label, self.chunk = chk, label, chunk
        self.pool = mp.get_context('fork').Pool(procs, initializer=_init)
        self.pending = []
        self.buf = []
        self.nstates = 0

    def on_line(self, val):
        if not isinstance(val, dict) or 'c' not in val:
            return
        self.buf.append(val)
        self.nstates += 1
        if len(self.buf) >= self.chunk:
            self.flush()

    def flush(self):
        if self.buf:
            self.pending.append(self.pool.apply_async(_work_b1, (self.buf,)))
            self.buf = []

    def finish(self):
        """Everything reported is chosen by content (smallest strings first), never by the order in which TLC's
        workers happened to emit the states, so that a run is reproducible."""
        self.flush()
        chk = self.chk
        per_group = {}
        kept = {}          # group -> list of (sort key, s_cp, kind, css, text), bounded
        drifts = []
        samples = []
        ndrift = 0
        cap = 400
        for p in self.pending:
            try:
                out, drift, ncases, ncalls, samps = p.get(timeout=900)
            except mp.TimeoutError:
                chk.machinery('%s: a replay worker did not finish in 900 s' % self.label)
                self.pool.terminate()
                return
            chk.count(ncalls, traces=ncases)
            chk.add_distinct(ncases)
            samples += samps
            drifts += drift
            ndrift += len(drift)
            if len(drifts) > 4000:
                drifts = sorted(drifts, key=lambda d: (len(d['s']), d['s']))[:200]
            for s_cp, kind, css, text in out:
                g = '%s (%s)' % (kind, group_of(s_cp))
                per_group[g] = per_group.get(g, 0) + 1
                lst = kept.setdefault(g, [])
                lst.append(((len(s_cp), s_cp), s_cp, kind, css, text))
                if len(lst) > 4 * cap:
                    lst.sort(key=lambda r: r[0])
                    del lst[cap:]
        self.pool.close()
        self.pool.join()
        for samp in sorted(samples, key=lambda d: (d['h'], d['s']))[:4]:
            del samp['h']
            samp['cfg'] = self.label
            chk.sample(samp, cap=8)
        for d in sorted(drifts, key=lambda d: (len(d['s']), d['s']))[:200]:
            d['cfg'] = self.label
            d['what'] = 'escape(s) is not the CSSOM serialization'
            chk.drift.append(d)
        for g in sorted(kept):
            for _, s_cp, kind, css, text in sorted(kept[g], key=lambda r: r[0])[:cap]:
                chk.violation('%s|%s|%s' % (self.label, kind, show(s_cp)),
                              '%s s=[%s] selector %r: %s' % (kind, show(s_cp), css, text),
                              {'cfg': self.label, 'group': g, 's': s_cp, 'selector_text': css, 'kind': kind,
                               'observed': text})
        if ndrift:
            chk.notes.setdefault('drift_total', {})[self.label] = ndrift
        if per_group:
            chk.notes.setdefault('violations_by_group', {})[self.label] = dict(sorted(per_group.items()))
            chk.notes.setdefault('violations_total', {})[self.label] = sum(per_group.values())
        if self.nstates == 0:
            chk.machinery('%s: TLC emitted no states' % self.label)


def _write_cfg(path, consts, invariants):
    with open(path, 'w') as f:
        f.write('CONSTANTS\n')
        for k, v in consts.items():
            f.write('  %s = %s\n' % (k, v))
        f.write('INIT Init\nNEXT Next\n')
        for inv in invariants:
            f.write('INVARIANT %s\n' % inv)
        f.write('CHECK_DEADLOCK FALSE\n')


def _set(alpha):
    return '{' + ', '.join(str(c) for c in alpha) + '}'


def run_model(chk, tmpd, module, label, consts, invariants, env=None, replay=False, timeout=3000):
    cfg = os.path.join(tmpd, label)
    _write_cfg(cfg + '.cfg', consts, invariants)
    b1 = B1(chk, label) if replay else None
    try:
        res = tlc.run(module, cfg=cfg, env=env, timeout=timeout, keep_stdout=False,
                      line_cb=b1.on_line if b1 else None)
    except tlc.TLCError as e:
        chk.machinery('%s: %s' % (label, str(e)[-1500:]))
        if b1:
            b1.finish()
        return None
    if res.violation:
        chk.violation('%s|spec|%s' % (label, res.violated_name),
                      'design-level theorem %s violated in %s' % (res.violated_name, label),
                      {'cfg': label, 'group': 'spec theorem', 'tlc': res.counterexample[:4000]})
    chk.add_tlc(res, label)
    if b1:
        b1.finish()
    return res


# ---------------------------------------------------------------------------------------------
# B2: random identifiers through the real code, judged by Trace_C10
# ---------------------------------------------------------------------------------------------

def rand_ident(rng):
    n = rng.randint(5, 30)
    out = []
    for _ in range(n):
        r = rng.random()
        if r < 0.55:
            out.append(rng.choice(rng.choice(CLASSES)[1]))
        elif r < 0.75:
            out.append(rng.randrange(0, 0x80))
        elif r < 0.85:
            out.append(rng.randrange(0x80, 0x100))
        else:
            out.append(rng.randrange(0, 0x110000))
    # favour the positions the property names: first, after a leading '-'
    r = rng.random()
    if r < 0.25:
        out[0] = 0x2D
        if rng.random() < 0.6:
            out[1] = rng.choice(_o('0123456789-') + [0, 1, 0x5C, 0x80])
    elif r < 0.4:
        out[0] = rng.choice(_o('0123456789'))
    return out


def _work_b2(jobs):
    _init()
    lines = []
    detail = {}
    ncalls = 0
    for eid, s_cp in jobs:
        ev = examine(common.st(s_cp))
        ncalls += ev['calls']
        lines.append(json.dumps(to_event(eid, ev)))
        if ev['problems']:
            detail[eid] = ev['problems'][:3]
    return lines, detail, ncalls


_RE_VERDICT = re.compile(r'^<<"(REJECT|DRIFT)", "([^"]*)"(?:, (.*))?>>$')


def _validate_one(args):
    path, n = args
    try:
        res = tlc.run('Trace_C10', workers=1, env={'TRACE_FILE': path}, timeout=1800)
    except tlc.TLCError as e:
        return None, str(e)[-1500:]
    verdicts = []
    for t in res.tuples:
        m = _RE_VERDICT.match(t)
        if m:
            verdicts.append((m.group(1), m.group(2), m.group(3)))
    if res.violation:
        return None, 'trace not fully consumed / TLC error: %s' % res.violation
    if res.distinct != n + 1:
        return None, 'expected %d states, got %d' % (n + 1, res.distinct)
    return (res.distinct, res.generated, verdicts), None


def trace_part(chk, tier, tmpd):
    rng = random.Random(common.SEED * 7919 + 10)
    n = 3000 if tier == 'quick' else 60000
    jobs = [('e%d' % k, rand_ident(rng)) for k in range(n)]
    procs = 16
    ctx = mp.get_context('fork')
    with ctx.Pool(procs) as pool:
        outs = pool.map(_work_b2, [jobs[i::procs] for i in range(procs)])
    lines, detail = [], {}
    for ls, d, ncalls in outs:
        lines += ls
        detail.update(d)
        chk.count(ncalls)
    lines.sort(key=lambda l: int(json.loads(l)['id'][1:]))
    events = {}
    for l in lines:
        e = json.loads(l)
        events[e['id']] = e
    batch = 2000
    files = []
    for b in range(0, len(lines), batch):
        path = os.path.join(tmpd, 'trace%d.ndjson' % b)
        with open(path, 'w') as f:
            f.write('\n'.join(lines[b:b + batch]) + '\n')
        files.append((path, len(lines[b:b + batch])))
    with ctx.Pool(min(8, len(files))) as pool:
        results = pool.map(_validate_one, files)
    label = 'trace-c10'
    per_group = {}
    for r, err in results:
        if err:
            chk.machinery('%s: %s' % (label, err))
            continue
        distinct, generated, verdicts = r
        chk.coverage['states'] += distinct
        chk.coverage['transitions'] += generated
        for verdict, eid, rest in verdicts:
            e = events.get(eid, {})
            if verdict == 'DRIFT':
                chk.drift.append({'cfg': label, 'event': eid, 's': show(e.get('s', [])),
                                  'escape': asc(common.st(e.get('esc', []))), 'what': rest})
                continue
            probs = detail.get(eid) or [('rejected', '', 'TLC rejected the event')]
            kind, css, text = probs[0]
            g = '%s (%s)' % (kind, group_of(e.get('s', [])))
            per_group[g] = per_group.get(g, 0) + 1
            if per_group[g] > 400:
                continue
            chk.violation('%s|%s|%s' % (label, kind, show(e.get('s', []))),
                          asc('%s: s=[%s] escape=%r exc=%r ids=%r: %s %s; the specification admits only value %s' % (
                              label, show(e.get('s', [])), common.st(e.get('esc', [])), e.get('exc'),
                              [common.st(v) for v in e.get('ids', [])], css, text, rest)),
                          {'cfg': label, 'group': g, 's': e.get('s'), 'event': e, 'kind': kind,
                           'selector_text': css, 'observed': text})
    if per_group:
        chk.notes.setdefault('violations_by_group', {})[label] = per_group
    chk.count(0, traces=len(lines))
    for l in lines:
        e = json.loads(l)
        chk.nontrivial(l)
    e = json.loads(lines[0])
    chk.sample(asc({'trace_event': {'s': show(e['s']), 'escape': common.st(e['esc']),
                                    'ids': [common.st(v) for v in e['ids']],
                                    'clean': e['clean'], 'sel': e['sel'], 'exc': e['exc']}}), cap=8)


# ---------------------------------------------------------------------------------------------

def main(tier):
    chk = common.Check('C10', tier)
    chk.assumptions += [
        'Escape.tla is trusted as the reading of CSSOM serialize-an-identifier, IdentLex.tla as the reading of '
        'CSS Syntax 3 (consume an ident sequence / an escaped code point)',
        'the empty identifier is outside the property (escape("") is the empty text, not an identifier)',
        'probe documents are built through the bs4 API (html.parser soup, new_tag, attrs[...] = value)',
        'code points of one class (see CLASSES in checks/c10.py) behave alike; three members per class are run',
    ]
    rdir = os.path.join(common.VERIF, 'replays', 'C10')      # replay files of earlier runs are stale
    if os.path.isdir(rdir):
        for f in os.listdir(rdir):
            if f.endswith('.json'):
                os.remove(os.path.join(rdir, f))
    tmpd = tempfile.mkdtemp(prefix='verif_c10_')
    try:
        alt = os.path.join(tmpd, 'alt.ndjson')
        with open(alt, 'w') as f:
            for row in alt_table(common.SEED):
                f.write(json.dumps(row) + '\n')
        env = {'C10_ALT': alt}
        lex_inv = ('TypeOK', 'AtDone', 'RunAgrees')
        bld_inv = ('Theorem', 'TheoremImpl', 'Emit')
        if tier == 'quick':
            run_model(chk, tmpd, 'MC_C10_lex', 'lex2', {'MaxLen': 2, 'Alphabet': _set(FULL)}, lex_inv)
            run_model(chk, tmpd, 'MC_C10_build', 'build3', {'MaxLen': 3, 'MinEmit': 1, 'Alphabet': _set(FULL)},
                      bld_inv, env=env, replay=True)
        else:
            run_model(chk, tmpd, 'MC_C10_lex', 'lex3', {'MaxLen': 3, 'Alphabet': _set(FULL)}, lex_inv)
            run_model(chk, tmpd, 'MC_C10_lex', 'lex4s', {'MaxLen': 4, 'Alphabet': _set(SMALL)}, lex_inv)
            run_model(chk, tmpd, 'MC_C10_build', 'build4', {'MaxLen': 4, 'MinEmit': 1, 'Alphabet': _set(FULL)},
                      bld_inv, env=env, replay=True)
            run_model(chk, tmpd, 'MC_C10_build', 'build5r', {'MaxLen': 5, 'MinEmit': 5, 'Alphabet': _set(REDUCED)},
                      bld_inv, env=env, replay=True)
        trace_part(chk, tier, tmpd)
    finally:
        for f in os.listdir(tmpd):
            os.remove(os.path.join(tmpd, f))
        os.rmdir(tmpd)
    return chk.finish()


def replay(path):
    """./check C10 --replay replays/C10/<hash>.json : rerun one recorded case on the code under test"""
    case = json.load(open(path))['case']
    _init()
    s_cp = case.get('s') or case.get('event', {}).get('s')
    if s_cp is None:
        print('C10 replay: the case is a specification-level finding:\n%s' % case.get('tlc', ''))
        return 1
    ev = examine(common.st(s_cp))
    print('s = [%s]  escape(s) = %s' % (show(s_cp), asc(repr(ev['esc']))))
    for kind, css, text in ev['problems']:
        print('  %s  %r: %s' % (kind, css, text))
    if ev['problems']:
        print('VIOLATION property=C10 replay=%s' % path)
        return 1
    print('C10 replay: holds on this case')
    return 0
