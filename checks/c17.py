"""C17 - HTML state pseudo-classes follow their definitions and partition laws.

B1 (spec -> code): TLC enumerates documents with the builder actions of the MC_C17_* modules and
evaluates HtmlState.tla over a pool of state pseudo-classes; every emitted document is replayed into
soupsieve.select and compared (harness.replay).
B2 (code -> spec): seeded random form documents, built through the bs4 API and re-parsed from their
markup by html.parser, lxml and html5lib; the real select of every state pseudo-class is recorded per
document and Trace_C17.tla decides the partition laws over the recorded sets (law:*) and the
definitions (def:*).

Readings.  HtmlState.tla carries, next to the definitions, two labelled alternative readings
(selector record field alt): the form-owner reading of "first submit button in each form" for
:default (StateHolds itself uses the rule the library documents for nested forms; where the two
differ is recorded as drift) and a coarser :dir() (accepted, recorded as drift).  They
sit in the pools as the compound *:default / *:dir(x), so that the shared replay
machinery reports on them separately; the Router below uses those reports only to label."""
from __future__ import annotations
import json
import multiprocessing as mp
import random
import warnings

from harness import common, dom, replay, trace

ALT_ONLY = {'*:default', '*:dir(ltr)', '*:dir(rtl)'}
KINDS = ['checked', 'default', 'indeterminate', 'enabled', 'disabled', 'required', 'optional', 'read-write',
         'read-only', 'placeholder-shown', 'link', 'any-link', 'defined', 'in-range', 'out-of-range']
SELECTORS = {k: ':' + k for k in KINDS}
SELECTORS['dir-ltr'] = ':dir(ltr)'
SELECTORS['dir-rtl'] = ':dir(rtl)'


# ---------------------------------------------------------------------------------------------
# Router: stands in for the Check object during one run (own counters, so that runs can go side
# by side in processes), then sorts the reports into violations / drift and merges into the Check.
# ---------------------------------------------------------------------------------------------
class Router:
    def __init__(self, label):
        self.label = label
        self.reports = []
        self.coverage = {'states': 0, 'transitions': 0}
        self.tlc = []
        self.counts = [0, 0, 0]
        self.samples = []
        self.machinery_errors = []
        self.error = None
        self.c08 = []

    def violation(self, key, what, case):
        self.reports.append((key, what, case))

    def count(self, n=1, traces=0):
        self.counts[0] += n
        self.counts[1] += traces

    def add_distinct(self, n):
        self.counts[2] += n

    def nontrivial(self, key):
        self.counts[2] += 1

    def sample(self, case, cap=8):
        if len(self.samples) < 2:
            self.samples.append(case)

    def add_tlc(self, res, name=None):
        self.tlc.append((res, name))

    def machinery(self, msg):
        self.machinery_errors.append(msg)

    # -- sorting ------------------------------------------------------------------------------
    def merge(self, chk, drift):
        chk.coverage['states'] += self.coverage['states']
        chk.coverage['transitions'] += self.coverage['transitions']
        for res, name in self.tlc:
            chk.add_tlc(res, name)
        chk.count(self.counts[0], traces=self.counts[1])
        chk.add_distinct(self.counts[2])
        for s in self.samples:
            chk.sample(s, cap=14)
        for m in self.machinery_errors:
            chk.machinery(m)
        if self.error:
            chk.machinery('%s: %s' % (self.label, self.error))
        if self.c08:
            d = drift.setdefault((':in-range', 'C08'), {
                'selector': ':in-range / :out-of-range', 'count': 0, 'cfgs': [self.label], 'example': str(self.c08[0]),
                'class': 'C08: any type-less <input> in the document makes the range pseudo-classes raise TypeError; '
                         'the range law is vacuous for these documents'})
            d['count'] += len({n[2] for n in self.c08})      # documents (events), not select calls
        # which selectors disagree on which document (B1 reports)
        bad = {}
        for key, what, case in self.reports:
            if 'doc' in case and 'selector' in case:
                bad.setdefault(json.dumps(case['doc'], sort_keys=True), set()).add(case['selector'])
        for key, what, case in self.reports:
            if 'event' in case:
                self._trace_report(chk, drift, key, what, case)
                continue
            css = case.get('selector')
            if css is None or 'doc' not in case:          # design-level theorem of the model violated
                chk.violation(key, what, case)
                continue
            if css == '*:default':
                if ':default' not in bad[json.dumps(case['doc'], sort_keys=True)]:
                    add_drift(drift, self.label, ':default', NESTED, what)
                continue
            if css in ALT_ONLY:
                continue
            others = bad[json.dumps(case['doc'], sort_keys=True)]
            if css.startswith(':dir(') and ('*' + css) not in others:
                add_drift(drift, self.label, css, 'code follows the coarser reading of :dir() (top-level bdi without dir is '
                          'ltr / a type-less input[dir=auto] does not look at its value / no direction through '
                          'foreign elements)', what)
                continue
            chk.violation(key, what, case)

    def _trace_report(self, chk, drift, key, what, case):
        e = case['event']
        name = (case.get('spec_expected') or '').strip().strip('"')
        brief = replay.doc_brief(e['doc'])
        rec = {k: v for k, v in e['r'].items()}
        if name.startswith('law:'):
            what = '%s %s: partition law %s fails on the recorded results of %s: %s' % (
                self.label, e['id'], name[4:], brief, law_excerpt(name[4:], rec))
            chk.violation('%s|%s|%s' % (self.label, name, brief), what,
                          {'cfg': self.label, 'selector': name, 'event': e})
            return
        parts = name.split(':')
        kind = parts[1] if len(parts) > 1 else name
        lab = parts[2] if len(parts) > 2 else ''
        css = SELECTORS.get(kind, kind)
        what = '%s %s: select(%r) = %r on %s is not the set the definition designates%s' % (
            self.label, e['id'], css, rec.get(kind), brief,
            {'owner': ' [it is the set the documented nested-form rule designates, not the form-owner reading]',
             'lib': ' [equals the coarser reading of :dir()]'}.get(lab, ''))
        if lab == 'lib':
            add_drift(drift, self.label, css, 'code follows the coarser reading of :dir()', what)
            return
        if lab == 'owner':
            add_drift(drift, self.label, css, NESTED, what)
            return
        chk.violation('%s|def:%s|%s' % (self.label, kind, brief), what,
                      {'cfg': self.label, 'selector': css, 'event': e})


NESTED = ('nested forms: the code follows the rule its test-suite documents (a form that meets a nested form has no '
          'default button from there on), which departs from the form-owner reading of the HTML standard')


def law_excerpt(name, rec):
    ks = {'EnabledDisabled': ['enabled', 'disabled'], 'RequiredOptional': ['required', 'optional'],
          'ReadWriteOnly': ['read-write', 'read-only'], 'Range': ['in-range', 'out-of-range'],
          'Link': ['link', 'any-link'], 'CheckedDefault': ['checked', 'default'], 'Dir': ['dir-ltr', 'dir-rtl']}
    return ', '.join('%s=%r' % (k, rec.get(k)) for k in ks.get(name, []))


def add_drift(drift, label, css, cls, example):
    d = drift.setdefault((css, cls), {'selector': css, 'class': cls, 'count': 0, 'cfgs': [], 'example': example[:300]})
    d['count'] += 1
    if label not in d['cfgs']:
        d['cfgs'].append(label)


# ---------------------------------------------------------------------------------------------
# B2: random form documents
# ---------------------------------------------------------------------------------------------
TYPES = ['text', 'TEXT', 'checkbox', 'radio', 'radio', 'Radio', 'submit', 'submit', 'number', 'number', 'hidden',
         'HIDDEN', 'date', 'tel', 'search', 'password', 'junk', '']
CONTAINERS = ['form', 'form', 'fieldset', 'fieldset', 'legend', 'div', 'div', 'select', 'optgroup', 'bdi', 'iframe', 'a',
              'label']
LEAVES = ['input'] * 8 + ['button', 'button', 'option', 'option', 'textarea', 'textarea', 'progress', 'area', 'text', 'text']
TEXTS = ['a', 'א', ' 1', '\n', 'bא', ' ']


def _at(k, v=''):
    return {'k': common.cps(k), 'ns': [], 'local': common.cps(k), 'v': common.cps(v), 'list': False}


def rand_attrs(rng, name, typed=False):
    at = []

    def maybe(p, k, vals=('',)):
        if rng.random() < p:
            at.append(_at(k, rng.choice(vals)))
    if name == 'input':
        if typed or rng.random() < 0.8:
            at.append(_at('type', rng.choice(TYPES)))
        ty = common.st(at[0]['v']).lower() if at else None
        maybe(0.45, 'name', ('g', 'h', ''))
        maybe(0.3, 'checked')
        maybe(0.2, 'disabled')
        maybe(0.15, 'readonly')
        maybe(0.25, 'required')
        maybe(0.15, 'indeterminate')
        maybe(0.3, 'placeholder', ('', 'p'))
        maybe(0.35, 'value', ('', 'v', 'א', '3', '9', ' 1'))
        if ty in ('number', 'date'):
            if ty == 'number' and not any(common.st(a['k']) == 'value' for a in at):
                maybe(0.7, 'value', ('0', '3', '9'))
            maybe(0.6, 'min', ('1', 'x', '2020-01-01'))
            maybe(0.6, 'max', ('5', '', '2021-01-01'))
    elif name == 'button':
        maybe(0.6, 'type', ('submit', 'SUBMIT', 'button', 'reset'))
        maybe(0.2, 'disabled')
    elif name == 'textarea':
        maybe(0.2, 'disabled')
        maybe(0.2, 'readonly')
        maybe(0.3, 'required')
        maybe(0.5, 'placeholder', ('', 'p'))
    elif name == 'select':
        maybe(0.2, 'disabled')
        maybe(0.3, 'required')
    elif name in ('fieldset', 'optgroup'):
        maybe(0.45, 'disabled')
    elif name == 'option':
        maybe(0.3, 'selected')
        maybe(0.2, 'disabled')
    elif name == 'progress':
        maybe(0.5, 'value', ('1', ''))
    elif name in ('a', 'area'):
        maybe(0.6, 'href', ('', '#x'))
    if name not in ('iframe', 'option', 'optgroup', 'select', 'progress', 'area'):
        maybe(0.18, 'dir', ('ltr', 'rtl', 'RTL', 'auto', 'auto', 'junk'))
        maybe(0.08, 'contenteditable', ('', 'true', 'TRUE', 'false', 'junk'))
    # type-less input[dir=auto] is where the two readings of :dir() differ; keep it rare but present
    return at


def rand_form_doc(rng, nmax):
    """abstract document (Dom.tla JSON), rooted in one div; an iframe holds one container child"""
    d = {'parent': [], 'kind': [], 'name': [], 'ns': [], 'pfx': [], 'attrs': [], 'text': [], 'top': 'doc', 'xml': False}

    def add(p, kind, name='', attrs=(), text=''):
        d['parent'].append(p)
        d['kind'].append(kind)
        d['name'].append(common.cps(name))
        d['ns'].append([])
        d['pfx'].append([])
        d['attrs'].append(list(attrs))
        d['text'].append(common.cps(text))
        return len(d['parent'])
    n = rng.randint(6, nmax)
    typed = rng.random() < 0.4          # every input typed: the range pseudo-classes are usable (C08)
    root = add(0, 'e', 'div', rand_attrs(rng, 'div') if rng.random() < 0.3 else [])
    spine = [root]                       # open containers, innermost last
    nkids = {root: 0}
    last_text = {}
    while len(d['parent']) < n:
        # pick an open container, preferring deep ones; close the ones after it
        idx = rng.choice(list(range(len(spine))) + [len(spine) - 1] * 2)
        spine = spine[:idx + 1]
        p = spine[-1]
        pname = common.st(d['name'][p - 1])
        if pname == 'iframe':
            if nkids[p] >= 1:
                spine = spine[:-1] or [root]
                continue
            name = rng.choice(['div', 'form', 'div', 'input'])
        elif pname == 'textarea':
            name = 'text'
        else:
            name = rng.choice(CONTAINERS + LEAVES + LEAVES)
        if name == 'text':
            if last_text.get(p) == len(d['parent']):       # no two adjacent text nodes (parsers merge them)
                spine = spine[:-1] or [root]
                continue
            i = add(p, 't', text=rng.choice(TEXTS))
            last_text[p] = i
            nkids[p] += 1
            continue
        i = add(p, 'e', name, rand_attrs(rng, name, typed))
        nkids[p] += 1
        nkids[i] = 0
        if name in CONTAINERS or name in ('textarea', 'button', 'option'):
            if len(spine) < 5:
                spine.append(i)
    return d


def has_typeless_input(d):
    return any(k == 'e' and common.st(nm).lower() == 'input' and
               not any(common.st(a['k']).lower() == 'type' for a in at)
               for k, nm, at in zip(d['kind'], d['name'], d['attrs']))


def ev_id(eid, parser):
    return '%s.%s' % (eid, parser)


def _record(args):
    """worker: build / parse the documents, run the real selects, return ndjson lines"""
    jobs, = args
    warnings.simplefilter('ignore')
    sv, bs4 = common.import_repo()
    comp = {k: sv.compile(css) for k, css in SELECTORS.items()}
    lines = []
    notes = []
    for eid, d in jobs:
        container, nodes = dom.build(d, bs4)
        markup = container.decode()
        variants = [('api', d, container, nodes)]
        for parser in ('html.parser', 'lxml', 'html5lib'):
            soup = bs4.BeautifulSoup(markup, parser)
            pd, pnodes = dom.project(soup, bs4)
            variants.append((parser, pd, soup, pnodes))
        for parser, vd, cont, vnodes in variants:
            idmap = dom.ids_of(vnodes)
            r = {}
            exc = {}
            for k, obj in comp.items():
                try:
                    r[k] = [idmap.get(id(t), -1) for t in obj.select(cont)]
                except Exception as e:          # noqa: BLE001 - recorded, decided by the caller
                    exc[k] = '%s: %s' % (type(e).__name__, str(e).split('\n')[0])
                    if k in ('in-range', 'out-of-range') and isinstance(e, TypeError) and has_typeless_input(vd):
                        # C08's defect (any type-less input makes the range pseudo-classes raise):
                        # not this property's; the range law is vacuous for this document
                        r[k] = []
                        notes.append((k, exc[k], ev_id(eid, parser)))
                    else:
                        r[k] = [-2]     # fails the law "Elements" in Trace_C17
            ev = {'id': '%s.%s' % (eid, parser), 'doc': vd, 'r': r, 'css': 'state pseudo-classes', 'parser': parser}
            if exc:
                ev['excs'] = exc
            lines.append(json.dumps(ev))
    return lines, notes


def tail_docs():
    """the iframe boundary at the END of a subtree, systematically: form > (div)^w > iframe > (div | form)^c > leaf, followed - after the
    wrappers close - by controls of the outer form.  Whatever walks the outer form's descendants must step over the whole embedded
    document, however deep its last branch is, and continue with what follows the wrappers."""
    A = lambda k, v: {'k': common.cps(k), 'ns': [], 'local': common.cps(k), 'v': common.cps(v), 'list': False}  # noqa: E731
    leaves = [('input', [A('type', 'submit')]), ('input', [A('type', 'radio'), A('name', 'g')]), ('input', [A('type', 'radio'), A('name', 'g'), A('checked', '')]),
              ('button', [A('type', 'submit')])]
    docs = []
    for w in (0, 1, 2):
        for chain in (['div'], ['form'], ['div', 'div'], ['form', 'div'], ['div', 'div', 'div']):
            for li, (ln, la) in enumerate(leaves):
                d = {'parent': [], 'kind': [], 'name': [], 'ns': [], 'pfx': [], 'attrs': [], 'text': [], 'top': 'doc', 'xml': False}

                def add(p, name, attrs=()):
                    d['parent'].append(p); d['kind'].append('e'); d['name'].append(common.cps(name)); d['ns'].append([]); d['pfx'].append([])
                    d['attrs'].append(list(attrs)); d['text'].append([])
                    return len(d['parent'])
                root = add(0, 'div')
                form = add(root, 'form')
                p = form
                for _ in range(w):
                    p = add(p, 'div')
                p = add(p, 'iframe')
                for c in chain:
                    p = add(p, c)
                add(p, ln, la)
                # after the wrappers: the outer form's own controls
                add(form, 'input', [A('type', 'radio'), A('name', 'g')])
                add(form, 'input', [A('type', 'submit')])
                add(form, 'button', [A('type', 'submit')])
                docs.append(d)
    return docs


def textarea_docs():
    """textareas whose content is not just one text node (the bs4 API and html.parser allow element children): :placeholder-shown looks at
    the whole text content"""
    A = lambda k, v: {'k': common.cps(k), 'ns': [], 'local': common.cps(k), 'v': common.cps(v), 'list': False}  # noqa: E731
    docs = []
    for inner in ([('e', 'p', 'hello')], [('e', 'p', '')], [('t', None, ' ')], [('t', None, '\n')], [('e', 'b', ''), ('t', None, '')], [('e', 'p', '\n')], [('c', None, 'note')], []):
        d = {'parent': [], 'kind': [], 'name': [], 'ns': [], 'pfx': [], 'attrs': [], 'text': [], 'top': 'doc', 'xml': False}

        def add(p, kind, name='', attrs=(), text=''):
            d['parent'].append(p); d['kind'].append(kind); d['name'].append(common.cps(name)); d['ns'].append([]); d['pfx'].append([])
            d['attrs'].append(list(attrs)); d['text'].append(common.cps(text))
            return len(d['parent'])
        root = add(0, 'e', 'form')
        ta = add(root, 'e', 'textarea', [A('placeholder', 'x')])
        for kind, name, text in inner:
            if kind == 'e':
                e = add(ta, 'e', name)
                if text:
                    add(e, 't', text=text)
            elif text or kind == 'c':
                add(ta, kind, text=text)
        add(root, 'e', 'input', [A('placeholder', 'y'), A('value', '')])
        docs.append(d)
    return docs


def trace_part(router, tier):
    rng = random.Random(common.SEED * 7919 + 17)
    ndocs, nmax = (70, 22) if tier == 'quick' else (900, 34)
    jobs = [('t%d' % k, rand_form_doc(rng, nmax)) for k in range(ndocs)]
    td = tail_docs()
    jobs += [('tail%d' % k, d) for k, d in enumerate(td if tier == 'thorough' else td[::2])]
    jobs += [('ta%d' % k, d) for k, d in enumerate(textarea_docs())]
    procs = 8
    ctx = mp.get_context('fork')
    chunks = [jobs[i::procs] for i in range(procs)]
    with ctx.Pool(procs) as pool:
        outs = pool.map(_record, [(c,) for c in chunks if c])
    lines = sorted((l for o, _ in outs for l in o), key=lambda l: json.loads(l)['id'])
    router.c08 = sorted(n for _, ns in outs for n in ns)
    nl = len(lines)
    batch = max(25, (nl + 7) // 8)
    trace.validate(router, lines, 'Trace_C17', router.label, batch=batch)
    e = json.loads(lines[0])
    router.samples.append({'trace_event': {'id': e['id'], 'nodes': len(e['doc']['parent']),
                                           'default': e['r']['default'], 'indeterminate': e['r']['indeterminate'],
                                           'disabled': e['r']['disabled'], 'dir-rtl': e['r']['dir-rtl']}})
    return nl



# ---------------------------------------------------------------------------------------------
# the TLC runs and the trace part go side by side, each in a process of its own (forked from the
# single-threaded parent; each child owns its TLC, its replay pool and its Router)
# ---------------------------------------------------------------------------------------------
class _Res:
    def __init__(self, d):
        self.__dict__.update(d)


def _child(label, spec, tier, workers, q):
    import os
    # several JVMs side by side: keep each one's GC / JIT thread pools small
    os.environ['JAVA_TOOL_OPTIONS'] = (os.environ.get('JAVA_TOOL_OPTIONS', '') +
                                       ' -XX:ParallelGCThreads=2 -XX:CICompilerCount=2').strip()
    router = Router(label)
    try:
        if spec is None:
            trace_part(router, tier)
        else:
            module, consts, invs = spec
            replay.run_cfg(router, module, consts, label, workers=workers, procs=4, invariants=invs)
    except Exception as e:   # noqa: BLE001 - TLC / harness breakage is machinery, never a verdict
        router.error = '%s: %s' % (type(e).__name__, str(e)[-1500:])
    router.tlc = [({'distinct': r.distinct, 'generated': r.generated, 'depth': r.depth, 'wall': r.wall,
                    'coverage': r.coverage}, name) for r, name in router.tlc]
    q.put(router.__dict__)


def run_side_by_side(jobs, tier, par, workers):
    import os
    ctx = mp.get_context('fork')
    q = ctx.Queue()
    # run_cfg removes its cfg directory when it is empty: keep it alive while siblings still use it
    todo = list(jobs)
    running = {}
    done = []
    while todo or running:
        while todo and len(running) < par:
            label, spec = todo.pop(0)
            p = ctx.Process(target=_child, args=(label, spec, tier, workers, q))
            p.start()
            running[label] = p
        try:
            d = q.get(timeout=5)
        except Exception:   # noqa: BLE001 - queue.Empty: look for children that died without reporting
            for label, p in list(running.items()):
                if not p.is_alive() and p.exitcode not in (0, None):
                    r = Router(label)
                    r.error = 'worker process died (exit code %s)' % p.exitcode
                    done.append(r)
                    del running[label]
            continue
        r = Router(d['label'])
        r.__dict__.update(d)
        r.tlc = [(_Res(x), name) for x, name in r.tlc]
        done.append(r)
        running.pop(d['label']).join()
    order = {label: n for n, (label, _) in enumerate(jobs)}
    done.sort(key=lambda r: order[r.label])
    return done

# ---------------------------------------------------------------------------------------------
def probes(chk, drift):
    """single documents outside the grammar of the property's quantifier: recorded, never gated"""
    warnings.simplefilter('ignore')
    sv, bs4 = common.import_repo()
    # C08's defect: a type-less input with a bound makes :in-range / :out-of-range raise
    soup = bs4.BeautifulSoup('<input max="5">', 'html.parser')
    try:
        sv.select(':in-range', soup)
    except Exception as e:  # noqa: BLE001
        add_drift(drift, 'probe', ':in-range', 'C08: type-less <input max> raises instead of not matching',
                  '%s: %s' % (type(e).__name__, e))
    # an HTML element below a foreign (svg) element under html5lib has no direction at all
    soup = bs4.BeautifulSoup('<div dir="rtl"><svg><foreignObject><p>x</p></foreignObject></svg></div>', 'html5lib')
    p = soup.find('p')
    if not sv.match(':dir(ltr)', p) and not sv.match(':dir(rtl)', p):
        add_drift(drift, 'probe', ':dir()', 'html5lib: an HTML element inside svg foreignObject is neither :dir(ltr) nor '
                  ':dir(rtl) (foreign elements are outside the document grammar of the property)',
                  '<div dir=rtl><svg><foreignObject><p>')
    chk.count(2)


def main(tier):
    chk = common.Check('C17', tier)
    from harness import statedefs
    defs = statedefs.use_tree_under_test()       # StateDefsGen.tla from the tree under test (T-StateDefs, ThStateDefs in every MC_C17_* run)
    chk.notes['state_definitions_extracted'] = sorted(defs)
    chk.assumptions += [
        'HtmlState.tla is trusted as the reading of the property text and of the HTML standard (form owner = '
        'nearest form ancestor; no type attribute or the listed keywords only: unknown type keywords are not '
        'mapped to the Text state; contenteditable is not inherited; a button needs an explicit type=submit)',
        'text is modelled over ASCII + Hebrew + Arabic letters (bidi classes L / R / neutral)',
        'an iframe holds one document: at most one child element; HTML trees carry no foreign elements',
        'B1 documents are built through the bs4 API (html.parser builder, lxml-xml builder for XHTML / XML)',
    ]
    if tier == 'quick':
        runs = [('MC_C17_default', {'MaxNodes': 4, 'MaxDepth': 4}, 'default4', ('Emit', 'ThDefault', 'ThBoundary', 'ThPartitions', 'ThStateDefs')),
                ('MC_C17_indet', {'MaxNodes': 4, 'MaxDepth': 4, 'Rich': 'FALSE'}, 'indet4', ('Emit', 'ThGroup', 'ThBoundary', 'ThStateDefs')),
                ('MC_C17_disabled', {'MaxNodes': 4, 'MaxDepth': 4, 'Level': 0}, 'disabled4', ('Emit', 'ThPartitions', 'ThBoundary', 'ThStateDefs')),
                ('MC_C17_disabled', {'MaxNodes': 3, 'MaxDepth': 3, 'Level': 2}, 'disabled3r', ('Emit', 'ThPartitions', 'ThStateDefs')),
                ('MC_C17_dir', {'MaxNodes': 4, 'MaxDepth': 4, 'Rich': 'FALSE'}, 'dir4', ('Emit', 'ThPartitions', 'ThDirReadings', 'ThStateDefs')),
                ('MC_C17_dir', {'MaxNodes': 3, 'MaxDepth': 3, 'Rich': 'TRUE'}, 'dir3r', ('Emit', 'ThPartitions', 'ThDirReadings', 'ThStateDefs')),
                ('MC_C17_attrs', {'Rich': 'FALSE'}, 'attrs', ('Emit', 'ThPartitions', 'ThStateDefs')),
                ('MC_C17_ns', {'MaxNodes': 3}, 'ns3', ('Emit', 'ThPartitions', 'ThFrame', 'ThDirReadings', 'ThStateDefs'))]
        par, workers = 4, 4
    else:
        runs = [('MC_C17_default', {'MaxNodes': 5, 'MaxDepth': 4}, 'default5', ('Emit', 'ThDefault', 'ThBoundary', 'ThPartitions', 'ThStateDefs')),
                ('MC_C17_indet', {'MaxNodes': 5, 'MaxDepth': 4, 'Rich': 'FALSE'}, 'indet5', ('Emit', 'ThGroup', 'ThBoundary', 'ThStateDefs')),
                ('MC_C17_disabled', {'MaxNodes': 4, 'MaxDepth': 4, 'Level': 2}, 'disabled4r', ('Emit', 'ThPartitions', 'ThBoundary', 'ThStateDefs')),
                ('MC_C17_dir', {'MaxNodes': 4, 'MaxDepth': 4, 'Rich': 'TRUE'}, 'dir4r', ('Emit', 'ThPartitions', 'ThDirReadings', 'ThStateDefs')),
                ('MC_C17_indet', {'MaxNodes': 4, 'MaxDepth': 4, 'Rich': 'TRUE'}, 'indet4r', ('Emit', 'ThGroup', 'ThBoundary', 'ThStateDefs')),
                ('MC_C17_attrs', {'Rich': 'TRUE'}, 'attrs-rich', ('Emit', 'ThPartitions', 'ThStateDefs')),
                ('MC_C17_ns', {'MaxNodes': 3}, 'ns3', ('Emit', 'ThPartitions', 'ThFrame', 'ThDirReadings', 'ThStateDefs'))]
        par, workers = 4, 4
    jobs = [('trace-c17', None)] + [(label, (module, consts, invs)) for module, consts, label, invs in runs]
    routers = run_side_by_side(jobs, tier, par, workers)
    drift = {}
    for r in routers:
        r.merge(chk, drift)
    probes(chk, drift)
    for d in sorted(drift.values(), key=lambda x: (x['selector'], x['class'])):
        chk.drift.append(d)
    _range_cover(chk, tier)
    from checks import c04 as _c04
    _c04._mutation_part(chk)      # the state pseudo-classes after the tree was changed through the bs4 API between two calls (nothing may be remembered)
    from harness import suite
    suite.part(chk, 'C17')      # the repository's own test-suite as a trace corpus
    return chk.finish()



def _range_cover(chk, tier):
    """:in-range / :out-of-range are disjoint and cover exactly the range-typed inputs having a valid bound: recorded selects on
    seeded random inputs, validated by TLC against CssDecl (which dispatches to Calendar!RangeHolds)."""
    import random
    from harness import trace, gen
    from harness.common import cps
    rng = random.Random(common.SEED * 17 + 171)
    vals = {'number': ['1', '5', '10', '-3', '2.5'], 'range': ['1', '5', '10'], 'date': ['2020-02-29', '2019-03-01', '2021-12-31'],
            'month': ['2020-02', '2019-12'], 'week': ['2020-W10', '2021-W52'], 'time': ['08:30', '23:59', '00:00'],
            'datetime-local': ['2020-02-29T10:00', '2019-01-01T00:00'], 'text': ['5'], 'checkbox': ['5']}
    bad = ['low', '', '2019-02-30', '25:00', '2020-W60', 'x5']
    jobs = []
    for k in range(30 if tier == 'quick' else 300):
        d = {'parent': [0], 'kind': ['e'], 'name': [cps('form')], 'ns': [[]], 'pfx': [[]], 'attrs': [[]], 'text': [[]], 'top': 'doc', 'xml': False}
        for j in range(rng.randint(3, 8)):
            ty = rng.choice(list(vals) + [None])
            at = []
            if ty is not None:
                at.append({'k': cps('type'), 'ns': [], 'local': cps('type'), 'v': cps(rng.choice([ty, ty.upper()])), 'list': False})
            for an in ('min', 'max', 'value'):
                r = rng.random()
                if r < 0.35:
                    continue
                pool = vals.get(ty, ['5'])
                v = rng.choice(pool) if r < 0.8 else rng.choice(bad)
                at.append({'k': cps(an), 'ns': [], 'local': cps(an), 'v': cps(v), 'list': False})
            d['parent'].append(1); d['kind'].append('e'); d['name'].append(cps('input')); d['ns'].append([]); d['pfx'].append([])
            d['attrs'].append(at); d['text'].append([])
        K = lambda k: {'cs': [[{'k': k}]], 'cb': []}  # noqa: E731
        asts = [[K('in-range')], [K('out-of-range')], [K('in-range'), K('out-of-range')],
                [{'cs': [[{'k': 'type', 'ns': gen.BARE, 'name': cps('input')}, {'k': 'not', 'args': [K('in-range'), K('out-of-range')]}]], 'cb': []}]]
        jobs.append(('rc%d' % k, d, asts, [0], None))
    trace.SPELL_SEED = common.SEED + 17      # the texts handed to the real select are random respellings of the ASTs (harness/sel.py)
    try:
        lines = trace.record_select(jobs)
    finally:
        trace.SPELL_SEED = None
    trace.validate(chk, lines, 'Trace_Select', 'range-cover')
