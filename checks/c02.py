"""C02 - positional pseudo-classes implement An+B exactly.
TLC enumerates sibling rows x (a, b) x forms x 'of S' and every spelling of (a, b); CssDecl/Nth give the
predicted positions; everything is replayed into soupsieve.select.  B2: random larger rows/trees."""
import json
import random
from harness import common, replay, gen, trace


def main(tier):
    chk = common.Check('C02', tier)
    chk.assumptions += ['CssDecl.NthHolds / Nth.tla trusted as the reading of CSS Syntax 3 section 6 and Selectors 4 section 13',
                        'TLC integers are 32 bit: |a|, |b| <= 40000 inside TLC']
    if tier == 'quick':
        runs = [('MC_C02_rows', {'MaxRow': 4, 'NegLo': 3, 'Hi': 4, 'ExtraMag': '{}'}, 'rows4', ('Emit', 'AlgoEqDecl')),
                ('MC_C02_spell', {'NegLo': 3, 'Hi': 3, 'Row': 5}, 'spell', ('Emit', 'NthClosed', 'NthSpelling'))]
    else:
        runs = [('MC_C02_rows', {'MaxRow': 5, 'NegLo': 6, 'Hi': 7, 'ExtraMag': '{100, 40000}'}, 'rows5', ('Emit', 'AlgoEqDecl')),
                ('MC_C02_spell', {'NegLo': 9, 'Hi': 10, 'Row': 12}, 'spell', ('Emit', 'NthClosed', 'NthSpelling'))]
    for r in runs:
        module, consts, label = r[:3]
        inv = r[3] if len(r) > 3 else ('Emit',)
        replay.run_cfg(chk, module, consts, label, invariants=inv)
    keyword_laws(chk, tier)
    trace_part(chk, tier)
    from harness import parsebind
    parsebind.part(chk, tier, 'trace-parse', n_quick=300, n_thorough=4000, seed=2)     # An+B texts -> IR (incl. the implied of *|*) by Lexer + ParseSel + Ir
    from checks import c04 as _c04
    _c04._lazy_part(chk)        # `of S` positions judged against the tree as it is when a lazy iselect() reaches the element (the consumer changes classes between elements)
    from harness import suite
    suite.part(chk, 'C02')      # the repository's own test-suite as a trace corpus
    return chk.finish()


def keyword_laws(chk, tier):
    """code-vs-code: :first-child == :nth-child(1) etc. on random trees"""
    sv, bs4 = common.import_repo()
    from harness import dom
    rng = random.Random(common.SEED + 202)
    pairs = [(':first-child', ':nth-child(1)'), (':last-child', ':nth-last-child(1)'),
             (':only-child', ':nth-child(1):nth-last-child(1)'), (':first-of-type', ':nth-of-type(1)'),
             (':last-of-type', ':nth-last-of-type(1)'), (':only-of-type', ':nth-of-type(1):nth-last-of-type(1)'),
             (':nth-child(even)', ':nth-child(2n)'), (':nth-child(odd)', ':nth-child(2n+1)')]
    for k in range(200 if tier == 'quick' else 2000):
        d = gen.rand_doc(rng, nmax=16)
        container, nodes = dom.build(d, bs4)
        for x, y in pairs:
            rx = [id(t) for t in sv.select(x, container)]
            ry = [id(t) for t in sv.select(y, container)]
            chk.count(2)
            if rx != ry:
                chk.violation('law|%s|%s' % (x, replay.doc_brief(d)), '%s and %s differ on %s' % (x, y, replay.doc_brief(d)),
                              {'cfg': 'keyword-laws', 'selector': x, 'doc': d})


def trace_part(chk, tier):
    rng = random.Random(common.SEED * 7919 + 2)
    ndocs, nsel = (120, 14) if tier == 'quick' else (1200, 20)
    jobs = []
    for k in range(ndocs):
        # every third document: element names that differ only in case (the same type in HTML, different types in XML)
        d = gen.rand_doc(rng, nmax=16 if tier == 'quick' else 24, kinds=('e', 'e', 'e', 'e', 't', 'c'),
                         names=['a', 'A', 'b', 'B'] if k % 3 == 1 else (['a', 'b', 'iframe'] if k % 6 == 2 else gen.NAMES), xml=(k % 6 == 1) or None)
        # (k % 6 == 2: element children of an <iframe> - they are siblings of one another like any others)
        asts = []
        for _ in range(nsel):
            of = [gen.rand_complex(rng, 1, maxc=1)] if rng.random() < 0.3 else []
            oftype = (not of) and rng.random() < 0.4
            nth = {'k': 'nth', 'a': rng.randint(-5, 6), 'b': rng.randint(-6, 8), 'last': rng.random() < 0.5,
                   'oftype': oftype, 'of': of}
            comp = [nth]
            if rng.random() < 0.25:
                # a second positional pseudo-class in the same compound (each must hold on its own, in either order)
                nth2 = {'k': 'nth', 'a': rng.randint(-3, 4), 'b': rng.randint(-4, 6), 'last': rng.random() < 0.5, 'oftype': rng.random() < 0.3, 'of': []}
                if rng.random() < 0.5:
                    nth2 = {'k': rng.choice(['first-child', 'last-child', 'only-child', 'first-of-type', 'last-of-type', 'only-of-type'])}
                comp.insert(rng.choice([0, 1]), nth2)
            if rng.random() < 0.4:
                comp.insert(0, {'k': 'type', 'ns': gen.BARE, 'name': common.cps(rng.choice(gen.NAMES))})
            cx = {'cs': [comp], 'cb': []}
            if rng.random() < 0.3:
                cx = {'cs': [gen.rand_compound(rng, 0), comp], 'cb': [rng.choice(gen.COMBS)]}
            asts.append([cx])
        els = [i + 1 for i, kk in enumerate(d['kind']) if kk == 'e']
        nsmap = None
        if k % 4 == 3:
            # siblings in different namespaces and a caller map with a DEFAULT namespace: plain :nth-child() still counts every sibling
            # (the implied "of *|*"), while a type selector in the compound is subject to the default namespace
            # "the same type" is name AND namespace URI - not the prefix: one URI reached through different prefixes, one prefix (or none)
            # bound to different URIs on same-named siblings
            for i in els:
                r = rng.random()
                d['ns'][i - 1] = common.cps('urn:a') if r < 0.4 else common.cps('urn:b') if r < 0.7 else []
                if d['ns'][i - 1]:
                    d['pfx'][i - 1] = common.cps(rng.choice(['', '', 'p', 'q']))
            if k % 8 == 3:
                nsmap = {'': rng.choice(['urn:a', 'urn:b', 'urn:zz'])}
                if rng.random() < 0.5:
                    nsmap['p'] = 'urn:b'
            else:
                nsmap = {'p': 'urn:b'}          # no default namespace: the type selectors see every namespace
        jobs.append(('n%d' % k, d, asts, [0] + ([rng.choice(els)] if len(els) > 1 else []), nsmap))
    trace.SPELL_SEED = common.SEED + 2      # the selector texts are random respellings of the generated ASTs
    try:
        lines = trace.record_select(jobs)
    finally:
        trace.SPELL_SEED = None
    trace.validate(chk, lines, 'Trace_Select', 'trace-nth')
    # the same events against the implementation-shaped pipeline (text -> tokens -> AST -> IR -> match_nth as Ir!AlgoNth), all in TLA+
    from harness import statedefs, tlc
    import os
    if not os.path.basename(tlc.SPEC_DIR).startswith('verif_spec_'):
        statedefs.use_tree_under_test()
    trace.validate(chk, lines if tier == 'thorough' else lines[::3], 'Trace_Pipe', 'trace-pipe', batch=400)
    e = json.loads(lines[0])
    chk.sample({'trace_event': {'css': e['css'], 'target': e['target'], 'res': e['res']}}, cap=14)
