"""C01 - select() returns exactly the elements CSS designates.
TLC enumerates documents (builder actions of Dom.tla) and evaluates CssDecl over a selector pool;
every emitted state is replayed into soupsieve.select / match."""
from harness import common, replay


def main(tier):
    chk = common.Check('C01', tier)
    chk.assumptions += [
        'CssDecl.tla is trusted as the reading of Selectors 3/4 for the modelled grammar',
        'Ir.tla (Compile + right-to-left matcher) is checked against CssDecl by TLC on every enumerated document (T-AlgoEqDecl)',
        'documents are built through the bs4 API (html.parser / lxml-xml builders)',
    ]
    if tier == 'quick':
        runs = [('MC_C01_comb', {'MaxNodes': 4, 'MaxCompounds': 2}, 'comb4x2'),
                ('MC_C01_comb', {'MaxNodes': 3, 'MaxCompounds': 3}, 'comb3x3'),
                ('MC_C01_attr', {'MaxElems': 1}, 'attr1'),
                ('MC_C01_logic', {'MaxNodes': 4, 'Nest': 2}, 'logic4'),
                ('MC_C01_struct', {'MaxNodes': 3}, 'struct3')]
    else:
        runs = [('MC_C01_comb', {'MaxNodes': 5, 'MaxCompounds': 2}, 'comb5x2'),
                ('MC_C01_comb', {'MaxNodes': 4, 'MaxCompounds': 3}, 'comb4x3'),
                ('MC_C01_attr', {'MaxElems': 2}, 'attr2'),
                ('MC_C01_logic', {'MaxNodes': 5, 'Nest': 2}, 'logic5'),
                ('MC_C01_struct', {'MaxNodes': 4}, 'struct4')]
    for module, consts, label in runs:
        # T-AlgoEqDecl: the implementation-shaped matcher over the compiled IR (Ir.tla) = the declarative semantics
        inv = ('Emit', 'AlgoEqDecl') if (tier == 'thorough' or label in ('attr1', 'logic4', 'struct3')) else ('Emit',)
        replay.run_cfg(chk, module, consts, label, invariants=inv)
    trace_part(chk, tier)
    parsed_part(chk, tier)
    ir_part(chk, tier)
    from harness import parsebind
    parsebind.part(chk, tier, 'trace-parse', n_quick=400, n_thorough=6000, seed=1)      # text -> IR computed by Lexer + ParseSel + Ir
    from harness import suite
    suite.part(chk, 'C01')      # the repository's own test-suite as a trace corpus
    return chk.finish()


def trace_part(chk, tier):
    """B2: larger random trees and nested selectors; the real select is recorded, TLC validates."""
    import random
    from harness import gen, trace
    rng = random.Random(common.SEED * 7919 + 1)
    gen.EXCLUDE = {'nth'}     # An+B belongs to C02
    ndocs, nsel = (150, 12) if tier == 'quick' else (1500, 16)
    jobs = []
    for k in range(ndocs):
        d = gen.rand_doc(rng, nmax=14 if tier == 'quick' else 22)
        asts = [gen.rand_list(rng, depth=rng.choice([1, 2, 2, 3])) for _ in range(nsel)]
        els = [i + 1 for i, kk in enumerate(d['kind']) if kk == 'e']
        targets = [0] + ([rng.choice(els)] if len(els) > 1 else [])
        nsmap = None
        if k % 4 == 3:
            # namespaced trees: same-named siblings in different namespaces (one URI through several prefixes, one prefix or none for several
            # URIs): "the same type" of the -of-type pseudo-classes is name + namespace URI; type selectors without a default namespace see all
            for i in els:
                r = rng.random()
                d['ns'][i - 1] = common.cps('urn:a') if r < 0.4 else common.cps('urn:b') if r < 0.7 else []
                if d['ns'][i - 1]:
                    d['pfx'][i - 1] = common.cps(rng.choice(['', '', 'p', 'q']))
            nsmap = {'p': 'urn:b'}
        jobs.append(('d%d' % k, d, asts, targets, nsmap))
    trace.SPELL_SEED = common.SEED          # the selector texts are random respellings of the generated ASTs
    try:
        lines = trace.record_select(jobs)
    finally:
        trace.SPELL_SEED = None
    trace.validate(chk, lines, 'Trace_Select', 'trace-select')
    # the same events against the implementation-shaped pipeline: text -> tokens -> AST -> IR -> right-to-left matcher, all in TLA+
    from harness import statedefs, tlc
    import os
    if not os.path.basename(tlc.SPEC_DIR).startswith('verif_spec_'):
        statedefs.use_tree_under_test()
    trace.validate(chk, lines if tier == 'thorough' else lines[::3], 'Trace_Pipe', 'trace-pipe', batch=400)
    import json
    e = json.loads(lines[0])
    chk.sample({'trace_event': {'css': e['css'], 'target': e['target'], 'res': e['res'], 'nodes': len(e['doc']['parent'])}}, cap=13)


PARSED = [
    # text kept in NavigableString SUBCLASSES (Stylesheet, Script, TemplateString, RubyTextString ...) is text like any other
    '<html><head><style>p { color: red }</style><script>var a = 1;</script><style></style><script> </script></head><body>'
    '<ruby>kan<rt>ji</rt><rp>(</rp><rt></rt></ruby><template>t<b>u</b></template><textarea>v</textarea><pre>\n</pre><p><!--c--></p><p> </p><p>x</p></body></html>',
    # names and attribute names whose stored spelling keeps upper-case letters (html5lib: SVG / MathML)
    '<div><svg viewBox="0 0 1 1" preserveAspectRatio="none"><foreignObject><p title="T">f</p></foreignObject><clipPath id="c"><rect/></clipPath></svg>'
    '<math definitionURL="u"><mi>x</mi></math><p Title="t">g</p></div>',
]


def parsed_part(chk, tier):
    """B2 on trees made by the parsers themselves (html.parser, lxml, html5lib, lxml-xml): projected back to Dom records, the recorded
    selects are validated by TLC against CssDecl."""
    import json
    from harness import dom, trace, gen
    from harness.common import cps
    sv, bs4 = common.import_repo()
    S = lambda k, **kw: dict({'k': k}, **kw)  # noqa: E731
    T = lambda n: {'k': 'type', 'ns': gen.BARE, 'name': cps(n)}  # noqa: E731
    A = lambda n, op='ex', v='': {'k': 'attr', 'ns': gen.BARE, 'name': cps(n), 'op': op, 'val': cps(v), 'flag': 'n'}  # noqa: E731
    cx = lambda *c: [{'cs': [list(c)], 'cb': []}]  # noqa: E731
    sels = [cx(S('empty')), cx(S('not', args=cx(S('empty')))), cx(T('style'), S('empty')), cx(T('script'), S('empty')), cx(T('rt'), S('empty')),
            cx(T('template'), S('empty')), cx(S('has', args=[{'comb': '>', 'cx': cx(S('empty'))[0]}])), cx(T('p'), S('empty')),
            cx(A('viewBox')), cx(A('viewbox')), cx(A('VIEWBOX')), cx(A('preserveAspectRatio', 'eq', 'none')), cx(A('preserveaspectratio')),
            cx(A('definitionURL')), cx(A('definitionurl', 'pre', 'u')), cx(A('title')), cx(A('Title', 'eq', 'T')), cx(A('TITLE', 'eq', 't')),
            cx(T('foreignObject')), cx(T('foreignobject')), cx(T('clipPath'), A('id')), cx(S('not', args=cx(A('viewBox')))),
            [{'cs': [[T('clipPath')], [T('rect')]], 'cb': ['>']}], [{'cs': [[T('svg')], [T('p')]], 'cb': [' ']}]]
    from harness import sel as selmod
    lines = []
    for dn, markup in enumerate(PARSED):
        for parser in ('html.parser', 'lxml', 'html5lib', 'xml'):
            try:
                soup = bs4.BeautifulSoup(markup, parser)
                d, nodes = dom.project(soup, bs4)
            except Exception as e:
                chk.machinery('parsed part: %s on document %d: %s' % (parser, dn, e))
                continue
            idmap = dom.ids_of(nodes)
            root = min([i + 1 for i, (p, k) in enumerate(zip(d['parent'], d['kind'])) if p == 0 and k == 'e'] or [0])
            for j, ast in enumerate(sels):
                css = selmod.selector_list(ast)
                ev = {'id': 'pd%d.%s.%d' % (dn, parser, j), 'doc': d, 'sel': ast, 'nsmap': [], 'scope': root, 'target': 0, 'css': css, 'text': cps(css)}
                try:
                    ev['res'] = [idmap[id(t)] for t in sv.select(css, soup)]
                except Exception as e:
                    ev['res'] = [-2]
                    ev['exc'] = type(e).__name__
                lines.append(json.dumps(ev))
    trace.validate(chk, lines, 'Trace_Select', 'trace-parsed')


def ir_part(chk, tier):
    """B2 for the I stratum: the IR the real parser builds for random selectors of the modelled grammar must equal
    Ir!Compile(ast) (Trace_Ir.tla); binds Ir.tla - which TLC proves equal to CssDecl on every enumerated document - to the code."""
    import json
    import random
    from harness import gen, trace, irproj, sel as selmod
    sv, bs4 = common.import_repo()
    from soupsieve import css_types as ct
    rng = random.Random(common.SEED * 7919 + 3)
    gen.EXCLUDE = set()
    lines = []
    n = 400 if tier == 'quick' else 6000
    skipped = 0
    for k in range(n):
        ast = gen.rand_list(rng, depth=rng.choice([0, 1, 2, 2, 3]))
        css = selmod.selector_list(ast)
        try:
            obj = sv.compile(css)
            ir = irproj.proj_list(ct, obj.selectors)
        except irproj.OutOfModel:
            skipped += 1
            continue
        except Exception as e:
            chk.violation('ir|compile|' + css, 'compile(%r) raised %s' % (css, type(e).__name__), {'cfg': 'ir', 'selector': css})
            continue
        lines.append(json.dumps({'id': 'ir%d' % k, 'sel': ast, 'ir': ir, 'pool': [common.cps(v) for v in irproj.VALUE_POOL], 'css': css,
                                 'res': 'IR'}))
    trace.validate(chk, lines, 'Trace_Ir', 'trace-ir', batch=500)
    chk.sample({'ir_event': json.loads(lines[0])['css']}, cap=15)
