"""C01 - select() returns exactly the elements CSS designates.
TLC enumerates documents (builder actions of Dom.tla) and evaluates CssDecl over a selector pool;
every emitted state is replayed into soupsieve.select / match."""
from harness import common, replay


def main(tier):
    chk = common.Check('C01', tier)
    chk.assumptions += [
        'CssDecl.tla is trusted as the reading of Selectors 3/4 for the modelled grammar',
        'documents are built through the bs4 API (html.parser / lxml-xml builders)',
    ]
    if tier == 'quick':
        runs = [('MC_C01_comb', {'MaxNodes': 4, 'MaxCompounds': 2}, 'comb4x2'),
                ('MC_C01_comb', {'MaxNodes': 3, 'MaxCompounds': 3}, 'comb3x3'),
                ('MC_C01_attr', {'MaxElems': 1}, 'attr1'),
                ('MC_C01_logic', {'MaxNodes': 4, 'Nest': 2}, 'logic4'),
                ('MC_C01_struct', {'MaxNodes': 3}, 'struct3')]
    else:
        runs = [('MC_C01_comb', {'MaxNodes': 5, 'MaxCompounds': 2}, 'comb5x2'),
                ('MC_C01_comb', {'MaxNodes': 4, 'MaxCompounds': 3}, 'comb4x3'),
                ('MC_C01_attr', {'MaxElems': 2}, 'attr2'),
                ('MC_C01_logic', {'MaxNodes': 5, 'Nest': 2}, 'logic5'),
                ('MC_C01_struct', {'MaxNodes': 4}, 'struct4')]
    for module, consts, label in runs:
        replay.run_cfg(chk, module, consts, label)
    return chk.finish()
