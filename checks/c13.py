"""C13 - :lang() is RFC 4647 extended filtering over the inherited language.

B1: TLC enumerates (i) the complete (range, tag) table of the extended filter (spec/MC_C13_filter.tla)
and (ii) language-determination situations: ancestor chains x lang values x <meta> pragma x document
type x iframe position (spec/MC_C13_determ.tla); Lang.tla predicts the match relation, every emitted
document is replayed into soupsieve.select.
B2: seeded random documents and range lists over a larger subtag alphabet are run through the real
select(), recorded, and validated by TLC against the same specification (spec/Trace_Select.tla)."""
import json
import os
import random

from harness import common, replay
from harness.common import cps

# The pragma of XHTML documents (XML parser, root in the XHTML namespace) is part of the property's
# quantifier ("with and without the <meta> pragma, in HTML, XHTML and XML"): gated.
GATE_XHTML_META = True
# The pragma of the document inside an iframe: the property does not say whose pragma applies to iframe
# content (the specification reads it as the pragma of the element's own document): recorded as drift.
# C13_GATE_INNER=1 in the environment gates it (for trying a fix).
GATE_INNER_PRAGMA = os.environ.get('C13_GATE_INNER', '') == '1'


class _Drift:
    """Check facade for configurations where the specification says more than the property states:
    everything is counted as usual, but a mismatch is recorded as drift, never as a violation."""

    def __init__(self, chk):
        self._chk = chk

    def __getattr__(self, name):
        return getattr(self._chk, name)

    def violation(self, key, what, case):
        if '|spec|' in key:      # a violated design-level theorem is never drift
            return self._chk.violation(key, what, case)
        self._chk.drift.append({'key': key[:300], 'what': what[:400]})


def tla_set(items):
    return '{' + ', '.join('"%s"' % i if isinstance(i, str) else str(i) for i in items) + '}'


def main(tier):
    chk = common.Check('C13', tier)
    chk.assumptions += [
        'Lang.tla is trusted as the reading of RFC 4647 section 3.3.2 + the two CSS additions (empty range, "*")',
        'language tags / ranges are hyphen-separated sequences of non-empty ASCII subtags (ranges may use "*"); '
        'tags with empty subtags and "*" inside a tag are outside the property and not generated; ranges with empty subtags are run against well-formed tags only',
        'at most one content-language pragma per document, without commas or white space in its content',
        'documents are built through the bs4 API (html.parser / lxml-xml builders)',
    ]
    q = tier == 'quick'
    drift = _Drift(chk)

    # (i) the filter table
    # (Plumb - the table read through Matches equals LangFilter - is the same statement at both sizes)
    replay.run_cfg(chk, 'MC_C13_filter', {'MaxLen': 3 if q else 4, 'Chunk': 6, 'EmptySubtags': 'FALSE'},
                   'filter%d' % (3 if q else 4), invariants=('Emit', 'Laws', 'Plumb') if q else ('Emit', 'Laws'))

    # ranges with empty subtags ("de-", "-", "de--x", "*-"): an empty range subtag equals no subtag of a well-formed tag, so they match nothing
    replay.run_cfg(chk, 'MC_C13_filter', {'MaxLen': 2 if q else 3, 'Chunk': 6, 'EmptySubtags': 'TRUE'}, 'filter-empty-subtags', invariants=('Emit',))

    # (ii) language determination
    mc = 3 if q else 4
    metas = ['none', 'en', 'empty'] if q else ['none', 'en', 'empty', 'nocontent', 'other']
    ips = [0] + list(range(2, mc + 1))
    base = {'MaxChain': mc, 'Modes': tla_set(['html', 'mixed', 'mixedf', 'xml', 'xhtml', 'xmlmix']), 'Metas': tla_set(metas),
            'IframeAts': tla_set(ips), 'Inners': tla_set(['none']), 'XhtmlMeta': 'FALSE'}
    inv = ('Emit', 'Laws')
    # HTML, html5lib-style, XML with every pragma state; XHTML without a pragma
    replay.run_cfg(chk, 'MC_C13_determ', base, 'determ', invariants=inv)
    # XHTML with a pragma
    replay.run_cfg(chk if GATE_XHTML_META else drift, 'MC_C13_determ',
                   dict(base, Modes=tla_set(['xhtml']), XhtmlMeta='TRUE'), 'determ-xhtml-meta', invariants=inv)
    # ungated: the pragma of the document inside an iframe (the property does not say whose pragma
    # applies there; the specification reads it as the pragma of the element's own document)
    replay.run_cfg(chk if GATE_INNER_PRAGMA else drift, 'MC_C13_determ',
                   dict(base, IframeAts=tla_set([2] if q else [2, 3]),
                        Modes=tla_set(['html'] if q else ['html', 'xhtml']), Metas=tla_set(['none', 'en']),
                        Inners=tla_set(['de'] if q else ['de', 'empty'])),
                   'determ-inner' if GATE_INNER_PRAGMA else 'determ-inner(ungated)', invariants=inv)

    trace_part(chk, tier)
    from harness import suite
    suite.part(chk, 'C13')      # the repository's own test-suite as a trace corpus
    return chk.finish()


# ---------------------------------------------------------------------------------------------
# B2: random documents / range lists -> real select() -> recorded -> validated by TLC
# ---------------------------------------------------------------------------------------------
XHTML = 'http://www.w3.org/1999/xhtml'
XMLNS = 'http://www.w3.org/XML/1998/namespace'
FOREIGN = 'urn:f'
PRIMARY = ['de', 'en', 'fr', 'zh', 'x', 'i', 'und', 'sr']
SUBS = ['de', 'en', 'latn', 'cyrl', 'hant', 'us', 'gb', '1996', '419', 'x', 'a', 'u', '1', 'abc', 'private', 'de', 'ok', 'o\u212a']     # ok and o + KELVIN SIGN: subtags compare ASCII-case-insensitively, Unicode folding would equate them (two characters: whether a non-ASCII single character is a "singleton" is not defined)


def rand_case(rng, s):
    m = rng.random()
    if m < 0.5:
        return s
    if m < 0.65:
        return s.upper()
    return ''.join(ch.upper() if rng.random() < 0.4 else ch for ch in s)


def rand_tag(rng):
    n = rng.choice([1, 1, 2, 2, 2, 3, 3, 4, 5, 6])
    return rand_case(rng, '-'.join([rng.choice(PRIMARY)] + [rng.choice(SUBS) for _ in range(n - 1)]))


def rand_range(rng, tags):
    r = rng.random()
    if r < 0.06:
        return ''
    if r < 0.12:
        return '*'
    if r < 0.62 and tags:
        # derived from a tag of the document: drop subtags, insert wildcards, perturb
        parts = rng.choice(tags).lower().split('-')
        if parts == ['']:
            return rng.choice(PRIMARY)
        out = [parts[0] if rng.random() < 0.8 else '*']
        for p in parts[1:]:
            x = rng.random()
            if x < 0.45:
                out.append(p)
            elif x < 0.60:
                out.append('*')
            elif x < 0.68:
                out.append(rng.choice(SUBS))
        if rng.random() < 0.15:
            out.append('*')
        return rand_case(rng, '-'.join(out))
    n = rng.choice([1, 1, 2, 2, 3, 4])
    out = [rng.choice(PRIMARY + ['*'])] + [rng.choice(SUBS + ['*', '*']) for _ in range(n - 1)]
    return rand_case(rng, '-'.join(out))


def _plain(k, v):
    return {'k': cps(k), 'ns': [], 'local': cps(k), 'v': cps(v), 'list': False}


def _xmlattr(v):
    return {'k': cps('xml:lang'), 'ns': cps(XMLNS), 'local': cps('lang'), 'v': cps(v), 'list': False}


def rand_lang_doc(rng, nmax):
    """html(>head>meta)? > body > random tree of div/p/span/iframe with language attributes"""
    mode = rng.choice(['html', 'html', 'xhtml', 'xml', 'mixed'])
    xml = mode in ('xml', 'xhtml')
    d = {'parent': [], 'kind': [], 'name': [], 'ns': [], 'pfx': [], 'attrs': [], 'text': [], 'top': 'doc', 'xml': xml}
    tags = []

    def ns_for(name, depth):
        if mode in ('html', 'xml'):
            return ''
        if mode == 'xhtml':
            return FOREIGN if (name == 'span' and rng.random() < 0.5) else XHTML
        return FOREIGN if name in ('span', 'p') and rng.random() < 0.6 else XHTML

    def lang_attrs(name, ns, p_lang=0.4):
        htmlish = mode == 'html' or ns == XHTML
        at = []
        if rng.random() < p_lang:
            v = '' if rng.random() < 0.15 else rand_tag(rng)
            tags.append(v)
            if htmlish:
                key = 'lang' if xml or rng.random() < 0.8 else rng.choice(['LANG', 'Lang'])
                at.append(_plain(key, v))
            else:
                at.append(_xmlattr(v))
        if rng.random() < 0.12:     # the attribute that does not count for this element
            at.append(_xmlattr(rand_tag(rng)) if htmlish else _plain('lang', rand_tag(rng)))
        if rng.random() < 0.1:
            at.append(_plain('id', 'x'))
        rng.shuffle(at)
        return at

    def add(p, kind, name='', ns='', attrs=None, text=''):
        d['parent'].append(p)
        d['kind'].append(kind)
        d['name'].append(cps(name))
        d['ns'].append(cps(ns))
        d['pfx'].append([])
        d['attrs'].append(attrs or [])
        d['text'].append(cps(text))
        return len(d['parent'])

    hns = ns_for('html', 0)
    html = add(0, 'e', 'html', hns, lang_attrs('html', hns, 0.35))
    if rng.random() < 0.6:
        head = add(html, 'e', 'head', hns)
        if rng.random() < 0.3:
            add(head, 'e', 'meta', hns, [_plain('http-equiv', 'refresh'), _plain('content', 'de')])
        m = rng.random()
        if m < 0.6:
            v = rand_tag(rng)
            tags.append(v)
            at = [_plain('http-equiv', rng.choice(['content-language', 'Content-Language', 'CONTENT-LANGUAGE'])),
                  _plain('content', v)]
            rng.shuffle(at)
            add(head, 'e', 'meta', hns, at)
        elif m < 0.75:
            add(head, 'e', 'meta', hns, [_plain('http-equiv', 'content-language'), _plain('content', '')])
        elif m < 0.85:
            add(head, 'e', 'meta', hns, [_plain('http-equiv', 'content-language')])
    body = add(html, 'e', 'body', hns, lang_attrs('body', hns, 0.25))
    spine = [body]
    n = rng.randint(3, nmax)
    for _ in range(n):
        p = rng.choice(spine + spine[-2:])
        if rng.random() < 0.12:
            add(p, 't', text='x')
            spine = spine[:spine.index(p) + 1]
            continue
        name = rng.choice(['div', 'div', 'p', 'span', 'span', 'iframe'])
        ns = ns_for(name, 0)
        i = add(p, 'e', name, ns, lang_attrs(name, ns))
        spine = spine[:spine.index(p) + 1] + [i]
    return d, tags, mode


BARE = {'t': 'bare'}


def rand_lang_sel(rng, tags):
    def lang():
        return {'k': 'lang', 'ranges': [cps(rand_range(rng, tags)) for _ in range(rng.choice([1, 1, 1, 2, 3]))]}

    def cx(comp):
        return {'cs': [comp], 'cb': []}
    r = rng.random()
    if r < 0.6:
        return [cx([lang()])]
    if r < 0.7:
        return [cx([{'k': 'type', 'ns': BARE, 'name': cps(rng.choice(['div', 'p', 'span', 'iframe', '*']))}, lang()])]
    if r < 0.8:
        return [cx([{'k': 'not', 'args': [cx([lang()])]}])]
    if r < 0.9:
        return [{'cs': [[lang()], [lang()]], 'cb': [rng.choice([' ', '>'])]}]
    return [cx([lang()]), cx([lang(), lang()])]


def trace_part(chk, tier):
    from harness import trace
    rng = random.Random(common.SEED * 7919 + 13)
    ndocs, nsel = (160, 12) if tier == 'quick' else (1600, 20)
    jobs = []
    for k in range(ndocs):
        d, tags, mode = rand_lang_doc(rng, 10 if tier == 'quick' else 18)
        asts = [rand_lang_sel(rng, tags) for _ in range(nsel)]
        els = [i + 1 for i, kk in enumerate(d['kind']) if kk == 'e']
        targets = [0] + ([rng.choice(els)] if rng.random() < 0.5 else [])
        jobs.append(('%s%d' % (mode, k), d, asts, targets, None))
    trace.SPELL_SEED = common.SEED + 13      # the texts handed to the real select are random respellings of the ASTs (harness/sel.py)
    try:
        lines = trace.record_select(jobs)
    finally:
        trace.SPELL_SEED = None
    trace.validate(chk, lines, 'Trace_Select', 'trace-lang')
    # and against the implementation-shaped pipeline computed from the respelled TEXT (:lang() stored in the IR as data, evaluated by Lang.tla)
    from harness import statedefs, tlc
    if not os.path.basename(tlc.SPEC_DIR).startswith('verif_spec_'):
        statedefs.use_tree_under_test()
    trace.validate(chk, lines[::4] if tier == 'quick' else lines, 'Trace_Pipe', 'trace-lang-pipe', batch=300)
    for l in lines:
        e = json.loads(l)
        if e['res'] and e['res'] != [-2]:
            chk.nontrivial(e['css'] + '|' + e['id'].split('.')[0])
    e = json.loads(lines[0])
    chk.sample({'trace_event': {'css': e['css'], 'target': e['target'], 'res': e['res'],
                                'doc': replay.doc_brief(e['doc'])}}, cap=13)
