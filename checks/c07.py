"""C07 - selector parsing time is polynomially bounded in the input length.

(a) model checking: every compiled regex of the working tree -> epsilon-free multi-edge NFA
    (harness/regex_nfa.py) -> constants of spec/RegexAmb.tla; TLC searches the product of two copies for
    an exponential-ambiguity witness (T-NoEDA).  A witness is only a candidate: prefix + pump*n + kill is
    measured on the real code (CPU time of a child process) and reported only if it grows >= 1.8x per pump
    and exceeds 1 s.
(b) pump families: every prefix of every pool selector, pumped at every slot, with terminators.
(c) measurement: <= 64 characters must compile-or-reject in < 2 s CPU (healthy: < 5 ms); up to n = 2000
    the growth exponent must be <= 3.5.  Same for the document-side regexes on attribute values.
Timing is CPU time of worker processes with a CPU-time watchdog; nothing depends on wall-clock time.
"""
from __future__ import annotations
import hashlib
import json
import math
import multiprocessing as mp
import os
import random
import shutil
import resource
import signal
import tempfile
import time
from collections import deque
from multiprocessing.connection import wait as mpwait

from harness import common, tlc
from harness import regex_nfa as rn

NPROC = 16
SMALL_LEN = 64          # "a few dozen characters"
SMALL_LIMIT = 2.0       # CPU seconds allowed for <= SMALL_LEN characters (healthy: a few ms)
SMALL_KILL = 2.2        # watchdog for those jobs
BIG_KILL = 10.0         # watchdog for the growth ladder
BIG_N = (250, 500, 1000, 2000)
EXP_MAX = 3.5           # largest accepted growth exponent
FIT_FLOOR = 0.020       # points below 20 ms do not enter the fit
CONFIRM_MIN = 1.0       # an EDA witness is confirmed if some n takes more than 1 s ...
CONFIRM_RATIO = 1.8     # ... and time grows at least 1.8x per added pump
CONFIRM_KILL = 3.3      # >= CONFIRM_RATIO^2 * CONFIRM_MIN: with steps of 2 pumps a killed job always decides the ratio test
TOTAL_CAP = {'quick': 16, 'thorough': 80}   # reported families over all stages (then later stages are skipped)
CAP = 30                # stop a stage after this many violating families (broken trees would take hours)

_CTX = {}


# ---------------------------------------------------------------------------
# worker pool with a CPU-time watchdog
# ---------------------------------------------------------------------------

def _apply_regex(rx, how, text):
    if how == 'match':
        rx.match(text)
    elif how == 'search':
        rx.search(text)
    elif how == 'sub':
        rx.sub('', text)
    elif how == 'finditer':
        for _m in rx.finditer(text):
            pass
    elif how == 'findall':
        rx.findall(text)
    elif how == 'fullmatch':
        rx.fullmatch(text)
    else:
        raise ValueError(how)


def _utime():
    """User-mode CPU time of this process: backtracking is user time; kernel time (page reclaim on a loaded
    machine) is not the parser's."""
    return resource.getrusage(resource.RUSAGE_SELF).ru_utime


def _run_job(job):
    sv = _CTX['sv']
    kind = job[0]
    out = 'ok'
    if kind == 'compile':
        sv.purge()
        t0 = _utime()
        try:
            sv.compile(job[1])
        except Exception as e:       # any rejection counts: only the time matters here
            out = type(e).__name__
        cpu = _utime() - t0
    elif kind == 'regex':
        rx = _CTX['pats'][job[1]].regex
        t0 = _utime()
        try:
            _apply_regex(rx, job[2], job[3])
        except Exception as e:
            out = type(e).__name__
        cpu = _utime() - t0
    elif kind == 'select':
        bs4 = _CTX['bs4']
        soup = bs4.BeautifulSoup('', 'html.parser')
        tag = soup.new_tag(job[2], attrs=job[3])
        if job[4]:
            tag.string = job[4]
        soup.append(tag)
        sv.purge()
        t0 = _utime()
        try:
            out = 'n=%d' % len(sv.select(job[1], soup))
        except Exception as e:
            out = type(e).__name__
        cpu = _utime() - t0
    else:
        raise ValueError(kind)
    return cpu, out, _utime()


def _worker(conn):
    signal.signal(signal.SIGINT, signal.SIG_IGN)
    while True:
        try:
            batch = conn.recv()
        except EOFError:
            return
        if batch is None:
            return
        for job in batch:
            conn.send(_run_job(job))


_TCK = os.sysconf('SC_CLK_TCK')


def _proc_cpu(pid):
    try:
        with open('/proc/%d/stat' % pid) as f:
            s = f.read()
        parts = s[s.rindex(')') + 2:].split()
        return int(parts[11]) / _TCK
    except Exception:
        return None


class Pool:
    def __init__(self, n=NPROC):
        self.ctx = mp.get_context('fork')
        self.slots = [self._spawn() for _ in range(n)]
        self.killed = 0

    def _spawn(self):
        a, b = self.ctx.Pipe()
        p = self.ctx.Process(target=_worker, args=(b,), daemon=True)
        p.start()
        b.close()
        return {'p': p, 'conn': a, 'batch': None, 'pos': 0, 'mark': 0.0}

    def close(self):
        for w in self.slots:
            try:
                w['conn'].send(None)
            except Exception:
                pass
        for w in self.slots:
            w['p'].join(timeout=2)
            if w['p'].is_alive():
                w['p'].kill()

    def run(self, jobs, kill_cpu, batch=48):
        """jobs: list of job tuples -> list of (cpu seconds, outcome); outcome 'killed' = watchdog."""
        results = [None] * len(jobs)
        queue = deque([list(range(i, min(i + batch, len(jobs)))) for i in range(0, len(jobs), batch)])
        pending = len(jobs)
        stall = time.time()
        while pending:
            for w in self.slots:
                if w['batch'] is None and queue:
                    b = queue.popleft()
                    w['batch'], w['pos'] = b, 0
                    m = _proc_cpu(w['p'].pid)
                    w['mark'] = m if m is not None else 0.0
                    w['conn'].send([jobs[i] for i in b])
            busy = [w for w in self.slots if w['batch'] is not None]
            ready = mpwait([w['conn'] for w in busy], timeout=0.2)
            for k, w in enumerate(self.slots):
                if w['batch'] is None:
                    continue
                dead = False
                if w['conn'] in ready:
                    try:
                        while w['batch'] is not None and w['conn'].poll():
                            cpu, out, mark = w['conn'].recv()
                            results[w['batch'][w['pos']]] = (cpu, out)
                            w['pos'] += 1
                            w['mark'] = mark
                            pending -= 1
                            stall = time.time()
                            if w['pos'] == len(w['batch']):
                                w['batch'] = None
                    except (EOFError, OSError):
                        dead = True
                if w['batch'] is None:
                    continue
                now = _proc_cpu(w['p'].pid)
                if now is None or not w['p'].is_alive():
                    dead = True
                if dead or now - w['mark'] > kill_cpu:
                    used = kill_cpu if dead or now is None else now - w['mark']
                    try:
                        w['p'].kill()
                        w['p'].join(timeout=5)
                        w['conn'].close()
                    except Exception:
                        pass
                    self.killed += 1
                    results[w['batch'][w['pos']]] = (used, 'killed' if not dead else 'died')
                    pending -= 1
                    stall = time.time()
                    rest = w['batch'][w['pos'] + 1:]
                    if rest:
                        queue.appendleft(rest)
                    self.slots[k] = self._spawn()
            if time.time() - stall > 900:
                raise RuntimeError('worker pool stalled for 15 min')
        return results


# ---------------------------------------------------------------------------
# (b) pump families
# ---------------------------------------------------------------------------

SELECTOR_POOL = [
    'div', 'ns|div', '*|*', '|a', '*', '#id', '.cls', 'a.b#c', 'a-b_c', '-a', '--a', 'été',
    '[a]', '[a=b]', '[a="b c"]', "[a='b']", '[a~=b]', '[a|=b]', '[a^=b]', '[a$=b]', '[a*=b]', '[a!=b]',
    '[a="b" i]', '[a=b s]', '[ns|a="v"]', '[*|a]', '[ a = "b" ]', '[a="b\\"c"]', '[a="b\\\nc"]', '[a=\\62 c]',
    '[\\61 b=c]', '[a="\\62 c"]', "[a='b\\'c' i]", '[a=bcd]', '[a/**/=/**/"b"/**/]',
    'a > b', 'a + b', 'a ~ b', 'a b', 'a,b', 'a , b', 'a>b+c~d e',
    '/* c */ a /* d */ > /**/ b', 'a/**/b', 'a /* x ** y */ , b',
    ':root', ':first-child', 'a:hover', ':checked', ':in-range', ':any-link',
    ':nth-child(2n+1)', ':nth-child(even)', ':nth-child(-n + 3 of .a, .b)', ':nth-last-child(odd of p)',
    ':nth-of-type(3n - 2)', ':nth-last-of-type(n)', ':nth-child( 2n /**/ + 1 )', ':nth-child(10)',
    ':not(.a)', ':not(a, b)', ':is(a, b > c)', ':where(:not(:is(a)))', ':has(> a, + b)', ':has(:is(a b))',
    ':not(:has(a))', ':is( a , b )', ':matches(a)', ':is()',
    ':lang(en)', ':lang("en", de-*)', ':lang(\'*-CH\', "fr")', ':lang(en,fr,de)', ':lang(\\65 n, "e\\6e")',
    ':lang( en , "fr" )', ':lang("a\\"b")',
    ':-soup-contains("a")', ':-soup-contains("a", "b c")', ':-soup-contains-own(a, b)', ':contains("a\\"b")',
    ':-soup-contains("a\\\nb")', ":-soup-contains('a', b)",
    ':dir(ltr)', ':dir( rtl )', '::before', ':--custom', '@page',
    'a\\:b', '\\31 23', '#\\#x', '.a\\ b', 'a\\0000e9 b', '#a\\', '.\\61\\62\\63',
    'a:is(.b, #c):not([d="e"]) > f:nth-child(2n+1 of g)', 'div#x.y[z="w"]:first-child',
    '&', 'a &', ':scope > a',
]

FIXED_UNITS = ['a', '\\a', '\\61 ', 'aa,', '/**/', ' ', ',\\0\t\t', '\\\n', '\t', '"', '\\', '-', ':is(', '(',
               '\\0 ', '\f', 'a ', '*']
TERMINATORS = ['', '$', ']', ')', '"']

_RE_LAST_ESC = __import__('re').compile(r'\\(?:[0-9a-fA-F]{1,6}[ \t\n\r\f]?|[^\n\r\f0-9a-fA-F])$')
_RE_LAST_WORD = __import__('re').compile('[A-Za-z0-9_\\-\u0080-\uffff]+$')


def units_for(prefix):
    us = []
    if prefix:
        us.append(prefix[-1])
        if len(prefix) >= 2:
            us.append(prefix[-2:])
        if len(prefix) >= 3:
            us.append(prefix[-3:])
        m = _RE_LAST_ESC.search(prefix)
        if m:
            us.append(m.group(0))
        m = _RE_LAST_WORD.search(prefix)
        if m and len(m.group(0)) <= 6:
            us.append(m.group(0) + ',')
            us.append(m.group(0) + ' ')
        k = max(prefix.rfind(','), prefix.rfind('('))
        if k >= 0 and 0 < len(prefix) - k - 1 <= 8:
            item = prefix[k + 1:]
            us.append(item + ',')
            us.append(',' + item)
    out = []
    for u in us + FIXED_UNITS:
        if u and u not in out:
            out.append(u)
    return out


def selector_families():
    """(prefix, unit, terminator) for every prefix of every pool selector, every unit, every terminator."""
    seen = set()
    fams = []
    for s in SELECTOR_POOL:
        for i in range(0, len(s) + 1):
            p = s[:i]
            for u in units_for(p):
                for k in TERMINATORS:
                    key = p + u + u + '\x00' + k + '\x00' + str(len(u))
                    if key in seen:
                        continue
                    seen.add(key)
                    fams.append((p, u, k))
    return fams


def fam_text(f, n):
    return f[0] + f[1] * n + f[2]


def small_n(f):
    return max(1, (SMALL_LEN - len(f[0]) - len(f[2])) // len(f[1]))


def ladder(f):
    n = small_n(f)
    out = []
    x = n * 2
    while x < BIG_N[0]:
        out.append(x)
        x *= 2
    return out + list(BIG_N)


def fit_exponent(points):
    """Least-squares slope of log t against log length, over points (length, t)."""
    xs = [math.log(l) for l, _t in points]
    ys = [math.log(t) for _l, t in points]
    n = len(xs)
    mx, my = sum(xs) / n, sum(ys) / n
    den = sum((x - mx) ** 2 for x in xs)
    if den == 0:
        return 0.0
    return sum((x - mx) * (y - my) for x, y in zip(xs, ys)) / den


def _h(s):
    return hashlib.blake2b(s.encode('utf-8', 'surrogatepass'), digest_size=6).hexdigest()


def _short(s, n=48):
    return s if len(s) <= n else s[:n - 12] + '...' + s[-9:]


# ---------------------------------------------------------------------------
# measurement of families (c)
# ---------------------------------------------------------------------------

def mkjob(kind, text):
    if kind[0] == 'compile':
        return ('compile', text)
    return ('regex', kind[1], kind[2], text)


def remeasure(chk, pool, jobs, first, kill, stats):
    """Anything that is about to be reported is measured again and the *minimum* is used (a third time if the
    two disagree by more than 2x): backtracking is reproducible, a stall of the machine is not."""
    if not jobs:
        return []
    def cost(r):
        return kill if r[1] in ('killed', 'died') else r[0]
    r2 = pool.run(jobs, kill, batch=1)
    chk.count(len(jobs))
    stats['remeasured'] += len(jobs)
    out = [min(a, b, key=cost) for a, b in zip(first, r2)]
    again = [k for k, (a, b) in enumerate(zip(first, r2)) if max(cost(a), cost(b)) > 2 * min(cost(a), cost(b))]
    if again:
        r3 = pool.run([jobs[k] for k in again], kill, batch=1)
        chk.count(len(again))
        for k, c in zip(again, r3):
            out[k] = min(out[k], c, key=cost)
    return out


def _over(chk, stats, label):
    """Enough has been reported: on a broken tree every further violating family costs seconds of CPU."""
    n = len(chk.violations) + sum(chk.known_hits.values())
    if n >= TOTAL_CAP[chk.tier]:
        if label:
            stats['skipped_stages'] = stats.get('skipped_stages', 0) + 1
            if stats['skipped_stages'] == 1:
                stats['truncated'].append('%s and later stages skipped: %d violating families already reported' % (
                    label, n))
        return True
    return False


def _judge(h, L, t, killed):
    """Growth criterion for a new ladder point (L, t) after history h; returns a description or None."""
    if h and (killed or t >= 1.0):
        L1, t1, _k = h[-1]
        ratio = t / max(t1, 1e-3)
        # safety factor 4 on the time ratio: a healthy quadratic step is 4x, the gate is 2^3.5 = 11.3x, times 4
        if ratio > 4 * (L / L1) ** EXP_MAX:
            return 'from %d to %d characters the time goes from %.3f s to %s%.2f s (local exponent %.1f)' % (
                L1, L, t1, '> ' if killed else '', t, math.log(ratio) / math.log(L / L1))
    pts = [(l, tt) for (l, tt, _k) in h if tt >= FIT_FLOOR] + ([(L, t)] if t >= FIT_FLOOR else [])
    if len(pts) >= 3 and pts[-1][0] >= 3 * pts[0][0]:
        e = fit_exponent(pts)
        if e > EXP_MAX:
            return 'fitted growth exponent %.2f over lengths %s' % (e, [p[0] for p in pts])
    return None


def measure(chk, pool, fams, kind, label, stats, big=True, group=None, deep_all=True):
    """fams: list of (prefix, unit, terminator).  kind: ('compile',) or ('regex', pattern index, method).
    Gates: small (<= 64 chars, < 2 s CPU) and growth (exponent <= 3.5 up to n = 2000).
    deep_all=False: every family climbs to n = 250; beyond that only every second family (by digest) and every
    family that is not already fast at 250 (an exponential with base >= 1.05 shows by then)."""
    group = group or label
    what = 'compile()' if kind[0] == 'compile' else label
    nviol = 0
    if _over(chk, stats, label):
        return 0
    alive = []
    smallpt = {}
    CH = 250
    for c0 in range(0, len(fams), CH):
        chunk = fams[c0:c0 + CH]
        jobs = [mkjob(kind, fam_text(f, small_n(f))) for f in chunk]
        res = pool.run(jobs, SMALL_KILL)
        chk.count(len(jobs))
        sus = [k for k, (cpu, out) in enumerate(res) if out in ('killed', 'died') or cpu >= SMALL_LIMIT]
        for k, r in zip(sus, remeasure(chk, pool, [jobs[k] for k in sus], [res[k] for k in sus], SMALL_KILL, stats)):
            res[k] = r
        for f, (cpu, out) in zip(chunk, res):
            n = small_n(f)
            stats['small_jobs'] += 1
            oc = out if out in ('ok', 'killed', 'died') else 'rejected'
            stats['outcomes'][oc] = stats['outcomes'].get(oc, 0) + 1
            text = fam_text(f, n)
            if out in ('killed', 'died') or cpu >= SMALL_LIMIT:
                nviol += 1
                chk.violation(
                    'small:%s:%s' % (group, text),
                    '%d characters occupy %s for %s CPU s (limit %.0f s, healthy: a few ms): %r' % (
                        len(text), what, ('> %.1f' % cpu) if out == 'killed' else '%.2f' % cpu, SMALL_LIMIT,
                        _short(text, 70)),
                    {'cfg': 'small', 'group': group, 'selector': '%s unit %r + %r' % (group, f[1], f[2]),
                     'text': text, 'prefix': f[0], 'unit': f[1], 'terminator': f[2], 'n': n,
                     'cpu_s': round(cpu, 3), 'outcome': out, 'kind': list(kind)})
            else:
                stats['small_max'] = max(stats['small_max'], cpu)
                smallpt[f] = (len(text), cpu)
                alive.append(f)
                chk.nontrivial(label + '\x00' + fam_text(f, 2))
        if nviol >= CAP or _over(chk, stats, None):
            stats['truncated'].append('%s small stage stopped after %d violating families (%d of %d families run)' % (
                label, nviol, c0 + len(chunk), len(fams)))
            return nviol
    if not big:
        return nviol
    # growth ladder, level by level.  A family leaves the ladder when it is flagged.  When a point is killed by
    # the watchdog without deciding the criterion (the previous point was too slow for the ratio to be
    # conclusive), the gap between the last completed n and the killed n is bisected (geometric midpoint).
    lad = {f: ladder(f) for f in alive}
    hist = {f: [smallpt[f] + (False,)] for f in alive}      # (length, cpu, killed)
    deep = {f: deep_all or int(_h(f[0] + '\x00' + f[1] + '\x00' + f[2]), 16) % (1 if deep_all else 2) == 0 for f in alive}
    st = {f: {'i': 0, 'lo': small_n(f), 'hi': None, 'ref': 0} for f in alive}

    def next_n(f):
        x = st[f]
        if x['hi'] is not None:
            n = int(round(math.sqrt(x['lo'] * x['hi'])))
            if x['ref'] >= 6 or n <= x['lo'] or n >= x['hi']:
                return None
            return n
        if x['i'] >= len(lad[f]):
            return None
        n = lad[f][x['i']]
        if n > BIG_N[0] and not deep[f]:
            return None
        return n

    def flen(f, n):
        return len(f[0]) + len(f[1]) * n + len(f[2])

    def report(f, bad):
        h = hist[f]
        chk.violation(
            'growth:%s:%s|%s|%s' % (group, f[0], f[1], f[2]),
            '%s is not polynomially bounded on %r + %r*n + %r: %s' % (what, _short(f[0], 40), f[1], f[2], bad),
            {'cfg': 'growth', 'group': group, 'selector': '%s unit %r + %r' % (group, f[1], f[2]),
             'prefix': f[0], 'unit': f[1], 'terminator': f[2],
             'points': [(l, round(tt, 4), k) for l, tt, k in h], 'kind': list(kind)})

    while True:
        cur = [(f, next_n(f)) for f in alive]
        for f, n in cur:
            if n is None and st[f]['hi'] is not None:
                stats['capped'] += 1     # slow but never beyond the exponent: polynomial with a large constant
        cur = [(f, n) for f, n in cur if n is not None]
        if not cur:
            break
        jobs = [mkjob(kind, fam_text(f, n)) for f, n in cur]
        res = pool.run(jobs, BIG_KILL, batch=8)
        chk.count(len(jobs))

        def point(f, n, r):
            killed = r[1] in ('killed', 'died')
            return flen(f, n), (BIG_KILL if killed else r[0]), killed
        sus = [k for k, ((f, n), r) in enumerate(zip(cur, res))
               if r[1] in ('killed', 'died') or _judge(hist[f], *point(f, n, r))]
        for k, r in zip(sus, remeasure(chk, pool, [jobs[k] for k in sus], [res[k] for k in sus], BIG_KILL, stats)):
            res[k] = r
        nxt = []
        for (f, n), r in zip(cur, res):
            L, t, killed = point(f, n, r)
            x = st[f]
            stats['big_jobs'] += 1
            stats['big_max'] = max(stats['big_max'], t)
            if t >= 0.05:
                sl = stats.setdefault('slowest', [])
                sl.append((round(t, 3), L, label, _short(f[0], 30), f[1], f[2]))
                sl.sort(key=lambda x: (-x[0], x[1:]))
                del sl[12:]
            h = hist[f]
            bad = _judge(h, L, t, killed)
            if killed:
                if bad:
                    h.append((L, t, True))
                else:
                    x['hi'] = n
                    x['ref'] += 1
            else:
                h.append((L, t, False))
                x['lo'] = n
                if x['hi'] is None:
                    x['i'] += 1
                else:
                    x['ref'] += 1
                    if not bad:      # the killed point, seen from the new last completed point
                        bad = _judge(h, flen(f, x['hi']), BIG_KILL, True)
                        if bad:
                            h.append((flen(f, x['hi']), BIG_KILL, True))
                pts = [(l, tt) for (l, tt, _k) in h if tt >= FIT_FLOOR]
                if len(pts) >= 3 and pts[-1][0] >= 3 * pts[0][0]:
                    stats['max_exponent'] = max(stats['max_exponent'], fit_exponent(pts))
                if n == BIG_N[0] and t >= FIT_FLOOR:
                    deep[f] = True
            if bad:
                nviol += 1
                report(f, bad)
            else:
                nxt.append(f)
        alive = nxt
        if nviol >= CAP or _over(chk, stats, None):
            stats['truncated'].append('%s growth stage stopped after %d violating families' % (label, nviol))
            break
    return nviol


# ---------------------------------------------------------------------------
# (a) ambiguity: extraction, validation, TLC, confirmation
# ---------------------------------------------------------------------------

KILLS = ['', '$', '\n', ']', ')', '"', "'", '!', '\\', 'a']


def run_tlc_union(chk, autos, label, workdir):
    mod = 'MC_C07_' + label
    text, offsets = rn.tla_module(autos, mod)
    with open(os.path.join(workdir, mod + '.tla'), 'w') as f:
        f.write(text)
    with open(os.path.join(workdir, mod + '.cfg'), 'w') as f:
        f.write(rn.CFG)
    res = tlc.run(mod, cfg=mod, workers=8, cwd=workdir, extra=('-continue',), heap='3g', timeout=1500)
    chk.add_tlc(res, label)
    import re
    names = set(re.findall(r'Error: Invariant (\S+) is violated', res.stdout))
    if names - {'NoEDA'}:
        chk.machinery('TLC: invariant %s of RegexAmb violated (%s)' % (sorted(names - {'NoEDA'}), label))
    return res, offsets


def selftest_spec(chk, workdir):
    """The criterion itself: (x+)*y must be flagged, x*x*y (polynomial ambiguity) must not."""
    for name, expect in (('MC_C07_selftest_eda', True), ('MC_C07_selftest_poly', False)):
        for ext in ('.tla', '.cfg'):
            shutil.copy(os.path.join(tlc.SPEC_DIR, name + ext), workdir)
        res = tlc.run(name, cfg=name, workers=1, cwd=workdir, extra=('-continue',), heap='1g', timeout=300)
        chk.add_tlc(res, name)
        got = bool(res.violation) and res.violated_name == 'NoEDA'
        if res.violation and res.violated_name != 'NoEDA':
            chk.machinery('%s: %s' % (name, res.violation))
        if got != expect:
            chk.machinery('%s: NoEDA %s, expected %s' % (name, 'violated' if got else 'held',
                                                        'a violation' if expect else 'it to hold'))


def confirm(chk, pool, cands, pats, stats):
    """cands: list of dict(pat index, name, anchor, prefix, pump).  Measures prefix + pump*n + kill on the real
    code for n = 10, 12, 14 ...; returns the list of confirmed candidates (with evidence)."""
    def job(c, n, k):
        text = c['prefix'] + c['pump'] * n + k
        p = pats[c['pi']]
        if p.via == 'compile':
            return ('compile', text)
        return ('regex', c['pi'], p.via, text)
    state = {}
    confirmed = {}
    for npass, kills in enumerate((KILLS[:2], KILLS[2:])):         # end of input and '$' first; the other terminators only if needed
        if npass == 1 and chk.tier == 'quick' and confirmed:
            stats['truncated'].append('quick tier: unconfirmed candidates were only tried with the terminators %r' % (
                KILLS[:2],))
            break
        for ci, c in enumerate(cands):
            for k in kills:
                state[(ci, k)] = {'hist': [], 'alive': True}
        n = 10
        while n <= 70:
            keys = [(ci, k) for ci in range(len(cands)) for k in kills
                    if state[(ci, k)]['alive'] and ci not in confirmed]
            if not keys:
                break
            if len(confirmed) >= TOTAL_CAP[chk.tier]:
                stats['truncated'].append('confirmation stopped after %d confirmed candidates' % len(confirmed))
                break
            jobs = [job(cands[ci], n, k) for (ci, k) in keys]
            res = pool.run(jobs, CONFIRM_KILL, batch=4 if n > 12 else 16)
            chk.count(len(jobs))
            stats['confirm_jobs'] += len(jobs)

            def hit(key, r):
                st = state[key]
                killed = r[1] in ('killed', 'died')
                t = CONFIRM_KILL if killed else r[0]
                n0, t0 = st['hist'][-1] if st['hist'] else (0, 1e-3)
                ratio = (t / max(t0, 1e-3)) ** (1.0 / (n - n0))
                return t, killed, ratio, (t >= CONFIRM_MIN and ratio >= CONFIRM_RATIO)
            sus = [i for i, (key, r) in enumerate(zip(keys, res)) if hit(key, r)[3] or r[1] in ('killed', 'died')]
            # one terminator per candidate is enough to confirm it: re-measure the slowest suspicious one
            best = {}
            for i in sus:
                ci = keys[i][0]
                if ci not in best or res[i][0] > res[best[ci]][0]:
                    best[ci] = i
            pick = sorted(best.values())
            for i, r in zip(pick, remeasure(chk, pool, [jobs[i] for i in pick], [res[i] for i in pick],
                                            CONFIRM_KILL, stats)):
                res[i] = r
            for i, ((ci, k), r) in enumerate(zip(keys, res)):
                s = state[(ci, k)]
                t, killed, ratio, ok = hit((ci, k), r)
                if ok and i in pick and ci not in confirmed:
                    confirmed[ci] = {'kill': k, 'n': n, 'cpu_s': round(t, 3), 'killed': killed,
                                     'per_pump': round(ratio, 2), 'hist': s['hist'] + [(n, round(t, 4))]}
                s['hist'].append((n, round(t, 4)))
                if killed:
                    s['alive'] = False
            # after the two cheap levels keep the two slowest terminators of each candidate
            if n == 12 and len(kills) > 2:
                for ci in range(len(cands)):
                    ks = sorted(kills, key=lambda k: -state[(ci, k)]['hist'][-1][1] if state[(ci, k)]['hist'] else 0)
                    for k in ks[2:]:
                        state[(ci, k)]['alive'] = False
            n += 2
    out = []
    for ci, c in enumerate(cands):
        c = dict(c)
        if ci in confirmed:
            c['confirmed'] = confirmed[ci]
        else:
            c['confirmed'] = None
            c['slowest'] = max((s['hist'][-1][1] for (cj, _k), s in state.items() if cj == ci and s['hist']),
                               default=0.0)
        out.append(c)
    return out


def part_a(chk, pool, sv, tier, stats, workdir):
    pats = _CTX['pats']
    rng = random.Random(common.SEED * 7919 + 7)
    nval = 400 if tier == 'quick' else 3000
    t_a = time.time()
    autos = []
    table = []
    val_total = val_acc = 0
    for pi, p in enumerate(pats):
        row = {'name': p.name, 'digest': p.digest, 'side': p.side, 'via': p.via}
        try:
            A = rn.automaton_for(p)
        except rn.Unsupported as e:
            row['status'] = 'unsupported: %s' % e
            stats['unsupported'].append(p.name)
            table.append(row)
            autos.append(None)
            continue
        autos.append(A)
        row.update({'thompson': A.thompson_states, 'states': A.nstates, 'classes': len(A.alphabet),
                    'multi_edges': A.nedges, 'cyclic_components': A.ncyclic, 'exempt_components': A.exempt_sccs,
                    'anchors': len(A.anchors), 'lookarounds_as_epsilon': A.approx, 'eps_cycle': A.eps_cycle})
        if A.approx:
            row['approx_what'] = A.approx_what
        n, bad = rn.validate(A, p, rng, nval)
        val_total += n
        row['validated'] = n
        for b in bad[:3]:
            chk.machinery('NFA extraction disagrees with the regex engine: %r' % (b,))
        if A.eps_cycle:
            chk.drift.append({'pattern': p.name, 'note': 'epsilon cycle (nullable loop body)'})
        table.append(row)
    stats['validation_strings'] = val_total
    stats['wall_extract_validate'] = round(time.time() - t_a, 1)
    if val_total < 1000:
        chk.machinery('only %d validation strings' % val_total)

    # Python reference of the product search (both tiers), then TLC on the union of all automata
    py = {}
    py_total = 0
    for pi, A in enumerate(autos):
        if A is None or not A.anchors:
            continue
        wit, _distinct, total = rn.product_search(A)
        py[pi] = wit
        py_total += total
    live = [pi for pi, A in enumerate(autos) if A is not None and A.anchors]
    res, offsets = run_tlc_union(chk, [autos[pi] for pi in live], 'all', workdir)
    if res.distinct != py_total:
        chk.machinery('TLC explored %d distinct product states, the Python reference %d' % (res.distinct, py_total))
    traces = rn.parse_traces(res.stdout)
    stats['wall_tlc_union'] = round(res.wall, 1)
    tl = {}
    for tr in traces:
        g = tr[0]['a'] - 1
        k = max(i for i, o in enumerate(offsets) if o <= g)
        pi = live[k]
        loc = [{'a': s['a'] - offsets[k], 'p1': s['p1'] - offsets[k], 'p2': s['p2'] - offsets[k], 'dv': s['dv']}
               for s in tr]
        tl.setdefault(pi, {})[loc[0]['a'] - 1] = loc
    for pi in live:
        if sorted(tl.get(pi, {})) != sorted(py.get(pi, {})):
            chk.machinery('%s: TLC flags anchors %s, the Python reference %s' % (
                pats[pi].name, sorted(tl.get(pi, {})), sorted(py.get(pi, {}))))
    # candidates: TLC's counterexamples (pump recovered from the trace) and the reference's, de-duplicated
    cands = []
    for pi in live:
        A = autos[pi]
        seen = set()
        per = []
        for a in sorted(set(tl.get(pi, {})) | set(py.get(pi, {}))):
            pumps = []
            if a in tl.get(pi, {}):
                pm = rn.pump_from_trace(A, tl[pi][a])
                if pm is None or not rn.check_pump(A, a, pm):
                    chk.machinery('%s: cannot re-validate TLC counterexample at anchor %d' % (pats[pi].name, a))
                else:
                    pumps.append(('tlc', pm))
            if a in py.get(pi, {}):
                if not rn.check_pump(A, a, py[pi][a]):
                    chk.machinery('%s: reference witness at anchor %d does not re-validate' % (pats[pi].name, a))
                pumps.append(('ref', py[pi][a]))
            pre = rn.prefix_to(A, a)
            if pre is None:
                continue
            for src, pm in pumps:
                key = (rn.word(A, pre), rn.word(A, pm))
                if key in seen:
                    continue
                seen.add(key)
                per.append({'pi': pi, 'name': pats[pi].name, 'anchor': a, 'prefix': key[0], 'pump': key[1],
                            'source': src})
        per.sort(key=lambda c: (len(c['pump']), len(c['prefix']), c['pump'], c['prefix']))
        lim = 3 if tier == 'quick' else 8
        pumps_seen = set()
        for c in per:           # one candidate per distinct pump (shortest prefix), the shortest pumps first
            if c['pump'] not in pumps_seen and len(pumps_seen) < lim:
                pumps_seen.add(c['pump'])
                cands.append(c)
        for row in table:
            if row['name'] == pats[pi].name:
                row['eda_anchors'] = len(set(tl.get(pi, {})) | set(py.get(pi, {})))
                row['candidates'] = len(per)
    stats['eda_patterns'] = sorted({c['name'] for c in cands})
    stats['eda_candidates'] = len(cands)
    t_c = time.time()
    done = confirm(chk, pool, cands, pats, stats) if cands else []
    stats['wall_confirm'] = round(time.time() - t_c, 1)
    unconfirmed = []
    for c in done:
        cf = c['confirmed']
        if cf:
            text = c['prefix'] + c['pump'] * cf['n'] + cf['kill']
            chk.violation(
                'eda:%s:%s|%s|%s' % (c['name'], c['prefix'], c['pump'], cf['kill']),
                'exponential backtracking in %s: %r + %r*n + %r: n=%d (%d characters) takes %s%.2f CPU s, x%.1f per '
                'added pump (T-NoEDA counterexample at anchor %d, confirmed on the real code)' % (
                    c['name'], c['prefix'], c['pump'], cf['kill'], cf['n'], len(text),
                    '> ' if cf['killed'] else '', cf['cpu_s'], cf['per_pump'], c['anchor']),
                {'cfg': 'eda', 'group': c['name'], 'selector': c['name'], 'text': text, 'prefix': c['prefix'],
                 'unit': c['pump'], 'terminator': cf['kill'], 'n': cf['n'], 'times': cf['hist'],
                 'kind': ['compile'] if pats[c['pi']].via == 'compile' else ['regex', c['pi'], pats[c['pi']].via],
                 'pattern': pats[c['pi']].regex.pattern})
        else:
            unconfirmed.append({'pattern': c['name'], 'prefix': c['prefix'], 'pump': c['pump'],
                                'anchor': c['anchor'], 'slowest_cpu_s': c['slowest']})
    stats['eda_confirmed'] = sum(1 for c in done if c['confirmed'])
    stats['eda_unconfirmed'] = unconfirmed[:40]
    stats['eda_unconfirmed_count'] = len(unconfirmed)
    chk.notes['patterns'] = table
    return autos, done


# ---------------------------------------------------------------------------
# families for the regexes that are not driven through compile()
# ---------------------------------------------------------------------------

def regex_families(A, rng, cap):
    K = len(A.alphabet)
    chars = [chr(c) for c in A.alphabet]
    units = list(chars)
    pairs = [x + y for x in chars for y in chars if x != y]
    rng.shuffle(pairs)
    units += pairs[:60]
    prefixes = ['']
    for a in A.anchors:
        w = rn.prefix_to(A, a)
        if w is not None:
            s = rn.word(A, w)
            if s not in prefixes:
                prefixes.append(s)
    prefixes = prefixes[:8]
    kills = [''] + chars[:6]
    fams = [(p, u, k) for p in prefixes for u in units for k in kills]
    rng.shuffle(fams)
    return fams[:cap]


SELECT_CASES = [
    # (selector, tag, attribute name(s), units)
    ('[a~="ab"]', 'p', ('a',), ['ab ', 'a', ' ', 'ab', 'b a']),
    ('[a|="ab"]', 'p', ('a',), ['ab-', '-', 'ab']),
    ('[a*="aab"]', 'p', ('a',), ['a', 'aa', 'ab']),
    ('[a$="ab"]', 'p', ('a',), ['a', 'ab', 'b']),
    ('[a^="ab" i]', 'p', ('a',), ['a', 'AB']),
    (':in-range', 'input', ('min', 'max', 'value'), ['1', '1.', '.1', '-']),
    (':out-of-range', 'input', ('min', 'max', 'value'), ['2000-', '-01', '1', 'T', ':00', '-W']),
    (':lang(en)', 'p', ('lang',), ['en-', '-', '*-', 'e']),
    (':lang("*-*")', 'p', ('lang',), ['-*', '*-*-']),
    ('.ab', 'p', ('class',), ['ab ', ' ', 'a']),
    (':dir(ltr)', 'p', ('dir',), ['l', 'auto']),
]


# ---------------------------------------------------------------------------

def main(tier):
    chk = common.Check('C07', tier, level='exploration')
    chk.assumptions += [
        'time is CPU time of a worker process (watchdog on CPU time); thresholds: <= 64 characters < 2 s '
        '(healthy: a few ms), growth exponent <= 3.5 up to 2000 repetitions',
        'RegexAmb decides exponential ambiguity of the automata *extracted* from the regexes; the extraction is '
        'validated against re.fullmatch on strings over each automaton\'s alphabet; look-behinds and look-aheads '
        'longer than two characters are kept as epsilon (over-approximation, counted per pattern)',
        'character classes are represented by one code point each (minterms over boundary code points)',
        'pump families: every prefix of every pool selector, pumped at every slot (interim plan of DESIGN 8: '
        'Lexer.tla does not exist yet)',
    ]
    import warnings
    warnings.simplefilter('ignore')
    sv, bs4 = common.import_repo()
    pats = rn.collect(sv)
    _CTX.update({'sv': sv, 'bs4': bs4, 'pats': pats})
    stats = {'small_jobs': 0, 'small_max': 0.0, 'big_jobs': 0, 'big_max': 0.0, 'max_exponent': 0.0,
             'outcomes': {}, 'truncated': [], 'capped': 0, 'confirm_jobs': 0, 'remeasured': 0, 'unsupported': []}
    workdir = tempfile.mkdtemp(prefix='c07_')
    shutil.copy(os.path.join(tlc.SPEC_DIR, 'RegexAmb.tla'), workdir)
    pool = Pool(NPROC)
    try:
        t0 = time.time()
        selftest_spec(chk, workdir)
        autos, done = part_a(chk, pool, sv, tier, stats, workdir)
        stats['wall_part_a'] = round(time.time() - t0, 1)
        t0 = time.time()
        rng = random.Random(common.SEED * 104729 + 11)

        # (b)+(c) selector side, through compile()
        fams = selector_families()
        stats['families_total'] = len(fams)
        extra = []
        for c in done:          # every T-NoEDA candidate is also a family (confirmed or not)
            if pats[c['pi']].via == 'compile':
                for k in ('', '$'):
                    extra.append((c['prefix'], c['pump'], k))
        if tier == 'quick':
            rng.shuffle(fams)
            nsmall, nbig = 9000, 1200
        else:
            nsmall, nbig = len(fams), len(fams)
        small_only = fams[nbig:nsmall]
        full = fams[:nbig] + extra
        v = measure(chk, pool, full, ('compile',), 'compile', stats, big=True, group='compile',
                    deep_all=(tier == 'quick'))
        if small_only and v < CAP:
            measure(chk, pool, small_only, ('compile',), 'compile', stats, big=False, group='compile')
        stats['families_run'] = len(full) + len(small_only)
        stats['wall_compile_families'] = round(time.time() - t0, 1)
        t0 = time.time()

        # regexes applied directly (selector-side auxiliaries, document-side, debug printer)
        nreg = 0
        for pi, p in enumerate(pats):
            A = autos[pi]
            if p.via == 'compile' or A is None:
                continue
            rf = regex_families(A, rng, 250 if tier == 'quick' else 1500)
            for c in done:
                if c['pi'] == pi:
                    rf.insert(0, (c['prefix'], c['pump'], ''))
            nreg += len(rf)
            measure(chk, pool, rf, ('regex', pi, p.via), p.name, stats, big=True, group=p.name)
        stats['regex_families_run'] = nreg
        stats['wall_regex_families'] = round(time.time() - t0, 1)

        # end to end on attribute values (recorded as drift only: select() does more than run a regex)
        jobs = []
        meta = []
        for sel, tag, attrs, units in SELECT_CASES:
            for u in units:
                for k in ('', 'x', ' '):
                    for n in ((SMALL_LEN - len(k)) // len(u), 2000):
                        val = u * n + k
                        at = {a: val for a in attrs}
                        if tag == 'input':
                            for ty in (('number',) if sel == ':in-range' else
                                       ('date', 'month', 'week', 'time', 'datetime-local')):
                                d = dict(at)
                                d['type'] = ty
                                jobs.append(('select', sel, tag, d, None))
                                meta.append((sel, ty, u, k, n))
                        else:
                            jobs.append(('select', sel, tag, at, 'x'))
                            meta.append((sel, '', u, k, n))
        res = pool.run(jobs, BIG_KILL, batch=8)
        chk.count(len(jobs))
        stats['select_jobs'] = len(jobs)
        stats['select_max'] = round(max(r[0] for r in res), 4)
        for m, (cpu, out) in zip(meta, res):
            if out in ('killed', 'died') or cpu >= SMALL_LIMIT:
                chk.drift.append({'select': m, 'cpu_s': round(cpu, 3), 'outcome': out})
    except tlc.TLCError as e:
        chk.machinery('TLC: %s' % str(e)[:1500])
    finally:
        pool.close()
        shutil.rmtree(workdir, ignore_errors=True)

    stats['watchdog_kills'] = pool.killed
    for k in ('small_max', 'big_max', 'max_exponent'):
        stats[k] = round(stats[k], 4)
    chk.notes['c07'] = stats
    chk.notes['thresholds'] = {'small_len': SMALL_LEN, 'small_limit_s': SMALL_LIMIT, 'exp_max': EXP_MAX,
                               'big_n': list(BIG_N), 'big_kill_s': BIG_KILL, 'confirm_min_s': CONFIRM_MIN,
                               'confirm_ratio': CONFIRM_RATIO}
    chk.sample({'family': {'prefix': ':lang(', 'unit': 'aa,', 'terminator': '$'},
                'how': 'compile(prefix + unit*n + terminator), CPU time in a worker process'})
    for row in chk.notes.get('patterns', [])[:4]:
        chk.sample({'automaton': {k: row.get(k) for k in ('name', 'states', 'classes', 'multi_edges', 'anchors',
                                                          'eda_anchors')}})
    if stats['small_jobs'] == 0:
        chk.machinery('no family was measured')
    return chk.finish()


def replay(path):
    """Re-measure one recorded case against the working tree: exit 1 if it still exceeds its limit."""
    case = json.load(open(path))['case']
    sv, bs4 = common.import_repo()
    pats = rn.collect(sv)
    _CTX.update({'sv': sv, 'bs4': bs4, 'pats': pats})
    pool = Pool(2)
    try:
        kind = tuple(case.get('kind') or ['compile'])
        f = (case['prefix'], case['unit'], case['terminator'])
        if case['cfg'] == 'growth':
            ns = [max(1, (l - len(f[0]) - len(f[2])) // len(f[1])) for l, _t, _k in case['points']]
        else:
            ns = [case['n']]
        bad = False
        for n in ns:
            (cpu, out), = pool.run([mkjob(kind, fam_text(f, n))], BIG_KILL)
            print('n=%d length=%d cpu=%.3fs outcome=%s' % (n, len(fam_text(f, n)), cpu, out))
            if out in ('killed', 'died') or cpu >= (CONFIRM_MIN if case['cfg'] == 'eda' else SMALL_LIMIT):
                bad = True
                break
    finally:
        pool.close()
    print('C07 replay: %s' % ('still slow' if bad else 'fast now'))
    return 1 if bad else 0
