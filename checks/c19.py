"""C19 - text pseudo-classes see exactly the character data CSS/HTML count as content.

Specification: spec/TextSem.tla (TxTextOf / TxOwnTexts / ContainsHolds, design-level theorems) and
EmptyHolds of spec/CssDecl.tla.

B1 (spec -> code): TLC enumerates documents (MC_C19_text / MC_C19_esc / MC_C19_empty) together with
the predicted match relation of a selector pool; every emitted document is built through the bs4 API and
the real soupsieve must select exactly the predicted elements.  The deprecated alias `:contains` is checked
code-vs-code on the same documents (same elements as `:-soup-contains`, FutureWarning on compilation).
B2 (code -> spec): seeded random larger trees (all seven node kinds, iframes, HTML / XML / XHTML / detached)
and random selectors with text pseudo-classes in nested positions; the real select is recorded and
validated by TLC with spec/Trace_C19.tla.

The property text does not say what an iframe element *itself* sees in an HTML document (it speaks of a
nested iframe): TextSem.tla carries both readings, the check accepts either and records which one the
code follows as drift."""
from __future__ import annotations
import copy
import json
import multiprocessing as mp
import os
import random
import threading
import warnings

from harness import common, dom, sel as selmod, tlc, trace
from harness import replay as rpl

_G = {}
XHTML = dom.XHTML


# ---------------------------------------------------------------------------------------------
# spelling of selectors
# ---------------------------------------------------------------------------------------------

def _str_sq(s):
    out = ["'"]
    for c in s:
        if c in "'\\":
            out.append('\\' + c)
        elif c in '\n\r\f' or ord(c) == 0:
            out.append('\\%x ' % ord(c))
        else:
            out.append(c)
    return ''.join(out) + "'"


def _str_hex(s):
    return '"' + ''.join('\\%x ' % ord(c) for c in s) + '"'


def spell(ast, mode):
    """CSS text of a pool entry (a selector list AST).  mode 'dq' is harness.sel's canonical spelling;
    'sq' / 'hex' re-spell the needles of entries made of text pseudo-classes only."""
    if mode == 'dq':
        return selmod.selector_list(ast)
    q = _str_sq if mode == 'sq' else _str_hex
    parts = []
    for cx in ast:
        assert len(cx['cs']) == 1 and all(s['k'] == 'contains' for s in cx['cs'][0])
        parts.append(''.join((':-soup-contains-own(' if s['own'] else ':-soup-contains(') +
                             ', '.join(q(common.st(v)) for v in s['vals']) + ')' for s in cx['cs'][0]))
    return ', '.join(parts)


def has_desc_contains(ast):
    """does the entry use :-soup-contains( (the form that has the deprecated alias)"""
    return ':-soup-contains(' in selmod.selector_list(ast)


def alias_of(css):
    return css.replace(':-soup-contains(', ':contains(')


# ---------------------------------------------------------------------------------------------
# B1 replay worker (own shape: res + alt masks, spellings, alias)
# ---------------------------------------------------------------------------------------------

def _compile_recorded(sv, css):
    """compile with an empty cache; returns (compiled or None, error text, [warning categories+messages])"""
    sv.purge()
    with warnings.catch_warnings(record=True) as w:
        warnings.simplefilter('always')
        try:
            obj = sv.compile(css)
            err = None
        except Exception as e:
            obj, err = None, '%s: %s' % (type(e).__name__, str(e).split('\n')[0])
    return obj, err, [(x.category.__name__, str(x.message)) for x in w]


def _init0():
    sv, bs4 = common.import_repo()
    _G['sv'], _G['bs4'] = sv, bs4
    _G['pools'] = {}


def _prepare(label, pool, modes):
    """compile the pool of one configuration once per worker process"""
    sv = _G['sv']
    comp = []      # per pool entry: list of (mode, css, obj, err)
    alias = []     # per pool entry: None or (css, obj, err, warned)
    static = []    # issues found at compile time (reported with the first chunk this worker sees)
    for s, ast in enumerate(pool):
        row = []
        for mode in modes:
            css = spell(ast, mode)
            obj, err, ws = _compile_recorded(sv, css)
            row.append((mode, css, obj, err))
            if any(c == 'FutureWarning' for c, _ in ws):
                static.append(('drift', s, css, 'FutureWarning on the non-deprecated spelling', ws))
        comp.append(row)
        if has_desc_contains(ast):
            css = alias_of(spell(ast, 'dq'))
            obj, err, ws = _compile_recorded(sv, css)
            warned = any(c == 'FutureWarning' and ':contains' in m for c, m in ws)
            alias.append((css, obj, err, warned))
            if err is None and not warned:
                static.append(('alias-warning', s, css, 'no FutureWarning when compiling the deprecated alias', ws))
        else:
            alias.append(None)
    warnings.simplefilter('ignore')
    st = {'comp': comp, 'alias': alias, 'static': static, 'first': True}
    _G['pools'][label] = st
    return st


def _ids(objs, idmap):
    return [idmap.get(id(t), -1) for t in objs]


def _work(label, pool, modes, chunk):
    bs4 = _G['bs4']
    st = _G['pools'].get(label) or _prepare(label, pool, modes)
    comp, alias = st['comp'], st['alias']
    out = []        # (kind, s, css, doc, got, exp)
    drift = []
    ncalls = nontriv = nalias = 0
    if st['first']:
        st['first'] = False
        for (kind, s, css, what, ws) in st['static']:
            (drift if kind == 'drift' else out).append((kind, s, css, None, what, ws))
    for case in chunk:
        d = case['doc']
        res = case['res']
        altres = case.get('alt') or None
        container, nodes = dom.build(d, bs4)
        idmap = dom.ids_of(nodes)
        is_frag = d['top'] == 'frag'
        for s, row in enumerate(comp):
            exp = dom.mask_to_ids(res[s])
            alt = dom.mask_to_ids(altres[s]) if altres else exp
            canon = None
            for (mode, css, obj, err) in row:
                if err is not None:
                    out.append(('compile', s, css, d, err, exp))
                    continue
                try:
                    got = _ids(obj.select(container), idmap)
                    ncalls += 1
                    if is_frag:
                        got = ([1] if obj.match(container) else []) + got
                except Exception as e:
                    out.append(('raise', s, css, d, '%s: %s' % (type(e).__name__, str(e).split('\n')[0]), exp))
                    continue
                if mode == 'dq':
                    canon = got
                if got == exp:
                    pass
                elif got == alt:
                    drift.append(('alt-reading', s, css, d, got, exp))
                else:
                    out.append(('select', s, css, d, got, exp))
            if res[s]:
                nontriv += 1
            al = alias[s]
            if al is not None and canon is not None:
                acss, aobj, aerr, _ = al
                if aerr is not None:
                    out.append(('alias-compile', s, acss, d, aerr, canon))
                else:
                    try:
                        agot = _ids(aobj.select(container), idmap)
                        if is_frag:
                            agot = ([1] if aobj.match(container) else []) + agot
                    except Exception as e:
                        agot = '%s: %s' % (type(e).__name__, str(e).split('\n')[0])
                    nalias += 1
                    if agot != canon:
                        out.append(('alias-select', s, acss, d, agot, canon))
    samp = None
    if chunk:
        c = chunk[-1]
        k = next((s for s, m in enumerate(c['res']) if m and 'soup' in comp[s][0][1]),
                 next((s for s, m in enumerate(c['res']) if m), 0))
        samp = {'selector': comp[k][0][1], 'doc': rpl.doc_brief(c['doc']),
                'predicted_ids': dom.mask_to_ids(c['res'][k])}
    return out, drift, ncalls, nalias, nontriv, len(chunk), samp


class Replay19:
    """streams the documents TLC emits into the shared process pool (created before any thread starts)"""

    def __init__(self, label, shared, modes=('dq',), chunk=24):
        self.label, self.shared, self.modes, self.chunk = label, shared, modes, chunk
        self.pending = []
        self.buf = []
        self.ndocs = 0
        self.pool_asts = None
        self.res = None
        self.error = None

    def on_line(self, val):
        if 'pool' in val:
            self.pool_asts = val['pool']
            return
        self.buf.append(val)
        self.ndocs += 1
        if len(self.buf) >= self.chunk:
            self.flush()

    def flush(self):
        if self.buf and self.pool_asts is not None:
            self.pending.append(self.shared.apply_async(_work, (self.label, self.pool_asts, self.modes, self.buf)))
            self.buf = []

    def finish(self, chk):
        """main thread only"""
        self.flush()
        label = self.label
        if self.error:
            chk.machinery('%s: %s' % (label, self.error))
            return
        res = self.res
        if res.violation:
            chk.violation('%s|spec|%s' % (label, res.violated_name),
                          'design-level theorem %s violated in %s' % (res.violated_name, label),
                          {'cfg': label, 'selector': 'theorem ' + str(res.violated_name), 'tlc': res.counterexample[:4000]})
        chk.add_tlc(res, label)
        if self.pool_asts is None:
            chk.machinery('%s: TLC emitted no selector pool' % label)
            return
        tot_alias = 0
        for p in self.pending:
            out, drift, ncalls, nalias, nontriv, ndocs, samp = p.get()
            if samp:
                samp['cfg'] = label
                chk.sample(samp, cap=10)
            chk.count(ncalls + nalias, traces=ndocs)
            chk.add_distinct(nontriv)
            tot_alias += nalias
            for (kind, s, css, d, got, exp) in drift:
                if len(chk.drift) < 200:
                    chk.drift.append({'cfg': label, 'kind': kind, 'selector': css,
                                      'doc': rpl.doc_brief(d) if d else None, 'observed': got, 'spec_default': exp})
                chk.notes['drift_' + kind] = chk.notes.get('drift_' + kind, 0) + 1
            for (kind, s, css, d, got, exp) in out:
                brief = rpl.doc_brief(d) if d else '-'
                key = '%s|%s|%s|%s' % (label, kind, css, brief)
                if kind.startswith('alias'):
                    what = '%s deprecated alias %r on %s: %s: %r, :-soup-contains gives %r' % (label, css, brief, kind, got, exp)
                else:
                    what = '%s %r on %s: %s=%r expected %r' % (label, css, brief, kind, got, exp)
                chk.violation(key, what, {'cfg': label, 'selector': css, 'doc': d, 'observed': got, 'expected': exp,
                                          'kind': kind})
        chk.notes['alias_cases'] = chk.notes.get('alias_cases', 0) + tot_alias
        if self.ndocs == 0:
            chk.machinery('%s: TLC emitted no documents' % label)


def run_mc(rp, module, consts, invariants, workers):
    """thread body: run TLC, stream into the replay; no access to the Check object here"""
    label = rp.label
    cfgdir = os.path.join('/tmp', 'verif_cfg_c19_%d' % os.getpid())
    os.makedirs(cfgdir, exist_ok=True)
    cfgpath = os.path.join(cfgdir, label)
    with open(cfgpath + '.cfg', 'w') as f:
        f.write('CONSTANTS\n')
        for k, v in consts.items():
            f.write('  %s = %s\n' % (k, v))
        f.write('INIT Init\nNEXT Next\n')
        for inv in ('Emit',) + tuple(invariants):
            f.write('INVARIANT %s\n' % inv)
        f.write('CHECK_DEADLOCK FALSE\n')
    try:
        rp.res = tlc.run(module, cfg=cfgpath, workers=workers, timeout=3000, line_cb=rp.on_line)
    except Exception as e:
        rp.error = '%s: %s' % (type(e).__name__, str(e)[-1500:])
    finally:
        try:
            os.remove(cfgpath + '.cfg')
        except OSError:
            pass


def S(*names):
    return '{' + ','.join('"%s"' % n for n in names) + '}'


ALLT = ('x', 'y', 'xy', 'sp', 'e')
ALLS = ('c', 'cd', 'pi', 'dt', 'dc')
TH_TEXT = ('ThOwnImpliesDesc', 'ThAnyOf', 'ThEmptyNeedle', 'ThStructural', 'ThJoinWeaker', 'ThReadings',
           'ThEmptyText', 'ThAltLocal')


def configs(tier):
    def text(n, row, depth, fl, tn, sp, top, var, full):
        return {'MaxNodes': n, 'MaxRow': row, 'MaxDepth': depth, 'Flavours': S(*fl), 'TextNames': S(*tn),
                'Specials': S(*sp), 'TopNames': S(*top), 'Variants': 'TRUE' if var else 'FALSE',
                'FullPool': 'TRUE' if full else 'FALSE'}
    if tier == 'quick':
        return [
            # every row of <= 3 of the 12 node kinds under the root element (and the shapes with 4 nodes), core pool
            ('MC_C19_text', text(4, 3, 2, ('html', 'xml'), ALLT, ALLS, ('x', 'c', 'dt'), False, False), 'text4', ('ThStructural', 'ThEmptyNeedle'), ('dq',), 8),
            # all five document flavours, name/namespace variants of iframe, whole pool, all theorems
            ('MC_C19_text', text(3, 3, 2, ('html', 'xml', 'frag', 'xhtml', 'xfrag'), ALLT, ALLS, ('x', 'e', 'c', 'cd', 'dt'), True, True), 'text3v', TH_TEXT, ('dq',), 8),
            ('MC_C19_esc', {'MaxRow': 2}, 'esc2', ('ThOwnImpliesDesc', 'ThJoinWeaker'), ('dq', 'sq', 'hex'), 2),
            ('MC_C19_empty', {'MaxRow': 3}, 'empty3', ('ThEmptyText',), ('dq',), 2),
        ]
    return [
        # all flavours and iframe variants, every node kind also directly under the document object, core pool
        ('MC_C19_text', text(4, 3, 3, ('html', 'xml', 'frag', 'xhtml', 'xfrag'), ALLT, ALLS, ALLT + ALLS, True, False), 'text4v',
         ('ThStructural', 'ThEmptyNeedle', 'ThReadings'), ('dq',), 8),
        # whole pool and all theorems on the documents with <= 3 nodes
        ('MC_C19_text', text(3, 3, 3, ('html', 'xml', 'frag', 'xhtml', 'xfrag'), ALLT, ALLS, ALLT + ALLS, True, True), 'text3f', TH_TEXT, ('dq',), 4),
        # rows of <= 4 and 5 nodes over a reduced alphabet (one representative of the non-text kinds per run)
        ('MC_C19_text', text(5, 4, 2, ('html', 'xml'), ('x', 'y', 'e'), ('c', 'cd'), ('x', 'c'), False, False), 'text5a', ('ThStructural',), ('dq',), 8),
        ('MC_C19_text', text(5, 4, 2, ('html', 'xhtml'), ('xy', 'sp'), ('pi', 'dt', 'dc'), ('dt',), False, False), 'text5b', ('ThStructural',), ('dq',), 8),
        ('MC_C19_esc', {'MaxRow': 3}, 'esc3', ('ThOwnImpliesDesc', 'ThJoinWeaker'), ('dq', 'sq', 'hex'), 4),
        ('MC_C19_empty', {'MaxRow': 4}, 'empty4', ('ThEmptyText',), ('dq',), 4),
    ]


# ---------------------------------------------------------------------------------------------
# B2: random trees and selectors, recorded from the real code, validated by TLC (Trace_C19.tla)
# ---------------------------------------------------------------------------------------------

T_ALPHA = ['x', 'y', 'x', 'y', ' ', '"', '\\', 'x', 'y', 'x', 'y', '\n', '\xa0', "'", ',']


def rand_text(rng):
    r = rng.random()
    if r < 0.12:
        return ''
    if r < 0.24:
        return rng.choice([' ', ' \n', '\t', ' ', '\f\r'])
    return ''.join(rng.choice(T_ALPHA) for _ in range(rng.choice([1, 1, 2, 2, 3, 4])))


def rand_doc19(rng, nmax):
    fl = rng.choice(['html'] * 5 + ['xml'] * 2 + ['xhtml'] * 2 + ['frag'])
    xml = fl in ('xml', 'xhtml')
    frag = fl == 'frag'
    n = rng.randint(3, nmax)
    d = {'parent': [], 'kind': [], 'name': [], 'ns': [], 'pfx': [], 'attrs': [], 'text': [],
         'top': 'frag' if frag else 'doc', 'xml': xml}
    spine = [0]
    kinds = ['e'] * 7 + ['t'] * 8 + ['c', 'c', 'cd', 'cd', 'pi', 'dt', 'dc']
    have_top = False
    for i in range(1, n + 1):
        if i == 1 and (frag or rng.random() < 0.8):
            p, k = 0, 'e'
        else:
            cands = [s for s in spine if not (frag and s == 0)]
            if len(cands) > 1 and cands[0] == 0 and rng.random() < 0.85:
                cands = cands[1:]          # mostly below elements, sometimes next to the root element
            p = rng.choice(cands + cands[-2:])
            k = rng.choice(kinds)
        d['parent'].append(p)
        d['kind'].append(k)
        ns = []
        if k == 'e':
            nm = rng.choice(['a', 'a', 'a', 'b', 'b', 'b', 'iframe', 'IFRAME' if rng.random() < 0.3 else 'iframe'])
            if i == 1 and rng.random() < 0.8:
                nm = 'a'
            if fl == 'xhtml':
                first_top = p == 0 and not have_top
                ns = common.cps(XHTML) if (first_top or rng.random() < 0.85) else []
            if p == 0:
                have_top = True
            d['name'].append(common.cps(nm))
            d['text'].append([])
        else:
            d['name'].append([])
            d['text'].append(common.cps(rand_text(rng)))
        d['ns'].append(ns)
        d['pfx'].append([])
        d['attrs'].append([])
        idx = spine.index(p)
        spine = spine[:idx + 1] + ([i] if k == 'e' else [])
    return d


def rand_needle(rng, d):
    r = rng.random()
    if r < 0.08:
        return ''
    if r < 0.62:
        # a piece of what is there: inside one text node, or across two consecutive text nodes
        ts = [common.st(t) for t, k in zip(d['text'], d['kind']) if k == 't' and t]
        if ts:
            j = rng.randrange(len(ts))
            s = ts[j] + (ts[j + 1] if j + 1 < len(ts) and rng.random() < 0.6 else '')
            a = rng.randrange(len(s))
            return s[a:a + rng.choice([1, 1, 2, 2, 3])]
    return ''.join(rng.choice(T_ALPHA[:9]) for _ in range(rng.choice([1, 1, 2, 2, 3])))


BARE = {'t': 'bare'}


def rand_text_simple(rng, d, depth):
    r = rng.random()
    if r < 0.55:
        return {'k': 'contains', 'vals': [common.cps(rand_needle(rng, d)) for _ in range(rng.choice([1, 1, 1, 2, 3]))],
                'own': rng.random() < 0.45}
    if r < 0.70:
        return {'k': 'empty'}
    if depth > 0:
        k = rng.choice(['not', 'not', 'is', 'has'])
        if k == 'has':
            return {'k': 'has', 'args': [{'comb': rng.choice([' ', '>', '+', '~']),
                                          'cx': rand_cx(rng, d, depth - 1, 1)}]}
        return {'k': k, 'args': [rand_cx(rng, d, depth - 1, 2) for _ in range(rng.choice([1, 1, 2]))]}
    return {'k': 'empty'}


def rand_compound19(rng, d, depth, plain=False):
    c = []
    if plain or rng.random() < 0.4:
        c.append({'k': 'type', 'ns': BARE, 'name': common.cps(rng.choice(['a', 'b', 'iframe', '*', '*']))})
    if plain:
        return c
    for _ in range(rng.choice([1, 1, 1, 1, 2])):
        c.append(rand_text_simple(rng, d, depth))
    return c


def rand_cx(rng, d, depth, maxc):
    n = min(maxc, rng.choice([1, 1, 1, 1, 1, 1, 2, 2, 3]))
    return {'cs': [rand_compound19(rng, d, depth, plain=(j < n - 1 and rng.random() < 0.8)) for j in range(n)],
            'cb': [rng.choice([' ', ' ', '>', '+', '~']) for _ in range(n - 1)]}


def alt_ast(ast):
    """the same selector under the alternative reading (TextSem.tla: field alt of contains records)"""
    a = copy.deepcopy(ast)

    def walk(x):
        if isinstance(x, dict):
            if x.get('k') == 'contains':
                x['alt'] = True
            for v in x.values():
                walk(v)
        elif isinstance(x, list):
            for v in x:
                walk(v)
    walk(a)
    return a


def _alias_events(args):
    """code-vs-code on recorded events: the deprecated spelling selects the same elements"""
    evs, = args
    warnings.simplefilter('ignore')
    sv, bs4 = common.import_repo()
    bad = []
    n = 0
    for e in evs:
        d = e['doc']
        container, nodes = dom.build(d, bs4)
        idmap = dom.ids_of(nodes)
        t0 = int(e['id'].rsplit('.', 1)[1])          # the target the event was recorded with (0 = container)
        tnode = container if t0 == 0 else nodes[t0]
        acss = alias_of(e['css'])
        obj, err, ws = _compile_recorded(sv, acss)
        if err is not None:
            bad.append((e['id'], acss, 'compile', err, e['res']))
            continue
        warnings.simplefilter('ignore')
        n += 1
        if not any(c == 'FutureWarning' and ':contains' in m for c, m in ws):
            bad.append((e['id'], acss, 'no FutureWarning', ws, None))
        got = _ids(obj.select(tnode), idmap)
        if got != e['res']:
            bad.append((e['id'], acss, 'select', got, e['res']))
    return bad, n


def trace_part(chk, tier):
    rng = random.Random(common.SEED * 7919 + 19)
    ndocs, nsel = (160, 8) if tier == 'quick' else (1600, 10)
    jobs = []
    for k in range(ndocs):
        d = rand_doc19(rng, nmax=12 if tier == 'quick' else 20)
        asts = [[rand_cx(rng, d, rng.choice([0, 1, 1, 2]), 3) for _ in range(rng.choice([1, 1, 1, 2]))]
                for _ in range(nsel)]
        els = [i + 1 for i, kk in enumerate(d['kind']) if kk == 'e']
        targets = [0] + ([rng.choice(els)] if len(els) > 1 and rng.random() < 0.5 else [])
        jobs.append(('t%d' % k, d, asts, targets, None))
    trace.SPELL_SEED = common.SEED + 19      # the texts handed to the real select are random respellings of the ASTs (harness/sel.py)
    try:
        lines = trace.record_select(jobs)
    finally:
        trace.SPELL_SEED = None
    events = []
    out = []
    for l in lines:
        e = json.loads(l)
        e['selalt'] = alt_ast(e['sel'])
        events.append(e)
        out.append(json.dumps(e))
    nonempty = sum(1 for e in events if e['res'] and e['res'][0] >= 0)
    chk.notes['trace_events_nonempty'] = nonempty
    for e in events:
        if e['res']:
            chk.nontrivial(e['id'] + e['css'])
    trace.validate(chk, out, 'Trace_C19', 'trace-c19', batch=max(200, len(out) // 8 + 1))
    e = events[0]
    chk.sample({'trace_event': {'css': e['css'], 'target': e['target'], 'res': e['res'],
                                'doc': rpl.doc_brief(e['doc'])}}, cap=12)
    # deprecated alias on the recorded events (code vs code)
    al = [e for e in events if ':-soup-contains(' in e['css'] and 'exc' not in e]
    al = al[:400 if tier == 'quick' else 4000]
    ctx = mp.get_context('fork')
    chunks = [al[i::16] for i in range(16)]
    with ctx.Pool(16) as pool:
        results = pool.map(_alias_events, [(c,) for c in chunks if c])
    nal = 0
    for bad, n in results:
        nal += n
        for (eid, acss, kind, got, exp) in bad:
            chk.violation('trace-alias|%s|%s|%s' % (kind, acss, eid),
                          'deprecated alias %r (event %s): %s: %r, :-soup-contains gives %r' % (acss, eid, kind, got, exp),
                          {'cfg': 'trace-alias', 'selector': acss, 'observed': got, 'expected': exp, 'kind': kind})
    chk.count(nal)
    chk.notes['alias_cases'] = chk.notes.get('alias_cases', 0) + nal


def _trace_child(tier, conn):
    """separate process (forked before any thread exists): B2 part with its own recorder"""
    sub = common.Check('C19', tier)
    try:
        trace_part(sub, tier)
    except Exception as e:  # machinery, never a verdict
        import traceback
        traceback.print_exc()
        sub.machinery('trace part crashed: %s: %s' % (type(e).__name__, e))
    conn.send({'violations': sub.violations, 'known_hits': sub.known_hits, 'coverage': sub.coverage,
               'notes': sub.notes, 'machinery': sub.machinery_errors, 'distinct': sub._distinct,
               'extra': sub._extra_distinct, 'drift': sub.drift})
    conn.close()


def _merge(chk, r):
    chk.violations += r['violations']
    for k, v in r['known_hits'].items():
        chk.known_hits[k] = chk.known_hits.get(k, 0) + v
    for k in ('states', 'transitions', 'traces_validated_against_impl', 'evaluations'):
        chk.coverage[k] += r['coverage'][k]
    for smp in r['coverage']['samples']:
        chk.sample(smp, cap=12)
    for k, v in r['notes'].items():
        if isinstance(v, int) and isinstance(chk.notes.get(k, 0), int):
            chk.notes[k] = chk.notes.get(k, 0) + v
        else:
            chk.notes[k] = v
    chk.machinery_errors += r['machinery']
    chk._distinct |= r['distinct']
    chk._extra_distinct += r['extra']
    chk.drift += r['drift']


def main(tier):
    chk = common.Check('C19', tier)
    chk.assumptions += [
        'TextSem.tla / EmptyHolds of CssDecl.tla are trusted as the reading of the property text; CssDecl.tla for the '
        'selectors the text pseudo-classes are nested in',
        'documents are built through the bs4 API (html.parser / lxml-xml builders): empty and adjacent text nodes, '
        'doctypes and declarations below elements are API-level trees a parser would not produce',
        'an iframe element as the subject itself in an HTML document: the property text does not decide whether its '
        'own content counts; both readings are accepted and the one the code follows is recorded as drift',
        'the FutureWarning of :contains is required on a compilation that is not served from the pattern cache',
    ]
    ctx = mp.get_context('fork')
    # processes are forked first, threads (one per TLC run) start afterwards
    pconn, cconn = ctx.Pipe(duplex=False)
    tproc = ctx.Process(target=_trace_child, args=(tier, cconn))
    tproc.start()
    cconn.close()
    shared = ctx.Pool(16, initializer=_init0)
    runs = []
    for (module, consts, label, invs, modes, workers) in configs(tier):
        rp = Replay19(label, shared, modes=modes)
        t = threading.Thread(target=run_mc, args=(rp, module, consts, invs, workers))
        runs.append((rp, t))
        t.start()
    for rp, t in runs:
        t.join()
    try:
        os.rmdir(os.path.join('/tmp', 'verif_cfg_c19_%d' % os.getpid()))
    except OSError:
        pass
    for rp, t in runs:
        rp.finish(chk)
    shared.close()
    shared.join()
    try:
        if pconn.poll(3000):
            _merge(chk, pconn.recv())
        else:
            chk.machinery('trace part: no result')
    except EOFError:
        chk.machinery('trace part: process died')
    tproc.join()
    # every tree <= 5-6 nodes over {element, iframe, uniquely lettered text}: text after a skipped iframe at any depth
    rpl.run_cfg(chk, 'MC_C19_tail', {'MaxNodes': 5 if tier == 'quick' else 6}, 'tail%d' % (5 if tier == 'quick' else 6))
    from harness import suite
    suite.part(chk, 'C19')      # the repository's own test-suite as a trace corpus
    return chk.finish()


def replay(path):
    """./check C19 --replay <file>: re-run one recorded violating case against the tree under test"""
    case = json.load(open(path))['case']
    sv, bs4 = common.import_repo()
    warnings.simplefilter('ignore')
    if 'event' in case:
        e = case['event']
        d, css, exp = e['doc'], e['css'], case.get('spec_expected')
        t0 = int(e['id'].rsplit('.', 1)[1])
    else:
        d, css, exp, t0 = case.get('doc'), case['selector'], case.get('expected'), 0
    if d is None:
        obj, err, ws = _compile_recorded(sv, css)
        print('compile(%r): error=%r warnings=%r' % (css, err, ws))
        return 1 if (err or not any(c == 'FutureWarning' for c, _ in ws)) else 0
    container, nodes = dom.build(d, bs4)
    idmap = dom.ids_of(nodes)
    tnode = container if t0 == 0 else nodes[t0]
    try:
        got = _ids(sv.select(css, tnode), idmap)
        if d['top'] == 'frag' and t0 == 0 and 'event' not in case:
            got = ([1] if sv.match(css, container) else []) + got
    except Exception as ex:
        got = '%s: %s' % (type(ex).__name__, ex)
    print('document : %s' % rpl.doc_brief(d))
    print('selector : %s' % css)
    print('observed : %r' % (got,))
    print('expected : %r' % (exp,))
    same = (got == exp) if isinstance(exp, list) else (str(got).replace('[', '<<').replace(']', '>>') == str(exp))
    return 0 if same else 1
