"""C18 - date, time and number values are validated and ordered as HTML prescribes
(:in-range / :out-of-range).

spec/Calendar.tla is the specification (R stratum: HTML's valid date / month / week / time /
local date-time / floating-point number strings, proleptic Gregorian calendar, ISO-8601 week
counts, range under/overflow incl. time ranges wrapping midnight).

B0  MC_C18_thm   TLC checks the model itself (period 400, 52/53 weeks, 71 long years per 400,
                 Thursday rule = ISO definition, total orders, scaled-integer order ..).
B1  MC_C18_cal / MC_C18_num / MC_C18_tri: TLC enumerates documents of sibling <input> elements
    (one TLC state = one document) and prints the document, the ids the specification puts in
    :in-range, the ids in :out-of-range and the ids lying in an underdetermined zone.  Every
    document is rebuilt through the bs4 API, both selectors are run by the real soupsieve and the
    membership of every gated element is compared.
B2  seeded random documents (wider field ranges, long years, mutated strings, compound selectors)
    are run through the real code, recorded as ndjson and accepted / rejected by TLC with
    spec/Trace_C18.tla (= Trace_Select restricted to documents all of whose elements are gated).

Open finding F18 (known_findings.txt key week53-accepted-when-dec31-in-week1): a failing case gets that key
only when the observed answer equals the specification evaluated with exactly that one rule switched on
(B1: Calendar!CalKnownClass, emitted per element; B2: rejected events re-validated with
spec/Trace_C18_known.cfg, which substitutes CalLenientWeek53 <- TRUE).  Every other disagreement keeps its
own key.

The TLC runs of a tier go side by side (one reader thread each, one shared pool of replay processes that
is forked before any thread starts); verdicts are collected and ordered by the main thread, so the
evidence is deterministic.
"""
from __future__ import annotations
import json
import multiprocessing as mp
import os
import random
import threading
import warnings
from concurrent.futures import ThreadPoolExecutor

from harness import common, dom, sel as selmod, tlc, trace

_G = {}
BARE = {'t': 'bare'}
# open finding F18 (known_findings.txt): week "Y-W53" accepted for a 52-week year whose 31 December lies in
# ISO week 1 of Y+1.  A failing case gets this key only when the observed answer equals the specification
# evaluated with exactly that rule switched on (Calendar!CalClassOfK(f, TRUE) / CalLenientWeek53 <- TRUE).
KNOWN_F18 = 'week53-accepted-when-dec31-in-week1'


# ---------------------------------------------------------------------------
# rendering helpers
# ---------------------------------------------------------------------------
def el_html(d, i):
    """readable rendering of element i (1-based) of an abstract document"""
    at = ''.join(' %s=%s' % (common.st(a['k']), json.dumps(common.st(a['v']), ensure_ascii=False))
                 for a in d['attrs'][i - 1])
    ns = d['ns'][i - 1]
    return '<%s%s>%s' % (common.st(d['name'][i - 1]), at,
                         (' {xml%s}' % (':' + common.st(ns)[-5:] if ns else '')) if d.get('xml') else '')


def el_type(d, i):
    for a in d['attrs'][i - 1]:
        if common.st(a['k']).lower() == 'type':
            return common.st(a['v']).lower()
    return '-'


def one_doc(d, i):
    """the abstract document reduced to element i (for replay files)"""
    return {'parent': [0], 'kind': ['e'], 'name': [d['name'][i - 1]], 'ns': [d['ns'][i - 1]],
            'pfx': [d['pfx'][i - 1]], 'attrs': [d['attrs'][i - 1]], 'text': [[]], 'top': d['top'],
            'xml': d.get('xml', False)}


# ---------------------------------------------------------------------------
# B1 replay worker
# ---------------------------------------------------------------------------
def _init(pool):
    warnings.simplefilter('ignore')
    sv, bs4 = common.import_repo()
    _G['sv'] = sv
    _G['bs4'] = bs4
    _G['sels'] = [(selmod.selector_list(ast), sv.compile(selmod.selector_list(ast))) for ast in pool]


def _membership(obj, container, nodes, idmap, n):
    """set of ids selected, or per element: id -> True / False / 'Exc: ..' when select raises"""
    try:
        got = [idmap.get(id(t), -1) for t in obj.select(container)]
        if got != sorted(set(got)) or any(g < 1 for g in got):
            return None, 'select returned %r (not a duplicate-free list of elements in document order)' % (got,)
        return {i: (i in set(got)) for i in range(1, n + 1)}, None
    except Exception:
        out = {}
        for i in range(1, n + 1):
            try:
                out[i] = bool(obj.match(nodes[i]))
            except Exception as e:
                out[i] = '%s: %s' % (type(e).__name__, str(e).split('\n')[0][:80])
        return out, None


def _work(chunk):
    bs4 = _G['bs4']
    out = []          # (sel, doc, i, observed, expected, gated)
    ncmp = 0
    nontriv = 0
    samp = None
    for case in chunk:
        d = case['doc']
        n = len(d['parent'])
        container, nodes = dom.build(d, bs4)
        idmap = dom.ids_of(nodes)
        exp = [set(case['inr']), set(case['outr'])]
        opn = set(case['open'])
        kcls = case['kcls']
        for s, (css, obj) in enumerate(_G['sels']):
            got, err = _membership(obj, container, nodes, idmap, n)
            if err:
                out.append((css, d, 0, err, sorted(exp[s]), True))
                continue
            for i in range(1, n + 1):
                e = i in exp[s]
                if got[i] != e:
                    # explained exactly by the open finding F18: the observed answer is the specification's
                    # with the one rule "31 December in week 1 of the next year => week 53 accepted"
                    kc = kcls[i - 1]
                    known = kc != 'same' and isinstance(got[i], bool) and got[i] == (kc == ('in', 'out')[s])
                    out.append((css, one_doc(d, i), 1, got[i], e, i not in opn, el_html(d, i), el_type(d, i), known))
                if i not in opn:
                    ncmp += 1
        nontriv += len((exp[0] | exp[1]) - opn)
        if exp[1] and case['b'] <= 4:
            i = min(exp[1])
            samp = samp or []
            samp += [{'batch': case['b'], 'selector': ':out-of-range', 'element': el_html(d, i), 'predicted': True,
                    'doc_elements': n, 'in_range_ids': len(exp[0]), 'out_of_range_ids': len(exp[1])}]
    return out, ncmp, nontriv, len(chunk), samp


POOL_ASTS = [[{'cs': [[{'k': 'in-range'}]], 'cb': []}], [{'cs': [[{'k': 'out-of-range'}]], 'cb': []}]]


class Replay:
    """Streams the documents one TLC run emits into the shared replay pool (the TLC runs of a tier go side by
    side, each read by its own thread; the worker processes are forked before any thread exists)."""

    def __init__(self, label, shared, chunk=2):
        self.label, self.mp, self.chunk = label, shared, chunk
        self.pool_ok = False
        self.pending = []
        self.buf = []
        self.ndocs = 0
        self.nel = 0

    def on_line(self, val):
        if 'pool' in val:
            self.pool_ok = val['pool'] == POOL_ASTS
            return
        if 'doc' not in val:
            return
        self.buf.append(val)
        self.ndocs += 1
        self.nel += len(val['doc']['parent'])
        if len(self.buf) >= self.chunk:
            self.flush()

    def flush(self):
        if self.buf:
            self.pending.append(self.mp.apply_async(_work, (self.buf,)))
            self.buf = []

    def finish(self, chk):
        self.flush()
        if not self.pool_ok:
            chk.machinery('%s: TLC did not emit the selector pool [:in-range, :out-of-range]' % self.label)
            return
        samps, recs = [], []
        for p in self.pending:          # TLC's workers print in no fixed order: collect, then order
            out, ncmp, nontriv, ndocs, samp = p.get()
            samps += samp or []
            chk.count(ncmp, traces=ndocs)
            chk.add_distinct(nontriv)
            recs += out
        for samp in sorted(samps, key=lambda x: x['batch'])[:2]:
            samp['cfg'] = self.label
            chk.sample(samp, cap=7)
        for rec in sorted(recs, key=lambda r: (r[0], r[6] if len(r) > 6 else '', str(r[3]))):
            report(chk, self.label, rec)
        if self.ndocs == 0:
            chk.machinery('%s: TLC emitted no documents' % self.label)


def report(chk, label, rec):
    css, d1, i, got, exp, gated = rec[:6]
    if i == 0:
        chk.violation('%s|%s|doc' % (label, css), '%s %s: %s' % (label, css, got),
                      {'cfg': label, 'selector': css, 'doc': d1, 'observed': got, 'expected': exp})
        return
    html, typ, known = rec[6], rec[7], rec[8]
    kind = 'raises' if isinstance(got, str) else 'membership'
    what = '%s %s on %s: %s, specification: %s' % (
        label, css, html, ('raises ' + got) if kind == 'raises' else ('selected' if got else 'not selected'),
        'selected' if exp else 'not selected')
    if not gated:
        zone = ('number string outside -?digits(.digits)? that some reading accepts' if typ in ('number', 'range') else
                'type keyword case in an XML document' if '{xml' in html and typ not in ('time', 'datetime-local') else
                'time with seconds / local date-time with seconds or space separator')
        if len(chk.drift) < 2000:
            chk.drift.append({'cfg': label, 'zone': zone + ' (not gated)', 'selector': css,
                              'element': html, 'observed': got, 'html_reading': exp})
        else:
            chk.drift.append(None)
        return
    key = KNOWN_F18 if (known and gated) else '%s|%s' % (css, html)
    chk.violation(key, what,
                  {'cfg': label, 'selector': '%s type=%s %s' % (css, typ, kind), 'css': css, 'element': html,
                   'doc': d1, 'observed': got, 'expected': exp})


def write_cfg(name, constants, invariants):
    cfgdir = os.path.join('/tmp', 'verif_cfg_c18_%d' % os.getpid())
    os.makedirs(cfgdir, exist_ok=True)
    path = os.path.join(cfgdir, ''.join(c if c.isalnum() else '_' for c in name))
    with open(path + '.cfg', 'w') as f:
        if constants:
            f.write('CONSTANTS\n')
            for k, v in constants.items():
                f.write('  %s = %s\n' % (k, v))
        f.write('INIT Init\nNEXT Next\n')
        for inv in invariants:
            f.write('INVARIANT %s\n' % inv)
        f.write('CHECK_DEADLOCK FALSE\n')
    return path


def drop_cfg(path):
    try:
        os.remove(path + '.cfg')
        os.rmdir(os.path.dirname(path))
    except OSError:
        pass


def spec_violation(chk, label, res):
    if res.violation:
        chk.violation('%s|spec|%s' % (label, res.violated_name),
                      'design-level theorem %s violated in %s' % (res.violated_name, label),
                      {'cfg': label, 'group': 'spec theorem', 'tlc': res.counterexample[:4000]})


THEOREMS = ('ThmPeriod', 'ThmJan1', 'ThmYearLen', 'ThmWeeks', 'Thm71', 'ThmStrings', 'ThmShort', 'ThmYearOrder',
            'ThmBigYears', 'ThmAnchors', 'ThmOrder', 'ThmScaled', 'ThmExp', 'ThmZones', 'ThmWrap', 'ThmSign')


class Job(threading.Thread):
    """one TLC run (B0 theorems or a B1 configuration), read by its own thread; verdicts are collected by
    the main thread in finish()"""

    def __init__(self, module, constants, label, invariants, workers, shared=None, expect_states=None):
        super().__init__(daemon=True)
        self.module, self.constants, self.label, self.invariants = module, constants, label, invariants
        self.workers, self.expect_states = workers, expect_states
        self.rp = Replay(label, shared) if shared is not None else None
        self.res = None
        self.err = None

    def run(self):
        path = write_cfg(self.label, self.constants, self.invariants)
        try:
            self.res = tlc.run(self.module, cfg=path, workers=self.workers, timeout=3000, keep_stdout=False,
                               line_cb=self.rp.on_line if self.rp else None, heap='3g' if self.rp else '2g')
        except Exception as e:      # TLCError, or anything the reader thread hit: machinery, never a verdict
            self.err = '%s: %s' % (type(e).__name__, str(e)[-1500:])
        finally:
            drop_cfg(path)

    def finish(self, chk):
        self.join()
        if self.err:
            chk.machinery('%s: %s' % (self.label, self.err))
            return
        spec_violation(chk, self.label, self.res)
        chk.add_tlc(self.res, self.label)
        if self.rp:
            self.rp.finish(chk)
            chk.notes.setdefault('elements', {})[self.label] = self.rp.nel
        if self.expect_states is not None and self.res.distinct != self.expect_states and not self.res.violation:
            chk.machinery('%s: expected %d states, got %d' % (self.label, self.expect_states, self.res.distinct))


def mc_job(shared, module, constants, label, workers):
    return Job(module, constants, label, ('Emit', 'Law'), workers, shared=shared)


def thm_job(ymax, workers):
    return Job('MC_C18_thm', {'YMax': ymax}, 'thm(YMax=%d, %d theorems)' % (ymax, len(THEOREMS)), THEOREMS, workers,
               expect_states=ymax)


# ---------------------------------------------------------------------------
# the guarded probe for inputs without a type attribute (C08's F08, not gated here)
# ---------------------------------------------------------------------------
def sign_law_part(chk):
    """T-Sign on the code: whatever reading of the undecided number shapes (".5", "5.", "1e2", "05" ...) the implementation takes, a string
    and "-" + that string must be both usable or both unusable as min / max / value of a number or range input.  Usability is observed
    through far-away counterparts: value -999999 is out of range exactly when min is usable, and so on."""
    import warnings
    warnings.simplefilter('ignore')
    sv, bs4 = common.import_repo()
    shapes = ['5', '0', '05', '5.5', '.5', '5.', '0.50', '.50', '00.5', '1e2', '1E2', '.5e1', '5.e1', '5e', 'e5', '.', '', '5.5.5', '1e+2', '1e-2', '.5E-1', '55', '0.0', '.0']

    def cls(typ, **attrs):
        soup = bs4.BeautifulSoup('', 'html.parser')
        t = soup.new_tag('input')
        t.attrs['type'] = typ
        for k, v in attrs.items():
            t.attrs[k] = v
        soup.append(t)
        return (bool(sv.select(':in-range', soup)), bool(sv.select(':out-of-range', soup)))
    n = 0
    for typ in ('number', 'range'):
        for s in shapes:
            for role in ('min', 'max', 'value'):
                if role == 'min':
                    a, b = cls(typ, min=s, value='-999999'), cls(typ, min='-' + s, value='-999999')
                elif role == 'max':
                    a, b = cls(typ, max=s, value='999999'), cls(typ, max='-' + s, value='999999')
                else:
                    a, b = cls(typ, min='-999999', max='999999', value=s), cls(typ, min='-999999', max='999999', value='-' + s)
                n += 2
                chk.nontrivial('sign:%s:%s' % (role, s))
                if a != b:
                    chk.violation('sign|%s|%s|%s' % (typ, role, s),
                                  'sign law: <input type=%s> with %s=%r is (in-range, out-of-range) = %r but with %s=%r it is %r: the number shape is usable with one sign only'
                                  % (typ, role, s, a, role, '-' + s, b), {'cfg': 'sign-law', 'group': 'sign law %s' % role, 'type': typ, 'role': role, 'shape': s})
    chk.count(n, traces=n // 2)


def long_bound_part(chk):
    """a bound that no value can violate (a year / number of thousands of digits as max, a hugely negative number as min) leaves the decision
    to the other bound - whether the implementation can read such a string or treats it as absent does not matter"""
    import warnings
    warnings.simplefilter('ignore')
    sv, bs4 = common.import_repo()
    big = '9' * 5000
    cases = [('date', '2020-01-01', big + '-12-31', '2019-06-01', '2021-06-01'), ('month', '2020-01', big + '-12', '2019-06', '2021-06'),
             ('week', '2020-W10', big + '-W01', '2019-W10', '2021-W10'), ('datetime-local', '2020-01-01T00:00', big + '-01-01T00:00', '2019-01-01T00:00', '2021-01-01T00:00'),
             ('number', '5', big, '4', '6'), ('range', '5', big + '.5', '4', '6')]
    n = 0
    for typ, mn, hugemax, below, above in cases:
        for value, want in ((below, (False, True)), (above, (True, False))):
            soup = bs4.BeautifulSoup('', 'html.parser')
            t = soup.new_tag('input')
            t.attrs.update({'type': typ, 'min': mn, 'max': hugemax, 'value': value})
            soup.append(t)
            n += 1
            try:
                got = (bool(sv.select(':in-range', soup)), bool(sv.select(':out-of-range', soup)))
            except Exception as ex:
                got = type(ex).__name__
            chk.nontrivial('longbound:%s:%s' % (typ, value))
            if got != want:
                chk.violation('longbound|%s|%s' % (typ, value), '<input type=%s min=%s max=<%d digits...> value=%s> is (in-range, out-of-range) = %r, expected %r: '
                              'the bound that can never be exceeded decided the answer' % (typ, mn, len(hugemax), value, got, want),
                              {'cfg': 'long-bound', 'group': 'long bound ' + typ, 'type': typ})
    chk.count(n, traces=n)


def typeless_probe(chk):
    sv, bs4 = common.import_repo()
    soup = bs4.BeautifulSoup('', 'html.parser')
    t = soup.new_tag('input')
    t.attrs['max'] = '5'
    t.attrs['value'] = '7'
    soup.append(t)
    for css in (':in-range', ':out-of-range'):
        try:
            r = sv.select(css, soup)
            chk.count(1)
            if r:      # an input without type is a text field: no range at all
                chk.violation('%s|<input max="5" value="7">' % css,
                              '%s selects <input max="5" value="7"> (no type attribute: not a range type)' % css,
                              {'cfg': 'typeless', 'selector': css, 'observed': True, 'expected': False})
            chk.notes.setdefault('typeless_input', {})[css] = 'returned %r' % (r,)
        except Exception as e:
            msg = '%s: %s' % (type(e).__name__, str(e).split('\n')[0])
            chk.notes.setdefault('typeless_input', {})[css] = 'raised ' + msg
            chk.drift.append({'cfg': 'typeless', 'zone': 'input without a type attribute: the exception is C08 (F08) (not gated)',
                              'selector': css, 'element': '<input max="5" value="7">', 'observed': msg,
                              'html_reading': False})


# ---------------------------------------------------------------------------
# B2: seeded random documents -> real code -> ndjson -> TLC (Trace_C18)
# ---------------------------------------------------------------------------
TYPES = ['date', 'month', 'week', 'time', 'datetime-local', 'number', 'range']


def rand_year(rng):
    r = rng.random()
    if r < 0.35:
        y = rng.randint(1, 2400)
    elif r < 0.7:
        y = rng.randint(1900, 2100)
    elif r < 0.9:
        y = rng.randint(1, 300000)
    else:
        y = rng.choice([0, 1, 999, 1000, 9999, 10000, 99999, 100000, 275760, 10 ** 9 + 7, 10 ** 12 + 400, 2 ** 31, 2 ** 32 + 2019])
    w = 4 if rng.random() < 0.85 else rng.choice([3, 5, 6, 7])
    return str(y).rjust(w, '0')


def near_year(rng, ys):
    """a year string close to ys (so that comparisons are decided by month / day / week too)"""
    if rng.random() < 0.5:
        return ys
    try:
        y = max(0, int(ys) + rng.choice([-1, 1, -10, 10, 400, -400]))
    except ValueError:
        return ys
    s = str(y).rjust(4, '0')
    return ('0' + s) if rng.random() < 0.15 else s


def p2(rng, lo, hi, extra):
    v = rng.randint(lo, hi) if rng.random() < 0.8 else rng.choice(extra)
    return ('%02d' % v) if rng.random() < 0.95 else str(v)


def rand_value(rng, typ, ys):
    if typ == 'date':
        return '%s-%s-%s' % (ys, p2(rng, 1, 12, [0, 13, 2]), p2(rng, 1, 31, [0, 28, 29, 30, 31, 32]))
    if typ == 'month':
        return '%s-%s' % (ys, p2(rng, 1, 12, [0, 13]))
    if typ == 'week':
        return '%s-W%s' % (ys, p2(rng, 1, 53, [0, 52, 53, 53, 53, 54]))
    if typ == 'time':
        return '%s:%s' % (p2(rng, 0, 23, [24, 0, 23]), p2(rng, 0, 59, [60, 0, 59]))
    if typ == 'datetime-local':
        return rand_value(rng, 'date', ys) + 'T' + rand_value(rng, 'time', ys)
    # numbers: -?digits(.digits)?, at most 14 significant digits (exact in the code's floats)
    sign = '-' if rng.random() < 0.3 else ''
    ip = ('0' * rng.choice([0, 0, 0, 1, 2])) + str(rng.choice([0, 1, 5, 9, 10, 99, 100, rng.randint(0, 10 ** rng.randint(1, 8))]))
    fp = ''
    if rng.random() < 0.5:
        fp = '.' + ''.join(rng.choice('0123456789') for _ in range(rng.randint(1, 5)))
    return sign + ip + fp


JUNK = 'x \n-:/09TWtw.+e١'


def mutate(rng, s, typ):
    k = rng.randint(0, 2)
    if k == 0 and s:
        p = rng.randrange(len(s))
        return s[:p] + s[p + 1:]
    junk = JUNK if typ not in ('number', 'range') else 'x-:/09Ww١'     # stay out of the open number zone mostly
    c = rng.choice(junk)
    if k == 1 or not s:
        p = rng.randint(0, len(s))
        return s[:p] + c + s[p:]
    p = rng.randrange(len(s))
    return s[:p] + c + s[p + 1:]


def rand_input(rng):
    typ = rng.choice(TYPES)
    ys = rand_year(rng)
    at = []
    tname = typ if rng.random() < 0.85 else rng.choice([typ.upper(), typ.capitalize(), 'text', 'datetime', typ + ' '])
    at.append(('type', tname))
    for nm, p in (('min', 0.7), ('max', 0.6), ('value', 0.85)):
        if rng.random() < p:
            v = rand_value(rng, typ, near_year(rng, ys))
            if rng.random() < 0.12:
                v = mutate(rng, v, typ)
            elif rng.random() < 0.03:
                v = rng.choice(['', 'x', '-'])
            key = nm if rng.random() < 0.93 else nm.upper()
            at.append((key, v))
    name = 'input' if rng.random() < 0.92 else rng.choice(['INPUT', 'p', 'select'])
    return name, at


def rand_c18_doc(rng, nmax):
    n = rng.randint(2, nmax)
    d = {'parent': [], 'kind': [], 'name': [], 'ns': [], 'pfx': [], 'attrs': [], 'text': [], 'top': 'doc', 'xml': False}
    wrap = rng.random() < 0.3        # inputs inside a form element
    if wrap:
        d['parent'].append(0); d['kind'].append('e'); d['name'].append(common.cps('form')); d['ns'].append([])
        d['pfx'].append([]); d['attrs'].append([]); d['text'].append([])
    for _ in range(n):
        name, at = rand_input(rng)
        d['parent'].append(1 if wrap else 0)
        d['kind'].append('e')
        d['name'].append(common.cps(name))
        d['ns'].append([])
        d['pfx'].append([])
        d['attrs'].append([{'k': common.cps(k), 'ns': [], 'local': common.cps(k), 'v': common.cps(v), 'list': False}
                           for k, v in at])
        d['text'].append([])
    return d


def cx(*simples):
    return {'cs': [list(simples)], 'cb': []}


IN, OUT = {'k': 'in-range'}, {'k': 'out-of-range'}
INPUT = {'k': 'type', 'ns': BARE, 'name': common.cps('input')}


def attr_eq(name, val):
    return {'k': 'attr', 'ns': BARE, 'name': common.cps(name), 'op': 'eq', 'val': common.cps(val), 'flag': 'n'}


def rand_c18_selectors(rng):
    t = rng.choice(TYPES)
    pool = [
        [cx(IN)], [cx(OUT)],
        [cx(INPUT, IN)], [cx(INPUT, OUT)],
        [cx(IN), cx(OUT)],
        [cx({'k': 'not', 'args': [cx(OUT)]})],
        [cx(INPUT, {'k': 'not', 'args': [cx(IN)]})],
        [cx({'k': 'is', 'args': [cx(IN), cx(OUT)]})],
        [cx(attr_eq('type', t), OUT)],
        [cx(attr_eq('type', t), IN)],
        [{'cs': [[IN], [OUT]], 'cb': ['+']}],
        [{'cs': [[OUT], [IN]], 'cb': ['~']}],
        [{'cs': [[{'k': 'type', 'ns': BARE, 'name': common.cps('form')}], [OUT]], 'cb': ['>']}],
        [cx({'k': 'nth', 'a': 2, 'b': 1, 'last': False, 'oftype': False, 'of': [cx(OUT)]})],
    ]
    return [pool[0], pool[1]] + rng.sample(pool[2:], 2)


def _validate_one(args):
    path, n = args[:2]
    cfg = args[2] if len(args) > 2 else None
    try:
        res = tlc.run('Trace_C18', cfg=cfg, workers=1, env={'TRACE_FILE': path}, timeout=3000, heap='1g')
    except tlc.TLCError as e:
        return 0, 0, [], 0, str(e)[-1500:]
    rej, nopen = [], 0
    for t in res.tuples:
        m = trace._RE_REJECT.match(t)
        if m:
            rej.append((m.group(1), m.group(2)))
        elif t.startswith('<<"OPEN"'):
            nopen += 1
    err = None
    if res.violation:
        err = 'trace not fully consumed / TLC error: %s' % res.violation
    elif res.distinct != n + 1:
        err = 'expected %d states, got %d' % (n + 1, res.distinct)
    return res.distinct, res.generated, rej, nopen, err


TRACE_JVMS = 6


def validate_trace(chk, lines, label, nbatches=16):
    """harness.trace.validate for Trace_C18: same verdicts, and counts the events the trace spec left
    ungated (PrintT(<<"OPEN", id>>)); at most 8 single-worker TLC instances side by side."""
    import tempfile
    events = {}
    for l in lines:
        e = json.loads(l)
        events[e['id']] = e
    size = max(50, (len(lines) + nbatches - 1) // nbatches)
    tmpd = tempfile.mkdtemp(prefix='verif_trace_c18_')
    rejected, nopen = [], 0
    try:
        files = []
        for b in range(0, len(lines), size):
            path = os.path.join(tmpd, 't%d.ndjson' % b)
            with open(path, 'w') as f:
                f.write('\n'.join(lines[b:b + size]) + '\n')
            files.append((path, len(lines[b:b + size])))
        with ThreadPoolExecutor(max_workers=TRACE_JVMS) as pool:      # each task is one TLC subprocess
            results = list(pool.map(_validate_one, files))
        for distinct, generated, rej, no, err in results:
            if err:
                chk.machinery('%s: %s' % (label, err))
                continue
            chk.coverage['states'] += distinct
            chk.coverage['transitions'] += generated
            rejected += rej
            nopen += no
        # classify the rejected events: accepted when the one rule of the open finding F18 is switched on?
        explained = set()
        if rejected:
            rl = [l for l in lines if json.loads(l)['id'] in {r for r, _ in rejected}]
            path = os.path.join(tmpd, 'rejected.ndjson')
            with open(path, 'w') as f:
                f.write('\n'.join(rl) + '\n')
            distinct, generated, rej2, _no, err = _validate_one((path, len(rl), 'Trace_C18_known'))
            if err:
                chk.machinery('%s (variant pass): %s' % (label, err))
            else:
                chk.coverage['states'] += distinct
                chk.coverage['transitions'] += generated
                explained = {r for r, _ in rejected} - {r for r, _ in rej2}
    finally:
        for f in os.listdir(tmpd):
            os.remove(os.path.join(tmpd, f))
        os.rmdir(tmpd)
    chk.count(len(lines) - nopen, traces=len(lines))
    for rid, exp in rejected:
        e = events.get(rid, {})
        chk.violation(KNOWN_F18 if rid in explained else '%s|%s|%s' % (label, e.get('css'), rid),
                      '%s: recorded select(%r) = %r%s is not what the specification admits (%s)' % (
                          label, e.get('css'), e.get('res'), (' [' + e['exc'] + ']') if 'exc' in e else '', exp),
                      {'cfg': label, 'selector': e.get('css'), 'event': e, 'spec_expected': exp})
    return rejected, nopen


def trace_record(tier):
    """run the seeded random events through the real code (forks worker processes: call before any thread)"""
    rng = random.Random(common.SEED * 7919 + 18)
    ndocs, nmax = (260, 8) if tier == 'quick' else (2600, 10)
    jobs = []
    for k in range(ndocs):
        d = rand_c18_doc(rng, nmax)
        jobs.append(('r%d' % k, d, rand_c18_selectors(rng), [0], None))
    return ndocs, trace.record_select(jobs)


def trace_validate(chk, ndocs, lines):
    if not lines:
        chk.machinery('trace: no events recorded')
        return
    rejected, nopen = validate_trace(chk, lines, 'trace-c18', nbatches=12)
    nexc = sum(1 for l in lines if '"exc"' in l)
    e = json.loads(lines[0])
    chk.sample({'trace_event': {'css': e['css'], 'res': e['res'], 'nodes': len(e['doc']['parent']),
                                'first_element': el_html(e['doc'], len(e['doc']['parent']))},
                'cfg': 'trace-c18'}, cap=8)
    chk.notes['trace'] = {'documents': ndocs, 'events': len(lines), 'events_that_raised': nexc,
                          'rejected': len(rejected), 'events_not_gated': nopen}


def trace_part(chk, tier):
    ndocs, lines = trace_record(tier)
    trace_validate(chk, ndocs, lines)


# ---------------------------------------------------------------------------
def main(tier):
    chk = common.Check('C18', tier)
    chk.assumptions += [
        'Calendar.tla is trusted as the reading of the HTML standard (valid date / month / week / time / local '
        'date and time / floating-point number strings, range underflow / overflow, periodic time ranges)',
        'type=range is treated like type=number (no default minimum 0 / maximum 100, no value sanitisation), as the '
        'property text does',
        'documents are built through the bs4 API (html.parser; lxml-xml for the XML / XHTML structure documents)',
        'ungated (DESIGN 5): number strings outside -?digits(.digits)? that some reading accepts (exponents, bare '
        'dots, signs, white space, trailing junk), times with seconds, local date-times with seconds or a space '
        'separator, upper-case type keywords in XML documents, inputs without a type attribute (C08 F08); '
        'disagreements there are recorded as drift',
    ]
    # everything that forks happens first, in the main thread: the replay workers and the trace recording
    ctx = mp.get_context('fork')
    shared = ctx.Pool(16, initializer=_init, initargs=(POOL_ASTS,))
    try:
        ndocs, lines = trace_record(tier)
        typeless_probe(chk)
        sign_law_part(chk)
        long_bound_part(chk)
        # the TLC runs go side by side (each has a serial start-up phase), read by one thread each
        if tier == 'quick':
            jobs = [mc_job(shared, 'MC_C18_cal', {'YearLo': 1, 'YearHi': 800, 'Full': 'FALSE', 'BatchSize': 100}, 'cal800', 12),
                    mc_job(shared, 'MC_C18_num', {'Full': 'FALSE', 'BatchSize': 100}, 'num', 4),
                    mc_job(shared, 'MC_C18_tri', {'BatchSize': 100}, 'tri', 3),
                    thm_job(1200, 3)]
        else:
            jobs = [mc_job(shared, 'MC_C18_cal', {'YearLo': 1, 'YearHi': 800, 'Full': 'TRUE', 'BatchSize': 200}, 'cal800full', 14),
                    mc_job(shared, 'MC_C18_num', {'Full': 'TRUE', 'BatchSize': 200}, 'numfull', 6),
                    mc_job(shared, 'MC_C18_tri', {'BatchSize': 100}, 'tri', 3),
                    thm_job(4000, 4)]
        for j in jobs:
            j.start()
        try:
            trace_validate(chk, ndocs, lines)
        except tlc.TLCError as e:
            chk.machinery(str(e)[-1500:])
        for j in jobs:
            j.finish(chk)
    finally:
        shared.close()
        shared.join()
    ndrift = len(chk.drift)
    kept = sorted((x for x in chk.drift if x is not None),
                  key=lambda x: (x['cfg'], x['zone'], x['element'], x['selector']))
    zones = {}
    for x in kept:
        zones.setdefault(x['zone'], []).append(x)
    chk.notes['ungated_disagreements'] = {'total': ndrift, 'by_zone': {z: len(v) for z, v in zones.items()}}
    # the evidence file keeps the first 20: interleave the zones
    order = []
    k = 0
    while len(order) < min(len(kept), 40):
        for z in sorted(zones):
            if k < len(zones[z]):
                order.append(zones[z][k])
        k += 1
    chk.drift = order + kept[len(order):]        # same length; only the leading entries are shown
    return chk.finish()


def replay(path):
    """./check C18 --replay replays/C18/<hash>.json : re-run one recorded failing element"""
    warnings.simplefilter('ignore')
    sv, bs4 = common.import_repo()
    rec = json.load(open(path))
    case = rec['case']
    if 'event' in case:
        ev = case['event']
        container, nodes = dom.build(ev['doc'], bs4)
        idmap = dom.ids_of(nodes)
        try:
            got = [idmap.get(id(t), -1) for t in sv.select(ev['css'], container)]
        except Exception as e:
            got = '%s: %s' % (type(e).__name__, e)
        print('select(%r) = %r; specification: %s' % (ev['css'], got, case.get('spec_expected')))
        still = str(got).replace(' ', '') != str(case.get('spec_expected', '')).strip('"').replace('<<', '[').replace('>>', ']').replace(' ', '')
    elif 'doc' in case and 'css' in case:
        container, nodes = dom.build(case['doc'], bs4)
        try:
            got = bool(sv.select(case['css'], container))
        except Exception as e:
            got = '%s: %s' % (type(e).__name__, e)
        print('%s on %s: observed %r, specification %r' % (case['css'], case['element'], got, case['expected']))
        still = got != case['expected']
    else:
        print(rec['what'])
        return 2
    if still:
        print('VIOLATION property=C18 replay=%s' % path)
        return 1
    print('C18: replayed case conforms')
    return 0
