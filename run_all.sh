#!/bin/sh
# run every registered quick check sequentially; print rc and wall time
cd "$(dirname "$0")"
for id in $(python3 -c "import json; print(' '.join(c['property_id'] for c in json.load(open('MANIFEST.json'))['checks']))") $EXTRA; do
  s=$(date +%s)
  ./check $id --tier ${TIER:-quick} > /tmp/verif_runall_$id.out 2>&1
  rc=$?
  e=$(date +%s)
  echo "$id rc=$rc $((e-s))s $(grep -c '^KNOWN-FINDING' /tmp/verif_runall_$id.out) known  $(tail -1 /tmp/verif_runall_$id.out | cut -c1-160)"
done
