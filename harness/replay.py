"""B1: replay TLC-enumerated (document, selector pool, predicted match relation) cases into the real
soupsieve.  One emitted TLC state = one document with the predicted relation for the whole pool."""
from __future__ import annotations
import multiprocessing as mp
import os
import signal
import sys
import warnings

from . import common, dom, sel as selmod, tlc

_G = {}


def _compile_pool(pool, opts):
    sv = _G['sv']
    comp = []
    for entry in pool:
        if isinstance(entry, dict) and 'sel' in entry:
            ast, ns = entry['sel'], entry.get('ns')
        else:
            ast, ns = entry, None
        css = selmod.selector_list(ast)
        nsmap = None
        if ns is not None:
            nsmap = {common.st(e['p']): common.st(e['u']) for e in ns}
        try:
            comp.append((css, nsmap, sv.compile(css, namespaces=nsmap) if not opts.get('module_level') else None, None))
        except Exception as e:  # a pool selector must compile: the grammar is the property's
            comp.append((css, nsmap, None, '%s: %s' % (type(e).__name__, str(e).split('\n')[0])))
    return comp


class _ReplayTimeout(BaseException):
    pass


def _replay_alarm(signum, frame):
    raise _ReplayTimeout()


def _init(pool, opts):
    warnings.simplefilter('ignore')
    signal.signal(signal.SIGALRM, _replay_alarm)
    sv, bs4 = common.import_repo()
    _G['sv'] = sv
    _G['bs4'] = bs4
    _G['opts'] = opts
    _G['comp'] = _compile_pool(pool, opts)


def doc_brief(d):
    """compact, readable rendering of an abstract document"""
    out = []
    n = len(d['parent'])
    kids = {}
    for i in range(n):
        kids.setdefault(d['parent'][i], []).append(i + 1)

    def r(i):
        k = d['kind'][i - 1]
        if k == 'e':
            at = ''.join(' %s=%r' % (common.st(a['k']), common.st(a['v']) if 'v' in a else a.get('odd'))
                         for a in d['attrs'][i - 1])
            nm = common.st(d['name'][i - 1])
            ns = d['ns'][i - 1]
            if ns:
                nm = '{%s}%s' % (common.st(ns)[-6:], nm)
            return '<%s%s>%s</>' % (nm, at, ''.join(r(c) for c in kids.get(i, [])))
        return {'t': 'T', 'c': '<!-->', 'cd': '<![CD]>', 'pi': '<?>', 'dt': '<!DT>', 'dc': '<!DC>'}[k] + \
            '(%s)' % common.st(d['text'][i - 1])
    return ('DOC:' if d['top'] == 'doc' else 'FRAG:') + ('xml:' if d.get('xml') else '') + \
        ''.join(r(c) for c in kids.get(0, []))


def _work(chunk):
    sv = _G['sv']
    bs4 = _G['bs4']
    comp = _G['comp']
    out = []
    ncalls = 0
    nontriv = 0
    for case in chunk:
        d = case['doc']
        res = case['res']
        if 'pool' in case:          # the state carries its own pool
            comp = _compile_pool(case['pool'], _G['opts'])
        container, nodes = dom.build(d, bs4)
        idmap = dom.ids_of(nodes)
        n = len(d['parent'])
        if container is None:
            continue
        is_frag = d['top'] == 'frag'
        for s, (css, nsmap, obj, err) in enumerate(comp):
            exp_mask = res[s]
            if err is not None:
                out.append((s, css, d, 'compile', err, dom.mask_to_ids(exp_mask)))
                continue
            exp = dom.mask_to_ids(exp_mask)
            try:
                signal.alarm(30)
                got = [idmap.get(id(t), -1) for t in obj.select(container)]
                ncalls += 1
                if is_frag:
                    exp_sel = [i for i in exp if i != 1]
                    root_m = obj.match(container)
                    if root_m != (1 in exp):
                        out.append((s, css, d, 'match(root)', root_m, exp))
                else:
                    exp_sel = exp
            except _ReplayTimeout:
                out.append((s, css, d, 'raise', 'no termination within 30 s', exp))
                continue
            except Exception as e:
                out.append((s, css, d, 'raise', '%s: %s' % (type(e).__name__, str(e).split('\n')[0]), exp))
                continue
            finally:
                signal.alarm(0)
            if got != exp_sel:
                out.append((s, css, d, 'select', got, exp_sel))
            if exp_mask:
                nontriv += 1
    samp = None
    if chunk:
        c = chunk[-1]
        k = next((s for s, m in enumerate(c['res']) if m), 0)
        samp = {'selector': comp[k][0], 'doc': doc_brief(c['doc']), 'predicted_ids': dom.mask_to_ids(c['res'][k])}
    return out, ncalls, nontriv, len(chunk), samp


class PoolReplay:
    """Streams TLC output into a process pool that replays each document."""

    def __init__(self, chk, label, opts=None, procs=16, chunk=16, max_report=40):
        self.chk = chk
        self.label = label
        self.opts = opts or {}
        self.procs = procs
        self.chunk = chunk
        self.mp = None
        self.pending = []
        self.buf = []
        self.pool_asts = None
        self.ndocs = 0
        self.max_report = max_report

    def on_line(self, val):
        if self.mp is None and 'pool' in val and 'doc' in val:
            self.pool_asts = []
            ctx = mp.get_context('fork')
            self.mp = ctx.Pool(self.procs, initializer=_init, initargs=([], self.opts))
        if 'pool' in val and 'doc' not in val:
            self.pool_asts = val['pool']
            ctx = mp.get_context('fork')
            self.mp = ctx.Pool(self.procs, initializer=_init, initargs=(self.pool_asts, self.opts))
            return
        self.buf.append(val)
        self.ndocs += 1
        if len(self.buf) >= self.chunk:
            self.flush()

    def flush(self):
        if self.buf and self.mp is not None:
            self.pending.append(self.mp.apply_async(_work, (self.buf,)))
            self.buf = []

    def finish(self):
        self.flush()
        chk = self.chk
        if self.mp is None:
            chk.machinery('%s: TLC emitted no selector pool' % self.label)
            return
        first_docs = 0
        for p in self.pending:
            out, ncalls, nontriv, ndocs, samp = p.get()
            if samp:
                samp['cfg'] = self.label
                chk.sample(samp, cap=12)
            chk.count(ncalls, traces=ndocs)
            chk.add_distinct(nontriv)
            for (s, css, d, what, got, exp) in out:
                brief = doc_brief(d)
                key = '%s|%s|%s' % (self.label, css, brief)
                chk.violation(key, '%s %r on %s: %s=%r expected %r' % (self.label, css, brief, what, got, exp),
                              {'cfg': self.label, 'selector': css, 'doc': d, 'observed': got, 'expected': exp,
                               'kind': what})
        self.mp.close()
        self.mp.join()
        if self.ndocs == 0:
            chk.machinery('%s: TLC emitted no documents' % self.label)


def run_cfg(chk, module, constants, label=None, workers=16, timeout=3600, opts=None, procs=16, invariants=('Emit',),
            extra_cfg=''):
    """Write a cfg for `module` with `constants`, run TLC, replay every emitted document."""
    label = label or module
    cfgdir = os.path.join('/tmp', 'verif_cfg_%d' % os.getpid())
    os.makedirs(cfgdir, exist_ok=True)
    cfgpath = os.path.join(cfgdir, label)
    with open(cfgpath + '.cfg', 'w') as f:
        if constants:
            f.write('CONSTANTS\n')
            for k, v in constants.items():
                f.write('  %s = %s\n' % (k, v))
        f.write('INIT Init\nNEXT Next\n')
        for inv in invariants:
            f.write('INVARIANT %s\n' % inv)
        f.write('CHECK_DEADLOCK FALSE\n')
        f.write(extra_cfg)
    rp = PoolReplay(chk, label, opts=opts, procs=procs)
    try:
        res = tlc.run(module, cfg=cfgpath, workers=workers, timeout=timeout, line_cb=rp.on_line)
    finally:
        try:
            os.remove(cfgpath + '.cfg')
            os.rmdir(cfgdir)
        except OSError:
            pass
    if res.violation:
        chk.violation('%s|spec|%s' % (label, res.violated_name),
                      'design-level theorem %s violated in %s' % (res.violated_name, label),
                      {'cfg': label, 'tlc': res.counterexample[:4000]})
    chk.add_tlc(res, label)
    rp.finish()
    # a few samples
    return res, rp


# ---------------------------------------------------------------------------
# generic streaming replay: any emitted-line shape, caller supplies the worker
# ---------------------------------------------------------------------------
_H = {}


def _ginit(header, init_fn):
    warnings.simplefilter('ignore')
    sv, bs4 = common.import_repo()
    _H['sv'] = sv
    _H['bs4'] = bs4
    _H['header'] = header
    if init_fn:
        init_fn(_H)


def _gwork(args):
    fn, chunk = args
    return fn(_H, chunk)


def write_cfg(label, constants, invariants=('Emit',), extra_cfg='', spec=None, properties=(), next_='Next'):
    cfgdir = os.path.join('/tmp', 'verif_cfg_%d' % os.getpid())
    os.makedirs(cfgdir, exist_ok=True)
    cfgpath = os.path.join(cfgdir, label)
    with open(cfgpath + '.cfg', 'w') as f:
        if constants:
            f.write('CONSTANTS\n')
            for k, v in constants.items():
                f.write('  %s = %s\n' % (k, v))
        if spec:
            f.write('SPECIFICATION %s\n' % spec)
        else:
            f.write('INIT Init\nNEXT %s\n' % next_)
        for inv in invariants:
            f.write('INVARIANT %s\n' % inv)
        for pr in properties:
            f.write('PROPERTY %s\n' % pr)
        f.write('CHECK_DEADLOCK FALSE\n')
        f.write(extra_cfg)
    return cfgpath


def rm_cfg(cfgpath):
    try:
        os.remove(cfgpath + '.cfg')
        os.rmdir(os.path.dirname(cfgpath))
    except OSError:
        pass


def stream(chk, module, constants, label, worker, init_fn=None, is_header=lambda v: 'doc' not in v,
           invariants=('Emit',), procs=16, chunk=8, workers=16, timeout=3600, extra_cfg=''):
    """Run TLC on `module`; lines for which is_header(v) holds are collected first (they must be printed
    by ASSUMEs, i.e. before any state) and handed to every worker process; every other emitted line is a
    case.  worker(H, chunk) -> (violations[(key, what, case)], n_impl_calls, n_nontrivial, sample)."""
    cfgpath = write_cfg(label, constants, invariants, extra_cfg)
    st_ = {'mp': None, 'header': [], 'buf': [], 'pending': [], 'n': 0}
    ctx = mp.get_context('fork')

    def on_line(v):
        if is_header(v):
            st_['header'].append(v)
            return
        if st_['mp'] is None:
            st_['mp'] = ctx.Pool(procs, initializer=_ginit, initargs=(st_['header'], init_fn))
        st_['buf'].append(v)
        st_['n'] += 1
        if len(st_['buf']) >= chunk:
            st_['pending'].append(st_['mp'].apply_async(_gwork, ((worker, st_['buf']),)))
            st_['buf'] = []
    try:
        res = tlc.run(module, cfg=cfgpath, workers=workers, timeout=timeout, line_cb=on_line)
    finally:
        rm_cfg(cfgpath)
    if res.violation:
        chk.violation('%s|spec|%s' % (label, res.violated_name),
                      'design-level theorem %s violated in %s' % (res.violated_name, label),
                      {'cfg': label, 'group': 'spec:' + str(res.violated_name), 'tlc': res.counterexample[:4000]})
    chk.add_tlc(res, label)
    if st_['mp'] is None:
        chk.machinery('%s: TLC emitted no cases' % label)
        return res
    if st_['buf']:
        st_['pending'].append(st_['mp'].apply_async(_gwork, ((worker, st_['buf']),)))
    for p in st_['pending']:
        viols, ncalls, nontriv, samp = p.get()
        chk.count(ncalls)
        chk.add_distinct(nontriv)
        if samp is not None:
            chk.sample(samp, cap=12)
        for key, what, case in viols:
            case.setdefault('cfg', label)
            chk.violation('%s|%s' % (label, key), '%s %s' % (label, what), case)
    chk.coverage['traces_validated_against_impl'] += st_['n']
    st_['mp'].close()
    st_['mp'].join()
    return res
