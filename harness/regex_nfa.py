"""C07 machinery: every compiled regular expression of the working tree -> Thompson NFA over the
minterm alphabet of its character sets -> epsilon-free *multi-edge* NFA over augmented states
(state, constraint on the next character) -> CONSTANTS of spec/RegexAmb.tla (model checked by TLC)
and a Python reference of the same product search (quick tier, cross-checked against TLC in thorough).

Nothing here decides the verdict: an automaton with exponential ambiguity (EDA) only yields a witness
family prefix + pump^n + kill, which checks/c07.py measures on the real code.
"""
from __future__ import annotations
import hashlib
import re
import re._parser as sp
import re._casefix as _cf
import _sre
import sys
from collections import deque
from re._constants import (
    ANY, ASSERT, ASSERT_NOT, AT, AT_BEGINNING, AT_BEGINNING_STRING, AT_END, AT_END_STRING, BRANCH,
    CATEGORY, CATEGORY_DIGIT, CATEGORY_NOT_DIGIT, CATEGORY_NOT_SPACE, CATEGORY_NOT_WORD,
    CATEGORY_SPACE, CATEGORY_WORD, IN, LITERAL, MAX_REPEAT, MAXREPEAT, MIN_REPEAT, NEGATE,
    NOT_LITERAL, RANGE, SUBPATTERN)
from re import _constants as _C

ATOMIC_GROUP = getattr(_C, 'ATOMIC_GROUP', None)
POSSESSIVE_REPEAT = getattr(_C, 'POSSESSIVE_REPEAT', None)

sys.setrecursionlimit(max(sys.getrecursionlimit(), 20000))

EOF = -1          # pseudo character: end of input (in look-ahead alternatives)


class Unsupported(Exception):
    """A regex feature the extraction cannot represent (back-reference, conditional group ...)."""


# ---------------------------------------------------------------------------
# character predicates (code point -> bool), faithful to sre's IGNORECASE|UNICODE rules
# ---------------------------------------------------------------------------

_tolower = _sre.unicode_tolower
_EXTRA = _cf._EXTRA_CASES


def _fold_set(cs):
    """What sre's IN_UNI_IGNORE compares tolower(ch) against, for the plain members `cs`."""
    out = set()
    for x in cs:
        lo = _tolower(x)
        out.add(lo)
        out.update(_EXTRA.get(lo, ()))
    return out


def _cat_pred(cat):
    if cat == CATEGORY_DIGIT:
        return lambda c: chr(c).isdigit()
    if cat == CATEGORY_NOT_DIGIT:
        return lambda c: not chr(c).isdigit()
    if cat == CATEGORY_SPACE:
        return lambda c: chr(c).isspace()
    if cat == CATEGORY_NOT_SPACE:
        return lambda c: not chr(c).isspace()
    if cat == CATEGORY_WORD:
        return lambda c: chr(c).isalnum() or c == 95
    if cat == CATEGORY_NOT_WORD:
        return lambda c: not (chr(c).isalnum() or c == 95)
    raise Unsupported('category %r' % (cat,))


def _lit_pred(av, icase, neg=False):
    if icase:
        s = _fold_set([av])
        return (lambda c: _tolower(c) not in s) if neg else (lambda c: _tolower(c) in s)
    return (lambda c: c != av) if neg else (lambda c: c == av)


def _set_pred(items, icase):
    neg = False
    singles = set()
    ranges = []
    cats = []
    for op, av in items:
        if op is NEGATE:
            neg = True
        elif op is LITERAL:
            singles.add(av)
        elif op is RANGE:
            if av[1] - av[0] <= 4096:
                singles.update(range(av[0], av[1] + 1))
            else:
                ranges.append(av)
        elif op is CATEGORY:
            cats.append(_cat_pred(av))
        else:
            raise Unsupported('set item %r' % (op,))
    if icase:
        folded = _fold_set(singles)

        def f(c):
            lo = _tolower(c)
            r = lo in folded or any(a <= lo <= b or a <= c <= b for a, b in ranges) or any(p(c) for p in cats)
            return r != neg
    else:
        def f(c):
            r = c in singles or any(a <= c <= b for a, b in ranges) or any(p(c) for p in cats)
            return r != neg
    return f


# ---------------------------------------------------------------------------
# Thompson construction
# ---------------------------------------------------------------------------

class Thompson:
    def __init__(self):
        self.n = 0
        self.eps = {}        # q -> [(q', obligation | None)]   ordered
        self.tr = {}         # q -> [(pred index, q')]
        self.preds = []      # callables
        self.bounds = set()  # interesting code points (set boundaries)
        self.approx = 0      # look-arounds kept as epsilon (over-approximation)
        self.approx_what = []
        self.start = None
        self.end = None

    def new(self):
        self.n += 1
        return self.n - 1

    def e(self, a, b, ob=None):
        self.eps.setdefault(a, []).append((b, ob))

    def pred(self, f):
        self.preds.append(f)
        return len(self.preds) - 1

    def t(self, a, f, b):
        self.tr.setdefault(a, []).append((self.pred(f), b))


def _note_bounds(nfa, items):
    for o, a in items:
        if o is LITERAL:
            nfa.bounds.add(a)
        elif o is RANGE:
            nfa.bounds.add(a[0])
            nfa.bounds.add(a[1])


def _la_alts(nfa, seq, icase, dotall):
    """A look-ahead body as a list of alternatives, each a list of <= 2 items (pred index or EOF).
    None when the body is not of that shape."""
    alts = [[]]
    for op, av in seq:
        if op is LITERAL:
            nfa.bounds.add(av)
            step = [[nfa.pred(_lit_pred(av, icase))]]
        elif op is NOT_LITERAL:
            nfa.bounds.add(av)
            step = [[nfa.pred(_lit_pred(av, icase, True))]]
        elif op is IN:
            _note_bounds(nfa, av)
            step = [[nfa.pred(_set_pred(av, icase))]]
        elif op is ANY:
            nfa.bounds.add(10)
            step = [[nfa.pred((lambda c: True) if dotall else (lambda c: c != 10))]]
        elif op is AT and av is AT_END:
            nfa.bounds.add(10)
            step = [[EOF], [nfa.pred(lambda c: c == 10), EOF]]
        elif op is AT and av is AT_END_STRING:
            step = [[EOF]]
        elif op is SUBPATTERN:
            ic, da = _scoped(av, icase, dotall)
            step = _la_alts(nfa, av[3], ic, da)
        elif op is BRANCH:
            step = []
            for alt in av[1]:
                r = _la_alts(nfa, alt, icase, dotall)
                if r is None:
                    return None
                step += r
        else:
            return None
        if step is None:
            return None
        new = []
        for a in alts:
            for s in step:
                if a and a[-1] == EOF and s:
                    continue            # something after the end of input: impossible alternative
                new.append(a + s)
        alts = new
        if any(len(a) > 2 for a in alts):
            return None
    if not alts or any(len(a) == 0 for a in alts):
        return None
    return alts


def _scoped(av, icase, dotall):
    add, dele = av[1], av[2]
    if add & re.I:
        icase = True
    if dele & re.I:
        icase = False
    if add & re.S:
        dotall = True
    if dele & re.S:
        dotall = False
    return icase, dotall


def _build(nfa, seq, s, icase, dotall, top=False):
    first = True
    for op, av in seq:
        if op is LITERAL:
            nfa.bounds.add(av)
            e = nfa.new()
            nfa.t(s, _lit_pred(av, icase), e)
            s = e
        elif op is NOT_LITERAL:
            nfa.bounds.add(av)
            e = nfa.new()
            nfa.t(s, _lit_pred(av, icase, True), e)
            s = e
        elif op is ANY:
            nfa.bounds.add(10)
            e = nfa.new()
            nfa.t(s, (lambda c: True) if dotall else (lambda c: c != 10), e)
            s = e
        elif op is IN:
            _note_bounds(nfa, av)
            e = nfa.new()
            nfa.t(s, _set_pred(av, icase), e)
            s = e
        elif op is BRANCH:
            e = nfa.new()
            for alt in av[1]:
                a = nfa.new()
                nfa.e(s, a)
                x = _build(nfa, alt, a, icase, dotall)
                nfa.e(x, e)
            s = e
        elif op is SUBPATTERN:
            ic, da = _scoped(av, icase, dotall)
            s = _build(nfa, av[3], s, ic, da)
        elif op is MAX_REPEAT or op is MIN_REPEAT or (POSSESSIVE_REPEAT is not None and op is POSSESSIVE_REPEAT):
            lo, hi, body = av
            if op is POSSESSIVE_REPEAT:
                nfa.approx += 1
                nfa.approx_what.append('possessive repeat')
            for _ in range(lo):
                s = _build(nfa, body, s, icase, dotall)
            if hi == MAXREPEAT:
                loop = nfa.new()
                nfa.e(s, loop)
                out = nfa.new()
                b = nfa.new()
                x = _build(nfa, body, b, icase, dotall)
                if op is MIN_REPEAT:
                    nfa.e(loop, out)
                    nfa.e(loop, b)
                else:
                    nfa.e(loop, b)
                    nfa.e(loop, out)
                nfa.e(x, loop)
                s = out
            else:
                if hi - lo > 64:
                    raise Unsupported('bounded repeat {%d,%d}' % (lo, hi))
                out = nfa.new()
                for _ in range(hi - lo):
                    nfa.e(s, out)
                    s = _build(nfa, body, s, icase, dotall)
                nfa.e(s, out)
                s = out
        elif op is ASSERT or op is ASSERT_NOT:
            alts = _la_alts(nfa, av[1], icase, dotall) if av[0] == 1 else None
            if alts is not None:
                e = nfa.new()
                nfa.e(s, e, (op is ASSERT, alts))
                s = e
            else:
                nfa.approx += 1
                nfa.approx_what.append('look-%s kept as epsilon' % ('ahead' if av[0] == 1 else 'behind'))
        elif op is AT:
            if av is AT_END or av is AT_END_STRING:
                alts = _la_alts(nfa, [(op, av)], icase, dotall)
                e = nfa.new()
                nfa.e(s, e, (True, alts))
                s = e
            elif av in (AT_BEGINNING, AT_BEGINNING_STRING) and top and first:
                pass                      # exact: nothing consumed yet
            else:
                nfa.approx += 1
                nfa.approx_what.append('%s kept as epsilon' % (av,))
        elif ATOMIC_GROUP is not None and op is ATOMIC_GROUP:
            nfa.approx += 1
            nfa.approx_what.append('atomic group')
            s = _build(nfa, av, s, icase, dotall)
        else:
            raise Unsupported(str(op))
        first = False
    return s


_FIXED_REPS = [9, 10, 12, 13, 32, 33, 34, 36, 39, 40, 41, 42, 43, 44, 45, 46, 47, 48, 49, 57, 58, 61, 62, 64, 65, 70,
               71, 78, 90, 91, 92, 93, 95, 97, 102, 103, 110, 122, 124, 126, 0x7f, 0x80, 0x9f, 0xa0, 0xe9, 0x3b1,
               0x660, 0x2028, 0xfffd, 0x10000]


def _pref(c):
    """Preference among the code points of one class when choosing its representative (lower = better)."""
    ch = chr(c)
    if 'a' <= ch <= 'z':
        return (0, c)
    if '0' <= ch <= '9':
        return (1, c)
    if 33 <= c <= 126:
        return (2, c)
    if c in (32, 9, 10):
        return (3, c)
    if c == 0:
        return (9, c)
    return (5, c)


class Automaton:
    """Epsilon-free multi-edge NFA over augmented states, numbered 1..N (1 = start)."""

    def __init__(self):
        self.name = ''
        self.alphabet = []      # representative code point per class (class ids 1..K in TLA, 0..K-1 here)
        self.nstates = 0
        self.out = []           # out[q] = [(cls, to, edge id)]  (q 0-based, ids 1-based, global per automaton)
        self.acc_eof = []       # accepts with no further input
        self.acc_all = []       # the rest of the pattern is satisfied whatever follows (strict reading)
        self.thompson_states = 0
        self.nedges = 0
        self.eps_cycle = False
        self.approx = 0
        self.approx_what = []
        self.scc = []           # scc id per state, -1 when not on a cycle
        self.anchors = []       # 0-based states
        self.exempt_sccs = 0

    # -- simulation (validation against re.fullmatch) -----------------------
    def class_of(self, c):
        return self._class_of(c)

    def accepts(self, classes):
        cur = {0}
        for c in classes:
            nxt = set()
            for q in cur:
                for (k, t, _i) in self.out[q]:
                    if k == c:
                        nxt.add(t)
            if not nxt:
                return False
            cur = nxt
        return any(self.acc_eof[q] for q in cur)


def compile_automaton(tree, flags, name='', edge_limit=400000):
    """sre parse tree -> Automaton."""
    icase = bool(flags & re.I)
    dotall = bool(flags & re.S)
    if flags & re.M:
        raise Unsupported('MULTILINE')
    if flags & re.A:
        raise Unsupported('ASCII flag')
    nfa = Thompson()
    s0 = nfa.new()
    end = _build(nfa, tree, s0, icase, dotall, top=True)
    nfa.start, nfa.end = s0, end

    # --- alphabet: minterms of all predicates over representative code points
    reps = set(_FIXED_REPS)
    for b in nfa.bounds:
        for x in (b - 1, b, b + 1):
            if 0 <= x < 0x110000:
                reps.add(x)
                lo = _tolower(x)
                reps.add(lo)
                reps.update(_EXTRA.get(lo, ()))
                up = chr(x).upper()
                if len(up) == 1:
                    reps.add(ord(up))
    reps = sorted(r for r in reps if not 0xd800 <= r <= 0xdfff)
    sig = {}
    for c in reps:
        k = tuple(p(c) for p in nfa.preds)
        if k not in sig or _pref(c) < _pref(sig[k]):
            sig[k] = c
    alphabet = sorted(sig.values())
    K = len(alphabet)
    pset = [frozenset(i for i, c in enumerate(alphabet) if p(c)) for p in nfa.preds]
    ALL = frozenset(range(K + 1))          # K stands for end of input
    EOFSET = frozenset([K])

    def item_set(it):
        return EOFSET if it == EOF else pset[it]

    # epsilon routes (simple paths) with the obligations collected on the way
    eps_cycle = [False]
    route_cache = {}

    def routes(q):
        if q in route_cache:
            return route_cache[q]
        out = []

        def walk(r, seen, route, obs):
            out.append((r, route, obs))
            for i, (z, ob) in enumerate(nfa.eps.get(r, ())):
                if z in seen:
                    eps_cycle[0] = True
                    continue
                walk(z, seen | {z}, route + (i,), obs + ((ob,) if ob else ()))
        walk(q, frozenset([q]), (), ())
        route_cache[q] = out
        return out

    def apply(obs, c, allowed_next):
        """Consume class c (or K = end of input) under look-ahead obligations `obs`.
        Returns the constraint on the following character, or None if c is not possible."""
        nxt = allowed_next
        for pos, alts in obs:
            if pos:
                sat = False
                pend = set()
                for a in alts:
                    if c in item_set(a[0]):
                        if len(a) == 1:
                            sat = True
                            break
                        pend |= item_set(a[1])
                if not sat:
                    if not pend:
                        return None
                    nxt = nxt & frozenset(pend)
            else:
                for a in alts:
                    if c in item_set(a[0]):
                        if len(a) == 1:
                            return None
                        nxt = nxt - item_set(a[1])
            if not nxt:
                return None
        return nxt

    A = Automaton()
    A.name = name
    A.alphabet = alphabet
    A.thompson_states = nfa.n
    A.approx = nfa.approx
    A.approx_what = sorted(set(nfa.approx_what))
    index = {}
    order = []

    def num(st):
        if st not in index:
            index[st] = len(order)
            order.append(st)
        return index[st]

    num((s0, ALL))
    i = 0
    eid = 0
    while i < len(order):
        q, allowed = order[i]
        i += 1
        edges = []
        acc_eof = False
        acc_by = set()
        for z, route, obs in routes(q):
            if z == end:
                # acceptance without consuming: which next characters (or end) permit it
                for c in allowed:
                    r = apply(obs, c, ALL)
                    if r is None:
                        continue
                    if c == K:
                        acc_eof = True
                        acc_by.add(c)
                    elif r == ALL:
                        acc_by.add(c)       # strict: a pending second look-ahead character does not count
            for j, (pi, t) in enumerate(nfa.tr.get(z, ())):
                for c in sorted(pset[pi]):
                    if c not in allowed:
                        continue
                    r = apply(obs, c, ALL)
                    if r is None:
                        continue
                    eid += 1
                    edges.append((c, num((t, r)), eid))
            if eid > edge_limit:
                raise Unsupported('more than %d multi-edges' % edge_limit)
        acc_all = all(c in acc_by for c in allowed)
        A.out.append(edges)
        A.acc_eof.append(acc_eof)
        A.acc_all.append(acc_all)
    A.nstates = len(order)
    A.nedges = eid
    A.eps_cycle = eps_cycle[0]
    cls_index = {c: k for k, c in enumerate(alphabet)}
    preds = nfa.preds

    def _class_of(cp, _cache={}):
        if cp in cls_index:
            return cls_index[cp]
        if cp not in _cache:
            k = tuple(p(cp) for p in preds)
            _cache[cp] = cls_index.get(sig.get(k), None)
        return _cache[cp]
    A._class_of = _class_of
    _sccs(A)
    return A


def _sccs(A):
    """Tarjan (iterative).  scc[q] = id of q's strongly connected component if it contains a cycle, else -1.
    Anchors: up to 3 states per cyclic component whose continuation is not immediately accepting."""
    n = A.nstates
    succ = [sorted({t for (_c, t, _i) in A.out[q]}) for q in range(n)]
    idx = [None] * n
    low = [0] * n
    on = [False] * n
    stack = []
    comp = [-1] * n
    counter = 0
    ncomp = 0
    comps = []
    for root in range(n):
        if idx[root] is not None:
            continue
        work = [(root, 0)]
        while work:
            v, pi = work[-1]
            if pi == 0:
                idx[v] = low[v] = counter
                counter += 1
                stack.append(v)
                on[v] = True
            rec = False
            for k in range(pi, len(succ[v])):
                w = succ[v][k]
                if idx[w] is None:
                    work[-1] = (v, k + 1)
                    work.append((w, 0))
                    rec = True
                    break
                elif on[w]:
                    low[v] = min(low[v], idx[w])
            if rec:
                continue
            work.pop()
            if work:
                u = work[-1][0]
                low[u] = min(low[u], low[v])
            if low[v] == idx[v]:
                members = []
                while True:
                    w = stack.pop()
                    on[w] = False
                    members.append(w)
                    if w == v:
                        break
                cyclic = len(members) > 1 or v in succ[v]
                if cyclic:
                    for w in members:
                        comp[w] = ncomp
                    comps.append(sorted(members))
                    ncomp += 1
    A.scc = comp
    A.anchors = []
    A.exempt_sccs = 0
    for members in sorted(comps):
        cand = [q for q in members if not A.acc_all[q]]
        if not cand:
            A.exempt_sccs += 1
            continue
        A.anchors += cand[:3]
    A.anchors.sort()
    A.ncyclic = len(comps)


def loop_edges(A):
    """Edges that can lie on a cycle: both ends in the same cyclic component.  A product cycle through
    (a, a) never leaves the component of a, so RegexAmb is given only these (sound reduction)."""
    out = []
    for q in range(A.nstates):
        if A.scc[q] < 0:
            out.append([])
        else:
            out.append([(c, t, i) for (c, t, i) in A.out[q] if A.scc[t] == A.scc[q]])
    return out


def bundles(A):
    """What RegexAmb receives: B[q][c] = {target: m}, m = min(2, number of parallel loop edges q -c-> target)."""
    B = []
    for row in loop_edges(A):
        d = {}
        for (c, t, _i) in row:
            dd = d.setdefault(c, {})
            dd[t] = min(2, dd.get(t, 0) + 1)
        B.append(d)
    return B


# ---------------------------------------------------------------------------
# Python reference of RegexAmb's product search (same state space as TLC explores)
# ---------------------------------------------------------------------------

def product_search(A):
    """For every anchor: breadth-first search of (p1, p2, diverged) from (a, a, FALSE) over pairs of edges
    with the same class, exactly RegexAmb!Step.  Returns (witnesses, distinct, total): witnesses =
    {anchor: [classes of the pump]}; distinct = number of distinct (a, p1, p2, dv) states over the anchors
    without an EDA (= TLC's count for a clean automaton); total = the same over all anchors, exploring past
    the violating states as `tlc -continue` does."""
    B = bundles(A)
    wit = {}
    distinct = 0
    total = 0
    for a in A.anchors:
        start = (a, a, False)
        seen = {start: None}
        dq = deque([start])
        found = None
        while dq:
            cur = dq.popleft()
            p1, p2, dv = cur
            d2 = B[p2]
            for c in sorted(B[p1]):
                l2 = d2.get(c)
                if not l2:
                    continue
                for t1, m1 in sorted(B[p1][c].items()):
                    for t2 in sorted(l2):
                        nd = dv or t1 != t2 or m1 == 2
                        s = (t1, t2, nd)
                        if s not in seen:
                            seen[s] = (cur, c)
                            dq.append(s)
                            if found is None and t1 == a and t2 == a and nd:
                                found = s
        total += len(seen)
        if found is not None:
            w = []
            x = found
            while seen[x] is not None:
                w.append(seen[x][1])
                x = seen[x][0]
            wit[a] = w[::-1]
        else:
            distinct += len(seen)
    return wit, distinct, total


def check_pump(A, a, pump):
    """Independent re-validation of a witness: two different edge sequences a -pump-> a."""
    E = loop_edges(A)
    paths = {a: set([()])}
    for c in pump:
        nxt = {}
        for q, ps in paths.items():
            for (k, t, i) in E[q]:
                if k == c:
                    s = nxt.setdefault(t, set())
                    for p in ps:
                        if len(s) < 4:
                            s.add(p + (i,))
        paths = nxt
        if not paths:
            return False
    return len(paths.get(a, ())) >= 2


def prefix_to(A, target):
    """Shortest class word from the start state to `target` (full edge relation)."""
    prev = {0: None}
    dq = deque([0])
    while dq:
        q = dq.popleft()
        if q == target:
            break
        for (c, t, _i) in A.out[q]:
            if t not in prev:
                prev[t] = (q, c)
                dq.append(t)
    if target not in prev:
        return None
    w = []
    x = target
    while prev[x] is not None:
        w.append(prev[x][1])
        x = prev[x][0]
    return w[::-1]


def word(A, classes):
    return ''.join(chr(A.alphabet[c]) for c in classes)


# ---------------------------------------------------------------------------
# TLA+ side: generated MC module + cfg, and reading TLC's counterexamples back
# ---------------------------------------------------------------------------

def tla_module(autos, modname):
    """TLA+ module text instantiating RegexAmb with the disjoint union of the automata `autos`
    (states and classes 1-based; automaton k occupies states offsets[k]+1 .. offsets[k]+N_k).
    Returns (text, offsets).  The constants are *definitions* substituted through INSTANCE: TLC evaluates
    such a definition once, whereas a cfg override `Out <- MC_Out` is re-evaluated at every use
    (measured: 80 s against 2 s for the attribute token)."""
    K = max([len(A.alphabet) for A in autos] + [1])
    rows = []
    anchors = []
    offsets = []
    off = 0
    for A in autos:
        offsets.append(off)
        B = bundles(A)
        for q in range(A.nstates):
            cells = []
            for c in range(K):
                d = B[q].get(c)
                cells.append('{' + ', '.join('<<%d, %d>>' % (off + t + 1, m) for t, m in sorted(d.items())) + '}'
                             if d else '{}')
            rows.append('<<' + ', '.join(cells) + '>>')
        anchors += [off + a + 1 for a in A.anchors]
        off += A.nstates
    if not rows:
        rows.append('<<' + ', '.join(['{}'] * K) + '>>')
        off = 1
    lines = ['---- MODULE %s ----' % modname,
             '\\* generated by harness/regex_nfa.py from the working tree: %d automata' % len(autos),
             'EXTENDS Naturals',
             'VARIABLES a, p1, p2, dv',
             'MC_N == %d' % off,
             'MC_K == %d' % K,
             'MC_Anchors == {%s}' % ', '.join(str(a) for a in anchors),
             'MC_Out == <<', ',\n'.join(rows), '>>',
             'INSTANCE RegexAmb WITH N <- MC_N, K <- MC_K, Out <- MC_Out, Anchors <- MC_Anchors',
             '====', '']
    return '\n'.join(lines), offsets


CFG = '''INIT Init
NEXT Next
INVARIANT TypeOK
INVARIANT SameUntilDiverged
INVARIANT NoEDA
CHECK_DEADLOCK FALSE
'''

_RE_TRACE_STATE = re.compile(r'^State \d+: <[^\n]*>\n((?:/\\ [^\n]*\n)+)', re.M)


def parse_traces(stdout):
    """All counterexample behaviours in a TLC log (-continue prints one per violating state):
    list of lists of dict(a, p1, p2, dv)."""
    traces = []
    for chunk in stdout.split('Error: Invariant NoEDA is violated')[1:]:
        stop = chunk.find('Error: Invariant')
        if stop >= 0:
            chunk = chunk[:stop]
        states = []
        for m in _RE_TRACE_STATE.finditer(chunk):
            d = {}
            for line in m.group(1).splitlines():
                k, _, v = line[3:].partition(' = ')
                v = v.strip()
                d[k.strip()] = (v == 'TRUE') if v in ('TRUE', 'FALSE') else int(v)
            states.append(d)
        if states:
            traces.append(states)
    return traces


def pump_from_trace(A, states):
    """Classes along a TLC counterexample (the spec does not store the consumed class: recover one that
    explains each step; the caller re-validates the whole pump with check_pump)."""
    B = bundles(A)
    pump = []
    for s, t in zip(states, states[1:]):
        p1, p2, q1, q2 = s['p1'] - 1, s['p2'] - 1, t['p1'] - 1, t['p2'] - 1
        found = None
        for c in sorted(B[p1]):
            m1 = B[p1][c].get(q1)
            if m1 is None or q2 not in B[p2].get(c, {}):
                continue
            if (s['dv'] or q1 != q2 or m1 == 2) == t['dv']:
                found = c
                break
        if found is None:
            return None
        pump.append(found)
    return pump


# ---------------------------------------------------------------------------
# collecting the regular expressions of the working tree
# ---------------------------------------------------------------------------

class Pat:
    def __init__(self, name, regex, side, via, names=None, note=''):
        self.name = name            # e.g. tok:attribute, css_parser.RE_VALUES, attr:[a~=...]
        self.regex = regex          # compiled pattern object
        self.side = side            # 'selector' | 'document' | 'debug'
        self.via = via              # 'compile' (driven through soupsieve.compile) | 'match' | 'search' | 'sub' ...
        self.names = names          # special pseudo-class names routed to this pattern
        self.note = note

    @property
    def digest(self):
        h = hashlib.blake2b(digest_size=8)
        h.update(self.regex.pattern.encode('utf-8', 'surrogatepass'))
        h.update(str(self.regex.flags).encode())
        h.update(repr(self.names).encode())
        return h.hexdigest()


ATTR_POOL = ['[a^="ab"]', '[a$="ab"]', '[a*="ab"]', '[a~="ab"]', '[a|="ab"]', '[a="ab"]', '[a!="ab"]',
             '[a~="a b"]', '[a^=""]', '[type="ab"]', '[type~="ab" i]', '[a*="aab" s]', '[a$="a.b" i]',
             '[a*="aa"]', '[a~="-"]', '[a|="a-a"]']


def collect(sv):
    """Every compiled regular expression reachable in the working tree."""
    import importlib
    cp = importlib.import_module('soupsieve.css_parser')
    cm = importlib.import_module('soupsieve.css_match')
    ut = importlib.import_module('soupsieve.util')
    pats = []
    seen = set()
    for tok in cp.CSSParser.css_tokens:
        if hasattr(tok, 'patterns'):
            pats.append(Pat('tok:special_name', tok.re_pseudo_name, 'selector', 'compile'))
            seen.add(id(tok.re_pseudo_name))
            groups = {}
            for nm, p in tok.patterns.items():
                groups.setdefault(id(p), (p, []))[1].append(nm)
            for p, names in groups.values():
                pats.append(Pat('tok:' + p.name, p.re_pattern, 'selector', 'compile', names=sorted(names)))
                seen.add(id(p.re_pattern))
        else:
            pats.append(Pat('tok:' + tok.name, tok.re_pattern, 'selector', 'compile'))
            seen.add(id(tok.re_pattern))
    via = {'RE_CSS_ESC': 'sub', 'RE_CSS_STR_ESC': 'sub', 'RE_NTH': 'match', 'RE_VALUES': 'finditer',
           'RE_WS': 'search', 'RE_WS_BEGIN': 'search', 'RE_WS_END': 'search', 'RE_CUSTOM': 'match',
           'RE_NOT_EMPTY': 'search', 'RE_NOT_WS': 'findall', 'RE_WILD_STRIP': 'sub',
           'RE_PATTERN_LINE_SPLIT': 'finditer'}
    mods = [('css_parser', cp, 'selector'), ('css_match', cm, 'document'), ('util', ut, 'selector')]
    try:
        pr = importlib.import_module('soupsieve.pretty')
        mods.append(('pretty', pr, 'debug'))
    except Exception:       # pragma: no cover
        pass
    try:
        meta = importlib.import_module('soupsieve.__meta__')
        mods.append(('__meta__', meta, 'debug'))
    except Exception:       # pragma: no cover
        pass
    for mname, mod, side in mods:
        for attr in sorted(vars(mod)):
            v = getattr(mod, attr)
            if isinstance(v, re.Pattern) and id(v) not in seen:
                seen.add(id(v))
                how = via.get(attr, 'match' if side != 'debug' else 'search')
                pats.append(Pat('%s.%s' % (mname, attr), v, side, how))
    # attribute patterns compiled from selectors (run with .match on document attribute values)
    ct = importlib.import_module('soupsieve.css_types')

    def walk(obj, sel):
        if isinstance(obj, ct.SelectorAttribute):
            for k, p in (('pattern', obj.pattern), ('xml_type_pattern', obj.xml_type_pattern)):
                if isinstance(p, re.Pattern) and id(p) not in seen:
                    seen.add(id(p))
                    pats.append(Pat('attr:%s.%s' % (sel, k), p, 'document', 'match'))
        elif isinstance(obj, (tuple, list)):
            for x in obj:
                walk(x, sel)
        elif hasattr(obj, '__slots__') and isinstance(obj, ct.Immutable):
            for k in obj.__slots__:
                if k != '_hash':
                    walk(getattr(obj, k), sel)
    for s in ATTR_POOL:
        walk(sv.compile(s).selectors, s)
    return pats


def specialised_tree(pat):
    """Parse tree of a pattern; for the special pseudo-class patterns the group `name` is replaced by the
    literal names the dispatcher routes to it (otherwise witnesses start with a name that never gets there)."""
    tree = sp.parse(pat.regex.pattern, pat.regex.flags)
    flags = tree.state.flags
    if pat.names:
        gid = tree.state.groupdict.get('name')
        if gid is None:
            raise Unsupported('special pseudo pattern without a name group')
        lit = sp.parse('(?:' + '|'.join(re.escape(n) for n in pat.names) + ')', 0)

        def subst(seq):
            done = False
            for k, (op, av) in enumerate(seq):
                if op is SUBPATTERN:
                    if av[0] == gid:
                        seq[k] = (SUBPATTERN, (av[0], av[1], av[2], lit))
                        return True
                    done = subst(av[3]) or done
                elif op is BRANCH:
                    for alt in av[1]:
                        done = subst(alt) or done
                elif op in (MAX_REPEAT, MIN_REPEAT):
                    done = subst(av[2]) or done
            return done
        if not subst(tree):
            raise Unsupported('name group not found')
    return tree, flags


def automaton_for(pat):
    tree, flags = specialised_tree(pat)
    return compile_automaton(tree, flags, name=pat.name)


# ---------------------------------------------------------------------------
# validation of the extraction against the real regex engine
# ---------------------------------------------------------------------------

def validation_strings(A, rng, count, maxlen=10):
    """Class words: random walks of the automaton (mostly accepted), mutations of them, random words."""
    K = len(A.alphabet)
    out = []
    for n in range(count):
        mode = n % 3
        w = []
        if mode < 2:
            q = 0
            for _ in range(rng.randint(0, maxlen)):
                if not A.out[q] or (A.acc_eof[q] and rng.random() < 0.25):
                    break
                c, t, _i = A.out[q][rng.randrange(len(A.out[q]))]
                w.append(c)
                q = t
            if mode == 1 and w:
                k = rng.randrange(len(w))
                r = rng.random()
                if r < 0.4:
                    w[k] = rng.randrange(K)
                elif r < 0.7:
                    del w[k]
                else:
                    w.insert(k, rng.randrange(K))
        else:
            w = [rng.randrange(K) for _ in range(rng.randint(0, min(6, maxlen)))]
        out.append(w)
    return out


def validate(A, pat, rng, count):
    """Returns (n checked, list of disagreements).  Exact automata must agree with re.fullmatch both ways;
    automata with look-arounds kept as epsilon must accept at least what the engine accepts.
    The special patterns were specialised, so the engine's verdict is taken only when the name matches."""
    bad = []
    n = 0
    rx = pat.regex
    for w in validation_strings(A, rng, count):
        s = word(A, w)
        m = rx.fullmatch(s)
        real = m is not None
        if pat.names and real and m.group('name').lower() not in pat.names:
            continue        # parsed with a name that is routed elsewhere: outside the specialised automaton
        mine = A.accepts(w)
        n += 1
        if real != mine and (A.approx == 0 or real):
            bad.append({'pattern': pat.name, 'string': s, 're': real, 'nfa': mine})
    return n, bad
