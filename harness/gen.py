"""Seeded random generators of abstract documents and selector ASTs inside the grammar that
CssDecl.tla models (used by the B2 drivers: real code runs them, TLC validates the recorded trace)."""
from __future__ import annotations
import random
from .common import cps

NAMES = ['a', 'b', 'c']
VALS = ['', 'x', 'y', 'x y', 'xy', 'x-y', 'X', 'y x',
        'x.y', 'xzy', 'x.y-z', 'xzy-z', 'x+', 'xx', '(x', 'x|y', '[x]', 'x*', '^x', 'x$',
        'x"', "y'", '"', "'x'", 'x\\',
        'x\n', 'k', '\u212a']     # a value that is another one plus a final newline (regex `$`); KELVIN SIGN, which Unicode case folding equates with k (the i flag is ASCII-only)      # ... and values that end in / consist of quotes and backslashes (escaped inside a quoted string)      # values with regular-expression metacharacters and their near misses
TEXTS = ['x', ' ', 'xy', ' \n']


def rand_doc(rng, nmax=20, xml=None, frag=None, names=NAMES, kinds=('e', 'e', 'e', 't', 'c', 'cd'), twins=0.35):
    """a random tree as a Dom.tla record (JSON shape).  With probability `twins` some element subtree is repeated verbatim as its
    own next sibling: structurally identical twins (bs4 compares Tags by markup, so == / hash / dict-key slips show up there)."""
    xml = rng.random() < 0.25 if xml is None else xml
    frag = rng.random() < 0.2 if frag is None else frag
    budget = [rng.randint(2, nmax)]

    def attrs():
        at = []
        for nm in ('t', 'class', 'id'):
            if rng.random() < 0.35:
                v = rng.choice(VALS)
                lst = nm == 'class' and ' ' in v and not v.startswith(' ') and rng.random() < 0.5
                at.append({'k': cps(nm), 'ns': [], 'local': cps(nm), 'v': cps(v), 'list': lst})
        return at

    def make(depth):
        budget[0] -= 1
        k = rng.choice(kinds) if depth > 0 else 'e'
        if k != 'e':
            return {'k': k, 'text': rng.choice(TEXTS)}
        node = {'k': 'e', 'name': rng.choice(names), 'attrs': attrs(), 'kids': []}
        while budget[0] > 0 and rng.random() < (0.75 if depth < 3 else 0.3):
            node['kids'].append(make(depth + 1))
        return node

    def size(n):
        return 1 + sum(size(c) for c in n.get('kids', []))

    tops = [make(0)]
    while not frag and budget[0] > 0:
        budget[0] -= 0
        tops.append(make(1) if rng.random() < 0.5 else make(0))
    if rng.random() < twins:
        # duplicate one element (with its subtree) right after itself
        cands = []

        def walk(lst):
            for i, n in enumerate(lst):
                if n['k'] == 'e':
                    cands.append((lst, i))
                    walk(n['kids'])
        walk(tops if not frag else tops[0]['kids'])
        cands = [(lst, i) for lst, i in cands if size(lst[i]) <= 6]
        if cands:
            import copy
            lst, i = rng.choice(cands)
            lst.insert(i + 1, copy.deepcopy(lst[i]))
    d = {'parent': [], 'kind': [], 'name': [], 'ns': [], 'pfx': [], 'attrs': [], 'text': [],
         'top': 'frag' if frag else 'doc', 'xml': xml}

    def flat(n, p):
        d['parent'].append(p)
        d['kind'].append(n['k'])
        idx = len(d['parent'])
        d['ns'].append([])
        d['pfx'].append([])
        if n['k'] == 'e':
            d['name'].append(cps(n['name']))
            d['attrs'].append(n['attrs'])
            d['text'].append([])
            for c in n['kids']:
                flat(c, idx)
        else:
            d['name'].append([])
            d['attrs'].append([])
            d['text'].append(cps(n['text']))
    for t in (tops[:1] if frag else tops):
        flat(t, 0)
    return d


BARE = {'t': 'bare'}
COMBS = [' ', '>', '+', '~']
STRUCT = ['root', 'empty', 'first-child', 'last-child', 'only-child', 'first-of-type', 'last-of-type', 'only-of-type']
OPS = ['ex', 'eq', 'ne', 'inc', 'dash', 'pre', 'suf', 'sub']


def rand_simple(rng, depth, names=NAMES):
    """one simple selector; kinds listed in EXCLUDE (e.g. 'nth', owned by C02) are re-drawn"""
    while True:
        s = _rand_simple(rng, depth, names)
        if s['k'] not in EXCLUDE:
            return s


EXCLUDE = set()


def _rand_simple(rng, depth, names=NAMES):
    r = rng.random()
    if depth > 0 and r < 0.30:
        k = rng.choice(['not', 'is', 'where', 'matches', 'has', 'not', 'is', 'has'])
        if k == 'has':
            return {'k': 'has', 'args': [{'comb': rng.choice(COMBS), 'cx': rand_complex(rng, depth - 1, names, maxc=2)}
                                         for _ in range(rng.choice([1, 1, 2]))]}
        return {'k': k, 'args': [rand_complex(rng, depth - 1, names, maxc=2) for _ in range(rng.choice([1, 1, 2]))]}
    if r < 0.45:
        return {'k': rng.choice(STRUCT)}
    if r < 0.55:
        return {'k': 'nth', 'a': rng.randint(-3, 3), 'b': rng.randint(-3, 4), 'last': rng.random() < 0.4,
                'oftype': rng.random() < 0.4, 'of': []}
    if r < 0.60 and depth > 0:
        return {'k': 'nth', 'a': rng.randint(-2, 3), 'b': rng.randint(-2, 3), 'last': rng.random() < 0.4,
                'oftype': False, 'of': [rand_complex(rng, depth - 1, names, maxc=1)]}
    if r < 0.70:
        return {'k': 'class', 'v': cps(rng.choice(['x', 'y', 'xy', 'X']))}
    if r < 0.75:
        return {'k': 'id', 'v': cps(rng.choice(['x', 'y', 'xy', 'x y']))}
    op = rng.choice(OPS)
    return {'k': 'attr', 'ns': BARE, 'name': cps(rng.choice(['t', 'class', 'id'])), 'op': op,
            'val': cps('' if op == 'ex' else rng.choice(VALS + ['x-'])),
            'flag': 'n' if op == 'ex' else rng.choice(['n', 'n', 'i', 's'])}


def rand_compound(rng, depth, names=NAMES):
    c = []
    if rng.random() < 0.6:
        c.append({'k': 'type', 'ns': BARE, 'name': cps(rng.choice(names + ['*']))})
    for _ in range(rng.choice([0, 1, 1, 2]) if c else rng.choice([1, 1, 2])):
        c.append(rand_simple(rng, depth, names))
    if rng.random() < 0.12:
        # the same kind twice in one compound: #x#y (never both), #x#x, .x.y, [t][t=x] - all of them must hold
        k = rng.choice(['id', 'id', 'class'])
        pool = ['x', 'y', 'xy']
        a, b = rng.choice(pool), rng.choice(pool)
        c = [x for x in c if x['k'] != k] + [{'k': k, 'v': cps(a)}, {'k': k, 'v': cps(b)}]
    return c


def rand_complex(rng, depth, names=NAMES, maxc=3):
    n = rng.choice([1, 1, 2, 3][:maxc + 1])
    n = min(n, maxc)
    return {'cs': [rand_compound(rng, depth, names) for _ in range(n)],
            'cb': [rng.choice(COMBS) for _ in range(n - 1)]}


def rand_list(rng, depth=2, names=NAMES):
    return [rand_complex(rng, depth, names) for _ in range(rng.choice([1, 1, 1, 2]))]


def rand_extra(rng):
    """simple selectors outside the C01/C02 core (text, language, direction, HTML state, namespaces, the type attribute, & and the
    never-matching pseudo-classes): used where only spelling / parsing matters"""
    r = rng.randrange(10)
    if r == 0:
        return {'k': 'lang', 'ranges': [cps(rng.choice(['en', 'de-DE', '*-CH', 'fr', 'x y', ''])) for _ in range(rng.choice([1, 1, 2]))]}
    if r == 1:
        return {'k': 'contains', 'own': rng.random() < 0.4, 'vals': [cps(rng.choice(['x', 'x y', '', 'a"b', "it's", 'z\\w'])) for _ in range(rng.choice([1, 2]))]}
    if r == 2:
        return {'k': 'dir', 'd': rng.choice(['ltr', 'rtl'])}
    if r == 3:
        return {'k': rng.choice(['checked', 'disabled', 'enabled', 'link', 'any-link', 'default', 'indeterminate', 'in-range', 'out-of-range',
                                 'required', 'optional', 'read-only', 'read-write', 'placeholder-shown', 'defined', 'scope'])}
    if r == 4:
        return {'k': 'attr', 'ns': BARE, 'name': cps(rng.choice(['type', 'TYPE', 'tYpe'])), 'op': rng.choice(['eq', 'ne', 'inc', 'pre']),
                'val': cps(rng.choice(['TEXT', 'a', 'x y'])), 'flag': rng.choice(['n', 'n', 'i', 's'])}
    if r == 5:
        return {'k': 'attr', 'ns': rng.choice([{'t': 'any'}, {'t': 'none'}, {'t': 'pfx', 'p': cps('ns')}]), 'name': cps('href'),
                'op': rng.choice(['ex', 'eq']), 'val': cps('u'), 'flag': 'n'}
    if r == 6:
        return {'k': 'none'}
    if r == 7:
        return {'k': 'amp'}
    if r == 8:
        return {'k': 'class', 'v': cps(rng.choice(['1a', '-', '--', 'a b', '\u00e9', 'a.b', '-1', 'A']))}
    return {'k': 'id', 'v': cps(rng.choice(['#', 'x:y', ' ', 'a\\b', '0']))}
