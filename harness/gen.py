"""Seeded random generators of abstract documents and selector ASTs inside the grammar that
CssDecl.tla models (used by the B2 drivers: real code runs them, TLC validates the recorded trace)."""
from __future__ import annotations
import random
from .common import cps

NAMES = ['a', 'b', 'c']
VALS = ['', 'x', 'y', 'x y', 'xy', 'x-y', 'X', 'y x']
TEXTS = ['x', ' ', 'xy', ' \n']


def rand_doc(rng, nmax=20, xml=None, frag=None, names=NAMES, kinds=('e', 'e', 'e', 't', 'c', 'cd')):
    xml = rng.random() < 0.25 if xml is None else xml
    frag = rng.random() < 0.2 if frag is None else frag
    n = rng.randint(2, nmax)
    d = {'parent': [], 'kind': [], 'name': [], 'ns': [], 'pfx': [], 'attrs': [], 'text': [],
         'top': 'frag' if frag else 'doc', 'xml': xml}
    spine = [0]
    for i in range(1, n + 1):
        if frag and i == 1:
            p, k = 0, 'e'
        else:
            cands = [s for s in spine if not (frag and s == 0)]
            # prefer deeper nodes a bit
            p = rng.choice(cands + cands[-2:])
            k = rng.choice(kinds)
        d['parent'].append(p)
        d['kind'].append(k)
        if k == 'e':
            d['name'].append(cps(rng.choice(names)))
            at = []
            for nm in ('t', 'class', 'id'):
                if rng.random() < 0.35:
                    v = rng.choice(VALS)
                    lst = nm == 'class' and ' ' in v and not v.startswith(' ') and rng.random() < 0.5
                    at.append({'k': cps(nm), 'ns': [], 'local': cps(nm), 'v': cps(v), 'list': lst})
            d['attrs'].append(at)
            d['text'].append([])
        else:
            d['name'].append([])
            d['attrs'].append([])
            d['text'].append(cps(rng.choice(TEXTS)))
        d['ns'].append([])
        d['pfx'].append([])
        # new spine: ancestors of i (if element) else spine up to p
        idx = spine.index(p)
        spine = spine[:idx + 1] + ([i] if k == 'e' else [])
    return d


BARE = {'t': 'bare'}
COMBS = [' ', '>', '+', '~']
STRUCT = ['root', 'empty', 'first-child', 'last-child', 'only-child', 'first-of-type', 'last-of-type', 'only-of-type']
OPS = ['ex', 'eq', 'ne', 'inc', 'dash', 'pre', 'suf', 'sub']


def rand_simple(rng, depth, names=NAMES):
    """one simple selector; kinds listed in EXCLUDE (e.g. 'nth', owned by C02) are re-drawn"""
    while True:
        s = _rand_simple(rng, depth, names)
        if s['k'] not in EXCLUDE:
            return s


EXCLUDE = set()


def _rand_simple(rng, depth, names=NAMES):
    r = rng.random()
    if depth > 0 and r < 0.30:
        k = rng.choice(['not', 'is', 'where', 'matches', 'has', 'not', 'is', 'has'])
        if k == 'has':
            return {'k': 'has', 'args': [{'comb': rng.choice(COMBS), 'cx': rand_complex(rng, depth - 1, names, maxc=2)}
                                         for _ in range(rng.choice([1, 1, 2]))]}
        return {'k': k, 'args': [rand_complex(rng, depth - 1, names, maxc=2) for _ in range(rng.choice([1, 1, 2]))]}
    if r < 0.45:
        return {'k': rng.choice(STRUCT)}
    if r < 0.55:
        return {'k': 'nth', 'a': rng.randint(-3, 3), 'b': rng.randint(-3, 4), 'last': rng.random() < 0.4,
                'oftype': rng.random() < 0.4, 'of': []}
    if r < 0.60 and depth > 0:
        return {'k': 'nth', 'a': rng.randint(-2, 3), 'b': rng.randint(-2, 3), 'last': rng.random() < 0.4,
                'oftype': False, 'of': [rand_complex(rng, depth - 1, names, maxc=1)]}
    if r < 0.70:
        return {'k': 'class', 'v': cps(rng.choice(['x', 'y', 'xy', 'X']))}
    if r < 0.75:
        return {'k': 'id', 'v': cps(rng.choice(['x', 'y', 'xy', 'x y']))}
    op = rng.choice(OPS)
    return {'k': 'attr', 'ns': BARE, 'name': cps(rng.choice(['t', 'class', 'id'])), 'op': op,
            'val': cps('' if op == 'ex' else rng.choice(VALS + ['x-'])),
            'flag': 'n' if op == 'ex' else rng.choice(['n', 'n', 'i', 's'])}


def rand_compound(rng, depth, names=NAMES):
    c = []
    if rng.random() < 0.6:
        c.append({'k': 'type', 'ns': BARE, 'name': cps(rng.choice(names + ['*']))})
    for _ in range(rng.choice([0, 1, 1, 2]) if c else rng.choice([1, 1, 2])):
        c.append(rand_simple(rng, depth, names))
    return c


def rand_complex(rng, depth, names=NAMES, maxc=3):
    n = rng.choice([1, 1, 2, 3][:maxc + 1])
    n = min(n, maxc)
    return {'cs': [rand_compound(rng, depth, names) for _ in range(n)],
            'cb': [rng.choice(COMBS) for _ in range(n - 1)]}


def rand_list(rng, depth=2, names=NAMES):
    return [rand_complex(rng, depth, names) for _ in range(rng.choice([1, 1, 1, 2]))]
