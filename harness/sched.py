"""Deterministic thread schedule controller for C14.

Each spec thread is a real threading.Thread whose sys.settrace function parks it at
  * the start of every compile call ("B"),
  * every call of SpecialPseudoPattern.match ("M") and SpecialPseudoPattern.get_name ("G")
(the only places the dispatcher's remembered name is written / read).  The controller releases exactly
one thread at a time, in the order of a TLC behaviour; a release runs the thread to its next park point
(or to the end of its script)."""
from __future__ import annotations
import sys
import threading


class Park(Exception):
    pass


class Controller:
    def __init__(self, sv, nthreads):
        self.sv = sv
        self.cond = threading.Condition()
        self.turn = None
        self.state = {}          # tid -> 'parked' | 'running' | 'done'
        self.results = {t: [] for t in range(1, nthreads + 1)}
        self.events = {t: [] for t in range(1, nthreads + 1)}
        self.timeout = 20

    # ---- called in worker threads --------------------------------------------------------
    def park(self, tid, what):
        with self.cond:
            self.events[tid].append(what)
            self.state[tid] = 'parked'
            self.cond.notify_all()
            while self.turn != tid:
                if not self.cond.wait(self.timeout):
                    raise Park('thread %d never released' % tid)
            self.turn = None
            self.state[tid] = 'running'

    def tracer_for(self, tid):
        ctl = self

        def local_ret(frame, event, arg):
            if event == 'return':
                ctl.events[tid].append(('ret', arg))
            return local_ret

        def tracer(frame, event, arg):
            if event != 'call':
                return None
            name = frame.f_code.co_name
            if name in ('match', 'get_name'):
                slf = frame.f_locals.get('self')
                if slf is not None and type(slf).__name__ == 'SpecialPseudoPattern':
                    ctl.park(tid, 'M' if name == 'match' else 'G')
                    if name == 'get_name':
                        return local_ret
            return None
        return tracer

    def body(self, tid, script, compile_fn):
        sys.settrace(self.tracer_for(tid))
        try:
            for pattern in script:
                self.park(tid, 'B')
                try:
                    r = compile_fn(pattern)
                    self.results[tid].append(('ok', r))
                except Park:
                    raise
                except BaseException as e:  # noqa
                    self.results[tid].append(('exc', type(e).__name__ + ': ' + str(e).split('\n')[0]))
        except Park:
            self.results[tid].append(('exc', 'controller timeout'))
        finally:
            sys.settrace(None)
            with self.cond:
                self.state[tid] = 'done'
                self.cond.notify_all()

    # ---- called by the controller ---------------------------------------------------------
    def run(self, scripts, schedule, compile_fn):
        """scripts: {tid: [pattern text]}, schedule: [tid, ...]. Returns (results, leftover_steps, stalled)"""
        threads = {}
        for tid, script in scripts.items():
            th = threading.Thread(target=self.body, args=(tid, script, compile_fn), daemon=True)
            threads[tid] = th
            self.state[tid] = 'running'
            th.start()
        # wait until every thread reached its first park
        with self.cond:
            ok = self.cond.wait_for(lambda: all(self.state[t] in ('parked', 'done') for t in threads), self.timeout)
        skipped = 0
        for tid in schedule:
            with self.cond:
                if self.state[tid] == 'done':
                    skipped += 1
                    continue
                self.turn = tid
                self.state[tid] = 'running'
                self.cond.notify_all()
                self.cond.wait_for(lambda: self.state[tid] in ('parked', 'done'), self.timeout)
        # drain: release whatever is still parked (only happens when the code diverged from the schedule)
        leftover = 0
        for _ in range(10000):
            with self.cond:
                pend = [t for t in threads if self.state[t] == 'parked']
                if not pend:
                    if all(self.state[t] == 'done' for t in threads):
                        break
                    self.cond.wait(0.01)
                    continue
                tid = pend[0]
                leftover += 1
                self.turn = tid
                self.state[tid] = 'running'
                self.cond.notify_all()
                self.cond.wait_for(lambda: self.state[tid] in ('parked', 'done'), self.timeout)
        for th in threads.values():
            th.join(self.timeout)
        return self.results, leftover, skipped


def dry_run(sv, pattern, compile_fn):
    """single-threaded run: the sequence of park points of one compile of `pattern`"""
    ctl = Controller(sv, 1)
    ctl.timeout = 5
    res, leftover, skipped = ctl.run({1: [pattern]}, [1] * 500, compile_fn)
    ev = ctl.events[1]
    ops = []
    i = 0
    while i < len(ev):
        e = ev[i]
        if e == 'B':
            ops.append({'op': 'B', 'k': 'none'})
        elif e == 'M':
            # matched iff the next park is G; its returned name follows as ('ret', name)
            k = 'none'
            if i + 1 < len(ev) and ev[i + 1] == 'G':
                for f in ev[i + 2:i + 4]:
                    if isinstance(f, tuple):
                        k = f[1]
                        break
            ops.append({'op': 'M', 'k': k})
        elif e == 'G':
            k = 'none'
            for f in ev[i + 1:i + 3]:
                if isinstance(f, tuple):
                    k = f[1]
                    break
            ops.append({'op': 'G', 'k': k})
        i += 1
    return ops, res[1][0]
