"""Generates /verif/MANIFEST.json from the table below (single source of truth)."""
import json
import os

VERIF = os.path.dirname(os.path.dirname(os.path.abspath(__file__)))

BASE_OFF = ("cd /repo && env -u SOUPSIEVE_VERIF /venv/bin/python -m pytest -ra -q -p no:cacheprovider "
            "--timeout=900 --continue-on-collection-errors")

CHECKS = {
    'C01': dict(
        category='model_checking',
        text='TLC enumerates every document of the bounded builder model (Dom.tla) and evaluates the declarative '
             'semantics CssDecl.tla on a selector pool; every state is replayed into soupsieve.select/match and the '
             'result list must equal the predicted relation in document order. The composed front end Lexer.tla -> ParseSel.tla -> Ir!Compile computes the IR of randomly SPELLED selector texts; Trace_Parse accepts iff the real parser built exactly that IR. The recorded selects (on randomly respelled texts) are validated twice: against the declarative CssDecl (Trace_Select) and against the implementation-shaped pipeline computed entirely in TLA+ from the characters (Trace_Pipe: Lexer, ParseSel, Ir!Compile, Ir!AlgoList). Parser-made trees (html.parser, lxml, html5lib, lxml-xml; text kept in NavigableString subclasses, camelCase SVG / MathML names) are projected back and validated the same way; attribute values include regular-expression metacharacters, quotes and backslashes.',
        design_ref='§6 C01',
        note='Bounded: trees <= 4-5 nodes, selector pools per configuration; CssDecl.tla trusted as reading of '
             'Selectors 3/4; documents built through the bs4 API.',
        technique='TLA+ reference semantics + TLC state enumeration, replayed into the implementation (spec->code conformance); TLC trace validation of the real IR against Compile(ParseText(text))'),
    'C02': dict(
        category='model_checking',
        text='TLC enumerates every sibling row (<= 4-5 nodes over element a/b, text, comment; under an element, at top level, '
             'detached) x every (a, b) of a square x the four pseudo-classes x "of S" filters, and every accepted spelling of '
             '(a, b) from Nth.tla; the design-level theorems closed-form <=> exists n and ParseNth(Spell(a,b)) = (a,b) are '
             'TLC invariants; every state is replayed into soupsieve.select; random larger trees are recorded from the real '
             'code and validated by TLC against CssDecl (Trace_Select). Namespaced sibling rows with a default namespace in the caller map are part of the recorded traces; Trace_Parse binds the An+B texts (incl. the implied of *|*) to the IR. The recorded selects (on randomly respelled texts) are validated twice: against the declarative CssDecl (Trace_Select) and against the implementation-shaped pipeline computed entirely in TLA+ from the characters (Trace_Pipe: Lexer, ParseSel, Ir!Compile, Ir!AlgoList).',
        design_ref='§6 C02',
        note='Also: iframe children as siblings; `of S` under a lazy iselect() whose consumer changes classes between elements (shared with C04). '
             'Bounded: |a|,|b| <= 7 exhaustively plus {100, 40000} (TLC 32-bit integers); rows <= 5; CssDecl.NthHolds trusted as '
             'the reading of Selectors 4 / CSS Syntax 3 An+B.',
        technique='TLA+ An+B definition + micro-syntax, TLC enumeration replayed into the code; TLC trace validation of recorded selects; Trace_Parse binding'),
    'C03': dict(
        category='model_checking',
        text='Api.tla states each entry point (select, iselect, select_one, match, filter(tag), filter(iterable), closest) as a '
             'view of the single relation CssDecl!Matches with the call target as scope; TLC checks the view theorems '
             '(prefix/limit, never-self, never-document) and enumerates all trees <= 3-4 nodes x entry point x target x limit x '
             'presence of namespaces/custom; each predicted outcome is replayed into the module-level function (keyword and '
             'positional) and into compile(...).method(...), with and without DEBUG; recorded random calls are validated by TLC '
             '(Trace_Api). The same calls are validated a second time as views of the relation the implementation-shaped pipeline computes from the randomly respelled selector TEXT (Trace_ApiPipe); documents with iframe content; selectors no element satisfies must never yield the document object.',
        design_ref='§6 C03',
        note='Bounded: trees <= 4 nodes exhaustively, random trees <= 12 nodes in traces; 10-selector pool chosen to make '
             'every optional argument observable.',
        technique='TLA+ view definitions over one match relation; TLC-enumerated calls replayed into both API layers; TLC trace validation'),
    'C04': dict(
        category='model_checking',
        text='Session.tla models one matcher with its memo tables; TLC checks T-MemoTransparent over every examination order and '
             'refutes the defective "remember a failed search as the empty value" design (negative model). MC_C04_hist generates '
             'call histories (all pairs by BFS, longer ones by -simulate) over 7 call kinds x 4 documents (html.parser, lxml-xml, '
             'html5lib; meta language, iframes, radio groups, forms) x 20 selectors; the real code executes them and History.tla '
             '- a law-level trace spec in which the match relation is an unlogged variable inferred by TLC - accepts iff one '
             'relation (seeded by a pristine re-parse asked element by element) explains every observation and the document '
             'serialisation, node identities and attributes never changed. An alone part compares select on the document and on subtrees with match on each element alone, exhaustively over the pools; a mutation part changes the tree through the bs4 API between two queries and compares with a pristine parse of the changed tree (Session.tla: Mutate, table lifetime; process-lifetime tables refuted as a negative model). A process part binds that negative model: the same documents and selectors in fresh interpreters in four document orders must give the same answers. A lazy part consumes iselect() element by element while the consumer edits classes: every element is judged against the tree as it is when the walk reaches it.',
        design_ref='§6 C04',
        note='Histories: exhaustive pairs over reduced pools, sampled up to length 6-8; fixed document/selector pools chosen for '
             'the memoised facts; observations compared through abstract node positions.',
        technique='TLA+ memo-machine model checked by TLC + TLC-generated call histories executed on the code + law-level TLC trace validation with inferred relation'),
    'C05': dict(
        category='model_checking',
        text='ListFlag.tla states the design question behind the property (where the HTML-only restriction of an alternative '
             'lives); TLC proves the union/monotonicity laws for the per-alternative placement over all cases and refutes the '
             'per-list placement (negative model). Conformance is law-level trace validation: for every ordered pair of a '
             '69-atom pool (every pseudo-class the parser accepts, namespaces, custom alias, complex selectors) x document kinds '
             '(html.parser, html5lib, lxml, XHTML, XML; SVG subtree, iframe) x namespace maps, the real results of the 10 '
             'compound forms are recorded and ListAlgebra.tla (atom rows inferred by TLC) accepts iff the Boolean laws explain them. The same laws are also recorded under an explicit *|* subject (any-is-union, any-not, any-not-list), with atoms whose memoised fact is first asked about another element, and on the diagonal (A, A).',
        design_ref='§6 C05',
        note='Pairs (not triples) of atoms exhaustively in thorough, half of them in quick; complement laws are relative to the '
             'universe a top-level * has under the same namespace map; one fixed document per kind.',
        technique='TLA+ design model (positive+negative) checked by TLC; law-level TLC trace validation of recorded selects with inferred atom rows'),
    'C15': dict(
        category='model_checking',
        text='Cache.tla is the LRU machine (Compile/Purge/PassSame/PassExtra) with T-LRU invariants (bounded, no duplicates, '
             'purge empties, cache = the most recent K distinct keys) checked by TLC; every behaviour of depth 3-4 (BFS) and sampled '
             'behaviours of depth 9-14 (-simulate) are replayed into compile()/purge() with a model key concretised as a block of 250 '
             'patterns (so the real lru_cache(500) is observed as K=2); after every step cache_info() must equal the model state, the '
             'object must equal a fresh parse, == / hash must agree with model-key equality for every pair returned so far '
             '(including keys equal up to map insertion order), and every IR node must be hashable, reject setattr/delattr, and '
             'survive pickle/copy/deepcopy with equal select results. Caller-value part: the dictionaries passed to compile are mutated afterwards, the pattern text must be kept as given and different texts are different values. Selectors compiled from distinct patterns are pairwise unequal also where hash() collides; every pickle protocol; maps given as OrderedDict / list of pairs; the same dict objects changed in place and passed again.',
        design_ref='§6 C15',
        note='LRU bound observed through blocks (all-or-nothing); 5 model keys differing in one argument each + order variants; '
             'bool-vs-int flags and attribute-level access to the internal mapping objects are not gated.',
        technique='TLA+ LRU state machine, TLC BFS + simulation behaviours replayed step-by-step into the real cache with cache_info() as state projection'),
    'C14': dict(
        category='model_checking',
        text='Threads.tla models N threads x scripts of compile calls with pre-emption points around the special-pseudo-class '
             'dispatcher (the point structure of each pattern is extracted from the working tree by a dry run at check time) and the '
             'shared cache; TLC checks T-Serial over ALL interleavings for the per-call placement and refutes the shared-slot '
             'placement (negative model). Every behaviour TLC enumerates is replayed deterministically: a sys.settrace controller '
             'parks real threads at exactly those points and releases them in the behaviour\'s order; each call must return its '
             'single-threaded value and the cache must hold fresh parses. In addition one thread is pre-empted at Python line events '
             '(compile, select, match, filter pairs) by a second thread running to completion. Every bounded memo of the library is filled before the replays (capacity state), alias definitions carry salted attribute names, and the pairs that go through shared mutable state are pre-empted at every line in both tiers; a single-threaded call that fails after an interleaving counts as corrupted shared state. LazyInit.tla states process start-up as a state (eager / idempotent builds hold T-FirstUse, the unguarded lazy build is refuted); a cold-start part pre-empts the FIRST compile of a fresh interpreter at every line of the functions through which shared objects are reached (every third line elsewhere; every line in the thorough tier) while a second thread makes its first call; process-wide interpreter state is compared around every replay; 40-level nested selectors and documents needing different calendar facts are among the pre-emption pairs.',
        design_ref='§6 C14',
        note='Also: compile pairs that go through an internal rewrite ([a!=v], state pseudo-classes) at every line; an eviction storm (600 never-seen-before matches by the second thread while the first is parked at every line: check-then-act on bounded process-wide tables). '
             '2 threads x 1-2 calls (quick), 3 threads / 2 calls with bounded switches (thorough); line-level pre-emption with one '
             'pre-emption; races inside a single bytecode or inside C code (lru_cache, re) cannot be forced from Python.',
        technique='TLA+ interleaving model checked by TLC (positive + negative placement); every TLC behaviour replayed as a forced thread schedule on the real code'),
    'C13': dict(
        category='model_checking',
        text='Lang.tla states RFC 4647 extended filtering (five-step algorithm as a recursive operator plus the CSS empty-range and * '
             'rules) and language determination (nearest lang / xml:lang, content-language pragma, unknown; iframe = document boundary). '
             'TLC checks design-level laws on the model (case invariance, greedy scan = declarative embedding, wildcard redundancy, '
             'reflexivity, prefix ranges, * vs empty, inheritance equations) and enumerates all range x tag pairs of subtag length <= 3-4 '
             'over {de,en,x,latn,*,""} and all determination situations (chains <= 3-4 x 5 attribute states x 5 pragma states x iframe '
             'position x 4 document modes); every predicted relation is replayed into soupsieve.select; seeded random selects over a larger '
             'alphabet are recorded from the code and validated by TLC (Trace_Select). Ranges with empty subtags against well-formed tags; a plain XML root around XHTML elements (xmlmix) and a foreign element named iframe (mixedf) among the document modes.',
        design_ref='§6 C13',
        note='Bounded: subtag lists <= 4 (B1) / <= 6 (B2), chains <= 4, single-rooted API-built documents, one pragma per document; the '
             'pragma of a document nested in an iframe is recorded as drift (property does not decide it); Lang.tla trusted as the reading of RFC 4647.',
        technique='TLA+ transcription of RFC 4647 3.3.2 + determination rules; TLC enumeration replayed into the code; TLC trace validation'),
    'C19': dict(
        category='model_checking',
        text='TextSem.tla defines the text of an element (kind-t nodes only, document-order concatenation, own text as separate nodes, '
             'iframe cut in HTML/XHTML) and :-soup-contains / -own; TLC checks eight laws of the definition (own => descendant, list = '
             'disjunction, empty-needle law, set-based = structural recursion ...) and enumerates child rows <= 3-4 over 12 node kinds at '
             'depth <= 3 in five document flavours with pools of 34-58 selectors in three needle spellings (quotes, escapes); every predicted '
             'relation is replayed into soupsieve.select/match; the deprecated :contains alias is compared code-vs-code incl. its FutureWarning; '
             'recorded selects on random trees are validated by TLC (Trace_C19).',
        design_ref='§6 C19',
        note='Bounded rows/depth; trees built through the bs4 API; what an HTML iframe element sees of its own content is accepted in both '
             'readings (drift only); unquoted identifier needles only in the random part.',
        technique='TLA+ text semantics, TLC enumeration replayed into the code; TLC trace validation of recorded selects'),
    'C16': dict(
        category='model_checking',
        text='Imports.tla models CPython import statements (sys.modules absent/running/done, import stack, names bound so far, '
             'from-import fallback to submodules, exception unwinding through try handlers); the 21 module bodies of soupsieve and the '
             'installed bs4 are extracted with ast at check time (imports, bindings, import-time attribute uses incl. functions '
             'reachable from module-level calls). TLC checks T-ImportSafe for every entry script (8 import forms, all ordered sequences of '
             'length <= 2-3) and prints each script\'s predicted outcome and module begin/end order; every script is run in a fresh '
             'interpreter (clean: exit status, exception, output, warnings, BeautifulSoup.select == soupsieve.select == same for every '
             'order) and once with a sys.meta_path logger whose recorded order is compared with the model\'s. Every entry statement is also run under the interpreter configurations -O, -OO, -X dev, -W error, -B. Process-wide state (warnings filters, recursion limit, environment, locale, logging, signal handlers, sys.path ...) is checkpointed at every module begin / end by the import logger and a change is blamed on the innermost executing module; Imports.tla has the corresponding step (op ambient) extracted from module-level statements.',
        design_ref='§6 C16',
        note='Verdict comes from the interpreter run; model/interpreter disagreements are recorded as drift (static extraction is an '
             'over-approximation). CPython 3.12, bs4 4.15 as installed; reload/zipimport/frozen are out.',
        technique='TLA+ model of the import system over module bodies extracted from source; TLC-enumerated import scripts run in fresh interpreters; recorded module execution order compared with the model'),
    'C11': dict(
        category='model_checking',
        text='CssDecl (NameKey, Insensitive) states the case rules per document type; TLC enumerates one logical tree with tag names, '
             'attribute names and values in lower/UPPER/Mixed case as HTML (case preserved through the API), XML and XHTML against selectors '
             'spelling the same names/values in each case with and without i/s, for =, ~=, ^=, != and type/class/id; every state is replayed '
             'into soupsieve.select. The same logical tree parsed by html.parser, lxml, html5lib and lxml-xml (plain and XHTML) is projected '
             'back to an abstract document and the recorded selects - including every HTML-only pseudo-class on plain XML - are validated by '
             'TLC against CssDecl (Trace_Select). Random trees with randomly re-cased names / values, built as HTML, XML and XHTML, against randomly re-cased selectors (Trace_Select); the HTML-only pseudo-classes are also asked with every inner element as call target.',
        design_ref='§6 C11',
        note='ASCII letters only (Python re.I is Unicode-wide, CSS is ASCII-insensitive: not gated); <= 2 children exhaustively.',
        technique='TLA+ reference semantics parameterised by document type; TLC enumeration replayed into the code; TLC validation of selects recorded on parser-built trees'),
    'C12': dict(
        category='model_checking',
        text='CssDecl (ElemNsOk, AttrNsOk, implied universal under a default namespace) states the namespace rules; TLC enumerates '
             'namespace-aware documents (XML builder, html5-style XHTML root; element namespaces {none,U1,U2,XHTML}, document prefixes '
             'independent of the map, attributes in {none,U1,U2}) x 8 prefix maps x 21 element/attribute selector forms; every state is '
             'replayed into soupsieve.select; documents parsed by lxml-xml (default, prefixed, redeclared, undeclared) and html5lib '
             'foreign content are projected back and the recorded selects validated by TLC. Forms2: complex selectors whose non-subject compound has no type selector and lists of type-less alternatives inside :is/:not/:has/:nth-child(of) under every map; caller maps using the prefix "html" combined with HTML-only pseudo-classes.',
        design_ref='§6 C12',
        note='Namespace-aware trees only; <= 2 children exhaustively; selectors spelling a literal "p:a" attribute name via escapes are not generated.',
        technique='TLA+ namespace semantics; TLC enumeration replayed into the code; TLC validation of selects recorded on parser-built trees'),
    'C08': dict(
        category='model_checking',
        text='MatchOrder.tla models the compound evaluator as an ordered list of checks with definedness preconditions; TLC checks '
             'T-Defined for the guarded and the reordered design and refutes the order found in the code before repair (negative model). '
             'MC_C08_shapes enumerates every element name x attribute x value shape (missing, empty, junk, valid, over-long; lists and odd API '
             'values only on class/id/t) x context (rooted, detached, several top-level nodes, foreign namespace, inside iframe, XHTML) and every '
             'pair (type value, other attribute); ~100 selectors taken from the parser\'s own pseudo-class tables are run through every entry '
             'point on every element; oracle = outcome class (TypeError iff the target is not a Tag). The order of match_* calls recorded with '
             'sys.setprofile is validated against MatchOrder by TLC. A depth pump runs the selector pool over seven documents nested 1 200 (quick) / 3 000 (thorough) levels deep - beyond the interpreter recursion limit - and over element-less documents with the BeautifulSoup object as call target.',
        design_ref='§6 C08',
        note='One or two attributes per element; documents of 3-5 nodes; nesting far below the recursion budget.',
        technique='TLA+ definedness model (positive + negative) checked by TLC; TLC-enumerated element shapes replayed through all entry points; recorded check order validated'),
    'C17': dict(
        category='model_checking',
        text='HtmlState.tla defines the HTML state pseudo-classes declaratively (checked, default, indeterminate, enabled/disabled with the '
             'fieldset/legend rule, required/optional, read-write/read-only, placeholder-shown, link, dir, defined; iframe = document '
             'boundary); TLC checks the six partition laws and the default/group/boundary theorems as invariants and enumerates every '
             'form / fieldset / radio-group / iframe / bidi document up to 4-5 nodes over six focused template sets (100 k documents quick, '
             '1.1 M thorough); every document with its predicted sets is replayed into soupsieve.select. The partition laws over the '
             'code\'s own results and definition conformance on seeded random documents parsed by html.parser, lxml and html5lib are '
             'decided by TLC (Trace_C17, one REJECT per failing predicate). T-StateDefs: the selector texts by which the library defines its state pseudo-classes are extracted from the tree under test, parsed and compiled by the specification\'s own front end (Lexer, ParseSel, Ir) and evaluated by the matcher of Ir.tla; that this equals HtmlState is an invariant of every run.',
        design_ref='§6 C17',
        note='Bounded document size and attribute pools; gated on the definitions the property spells out (default with the documented nested-form '
             '"bail" rule, indeterminate, placeholder-shown, iframe boundary, link=any-link) and the laws; the form-owner reading of :default and '
             'the standard\'s finer reading of :dir() are alternative readings recorded as drift; range law: disjointness only (coverage is C18\'s).',
        technique='TLA+ definitions + partition-law invariants checked by TLC; enumeration replayed into the code; law-level and definition-level TLC trace validation on parser-built documents; TLC invariant over code-extracted definition texts (T-StateDefs)'),
    'C06': dict(
        category='model_checking',
        text='Parser.tla models parse_selectors over token kinds with an explicit stack of list frames (forgiving lists, relative lists, pending '
             'combinators); TLC checks T-Total (bounded stack, one outcome, no stuck state, termination under fairness) and prints the predicted '
             'outcome of every lexically possible token sequence of <= 3-4 tokens over 26 token kinds; each is concretised in two spellings and '
             'compiled (outcome class gated; agreement with the prediction recorded: 31 144 of 31 144 on the repaired tree). '
             'Custom.tla models the alias resolver (delete-while-compiling) with an explicit stack; TLC checks T-Total (termination under '
             'weak fairness, bounded stack, no name compiled twice) over every map of 3 names x {plain, refers-to-x, malformed, absent} and '
             'prints the predicted outcome, replayed into compile(\':--n\', custom=map) (+ malformed / case-colliding names). '
             'MC_C06_chars enumerates every string of <= 2-3 symbols over a 42-class character alphabet (incl. NUL, C0/C1, surrogates, '
             'astral, escapes beyond U+10FFFF, comment openers, pseudo-class names) and sampled walks up to length 6-8; each is concretised '
             'with several representatives per class and compiled bare and inside 15 closed and unterminated contexts; oracle = outcome '
             'class {compiled, SelectorSyntaxError, NotImplementedError, KeyError only for case-colliding custom names}. A pump part takes the repetitions of the token grammar (digit runs, identifier characters, white space, comment and string bodies): TLC checks PumpInvariant on Lexer.tla (token kinds do not depend on the run length, N <= 6/24), the code is run with the same sites pumped to 4 300 - 100 000 repetitions.',
        design_ref='§6 C06',
        note='Lexer.tla (character level) and Parser.tla (token level) are bound to the code by DEBUG token streams and outcomes; their agreement is recorded, not a verdict; '
             'Unicode abstracted by classes; nesting depth tiny compared to the recursion budget.',
        technique='TLA+ resolver state machine with liveness checked by TLC; TLC-enumerated class strings and custom maps replayed into compile(); outcome-class oracle; TLC pump invariant + pumped replay'),
    'C20': dict(
        category='model_checking',
        text='ErrCtx.tla is the reading of the property (line breaks incl. CR LF as one, line, column, context with caret); seven theorems '
             '(range, recoverability of the offset, monotonicity, partition, end of input on the last line, format <=> property reading) are '
             'TLC invariants; TLC enumerates every pattern over {x, LF, CR} up to length 6-8 x every offset 0..len and each pair is replayed into '
             'SelectorSyntaxError / get_pattern_context; SelectorSyntaxErrors recorded from the real parser on line-break-respelled, truncated or '
             'corrupted selectors are validated by TLC (Trace_C20). Pretty.tla models the pretty-printer token loop; TLC proves NoStuck / Terminates '
             '(liveness) / StepAdvances on a bounded repr grammar for the repaired token rules and must refute them for the as-is rules (three '
             'negative configurations); the real pretty() runs on ~280 compiled selectors under a deterministic line-event budget and must equal '
             'repr modulo whitespace; DEBUG is checked differentially on ~200 selectors x 3 documents and every recorded error. The error-context enumeration also runs over an alphabet with characters that are not line breaks (FF, VT, NEL, LS, PS); the pretty pool has quote- and backslash-heavy values and a wall-clock watchdog besides the line-event budget.',
        design_ref='§6 C20',
        note='DEBUG runs print into a strict UTF-8 stream (lone surrogates, controls, non-BMP characters in the pool). '
             'Patterns <= 6-8 over a 3-symbol alphabet, e2e patterns <= ~60 characters; offsets on the LF of a CR LF pair and the literal '
             'context format are drift only; non-termination is a settrace budget (300-2000 x len line events), not a proof about the Python loop.',
        technique='TLA+ error-context definition + loop model with liveness and negative configurations; TLC enumeration replayed into the code; TLC trace validation of recorded diagnostics'),
    'C10': dict(
        category='model_checking',
        text='Escape.tla (CSSOM serialize-an-identifier) and IdentLex.tla (the CSS Syntax 3 identifier consumer as an explicit state machine); '
             'TLC checks T-EscapeRoundTrip (IdentLex applied to Escape(s) + terminator consumes exactly Escape(s) and yields s with NUL->U+FFFD) '
             'for every string of length <= 3-4 over 26 code-point classes (length 5 over 10) with 10 terminators, and explores the tokenizer as '
             'behaviours with type/result invariants; every enumerated string (3 representatives per class incl. U+0080, U+009F, surrogates, '
             'U+10FFFF) is replayed: real escape() never raises, #/./[a=] + escape(s) compile to exactly one id/class/attribute equal to s\', '
             'the intended element among near-misses is selected, surrounding selectors stay intact; seeded random identifiers of length 5-30 '
             'are recorded and validated by TLC (Trace_C10). T-EscapeRoundTripImpl: the serialization also round-trips through the implementation-shaped Lexer.tla + ParseSel.tla (TLC invariant).',
        design_ref='§6 C10',
        note='Exhaustive only up to the length bounds and modulo the class abstraction; agreement of escape() with CSSOM byte-for-byte and of '
             'IdentLex with the recorded output are drift, the gate is the round trip the property states; empty identifier out of scope.',
        technique='TLA+ serializer + tokenizer state machine with a TLC-checked round-trip theorem; TLC enumeration replayed into escape/compile/select; TLC trace validation'),
    'C18': dict(
        category='model_checking',
        text='Calendar.tla defines the HTML valid date/month/week/time/local date-time/number strings (years as digit strings of any length), '
             'ordering incl. wrapping time ranges, and :in-range/:out-of-range; TLC checks 15 design-level theorems (period 400, Thursday rule = '
             'ISO definition, 52/53 weeks, 71 long years per cycle, total orders, midnight wrap) and enumerates ~34k (thorough ~162k) <input> '
             'elements as document states with the predicted sets: weeks for years 1..800 + digit-length representatives, day/month grid, hours, '
             'minutes, every single-character mutation of a seed string per type, all 8^3 (min,max,value) triples per type; every gated '
             'membership is compared with soupsieve; seeded random selects are recorded and accepted/rejected by TLC (Trace_C18). T-Sign (the sign is orthogonal to validity) is a TLC theorem and is run on the code over 24 number shapes x min / max / value; a bound of 5 000 digits that can never be exceeded must leave the decision to the other bound.',
        design_ref='§6 C18',
        note='Open known finding F18 (week 53 accepted when 31 Dec lies in week 1 of the next year; pinned by the repository tests) is suppressed '
             'only where the observed answer equals the spec with that single rule switched on; exponent / bare-dot numbers, seconds, XML type '
             'case are ungated zones recorded as drift.',
        technique='TLA+ calendar semantics with TLC-checked theorems; TLC enumeration replayed into the code; TLC trace validation with a known-finding variant pass'),
    'C09': dict(
        category='model_checking',
        text='Spelling.tla holds the lexical rewrite rules under which CSS keeps the meaning of a selector: whitespace/comment variants per '
             'slot (11 optional, 10 required forms incl. CR LF, FF, comments), CSS escapes per identifier / string character (\\c, \\hex+space, '
             'six digits, hex+newline) with the swallow-one-whitespace rule, quote styles and bare identifiers, ASCII case of keywords and '
             'escapes inside pseudo-class names; TLC enumerates every spelling with <= 1 (quick) / 2 (thorough) deviating items of a 38-selector '
             'annotated pool covering every construct that has a slot and prints its text; law over the code: compile(spelling).selectors == '
             'compile(canonical).selectors, equal select results on an HTML and an XML document, no syntax error for a respelling. T-SpellingIR (Compile(ParseText(respelling)) = Compile(ParseText(canonical)) through Lexer/ParseSel/Ir) is a TLC invariant of the same enumeration; random selectors of the whole grammar are respelled at random (escapes, quotes, bare values, line continuations, case, white space / comments) and compared by the law, and the texts inside the Ir grammar are validated by Trace_Parse.',
        design_ref='§6 C09',
        note='Slots are annotated by hand in the pool; deviations <= 2 per spelling; T-Spelling (every respelling lexes, per Lexer.tla, to the same '
             'token kinds and combinators as the canonical one) is a TLC invariant, and Lexer.tla is bound to the code by the DEBUG token stream of '
             'every respelling (agreement recorded, not a verdict); the verdict is the code-vs-code structural-equality law.',
        technique='TLA+ rewrite-rule model; TLC-enumerated respellings compiled by the real parser; structural-equality law; T-SpellingIR invariant; Trace_Parse validation of randomly spelled texts'),
    'C07': dict(
        category='exploration',
        text='A TLA+ specification does not measure time; the check combines model checking of ambiguity with model-driven measurement. '
             '(a) every compiled regular expression reachable in the working tree (12 token patterns incl. the five special pseudo-class '
             'patterns specialised to their dispatcher names, css_match / util / pretty patterns) is converted at check time into an '
             'epsilon-free multi-edge NFA with guard states for short look-aheads (harness/regex_nfa.py, validated against re on generated '
             'strings) and given to RegexAmb.tla as constants; TLC searches the product of two copies for an exponential-ambiguity witness '
             '(T-NoEDA, Weber-Seidl) at every loop anchor whose exit is not immediately accepting; a witness is confirmed on the real parser '
             '(prefix + pump*n + kill must take > 1 s and grow >= 1.8x per pump, CPU time of a child) before it is reported. '
             '(b) pump families: every prefix of ~60 pool selectors pumped at every slot with 5 terminators; (c) each family with <= 64 '
             'characters must finish in < 2 s CPU (healthy: a few ms) and the fitted growth exponent up to n = 2000 must be <= 3.5; same for '
             'the document-side regexes on attribute values.',
        design_ref='§6 C07',
        note='Level claimed: exploration for the measured part, with the TLC ambiguity verdicts inside the evidence (quick tier runs the Python '
             'reference of the same product search, thorough runs TLC on every automaton and cross-checks); look-behinds and long look-arounds '
             'are epsilon (over-approximation, counted); thresholds have a >= 400x margin on healthy code, CPU time only.',
        technique='regex -> NFA extraction + TLA+/TLC product search for exponential ambiguity (confirmed on the code) + measured pump families'),
}

PENDING = {}


def main():
    props = [json.loads(l) for l in open(os.path.join(VERIF, 'properties.jsonl'))]
    checks = []
    na = []
    for p in props:
        pid = p['id']
        if pid in CHECKS:
            c = CHECKS[pid]
            checks.append({
                'property_id': pid,
                'quick_cmd': './check %s --tier quick' % pid,
                'thorough_cmd': './check %s --tier thorough' % pid,
                'evidence_file': '/verif/evidence/%s.json' % pid,
                'replay_cmd_template': './check %s --replay {path}' % pid,
                'engine': 'tlc+replay',
                'level_claimed': {'category': c['category'], 'text': c['text'], 'design_ref': c['design_ref']},
                'level_note': c['note'],
                'technique': c['technique'],
            })
        else:
            na.append({'property_id': pid,
                       'reason': PENDING.get(pid, 'check not built yet in this round (planned, see DESIGN.md §9); not a claim that the technique does not apply')})
    man = {
        'version': 1,
        'setup_cmd': 'cd /verif && ./setup.sh',
        'hooks': {
            'guard': 'SOUPSIEVE_VERIF',
            'enable': 'none needed: all observation is from outside the package (public API returns, cache_info(), '
                      'sys.settrace, sys.meta_path, flags=DEBUG output); the guard name is reserved',
            'baseline_off_cmd': BASE_OFF,
            'source_commits': [],
            'add_only': True,
        },
        'engines': [
            {'name': 'tlc+replay', 'path': '/verif/check', 'serves_properties': sorted(CHECKS),
             'kind_free_text': 'explicit TLA+ specification (spec/*.tla) checked by TLC; TLC-enumerated states/behaviours '
                               'replayed into soupsieve and recorded traces validated against the spec'},
        ],
        'checks': checks,
        'notes': 'See DESIGN.md. known_findings.txt lists fixed and open findings.',
        'not_applicable': na,
    }
    with open(os.path.join(VERIF, 'MANIFEST.json'), 'w') as f:
        json.dump(man, f, indent=1)


if __name__ == '__main__':
    main()
