"""Evaluate seeded changes: for each /verif/seeded/<id>/patch.diff, copy /repo to a scratch directory, apply the
patch there, run the owning property's quick check with VERIF_REPO pointing at the copy, report exit codes.
Usage: /venv/bin/python harness/seedtest.py [seed-id ...] [--all-checks]"""
import json
import os
import shutil
import subprocess
import sys
import tempfile

VERIF = os.path.dirname(os.path.dirname(os.path.abspath(__file__)))


def run_one(sid, all_checks=False, patch=None, prop=None, tier='quick'):
    sdir = os.path.join(VERIF, 'seeded', sid)
    if patch is None:
        patch = os.path.join(sdir, 'patch.diff')
        meta = json.load(open(os.path.join(sdir, 'meta.json')))
        prop = meta['property']
    tmp = tempfile.mkdtemp(prefix='verif_seed_')
    repo = os.path.join(tmp, 'repo')
    try:
        shutil.copytree('/repo', repo, ignore=shutil.ignore_patterns('.git', '__pycache__', '.pytest_cache'))
        p = subprocess.run(['git', 'apply', '--unsafe-paths', '--directory=' + repo, patch], capture_output=True, text=True, cwd='/')
        if p.returncode != 0:
            p = subprocess.run(['patch', '-p1', '-d', repo, '-i', patch], capture_output=True, text=True)
            if p.returncode != 0:
                return {'seed': sid, 'error': 'patch does not apply: ' + p.stdout[-300:] + p.stderr[-300:]}
        env = dict(os.environ, VERIF_REPO=repo, VERIF_EVIDENCE_DIR=os.path.join(tmp, 'ev'), VERIF_REPLAY_DIR=os.path.join(tmp, 'rp'))
        props = [prop]
        if all_checks:
            man = json.load(open(os.path.join(VERIF, 'MANIFEST.json')))
            props = [c['property_id'] for c in man['checks']]
        out = {'seed': sid, 'property': prop, 'results': {}}
        for pid in props:
            r = subprocess.run([os.path.join(VERIF, 'check'), pid, '--tier', tier], capture_output=True, text=True, env=env, cwd=VERIF)
            last = [l for l in r.stdout.splitlines() if l.startswith(('VIOLATION', pid + ':', 'MACHINERY', '  group'))]
            out['results'][pid] = {'rc': r.returncode, 'tail': last[:3] + last[-2:]}
        return out
    finally:
        shutil.rmtree(tmp, ignore_errors=True)


def _one(a):
    return run_one(a[0], a[1])


if __name__ == '__main__':
    args = [a for a in sys.argv[1:] if not a.startswith('--')]
    allc = '--all-checks' in sys.argv
    ids = args or sorted(os.listdir(os.path.join(VERIF, 'seeded')))
    jobs = [a for a in sys.argv[1:] if a.startswith('--jobs=')]
    nj = int(jobs[0].split('=')[1]) if jobs else 1
    if nj > 1:
        import multiprocessing as mp
        with mp.get_context('fork').Pool(nj) as pool:
            for r in pool.imap(_one, [(sid, allc) for sid in ids]):
                print(json.dumps(r, indent=1), flush=True)
    else:
        for sid in ids:
            print(json.dumps(run_one(sid, allc), indent=1), flush=True)
