"""Projection of the real soupsieve IR (css_types objects) to the JSON shape of spec/Trace_Ir.tla."""
from __future__ import annotations
from .common import cps

VALUE_POOL = ['', 'x', 'X', 'xy', 'x y', 'y x', 'x-y', 'x-', ' x', 'x\ny', 'yx', 'Y', 'y', 'x.y', 'xzy', 'x.y-z', 'xzy-z', 'x+', 'xx', 'x|y', 'x$', 'x\n', 'k', '\u212a']
FLAGS = [('empty', 0x1), ('root', 0x2), ('default', 0x4), ('indeterminate', 0x8), ('scope', 0x10), ('dir_ltr', 0x20), ('dir_rtl', 0x40),
         ('in_range', 0x80), ('out_of_range', 0x100), ('defined', 0x200), ('placeholder', 0x400)]
OTHER_FLAGS = 0


class OutOfModel(Exception):
    pass


def _prefix(p, is_attr):
    if p is None:
        return {'t': 'bare'}
    if p == '':
        return {'t': 'bare'} if is_attr else {'t': 'none'}
    if p == '*':
        return {'t': 'any'}
    return {'t': 'pfx', 'p': cps(p)}


def _mask(pat):
    if pat is None:
        return -1
    m = 0
    for i, v in enumerate(VALUE_POOL):
        if pat.match(v) is not None:
            m |= 1 << i
    return m


def proj_list(ct, sl):
    return {'selectors': [proj_sel(ct, s) for s in sl.selectors], 'is_not': bool(sl.is_not), 'is_html': bool(sl.is_html)}


def proj_sel(ct, s):
    if isinstance(s, ct.SelectorNull):
        return {'null': True}
    if s.flags & OTHER_FLAGS:
        raise OutOfModel('state flags (default, indeterminate, range, defined, placeholder) are outside Ir.tla')
    attrs = []
    for a in s.attributes:
        m = _mask(a.pattern)
        attrs.append({'name': cps(a.attribute), 'prefix': _prefix(a.prefix, True),
                      'mask': (1 << len(VALUE_POOL)) - 1 if a.pattern is None else m, 'xmask': _mask(a.xml_type_pattern)})
    return {'tag': {'none': True} if s.tag is None else {'name': cps(s.tag.name), 'prefix': _prefix(s.tag.prefix, False)},
            'ids': [cps(i) for i in s.ids], 'classes': [cps(c) for c in s.classes], 'attributes': attrs,
            'nth': [{'a': n.a, 'n': bool(n.n), 'b': n.b, 'of_type': bool(n.of_type), 'last': bool(n.last),
                     'selectors': proj_list(ct, n.selectors)} for n in s.nth],
            'selectors': [proj_list(ct, x) for x in s.selectors], 'relation': proj_list(ct, s.relation),
            'rel_type': s.rel_type or '', 'flags': [n for n, b in FLAGS if s.flags & b],
            'lang': [[cps(x) for x in l.languages] for l in s.lang],
            'contains': [{'text': [cps(x) for x in c.text], 'own': bool(c.own)} for c in s.contains]}
