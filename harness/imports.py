"""C16: extraction of import-time module bodies (ast) for Imports.tla, and the fresh-interpreter runner."""
from __future__ import annotations
import ast
import os

TRACKED = ('bs4', 'soupsieve')


def find_modules(pkg_dir, pkg_name):
    mods = {}
    for root, dirs, files in os.walk(pkg_dir):
        dirs[:] = [d for d in dirs if d != '__pycache__' and d != 'tests']
        rel = os.path.relpath(root, pkg_dir)
        base = pkg_name if rel == '.' else pkg_name + '.' + rel.replace(os.sep, '.')
        for f in files:
            if not f.endswith('.py'):
                continue
            if f == '__init__.py':
                mods[base] = (os.path.join(root, f), True)
            else:
                mods[base + '.' + f[:-3]] = (os.path.join(root, f), False)
    return mods


def star_names(path):
    """the names `from m import *` fetches: the literal __all__ of the module (None -> nothing modelled)"""
    try:
        tree = ast.parse(open(path, encoding='utf8').read())
    except Exception:
        return []
    for st in tree.body:
        if isinstance(st, ast.Assign) and any(isinstance(t, ast.Name) and t.id == '__all__' for t in st.targets):
            try:
                return [x for x in ast.literal_eval(st.value) if isinstance(x, str)]
            except Exception:
                return []
    return []


def tracked(name):
    return name.split('.')[0] in TRACKED


MUTATORS = {'warnings.filterwarnings', 'warnings.simplefilter', 'warnings.resetwarnings', 'warnings.warn', 'sys.setrecursionlimit', 'sys.setswitchinterval',
            'sys.settrace', 'sys.setprofile', 'sys.set_int_max_str_digits', 'os.chdir', 'os.putenv', 'os.unsetenv', 'signal.signal', 'locale.setlocale',
            'logging.basicConfig', 'logging.disable', 'random.seed', 'print', 'sys.stdout.write', 'sys.stderr.write', 'decimal.setcontext',
            'threading.Thread', 'atexit.register', 'sys.path.insert', 'sys.path.append', 'sys.meta_path.insert', 'sys.meta_path.append'}


def _dotted(f):
    parts = []
    while isinstance(f, ast.Attribute):
        parts.append(f.attr)
        f = f.value
    if isinstance(f, ast.Name):
        parts.append(f.id)
        return '.'.join(reversed(parts))
    return ''


class Extractor:
    def __init__(self, modname, path, is_pkg, all_modules):
        self.mod = modname
        self.is_pkg = is_pkg
        self.all = all_modules
        self.src = open(path, encoding='utf8').read()
        self.tree = ast.parse(self.src)
        self.steps = []
        self.aliases = {}       # local name -> tracked module
        self.future_ann = any(isinstance(n, ast.ImportFrom) and n.module == '__future__' and
                              any(a.name == 'annotations' for a in n.names) for n in self.tree.body)
        self.funcs = {}
        for n in ast.walk(self.tree):
            if isinstance(n, (ast.FunctionDef, ast.AsyncFunctionDef)):
                self.funcs.setdefault(n.name, []).append(n)
            elif isinstance(n, ast.ClassDef):
                for b in n.body:
                    if isinstance(b, ast.FunctionDef) and b.name == '__init__':
                        self.funcs.setdefault(n.name, []).append(b)
        self.reached = set()

    # -- helpers -----------------------------------------------------------------------------
    def step(self, op, m='', a='', catch=''):
        self.steps.append({'op': op, 'm': m, 'a': a, 'catch': catch})

    def imp_chain(self, full, catch):
        parts = full.split('.')
        for i in range(1, len(parts) + 1):
            name = '.'.join(parts[:i])
            if name in self.all:
                self.step('imp', name, '', catch)

    def resolve(self, node):
        if node.level == 0:
            return node.module
        base = self.mod.split('.')
        if not self.is_pkg:
            base = base[:-1]
        base = base[:len(base) - (node.level - 1)]
        return '.'.join(base + ([node.module] if node.module else []))

    def scan(self, expr, catch, dynamic=True):
        """import-time evaluation of an expression: attribute uses on module aliases, reachable calls"""
        if expr is None:
            return
        called = set()
        for n in self._walk(expr):
            if isinstance(n, ast.Attribute):
                chain = []
                cur = n
                while isinstance(cur, ast.Attribute):
                    chain.append(cur.attr)
                    cur = cur.value
                if isinstance(cur, ast.Name) and cur.id in self.aliases and getattr(n, '_outer', True):
                    mod = self.aliases[cur.id]
                    for attr in reversed(chain):
                        self.step('use', mod, attr, catch)
                        sub = mod + '.' + attr
                        if sub in self.all:
                            mod = sub
                        else:
                            break
            if isinstance(n, ast.Call):
                f = n.func
                dotted = _dotted(f)
                if dotted in MUTATORS and not getattr(self, '_reach_depth', 0):      # (only statements of the module body itself: guarded debug prints in reached functions are not import-time effects)
                    # an import-time call that changes (or writes to) process-wide state: "no side effect other than defining the package"
                    self.step('ambient', '', dotted, catch)
                if (isinstance(f, ast.Name) and f.id in ('hasattr', 'getattr') and len(n.args) >= 2 and
                        isinstance(n.args[0], ast.Name) and n.args[0].id in self.aliases and
                        isinstance(n.args[1], ast.Constant) and isinstance(n.args[1].value, str)):
                    soft = f.id == 'hasattr' or len(n.args) >= 3
                    self.step('probe' if soft else 'use', self.aliases[n.args[0].id], n.args[1].value, catch)
                if isinstance(f, ast.Name):
                    called.add(f.id)
                elif isinstance(f, ast.Attribute):
                    called.add(f.attr)
        if dynamic:
            for name in called:
                self.reach(name, catch)

    def _walk(self, expr):
        """ast.walk that does not enter lambda bodies and marks inner attributes of a chain"""
        todo = [expr]
        while todo:
            n = todo.pop()
            yield n
            for c in ast.iter_child_nodes(n):
                if isinstance(n, ast.Lambda) and c is n.body:
                    continue
                if isinstance(n, ast.Attribute) and isinstance(c, ast.Attribute):
                    c._outer = False
                todo.append(c)

    def reach(self, name, catch):
        """function bodies (by simple name) that run because of an import-time call"""
        if name in self.reached or name not in self.funcs:
            return
        self.reached.add(name)
        self._reach_depth = getattr(self, '_reach_depth', 0) + 1
        try:
            self._reach_bodies(name, catch)
        finally:
            self._reach_depth -= 1

    def _reach_bodies(self, name, catch):
        for fn in self.funcs[name]:
            for st in fn.body:
                for n in ast.walk(st):
                    if isinstance(n, ast.expr):
                        pass
                self.scan_stmt_exprs(st, catch)

    def scan_stmt_exprs(self, st, catch):
        for n in ast.iter_child_nodes(st):
            if isinstance(n, ast.expr):
                self.scan(n, catch)
            elif isinstance(n, (ast.FunctionDef, ast.AsyncFunctionDef, ast.ClassDef, ast.Lambda)):
                continue
            elif isinstance(n, ast.stmt) or isinstance(n, (ast.excepthandler, ast.withitem, ast.match_case)):
                self.scan_stmt_exprs(n, catch)

    # -- statements --------------------------------------------------------------------------
    def visit_body(self, body, catch, scope='module'):
        for st in body:
            self.visit(st, catch, scope)

    def bind(self, name, scope):
        if scope == 'module':
            self.step('def', '', name, '')

    def visit(self, st, catch, scope):
        if isinstance(st, ast.Import):
            for al in st.names:
                if tracked(al.name):
                    self.imp_chain(al.name, catch)
                    if al.asname:
                        self.aliases[al.asname] = al.name
                        self.bind(al.asname, scope)
                    else:
                        top = al.name.split('.')[0]
                        self.aliases[top] = top
                        self.bind(top, scope)
                else:
                    self.bind(al.asname or al.name.split('.')[0], scope)
        elif isinstance(st, ast.ImportFrom):
            base = self.resolve(st)
            if base and tracked(base) and base in self.all:
                self.imp_chain(base, catch)
                for al in st.names:
                    if al.name == '*':
                        for nm in star_names(self.all[base][0]):
                            self.step('use', base, nm, catch)
                        continue
                    self.step('from', base, al.name, catch)
                    bound = al.asname or al.name
                    if base + '.' + al.name in self.all:
                        self.aliases[bound] = base + '.' + al.name
                    self.bind(bound, scope)
            else:
                for al in st.names:
                    if al.name != '*':
                        self.bind(al.asname or al.name, scope)
        elif isinstance(st, (ast.FunctionDef, ast.AsyncFunctionDef)):
            for d in st.decorator_list:
                self.scan(d, catch)
            for d in st.args.defaults + [k for k in st.args.kw_defaults if k is not None]:
                self.scan(d, catch)
            if not self.future_ann:
                for a in st.args.args + st.args.kwonlyargs + st.args.posonlyargs:
                    self.scan(a.annotation, catch, dynamic=False)
                self.scan(st.returns, catch, dynamic=False)
            self.bind(st.name, scope)
        elif isinstance(st, ast.ClassDef):
            for d in st.decorator_list + st.bases + [k.value for k in st.keywords]:
                self.scan(d, catch)
            self.visit_body(st.body, catch, 'class')
            self.bind(st.name, scope)
        elif isinstance(st, (ast.Assign, ast.AugAssign, ast.AnnAssign)):
            self.scan(getattr(st, 'value', None), catch)
            if isinstance(st, ast.AnnAssign) and not self.future_ann:
                self.scan(st.annotation, catch, dynamic=False)
            targets = st.targets if isinstance(st, ast.Assign) else [st.target]
            for t in targets:
                for n in ast.walk(t):
                    if isinstance(n, ast.Name):
                        self.bind(n.id, scope)
        elif isinstance(st, ast.Expr):
            self.scan(st.value, catch)
        elif isinstance(st, ast.If):
            src = ast.unparse(st.test)
            if 'TYPE_CHECKING' in src:
                self.visit_body(st.orelse, catch, scope)
            elif '__name__' in src and '__main__' in src:
                self.visit_body(st.orelse, catch, scope)
            elif 'sys.version_info' in src:
                try:
                    import sys
                    val = eval(compile(ast.Expression(st.test), '<t>', 'eval'), {'sys': sys})
                except Exception:
                    val = None
                if val is None:
                    self.visit_body(st.body, catch, scope)
                    self.visit_body(st.orelse, catch, scope)
                else:
                    self.visit_body(st.body if val else st.orelse, catch, scope)
            else:
                self.scan(st.test, catch)
                self.visit_body(st.body, catch, scope)
                self.visit_body(st.orelse, catch, scope)
        elif isinstance(st, ast.Try):
            c = catch
            for h in st.handlers:
                names = [] if h.type is None else [ast.unparse(h.type)]
                txt = ' '.join(names)
                if h.type is None or 'Exception' in txt or 'BaseException' in txt:
                    c = 'Exception'
                    break
                if 'ImportError' in txt or 'ModuleNotFoundError' in txt:
                    c = 'ImportError'
            self.visit_body(st.body, c, scope)
            for h in st.handlers:          # handler bodies: only the bindings they make
                for s2 in h.body:
                    if isinstance(s2, ast.Assign):
                        for t in s2.targets:
                            if isinstance(t, ast.Name):
                                self.bind(t.id, scope)
            self.visit_body(st.orelse, catch, scope)
            self.visit_body(st.finalbody, catch, scope)
        elif isinstance(st, (ast.With, ast.For, ast.While)):
            self.visit_body(st.body, catch, scope)

    def run(self):
        self.visit_body(self.tree.body, '', 'module')
        return self.steps


def extract_all(repo):
    import importlib.util
    spec = importlib.util.find_spec('bs4')
    bs4_dir = os.path.dirname(spec.origin)
    mods = {}
    mods.update(find_modules(bs4_dir, 'bs4'))
    mods.update(find_modules(os.path.join(repo, 'soupsieve'), 'soupsieve'))
    mods = {k: v for k, v in mods.items() if not k.startswith('bs4.tests') and k != 'bs4.diagnose'}
    bodies = {}
    for name, (path, is_pkg) in mods.items():
        bodies[name] = Extractor(name, path, is_pkg, mods).run()
    return mods, bodies


# ---- TLA+ generation ------------------------------------------------------------------------
def tla_step(s):
    return '[op |-> "%s", m |-> "%s", a |-> "%s", catch |-> "%s"]' % (s['op'], s['m'], s['a'], s['catch'])


def script_steps(stmts, mods):
    """entry statements (source text) -> steps of the __main__ pseudo-module"""
    ex = Extractor.__new__(Extractor)
    ex.mod = '__main__'
    ex.is_pkg = False
    ex.all = mods
    ex.steps = []
    ex.aliases = {}
    ex.future_ann = True
    ex.funcs = {}
    ex.reached = set()
    tree = ast.parse('\n'.join(stmts))
    ex.visit_body(tree.body, '', 'main')
    return ex.steps


def gen_module(mods, bodies, scripts):
    names = sorted(mods)
    body = '[m \\in ModulesDef |-> \n  CASE ' + '\n    [] '.join(
        'm = "%s" -> << %s >>' % (n, ', '.join(tla_step(s) for s in bodies[n])) for n in names) + ']'
    subs = []
    for n in names:
        if '.' in n:
            p, a = n.rsplit('.', 1)
            subs.append('<<"%s", "%s">> :> "%s"' % (p, a, n))
    submap = ' @@ '.join(subs) if subs else '<<>>'
    ss = '{ ' + ',\n  '.join('<< ' + ', '.join(tla_step(s) for s in sc) + ' >>' for sc in scripts) + ' }'
    return '''---- MODULE MC_C16_gen ----
\\* generated at check time from the working tree and the installed bs4 (harness/imports.py)
EXTENDS Imports, TLC, Json
ModulesDef == { %s }
BodyDef == %s
SubMap == %s
SubmoduleDef(m, a) == IF <<m, a>> \\in DOMAIN SubMap THEN SubMap[<<m, a>>] ELSE ""
ScriptSetDef == %s
OwnModulesDef == { %s }
Emit == ~Finished \\/ PrintT(ToJson([script |-> script, err |-> err, soft |-> soft, events |-> events]))
====
''' % (', '.join('"%s"' % n for n in names), body, submap, ss, ', '.join('"%s"' % n for n in names if n.split('.')[0] == 'soupsieve'))


AMBIENT = r'''
import sys, warnings
def _ambient():
    # process-wide state an import has no business changing ("no side effect other than defining the package")
    import os, signal, locale, logging, threading, decimal
    return {'warnings.filters': [repr(f) for f in warnings.filters], 'recursionlimit': sys.getrecursionlimit(), 'environ': sorted(os.environ.items()),
            'cwd': os.getcwd(), 'sigint': repr(signal.getsignal(signal.SIGINT)), 'locale': locale.setlocale(locale.LC_ALL),
            'logging': (logging.root.level, len(logging.root.handlers), logging.root.manager.disable), 'threads': threading.active_count(),
            'decimal': repr(decimal.getcontext()), 'switchinterval': sys.getswitchinterval(), 'excepthook': repr(sys.excepthook),
            'displayhook': repr(sys.displayhook), 'trace': (repr(sys.gettrace()), repr(sys.getprofile())),
            'path': list(sys.path), 'meta_path': len(sys.meta_path), 'path_hooks': len(sys.path_hooks), 'int_max_str_digits': sys.get_int_max_str_digits()}
import os, signal, locale, logging, threading, decimal
'''

LOGGER = AMBIENT + r'''
import sys, importlib.abc, importlib.machinery, json
_ev = []
_stack = []
_blame = {}
_last = [None]
def _checkpoint():
    # whatever changed since the last begin / end event happened while the module on top of the stack was executing its own statements
    cur = _ambient()
    if _last[0] is not None:
        ch = [k for k in cur if cur[k] != _last[0][k]]
        if ch:
            _blame.setdefault(_stack[-1] if _stack else '<script>', []).extend(ch)
    _last[0] = cur
class _L(importlib.abc.Loader):
    def __init__(self, inner): self.inner = inner
    def create_module(self, spec): return self.inner.create_module(spec)
    def exec_module(self, module):
        _ev.append(["begin", module.__name__])
        _checkpoint(); _stack.append(module.__name__)
        try:
            self.inner.exec_module(module)
        except BaseException:
            _checkpoint(); _stack.pop()
            _ev.append(["fail", module.__name__]); raise
        _checkpoint(); _stack.pop()
        _ev.append(["end", module.__name__])
    def __getattr__(self, n): return getattr(self.inner, n)
class _F(importlib.abc.MetaPathFinder):
    def find_spec(self, name, path, target=None):
        if name.split('.')[0] not in ('bs4', 'soupsieve'): return None
        spec = importlib.machinery.PathFinder.find_spec(name, path, target)
        if spec is not None and spec.loader is not None and hasattr(spec.loader, 'exec_module'):
            spec.loader = _L(spec.loader)
        return spec
sys.meta_path.insert(0, _F())
_checkpoint()
'''
