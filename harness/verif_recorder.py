"""pytest plugin (loaded with -p verif_recorder, PYTHONPATH=/verif/harness:/verif): records every query the
repository's own test-suite makes through the compiled-selector methods - from OUTSIDE the package, at the call's
return - as ndjson events (projected document, target, decompiled selector AST, namespaces, result)."""
import json
import os
import sys

sys.path.insert(0, os.path.dirname(os.path.dirname(os.path.abspath(__file__))))
_OUT = os.environ.get('VERIF_RECORD_FILE')
_state = {'n': 0, 'f': None, 'skipped': {}}


def pytest_configure(config):
    if not _OUT:
        return
    import soupsieve
    import bs4
    from soupsieve import css_match as cm, css_parser as cp, css_types as ct
    from harness import dom, decompile
    from harness.common import cps
    dec = decompile.Decompiler(cp, ct)
    _state['f'] = open(_OUT, 'w')
    cache = {}

    def top_of(tag):
        cur = tag
        while cur.parent is not None:
            cur = cur.parent
        return cur

    def record(ep, self, tag, result, exc):
        try:
            if not isinstance(tag, bs4.Tag):
                return
            top = top_of(tag)
            key = id(top)
            if key not in cache or cache[key][0] is not top:
                d, nodes = dom.project(top, bs4)
                cache.clear()
                cache[key] = (top, d, dom.ids_of(nodes))
            _, d, idmap = cache[key]
            try:
                ast = dec.list_(self.selectors)
            except decompile.OutOfModel as e:
                _state['skipped'][str(e)[:40]] = _state['skipped'].get(str(e)[:40], 0) + 1
                return
            if self.custom:
                pass
            root = min([i + 1 for i, (p, k) in enumerate(zip(d['parent'], d['kind'])) if p == 0 and k == 'e'] or [0])
            is_doc = isinstance(tag, bs4.BeautifulSoup)
            tid = 0 if is_doc else idmap.get(id(tag), -1)
            if tid == -1:
                return
            ev = {'id': 'e%d' % _state['n'], 'ep': ep, 'doc': d, 'sel': ast,
                  'nsmap': [{'p': cps(p), 'u': cps(u)} for p, u in (dict(self.namespaces).items() if self.namespaces else [])],
                  'scope': root if is_doc else tid, 'target': tid if not (d['top'] == 'frag' and tid == 1 and False) else tid,
                  'css': self.pattern, 'limit': 0, 'items': []}
            if exc is not None:
                ev['res'] = [-2]
                ev['exc'] = type(exc).__name__
            elif ep == 'select':
                ev['res'] = [idmap.get(id(t), -1) for t in result]
            else:
                return
            _state['n'] += 1
            _state['f'].write(json.dumps(ev) + '\n')
        except Exception as e:  # never disturb the suite
            _state['skipped']['recorder:' + type(e).__name__] = _state['skipped'].get('recorder:' + type(e).__name__, 0) + 1

    orig_select = cm.SoupSieve.select

    def select(self, tag, limit=0):
        try:
            r = orig_select(self, tag, limit)
        except Exception as e:
            record('select', self, tag, None, e)
            raise
        if limit < 1:
            record('select', self, tag, r, None)
        return r
    cm.SoupSieve.select = select
    soupsieve.SoupSieve = cm.SoupSieve


def pytest_unconfigure(config):
    if _state['f']:
        _state['f'].close()
        with open(_OUT + '.meta', 'w') as f:
            json.dump({'events': _state['n'], 'skipped': _state['skipped']}, f)
