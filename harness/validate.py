"""Validate MANIFEST.json and evidence files against the harness schemas (run with python3-vt)."""
import glob, json, sys
import jsonschema
ok = True
jsonschema.validate(json.load(open('/verif/MANIFEST.json')), json.load(open('/root/.vp/MANIFEST.schema.json')))
es = json.load(open('/root/.vp/EVIDENCE.schema.json'))
for f in sorted(glob.glob('/verif/evidence/*.json')):
    try:
        jsonschema.validate(json.load(open(f)), es)
    except Exception as e:
        ok = False
        print('INVALID', f, str(e)[:300])
print('validate: ok' if ok else 'validate: FAILED')
sys.exit(0 if ok else 1)
