"""IR -> AST: reads a compiled soupsieve selector back into the AST of spec/CssDecl.tla (the inverse of Ir!Compile for
the modelled features), so that calls recorded from arbitrary users of the library (the repository's own test-suite)
can be validated against the specification without a second CSS parser in the harness."""
from __future__ import annotations
import re
from .common import cps


class OutOfModel(Exception):
    pass


_TEMPLATES = [
    ('pre', re.compile(r'^\^(.*)\.\*$', re.S)),
    ('dash', re.compile(r'^\^(.*)\(\?:-\.\*\)\?(?:\$|\\Z)$', re.S)),          # end-of-value anchor: '\Z' since F01d, '$' before
    ('eq', re.compile(r'^\^(.*?)(?:\$|\\Z)$', re.S)),
    ('inc', re.compile(r'^\.\*\?\(\?:\(\?<=\^\)\|\(\?<=\[ \\t\\r\\n\\f\]\)\)(.*)\(\?=\(\?:\[ \\t\\r\\n\\f\]\|\$\)\)\.\*$', re.S)),
    ('suf', re.compile(r'^\.\*\?(.*?)(?:\$|\\Z)$', re.S)),
    ('sub', re.compile(r'^\.\*\?(.*)\.\*$', re.S)),
]
NEVER = r'[^\s\S]'


def _unescape(x):
    return re.sub(r'\\(.)', r'\1', x, flags=re.S)


def attr(a):
    s = {'k': 'attr', 'ns': _prefix(a.prefix, True), 'name': cps(a.attribute)}
    if a.pattern is None:
        s.update(op='ex', val=[], flag='n')
        return s
    txt = a.pattern.pattern
    for op, rx in _TEMPLATES:
        m = rx.match(txt)
        if m:
            body = m.group(1)
            if body == NEVER:
                val = ''
                if op == 'inc':
                    val = ' '            # "~=" with an empty or whitespace operand: never matches
            else:
                val = _unescape(body)
                if re.escape(val) != body:
                    continue
            if a.xml_type_pattern is not None:
                flag = 'n'
            elif a.pattern.flags & re.I:
                flag = 'i'
            else:
                flag = 's' if a.attribute.lower() == 'type' else 'n'
            s.update(op=op, val=cps(val), flag=flag)
            return s
    raise OutOfModel('attribute pattern %r' % txt)


def _prefix(p, is_attr=False):
    if p is None:
        return {'t': 'bare'}
    if p == '':
        return {'t': 'bare'} if is_attr else {'t': 'none'}
    if p == '*':
        return {'t': 'any'}
    return {'t': 'pfx', 'p': cps(p)}


FLAG_KINDS = [(0x1, 'empty'), (0x2, 'root'), (0x10, 'scope'), (0x200, 'defined')]


class Decompiler:
    def __init__(self, cp, ct):
        self.ct = ct
        self.const = {}
        for name, kind in (('CSS_LINK', 'link'), ('CSS_CHECKED', 'checked'), ('CSS_DEFAULT', 'default'), ('CSS_INDETERMINATE', 'indeterminate'),
                           ('CSS_DISABLED', 'disabled'), ('CSS_ENABLED', 'enabled'), ('CSS_REQUIRED', 'required'), ('CSS_OPTIONAL', 'optional'),
                           ('CSS_READ_ONLY', 'read-only'), ('CSS_READ_WRITE', 'read-write'), ('CSS_IN_RANGE', 'in-range'),
                           ('CSS_OUT_OF_RANGE', 'out-of-range'), ('CSS_PLACEHOLDER_SHOWN', 'placeholder-shown')):
            self.const[id(getattr(cp, name))] = kind
        self.nth_default = cp.CSS_NTH_OF_S_DEFAULT

    def list_(self, sl):
        """a SelectorList -> list of complexes"""
        return [self.complex_(s) for s in sl.selectors]

    def compound(self, s):
        ct = self.ct
        if isinstance(s, ct.SelectorNull):
            return [{'k': 'none'}]
        out = []
        if s.tag is not None:
            out.append({'k': 'type', 'ns': _prefix(s.tag.prefix), 'name': cps(s.tag.name)})
        for i in s.ids:
            out.append({'k': 'id', 'v': cps(i)})
        for c in s.classes:
            out.append({'k': 'class', 'v': cps(c)})
        for a in s.attributes:
            out.append(attr(a))
        for n in s.nth:
            of = []
            if not n.of_type and n.selectors is not self.nth_default and n.selectors != self.nth_default and len(n.selectors):
                of = self.list_(n.selectors)
            a, b = (n.a, n.b) if n.n else (0, n.a)
            out.append({'k': 'nth', 'a': a, 'b': b, 'last': bool(n.last), 'oftype': bool(n.of_type), 'of': of})
        for sub in s.selectors:
            if id(sub) in self.const:
                out.append({'k': self.const[id(sub)]})
            elif sub.is_not:
                out.append({'k': 'not', 'args': self.list_(sub)})
            elif len(sub) and all(self._is_has_anchor(x) for x in sub.selectors):
                out.append({'k': 'has', 'args': [self.has_arg(x) for x in sub.selectors]})
            else:
                out.append({'k': 'is', 'args': self.list_(sub)})
        for bit, kind in FLAG_KINDS:
            if s.flags & bit:
                out.append({'k': kind})
        if s.flags & 0x20:
            out.append({'k': 'dir', 'd': 'ltr'})
        if s.flags & 0x40:
            out.append({'k': 'dir', 'd': 'rtl'})
        if s.flags & (0x4 | 0x8 | 0x80 | 0x100 | 0x400):
            raise OutOfModel('internal state flag outside a pre-compiled list')
        for c in s.contains:
            out.append({'k': 'contains', 'vals': [cps(t) for t in c.text], 'own': bool(c.own)})
        for lg in s.lang:
            out.append({'k': 'lang', 'ranges': [cps(t) for t in lg.languages]})
        if not out:
            out.append({'k': 'is', 'args': [{'cs': [[{'k': 'type', 'ns': {'t': 'any'}, 'name': cps('*')}]], 'cb': []}]})
        return out

    def _is_has_anchor(self, s):
        ct = self.ct
        if isinstance(s, ct.SelectorNull):
            return False
        empty = (s.tag is None and not s.ids and not s.classes and not s.attributes and not s.nth and not s.selectors and
                 not s.contains and not s.lang and not s.flags)
        return empty and len(s.relation) == 1 and not isinstance(s.relation[0], ct.SelectorNull) and \
            (s.relation[0].rel_type or '').startswith(':')

    def has_arg(self, anchor):
        first = anchor.relation[0]
        comb = first.rel_type[1:]
        cs, cb = [], []
        cur = first
        while True:
            cs.append(self.compound(cur))
            if len(cur.relation) == 0:
                break
            nxt = cur.relation[0]
            if isinstance(nxt, self.ct.SelectorNull) or not (nxt.rel_type or '').startswith(':'):
                raise OutOfModel('mixed relation directions')
            cb.append(nxt.rel_type[1:])
            cur = nxt
        return {'comb': comb, 'cx': {'cs': cs, 'cb': cb}}

    def complex_(self, s):
        ct = self.ct
        if isinstance(s, ct.SelectorNull):
            return {'cs': [[{'k': 'none'}]], 'cb': []}
        cs, cb = [self.compound(s)], []
        cur = s
        while len(cur.relation):
            left = cur.relation[0]
            if isinstance(left, ct.SelectorNull):
                cs.insert(0, [{'k': 'none'}])
                cb.insert(0, ' ')
                break
            if (left.rel_type or '').startswith(':'):
                raise OutOfModel('future relation on a subject')
            cs.insert(0, self.compound(left))
            cb.insert(0, left.rel_type)
            cur = left
        return {'cs': cs, 'cb': cb}
