"""Ingest sub-agent output /tmp/seed/<PID>_out/{mutant_k.diff,demo_k.py,note_k.txt} into /verif/seeded/<PID>-m<k>/ after
confirming: clean tree -> suite 381 passed & demo exit 0 ; mutated tree -> suite 381 passed & demo exit 1."""
import json
import os
import shutil
import subprocess
import sys
import tempfile

VERIF = os.path.dirname(os.path.dirname(os.path.abspath(__file__)))


def sh(cmd, cwd=None, env=None):
    return subprocess.run(cmd, shell=True, cwd=cwd, env=env, capture_output=True, text=True)


def confirm(pid, k):
    out = '/tmp/seed/%s_out' % pid
    diff, demo, note = (os.path.join(out, f % k) for f in ('mutant_%d.diff', 'demo_%d.py', 'note_%d.txt'))
    if not (os.path.exists(diff) and os.path.exists(demo)):
        return None, 'missing files'
    tmp = tempfile.mkdtemp(prefix='verif_ingest_')
    res = {}
    try:
        for variant in ('clean', 'mutant'):
            repo = os.path.join(tmp, variant)
            shutil.copytree('/repo', repo, ignore=shutil.ignore_patterns('.git', '__pycache__', '.pytest_cache'))
            if variant == 'mutant':
                p = sh('patch -p1 -i %s' % diff, cwd=repo)
                if p.returncode != 0:
                    return None, 'patch failed: ' + p.stdout[-300:]
            env = dict(os.environ, PYTHONPATH=repo)
            t = sh('/venv/bin/python -m pytest -q -p no:cacheprovider -x 2>&1 | tail -1', cwd=repo, env=env)
            d = sh('/venv/bin/python %s' % demo, cwd=repo, env=env)
            res[variant] = {'tests': t.stdout.strip(), 'demo_rc': d.returncode, 'demo_out': (d.stdout + d.stderr)[-300:]}
        ok = ('381 passed' in res['clean']['tests'] and res['clean']['demo_rc'] == 0 and
              '381 passed' in res['mutant']['tests'] and res['mutant']['demo_rc'] == 1)
        return res, ('confirmed' if ok else 'NOT confirmed')
    finally:
        shutil.rmtree(tmp, ignore_errors=True)


def main():
    for pid in sys.argv[1:]:
        for k in (1, 2):
            res, status = confirm(pid, k)
            print(pid, k, status, json.dumps(res)[:400] if status != 'confirmed' else '')
            if status != 'confirmed':
                continue
            sid = '%s-%sm%d' % (pid, os.environ.get('SEED_ROUND', ''), k)
            sdir = os.path.join(VERIF, 'seeded', sid)
            os.makedirs(sdir, exist_ok=True)
            out = '/tmp/seed/%s_out' % pid
            shutil.copy(os.path.join(out, 'mutant_%d.diff' % k), os.path.join(sdir, 'patch.diff'))
            shutil.copy(os.path.join(out, 'demo_%d.py' % k), os.path.join(sdir, 'demo.py'))
            note = open(os.path.join(out, 'note_%d.txt' % k)).read() if os.path.exists(os.path.join(out, 'note_%d.txt' % k)) else ''
            json.dump({'property': pid, 'needs': note.strip(), 'author': 'independent sub-agent given only the property text and a scratch worktree',
                       'confirmed': {'clean': res['clean'], 'mutant': res['mutant']},
                       'ran': 'copy of /repo + patch: pytest (381 passed both), demo.py exit 0 clean / exit 1 mutated'},
                      open(os.path.join(sdir, 'meta.json'), 'w'), indent=1)


if __name__ == '__main__':
    main()
