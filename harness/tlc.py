"""TLC runner: runs a (module, cfg) pair from /verif/spec, parses the statistics,
the PrintT-emitted JSON lines, per-action coverage and (for -simulate) behaviour files.

Exit-code policy is the caller's; this module only raises TLCError for machinery failures.
"""
from __future__ import annotations
import json
import os
import re
import sys
import shutil
import subprocess
import tempfile
import time

SPEC_DIR = os.path.join(os.path.dirname(os.path.dirname(os.path.abspath(__file__))), 'spec')
JAR = '/opt/veriftools/tla/tla2tools.jar'
COMMUNITY = '/opt/veriftools/tla/CommunityModules-deps.jar'


_RE_PROGRESS = re.compile(r'([\d,]+) states generated.*?([\d,]+) states left on queue')


class TLCError(Exception):
    """TLC itself failed (parse error, evaluation error, timeout)."""


class TLCResult:
    def __init__(self):
        self.stdout = ''
        self.generated = 0
        self.distinct = 0
        self.depth = 0
        self.wall = 0.0
        self.emitted = []          # decoded JSON values printed with PrintT(ToJson(..))
        self.tuples = []           # raw lines that look like TLA+ tuples <<...>>
        self.violation = None      # text of an invariant / property violation, if any
        self.violated_name = None
        self.coverage = {}         # action name -> (distinct, total)
        self.counterexample = ''
        self.ok = False            # completed with no error

    def as_cov(self):
        return {'states': self.distinct, 'transitions': self.generated, 'depth': self.depth}


_RE_STATS = re.compile(r'^(\d+) states generated, (\d+) distinct states found', re.M)
_RE_DEPTH = re.compile(r'The depth of the complete state graph search is (\d+)')
_RE_COV = re.compile(r'^<(\w+) line (\d+), col (\d+) to line (\d+), col (\d+) of module (\w+)>: (\d+):(\d+)', re.M)
_RE_VIOL = re.compile(r'Error: Invariant (\S+) is violated|Error: Action property (\S+) is violated|'
                      r'Error: Temporal propert(?:ies were|y \S+ was) violated|Error: Deadlock reached')


def _tlc_cmd():
    return shutil.which('tlc') or 'tlc'


class TLCStuck(TLCError):
    pass


IDLE = 300
_LOG = os.environ.get('VERIF_TLC_LOG')          # diagnostic: TLC's own progress lines are appended to this file


def run(module, cfg=None, workers=16, **kw):
    """_run_once, restarted (at most twice, the second time with one worker) when TLC stops making progress"""
    for attempt in range(3):
        try:
            return _run_once(module, cfg, workers if attempt < 2 else 1, **kw)
        except TLCStuck as e:
            sys.stderr.write('tlc.run: %s -- restarting (attempt %d)\n' % (str(e)[:200], attempt + 2))
            if attempt == 2:
                raise


def _run_once(module, cfg=None, workers=16, simulate=None, depth=None, seed=None, coverage=False,
        env=None, timeout=3600, extra=(), dfs=False, heap=None, cwd=None, expect_violation=False,
        keep_stdout=True, line_cb=None):
    """Run TLC on spec/<module>.tla with spec/<cfg>.cfg.

    simulate: None or dict(num=..., file=...) -> -simulate mode.
    line_cb: optional callable(decoded_json) called for each emitted JSON line instead of
             collecting them in result.emitted (streaming for very large runs).
    """
    cwd = cwd or SPEC_DIR
    cfg = cfg or module
    meta = tempfile.mkdtemp(prefix='tlcmeta_')
    cmd = [_tlc_cmd(), '-workers', str(workers), '-metadir', meta, '-noGenerateSpecTE',
           '-config', cfg + '.cfg']
    if coverage:
        cmd += ['-coverage', '1']
    if simulate is not None:
        s = 'num=%d' % simulate['num']
        if simulate.get('file'):
            s = 'file=%s,' % simulate['file'] + s
        cmd += ['-simulate', s]
    if depth is not None:
        cmd += ['-depth', str(depth)]
    if seed is not None:
        cmd += ['-seed', str(seed)]
    cmd += list(extra)
    cmd += [module + '.tla']
    e = dict(os.environ)
    jopts = []
    if dfs:
        jopts.append('-Dtlc2.tool.queue.IStateQueue=StateDeque')
    jopts.append('-Xmx%s' % (heap or '6g'))
    jopts.append('-Xss64m')          # the recursive scanners of Lexer.tla go one frame per character (long definition texts, comments)
    if jopts:
        e['JAVA_TOOL_OPTIONS'] = (e.get('JAVA_TOOL_OPTIONS', '') + ' ' + ' '.join(jopts)).strip()
    if env:
        e.update({k: str(v) for k, v in env.items()})
    res = TLCResult()
    t0 = time.time()
    proc = subprocess.Popen(cmd, cwd=cwd, env=e, stdout=subprocess.PIPE, stderr=subprocess.STDOUT,
                            text=True, errors='replace', bufsize=1 << 20)
    other = []
    last_progress = [None, 0]
    # silence watchdog: TLC reports progress once a minute while it explores; a process that prints nothing for IDLE seconds is spinning
    import threading
    last_line = [time.time()]
    silent = [False]
    stop = threading.Event()

    def _watch():
        while not stop.wait(10):
            if time.time() - last_line[0] > IDLE and proc.poll() is None:
                silent[0] = True
                try:        # diagnostic only
                    dump = subprocess.run(['jstack', str(proc.pid)], capture_output=True, text=True, timeout=30).stdout
                    with open(os.path.join(tempfile.gettempdir(), 'tlc_stuck_%d.txt' % proc.pid), 'w') as f:
                        f.write(dump)
                except Exception:
                    pass
                proc.kill()
                return
    wt = threading.Thread(target=_watch, daemon=True)
    wt.start()
    try:
        deadline = t0 + timeout
        for line in proc.stdout:
            last_line[0] = time.time()
            if line.startswith('"'):
                s = line.rstrip('\n')
                try:
                    inner = json.loads(s)
                    val = json.loads(inner)
                except Exception:
                    other.append(line)
                    continue
                if line_cb is not None:
                    line_cb(val)
                else:
                    res.emitted.append(val)
            else:
                if line.startswith('<<'):
                    res.tuples.append(line.rstrip('\n'))
                other.append(line)
                if _LOG and (line.startswith(('Progress', 'Finished', 'Starting', 'Computing', 'Error')) or 'states generated' in line):
                    with open(_LOG, 'a') as lf:
                        lf.write('[%d %s %.0fs] %s' % (proc.pid, os.path.basename(cfg), time.time() - t0, line))
                if line.startswith('Progress('):
                    mp_ = _RE_PROGRESS.search(line)
                    if mp_:
                        cur = (mp_.group(1), mp_.group(2))
                        if cur == last_progress[0]:
                            last_progress[1] += 1
                        else:
                            last_progress[0], last_progress[1] = cur, 0
                        if last_progress[1] >= 2:
                            # three progress reports (one per minute) with the same number of generated states and a non-empty queue:
                            # the workers are spinning (seen with several workers sharing values: TLC normalises values lazily, in place)
                            try:        # diagnostic only
                                dump = subprocess.run(['jstack', str(proc.pid)], capture_output=True, text=True, timeout=30).stdout
                                with open(os.path.join(tempfile.gettempdir(), 'tlc_stuck_%d.txt' % proc.pid), 'w') as f:
                                    f.write(dump)
                            except Exception:
                                pass
                            proc.kill()
                            raise TLCStuck('TLC made no progress for %d reports (%s states generated, %s on queue): %s' % (
                                last_progress[1] + 1, cur[0], cur[1], ' '.join(cmd)))
            if time.time() > deadline:
                proc.kill()
                raise TLCError('TLC timeout after %ss: %s' % (timeout, ' '.join(cmd)))
        proc.wait()
        if silent[0]:
            raise TLCStuck('TLC printed nothing for %d s and was stopped: %s' % (IDLE, ' '.join(cmd)))
    finally:
        stop.set()
        if proc.poll() is None:
            proc.kill()
        shutil.rmtree(meta, ignore_errors=True)
    res.wall = time.time() - t0
    out = ''.join(other)
    res.stdout = out if keep_stdout else out[-20000:]
    m = None
    for m in _RE_STATS.finditer(out):
        pass
    if m:
        res.generated, res.distinct = int(m.group(1)), int(m.group(2))
    m = _RE_DEPTH.search(out)
    if m:
        res.depth = int(m.group(1))
    for m in _RE_COV.finditer(out):
        res.coverage[m.group(1)] = (int(m.group(7)), int(m.group(8)))
    mv = _RE_VIOL.search(out)
    if mv:
        res.violation = mv.group(0)
        res.violated_name = mv.group(1) or mv.group(2)
        i = out.find(mv.group(0))
        res.counterexample = out[i:i + 20000]
    completed = ('Model checking completed. No error has been found.' in out) or \
                (simulate is not None and 'Error:' not in out)
    res.ok = completed and not mv
    if not res.ok and not mv:
        raise TLCError('TLC failed (rc=%s): %s\n%s' % (proc.returncode, ' '.join(cmd), out[-6000:]))
    if mv and not expect_violation:
        # caller decides; a violated design-level theorem is reported by the caller
        pass
    return res


def sany(module, cwd=None):
    cwd = cwd or SPEC_DIR
    p = subprocess.run([shutil.which('tla-sany') or 'tla-sany', module + '.tla'], cwd=cwd,
                       capture_output=True, text=True)
    ok = p.returncode == 0 and 'error' not in p.stdout.lower().replace('0 error', '')
    return ok, p.stdout + p.stderr


# ---------------------------------------------------------------------------
# TLA+ value parser (for -simulate behaviour files and tuples printed by PrintT)
# ---------------------------------------------------------------------------

class _P:
    def __init__(self, s):
        self.s = s
        self.i = 0

    def ws(self):
        s = self.s
        while self.i < len(s) and s[self.i] in ' \t\r\n':
            self.i += 1

    def peek(self, k=1):
        return self.s[self.i:self.i + k]

    def expect(self, tok):
        self.ws()
        if not self.s.startswith(tok, self.i):
            raise ValueError('expected %r at %d: %r' % (tok, self.i, self.s[self.i:self.i + 40]))
        self.i += len(tok)

    def value(self):
        self.ws()
        s = self.s
        c = self.peek()
        if s.startswith('<<', self.i):
            self.i += 2
            out = []
            self.ws()
            if s.startswith('>>', self.i):
                self.i += 2
                return out
            while True:
                out.append(self.value())
                self.ws()
                if s.startswith('>>', self.i):
                    self.i += 2
                    return out
                self.expect(',')
        if c == '{':
            self.i += 1
            out = []
            self.ws()
            if self.peek() == '}':
                self.i += 1
                return {'$set': out}
            while True:
                out.append(self.value())
                self.ws()
                if self.peek() == '}':
                    self.i += 1
                    return {'$set': out}
                self.expect(',')
        if c == '[':
            self.i += 1
            out = {}
            self.ws()
            while True:
                self.ws()
                j = self.i
                while s[self.i].isalnum() or s[self.i] == '_':
                    self.i += 1
                key = s[j:self.i]
                self.ws()
                if s.startswith('|->', self.i):
                    self.i += 3
                    out[key] = self.value()
                else:
                    raise ValueError('record expected at %d' % self.i)
                self.ws()
                if self.peek() == ']':
                    self.i += 1
                    return out
                self.expect(',')
        if c == '(':
            # function literal (a :> b @@ c :> d)
            self.i += 1
            out = {}
            while True:
                k = self.value()
                self.expect(':>')
                v = self.value()
                out[json.dumps(k) if not isinstance(k, (str, int)) else k] = v
                self.ws()
                if self.peek() == ')':
                    self.i += 1
                    return {'$fn': out}
                self.expect('@@')
        if c == '"':
            j = self.i + 1
            buf = []
            while s[j] != '"':
                if s[j] == '\\':
                    j += 1
                    buf.append({'n': '\n', 't': '\t', 'r': '\r', 'f': '\f'}.get(s[j], s[j]))
                else:
                    buf.append(s[j])
                j += 1
            self.i = j + 1
            return ''.join(buf)
        m = re.compile(r'-?\d+').match(s, self.i)
        if m:
            self.i = m.end()
            return int(m.group(0))
        m = re.compile(r'[A-Za-z_][A-Za-z0-9_]*').match(s, self.i)
        if m:
            self.i = m.end()
            w = m.group(0)
            if w == 'TRUE':
                return True
            if w == 'FALSE':
                return False
            return {'$mv': w}
        raise ValueError('cannot parse TLA+ value at %d: %r' % (self.i, s[self.i:self.i + 40]))


def parse_value(s):
    p = _P(s)
    v = p.value()
    return v


_RE_STATE_HDR = re.compile(r'^STATE_(\d+) ==\s*$', re.M)
_RE_ACTION = re.compile(r'^\\\* <(\w+)[ >]', re.M)


def parse_behaviour_file(path):
    """Parse a `tlc -simulate file=...` behaviour file -> list of (action, {var: value})."""
    txt = open(path).read()
    # split on STATE_n ==
    parts = re.split(r'^STATE_\d+ ==\s*$', txt, flags=re.M)
    hdrs = parts[0::1]
    states = []
    # action comments precede each STATE block: they sit at the end of the previous part
    actions = []
    for k, part in enumerate(parts):
        ms = list(_RE_ACTION.finditer(part))
        actions.append(ms[-1].group(1) if ms else None)
    for k in range(1, len(parts)):
        body = parts[k]
        # cut trailing comment lines / blank
        body = re.split(r'^\\\*', body, flags=re.M)[0]
        vars_ = {}
        # conjunct list: /\ var = value
        chunks = re.split(r'^\s*/\\ ', body, flags=re.M)
        for ch in chunks:
            ch = ch.strip()
            if not ch:
                continue
            m = re.match(r'(\w+) = ', ch)
            if not m:
                continue
            vars_[m.group(1)] = parse_value(ch[m.end():])
        states.append((actions[k - 1], vars_))
    return states
