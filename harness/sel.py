"""Concretisation of selector ASTs (spec/CssDecl.tla, as JSON) into CSS text (canonical spelling)."""
from __future__ import annotations
from .common import st

# SPELL = random.Random: spell every token in a random one of the ways Spelling.tla / the CSS syntax allow (escapes, quote style, line
# continuations, ASCII case of keywords, white space and comments in the optional slots); None = canonical spelling
SPELL = None


def _hexesc(c, nxt):
    """hex escape of c; nxt = the character that follows in the output, None = unknown (end of an identifier: white space may follow,
    and one white space character after a hex escape belongs to the escape)"""
    o = ord(c)
    k = SPELL.randrange(4)
    if nxt is None:
        return ['\\%06x ', '\\%x ', '\\%X\t', '\\%x\n'][k] % o
    ws_next = nxt in ' \t\r\n\f'
    if k == 0:      # six digits need no terminator, but a following white space character would be swallowed as one
        return '\\%06x' % o + (' ' if ws_next else '')
    if k == 1:
        return '\\%x ' % o
    if k == 2:
        return '\\%X\t' % o
    # no terminator: only when the next character can neither continue the escape nor be taken for its terminator
    if nxt in '0123456789abcdefABCDEF' or ws_next:
        return '\\%x ' % o
    return '\\%x' % o


def kw(name):
    """a keyword (pseudo-class name without the colon, 'of', case flag): ASCII case is free"""
    if SPELL is None:
        return name
    return ''.join(c.upper() if SPELL.random() < 0.3 else c for c in name)


def pname(name):
    """a pseudo-class NAME (an identifier token): ASCII case is free, and any letter may be written as a CSS escape - also as the escape
    of its UPPER-case code point (the name is lower-cased after unescaping)"""
    if SPELL is None:
        return name
    out = []
    for i, c in enumerate(name):
        r = SPELL.random()
        if r < 0.06 and c.isalpha() and not (i == 0 and name.startswith('-')):
            out.append('\\%x ' % ord(c.upper() if SPELL.random() < 0.6 else c))
        elif r < 0.09 and c.isalpha() and c not in 'abcdefABCDEF':
            out.append('\\' + (c.upper() if SPELL.random() < 0.5 else c))
        elif r < 0.35:
            out.append(c.upper())
        else:
            out.append(c)
    return ''.join(out)


def ows():
    if SPELL is None:
        return ''
    return SPELL.choice(['', '', '', ' ', '\t', '\n', '/**/', ' /* c */ ', '\r\n', '\f'])


def rws():
    if SPELL is None:
        return ' '
    return SPELL.choice([' ', ' ', '\n', ' /**/ ', '/* c */ ', '\t\t', ' /**/'])


def ident(s):
    """Serialize an identifier (own implementation; independent of soupsieve.escape)."""
    out = []
    for i, c in enumerate(s):
        o = ord(c)
        if SPELL is not None and o != 0 and SPELL.random() < 0.15:
            if SPELL.random() < 0.5 and c not in '0123456789abcdefABCDEF\n\r\f':
                out.append('\\' + c)
            else:
                out.append(_hexesc(c, s[i + 1] if i + 1 < len(s) else None))
            continue
        if o == 0:
            out.append('�')
        elif o < 0x20 or o == 0x7f:
            out.append('\\%x ' % o)
        elif c.isdigit() and c.isascii() and (i == 0 or (i == 1 and s[0] == '-')):
            out.append('\\%x ' % o)
        elif c == '-' and len(s) == 1:
            out.append('\\-')
        elif o >= 0xA0 or c in '-_' or (c.isascii() and c.isalnum()):
            out.append(c)
        elif 0x80 <= o < 0xA0:
            out.append('\\%x ' % o)
        else:
            out.append('\\' + c)
    return ''.join(out)


def string(s, q='"'):
    if SPELL is not None:
        q = SPELL.choice('"\'')
    out = [q]
    for i, c in enumerate(s):
        if SPELL is not None and SPELL.random() < 0.12:
            out.append(SPELL.choice(['\\\n', '\\\r\n', '\\\f', '\\\r']))          # line continuation: contributes nothing
        if SPELL is not None and ord(c) != 0 and SPELL.random() < 0.12:
            if SPELL.random() < 0.5 and c not in '0123456789abcdefABCDEF\n\r\f':
                out.append('\\' + c)
            else:
                out.append(_hexesc(c, s[i + 1] if i + 1 < len(s) else q))
            continue
        if c == q or c == '\\':
            out.append('\\' + c)
        elif c in '\n\r\f' or ord(c) == 0:
            out.append('\\%x ' % ord(c))
        else:
            out.append(c)
    if SPELL is not None and SPELL.random() < 0.15:
        out.append(SPELL.choice(['\\\n', '\\\r\n', '\\\f']))
    out.append(q)
    return ''.join(out)


def nsspec(ns):
    t = ns['t']
    if t == 'bare':
        return ''
    if t == 'none':
        return '|'
    if t == 'any':
        return '*|'
    return ident(st(ns['p'])) + '|'


OPS = {'eq': '=', 'ne': '!=', 'inc': '~=', 'dash': '|=', 'pre': '^=', 'suf': '$=', 'sub': '*='}


def nth_text(a, b):
    if a == 0:
        return str(b)
    s = ('-' if a == -1 else '' if a == 1 else str(a)) + 'n'
    if b > 0:
        s += '+%d' % b
    elif b < 0:
        s += '-%d' % -b
    return s


def _unquoted_ok(v):
    return v != '' and all(c.isascii() and (c.isalpha() or c == '_') for c in v)


def simple(s):
    k = s['k']
    if k == 'type':
        nm = st(s['name'])
        return nsspec(s['ns']) + ('*' if nm == '*' else ident(nm))
    if k == 'id':
        return '#' + ident(st(s['v']))
    if k == 'class':
        return '.' + ident(st(s['v']))
    if k == 'attr':
        t = '[' + ows() + nsspec(s['ns']) + ident(st(s['name']))
        if s['op'] != 'ex':
            v = st(s['val'])
            t += ows() + OPS[s['op']] + ows() + (ident(v) if SPELL is not None and _unquoted_ok(v) and SPELL.random() < 0.3 else string(v))
            if s['flag'] != 'n':
                t += (' ' if SPELL is None else SPELL.choice([' ', '\t', '/**/ ', ' /**/', '\n'])) + kw(s['flag'])
        return t + ows() + ']'
    if k in ('not', 'is', 'where', 'matches'):
        return ':' + pname(k) + '(' + ows() + (ows() + ',' + (' ' if SPELL is None else ows())).join(complex_(c) for c in s['args']) + ows() + ')'
    if k == 'has':
        return ':' + pname('has') + '(' + ows() + (ows() + ',' + (' ' if SPELL is None else ows())).join(
            ((a['comb'].strip() + (' ' if SPELL is None else ows())) if a['comb'] != ' ' else '') + complex_(a['cx']) for a in s['args']) + ows() + ')'
    if k == 'nth':
        name = ':' + pname('nth-' + ('last-' if s['last'] else '') + ('of-type' if s['oftype'] else 'child'))
        t = name + '(' + ows() + (st(s['raw']) if s.get('raw') else nth_text(s['a'], s['b']))
        if s['of']:
            t += rws() + kw('of') + rws() + (ows() + ',' + (' ' if SPELL is None else ows())).join(complex_(c) for c in s['of'])
        return t + ows() + ')'
    if k == 'none':
        return ':' + pname('hover')
    if k == 'amp':
        return '&'
    if k == 'custom':
        return ':' + ident(st(s['name']))
    if k == 'lang':
        return ':' + pname('lang') + '(' + ows() + (ows() + ',' + (' ' if SPELL is None else ows())).join(string(st(r)) for r in s['ranges']) + ows() + ')'
    if k == 'contains':
        return ':' + pname('-soup-contains-own' if s['own'] else '-soup-contains') + '(' + ows() + \
            (ows() + ',' + (' ' if SPELL is None else ows())).join(string(st(r)) for r in s['vals']) + ows() + ')'
    if k == 'dir':
        return ':' + pname('dir') + '(' + ows() + kw(s['d']) + ows() + ')'
    return ':' + pname(k)


def compound(c):
    parts = [simple(s) for s in c]
    # a type selector must come first
    ts = [p for s, p in zip(c, parts) if s['k'] == 'type']
    rest = [p for s, p in zip(c, parts) if s['k'] != 'type']
    return ''.join(ts + rest)


def complex_(cx):
    out = compound(cx['cs'][0])
    for comb, c in zip(cx['cb'], cx['cs'][1:]):
        if SPELL is None:
            out += (' ' if comb == ' ' else ' %s ' % comb) + compound(c)
        else:
            out += (rws() if comb == ' ' else ows() + comb + ows()) + compound(c)
    return out


def selector_list(lst):
    if SPELL is None:
        return ', '.join(complex_(c) for c in lst)
    return ows() + (ows() + ',' + ows()).join(complex_(c) for c in lst) + ows()
