"""Concretisation of selector ASTs (spec/CssDecl.tla, as JSON) into CSS text (canonical spelling)."""
from __future__ import annotations
from .common import st


def ident(s):
    """Serialize an identifier (own implementation; independent of soupsieve.escape)."""
    out = []
    for i, c in enumerate(s):
        o = ord(c)
        if o == 0:
            out.append('�')
        elif o < 0x20 or o == 0x7f:
            out.append('\\%x ' % o)
        elif c.isdigit() and c.isascii() and (i == 0 or (i == 1 and s[0] == '-')):
            out.append('\\%x ' % o)
        elif c == '-' and len(s) == 1:
            out.append('\\-')
        elif o >= 0xA0 or c in '-_' or (c.isascii() and c.isalnum()):
            out.append(c)
        elif 0x80 <= o < 0xA0:
            out.append('\\%x ' % o)
        else:
            out.append('\\' + c)
    return ''.join(out)


def string(s, q='"'):
    out = [q]
    for c in s:
        if c == q or c == '\\':
            out.append('\\' + c)
        elif c in '\n\r\f' or ord(c) == 0:
            out.append('\\%x ' % ord(c))
        else:
            out.append(c)
    out.append(q)
    return ''.join(out)


def nsspec(ns):
    t = ns['t']
    if t == 'bare':
        return ''
    if t == 'none':
        return '|'
    if t == 'any':
        return '*|'
    return ident(st(ns['p'])) + '|'


OPS = {'eq': '=', 'ne': '!=', 'inc': '~=', 'dash': '|=', 'pre': '^=', 'suf': '$=', 'sub': '*='}


def nth_text(a, b):
    if a == 0:
        return str(b)
    s = ('-' if a == -1 else '' if a == 1 else str(a)) + 'n'
    if b > 0:
        s += '+%d' % b
    elif b < 0:
        s += '-%d' % -b
    return s


def simple(s):
    k = s['k']
    if k == 'type':
        nm = st(s['name'])
        return nsspec(s['ns']) + ('*' if nm == '*' else ident(nm))
    if k == 'id':
        return '#' + ident(st(s['v']))
    if k == 'class':
        return '.' + ident(st(s['v']))
    if k == 'attr':
        t = '[' + nsspec(s['ns']) + ident(st(s['name']))
        if s['op'] != 'ex':
            t += OPS[s['op']] + string(st(s['val']))
            if s['flag'] != 'n':
                t += ' ' + s['flag']
        return t + ']'
    if k in ('not', 'is', 'where', 'matches'):
        return ':' + k + '(' + ', '.join(complex_(c) for c in s['args']) + ')'
    if k == 'has':
        return ':has(' + ', '.join(((a['comb'].strip() + ' ') if a['comb'] != ' ' else '') + complex_(a['cx'])
                                   for a in s['args']) + ')'
    if k == 'nth':
        name = ':nth-' + ('last-' if s['last'] else '') + ('of-type' if s['oftype'] else 'child')
        t = name + '(' + (st(s['raw']) if s.get('raw') else nth_text(s['a'], s['b']))
        if s['of']:
            t += ' of ' + ', '.join(complex_(c) for c in s['of'])
        return t + ')'
    if k == 'none':
        return ':hover'
    if k == 'amp':
        return '&'
    if k == 'custom':
        return ':' + ident(st(s['name']))
    if k == 'lang':
        return ':lang(' + ', '.join(string(st(r)) for r in s['ranges']) + ')'
    if k == 'contains':
        return (':-soup-contains-own(' if s['own'] else ':-soup-contains(') + \
            ', '.join(string(st(r)) for r in s['vals']) + ')'
    if k == 'dir':
        return ':dir(%s)' % s['d']
    return ':' + k


def compound(c):
    parts = [simple(s) for s in c]
    # a type selector must come first
    ts = [p for s, p in zip(c, parts) if s['k'] == 'type']
    rest = [p for s, p in zip(c, parts) if s['k'] != 'type']
    return ''.join(ts + rest)


def complex_(cx):
    out = compound(cx['cs'][0])
    for comb, c in zip(cx['cb'], cx['cs'][1:]):
        out += (' ' if comb == ' ' else ' %s ' % comb) + compound(c)
    return out


def selector_list(lst):
    return ', '.join(complex_(c) for c in lst)
