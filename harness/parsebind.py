"""B2 for the composed front end: text --Lexer.tla--> tokens --ParseSel.tla--> AST --Ir!Compile--> IR (Trace_Parse.tla).

Random selectors of the C01/C02 grammar are SPELLED in random ways (harness/sel.py SPELL: escapes, quote styles, line continuations,
keyword case, white space and comments in the optional slots); the harness hands TLC only the TEXT and the projection of the IR the real
parser built - everything between the characters and the IR is computed by the specification.  A rejection means: for this text the
code's IR is not Compile(ParseText(text)); because ParseText ignores spelling by construction (T-SpellingIR), a rejected respelling of an
accepted canonical text is a spelling-dependent meaning (C09), a rejected canonical text a wrong parse (C01)."""
from __future__ import annotations
import json
import os
import random

from . import common, gen, irproj, sel as selmod, trace

HARD = [r'\64 iv', r'd\69v', r'\000064iv', '\\64\niv', r'.\31 a', r'#\#x', r'[\74ype=TEXT]', r'[type="a\62 c"]', "[a='x\\\ny']", r'[a="\"x"]', '[a$="\\\n"]',
        '[a^="\\\r\n"]', '[a*="\\\f"]', '[a~="\\9"]', '[a~="\\\nx"]', '[|a]', '*|*', '|a', '*|a', 'ns|a', 'ns|*', '[ns|a=b]', '[*|a]', '[a=b I]', '[a=b\ts]',
        '[a = "b" i ]', '[a/**/=/**/b/**/i/**/]', '[a!=b]', '[type!=b]', '[TYPE=b]', '[type=b s]', r'[t\79pe=b]', ':is()', ':is(a,)', ':is(,a)', ':is(a,,b)',
        ':where( )', ':is(a >)', ':is(a > , b)', ':not(a, b c)', ':NOT(a)', r':n\6Ft(a)', r':\6eot(a)', ':has(> a, + b ~ c)', ':has(a b)', ':has(~a)',
        ':nth-child(5)', ':nth-child(-5)', ':nth-child(+5)', ':nth-child(0n+5)', ':nth-child(n)', ':nth-child(-n+3)', ':nth-child(2N + 1)',
        ':nth-child(2n/**/+/**/1)', ':nth-child(EVEN)', ':nth-child( odd )', ':nth-child(2n+1 of a, b)', ':nth-last-child(3 of .x > y)', ':nth-of-type(2n)',
        ':NTH-LAST-OF-TYPE(1)', ':nth-child(2n + 0)', ':nth-child(0n)', ':nth-child(-0n-0)', ':nth-child(007)', ':nth-child(n-2)', ':hover', 'a:hover b',
        'a :hover > b', ':current(a)', ':host(a, b) c', 'a:is(:hover)', ':not(:hover)', ':has(:hover)', ':has(> :hover b)', '&', 'a &', '& > a', ':scope > a',
        ':root:empty', ':first-child:last-child', ':only-child', ':only-of-type:first-of-type', 'a/**/>/**/b', 'a\n+\tb', ' a , b ', 'a,b,c', '/**/a/**/',
        'a /**/ b', 'a/**/ /**/b', '--x', '-a', '-\\31', 'a\\', '.a\\', '\u00e9l', '.\\10FFFF', '.\\110000 x', '.\\0 x', ':is(a b > c + d ~ e)',
        'a:not(b):is(c):where(d):matches(e)', ':matches(a,b)', ':has(a):has(b)', 'a.b.c#d#e[f][g=h]', '*', '*.a', 'a *', ':is(*)', ':not(*|*)',
        ':nth-child(1 of *)', 'a:nth-child(2):nth-last-child(2)', ':lang(en)', ':lang("en", de-DE)', ":lang( 'x y' /**/,/**/ \\64 e )", ':LANG("")',
        ':-soup-contains(x)', ':-soup-contains-own("x y", z)', ':-SOUP-CONTAINS( a , b )', ':dir(ltr)', ':DIR( RTL )', 'p:dir(rtl):lang(en):-soup-contains(x) > a',
        ':not(:lang(en), :dir(ltr))', ':-soup-contains("x\\\ny")', ':lang("*-ch", en-\\55 S)', ':lang(en /* de */, fr)', ':scope:root', '&:root', ':empty:root:scope', ':root:scope:empty', '&:empty', ':defined:root', ':root:defined:scope', ':dir(ltr):root',
        ':root:dir(rtl)', ':checked', ':link', ':any-link', ':disabled', ':enabled', ':required', ':optional', ':read-write', ':read-only', ':default',
        ':indeterminate', ':placeholder-shown', ':in-range', ':out-of-range', ':defined', 'input:CHECKED:not(:disabled) > a', ':is(:link, :default)',
        ':has(> :read-only)', ':nth-child(2 of :enabled)', r':\63hecked', ':is(a  , b)', 'a  > b', 'p /* all */* > b /* end */', 'p[t/**/*="a"] ~ #i /**/']
NS = {'ns': 'urn:n'}


def part(chk, tier, label, n_quick=500, n_thorough=8000, seed=11):
    from . import statedefs, tlc
    if not os.path.basename(tlc.SPEC_DIR).startswith('verif_spec_'):
        statedefs.use_tree_under_test()          # Trace_Parse expands the state pseudo-classes from the definition texts of the tree under test
    sv, bs4 = common.import_repo()
    from soupsieve import css_types as ct
    rng = random.Random(common.SEED * 7919 + seed)
    gen.EXCLUDE = set()
    n = n_quick if tier == 'quick' else n_thorough
    pool = [common.cps(v) for v in irproj.VALUE_POOL]
    lines = []
    texts = [(t, None, None) for t in HARD]
    for k in range(n):
        ast = gen.rand_list(rng, depth=rng.choice([0, 1, 2, 2, 3]))
        for cx in ast:          # constructs of the Ir grammar that the core generator leaves out: namespaces, the type attribute, &, :hover, odd names
            for comp in cx['cs']:
                if rng.random() < 0.3:
                    ex = gen.rand_extra(rng)
                    while ex['k'] == 'custom':
                        ex = gen.rand_extra(rng)
                    comp.append(ex)
                if rng.random() < 0.15 and comp and comp[0]['k'] == 'type':
                    comp[0]['ns'] = rng.choice([{'t': 'any'}, {'t': 'none'}, {'t': 'pfx', 'p': common.cps('ns')}])
        cm = None
        if rng.random() < 0.25:
            # custom aliases (acyclic: the second may use the first); names are matched case-insensitively after unescaping
            d1 = gen.rand_list(rng, depth=1)
            d2 = gen.rand_list(rng, depth=1)
            d2[0]['cs'][-1].append({'k': 'custom', 'name': common.cps('--al')})
            selmod.SPELL = random.Random(rng.getrandbits(32))
            try:
                cm = {':--al': selmod.selector_list(d1), ':--Ze\\74 a': selmod.selector_list(d2)}
            finally:
                selmod.SPELL = None
            for cx in ast:
                if rng.random() < 0.7:
                    cx['cs'][rng.randrange(len(cx['cs']))].append({'k': 'custom', 'name': common.cps(rng.choice(['--al', '--zeta', '--AL', '--ZETA']))})
            if not any(sm['k'] == 'custom' for cx in ast for comp in cx['cs'] for sm in comp):
                ast[0]['cs'][-1].append({'k': 'custom', 'name': common.cps('--zeta')})
        selmod.SPELL = None
        canon = selmod.selector_list(ast)
        selmod.SPELL = random.Random(rng.getrandbits(32))
        try:
            texts.append((selmod.selector_list(ast), canon, cm))
        finally:
            selmod.SPELL = None
    skipped = 0
    for k, (t, canon, cm) in enumerate(texts):
        try:
            obj = common.guard(lambda: sv.compile(t, namespaces=NS, custom=cm), 20)
            ir = irproj.proj_list(ct, obj.selectors)
        except irproj.OutOfModel:
            skipped += 1
            continue
        except Exception as e:
            if canon is not None:
                chk.violation('%s|compile|%r' % (label, t), 'compile(%r) - a respelling of the valid %r - raised %s' % (t, canon, type(e).__name__),
                              {'cfg': label, 'selector': t, 'canonical': canon, 'group': 'respelling raises'})
            continue
        ev = {'id': 'p%d' % k, 'text': common.cps(t), 'ir': ir, 'pool': pool, 'css': t, 'res': 'IR', 'canonical': canon or ''}
        if cm is not None:
            from soupsieve.css_parser import css_unescape
            ev['custom'] = [{'name': common.cps(css_unescape(n).lower()), 'def': common.cps(dd)} for n, dd in cm.items()]
            ev['css'] = '%s  with custom=%r' % (t, cm)
        lines.append(json.dumps(ev))
    rej = trace.validate(chk, lines, 'Trace_Parse', label, batch=150)
    chk.notes[label] = {'texts': len(lines), 'outside_Ir_grammar_skipped': skipped, 'rejected': len(rej)}
    if lines:
        chk.sample({'parse_event': json.loads(lines[-1])['css']}, cap=16)
