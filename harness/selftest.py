"""Anti-vacuity self-test (not part of any registered verdict): corrupt ONE recorded field per trace kind and show that the
trace specification rejects exactly the corrupted events.  Usage: /venv/bin/python harness/selftest.py"""
import json
import os
import random
import sys
import tempfile

sys.path.insert(0, os.path.dirname(os.path.dirname(os.path.abspath(__file__))))
from harness import common, gen, trace, tlc, irproj, sel as selmod  # noqa: E402


def _reject_ids(module, lines):
    chk = common.Check('SELFTEST', 'quick')
    rej = trace.validate(chk, lines, module, 'selftest', batch=100000)
    if chk.machinery_errors:
        raise SystemExit('machinery: %r' % chk.machinery_errors[:2])
    return {r[0] for r in rej}


def select_trace():
    rng = random.Random(1)
    gen.EXCLUDE = set()
    jobs = [('d%d' % k, gen.rand_doc(rng, nmax=10), [gen.rand_list(rng, 2) for _ in range(4)], [0], None) for k in range(12)]
    lines = trace.record_select(jobs)
    evs = [json.loads(l) for l in lines]
    bad = set()
    for n, e in enumerate(evs):
        if n % 5 == 0:
            els = [i + 1 for i, k in enumerate(e['doc']['kind']) if k == 'e']
            cand = [i for i in els if i not in e['res']]
            if cand:
                e['res'] = sorted(e['res'] + [cand[0]])       # one element too many
            elif e['res']:
                e['res'] = e['res'][1:]                        # one element missing
            else:
                continue
            bad.add(e['id'])
    got = _reject_ids('Trace_Select', [json.dumps(e) for e in evs])
    return 'Trace_Select', len(evs), bad, got


def ir_trace():
    sv, bs4 = common.import_repo()
    from soupsieve import css_types as ct
    rng = random.Random(2)
    evs, bad = [], set()
    for k in range(40):
        ast = gen.rand_list(rng, 2)
        css = selmod.selector_list(ast)
        try:
            ir = irproj.proj_list(ct, sv.compile(css).selectors)
        except irproj.OutOfModel:
            continue
        e = {'id': 'i%d' % k, 'sel': ast, 'ir': ir, 'pool': [common.cps(v) for v in irproj.VALUE_POOL], 'css': css, 'res': 'IR'}
        if k % 4 == 0:
            ir['is_not'] = not ir['is_not']
            bad.add(e['id'])
        evs.append(e)
    got = _reject_ids('Trace_Ir', [json.dumps(e) for e in evs])
    return 'Trace_Ir', len(evs), bad, got


def history_trace():
    lines = []
    bad = set()
    for n in range(30):
        obs = [{'sc': 0, 'el': i, 'v': (i % 3 == 0)} for i in range(1, 8)]
        e = {'id': 'h%d' % n, 'doc': 0, 'sel': n % 3, 'obs': obs, 'frozen': True}
        if n in (10, 20):
            e['obs'][2]['v'] = not e['obs'][2]['v']        # contradicts what earlier events established
            bad.add(e['id'])
        if n == 25:
            e['frozen'] = False
            bad.add(e['id'])
        lines.append(json.dumps(e))
    tmp = tempfile.mkdtemp(prefix='verif_selftest_')
    path = os.path.join(tmp, 't.ndjson')
    open(path, 'w').write('\n'.join(lines) + '\n')
    res = tlc.run('History', workers=1, env={'TRACE_FILE': path})
    os.remove(path)
    os.rmdir(tmp)
    got = {t.split('"')[3] for t in res.tuples if t.startswith('<<"REJECT"')}
    return 'History', len(lines), bad, got


def parse_trace():
    """Trace_Parse: text -> IR by the spec; corrupt the TEXT (one combinator / simple selector changed) and keep the recorded IR"""
    sv, bs4 = common.import_repo()
    from soupsieve import css_types as ct
    rng = random.Random(3)
    evs, bad = [], set()
    for k in range(60):
        ast = gen.rand_list(rng, 2)
        css = selmod.selector_list(ast)
        ir = irproj.proj_list(ct, sv.compile(css).selectors)
        text = css
        if k % 4 == 0:
            t2 = css.replace('>', '~', 1) if '>' in css else css.replace('.', '#', 1) if '.' in css else css.replace('+', '>', 1) if '+' in css else None
            if t2 is not None and t2 != css:
                try:
                    if sv.compile(t2).selectors != sv.compile(css).selectors:
                        text = t2
                        bad.add('p%d' % k)
                except Exception:
                    pass
        evs.append({'id': 'p%d' % k, 'text': common.cps(text), 'ir': ir, 'pool': [common.cps(v) for v in irproj.VALUE_POOL], 'css': css, 'res': 'IR', 'canonical': ''})
    got = _reject_ids('Trace_Parse', [json.dumps(e) for e in evs])
    return 'Trace_Parse', len(evs), bad, got


def pipe_trace():
    """Trace_Pipe: text + document -> elements by the I-stratum pipeline; corrupt the recorded result"""
    rng = random.Random(4)
    gen.EXCLUDE = set()
    jobs = [('d%d' % k, gen.rand_doc(rng, nmax=10), [gen.rand_list(rng, 2) for _ in range(4)], [0], None) for k in range(12)]
    evs = [json.loads(l) for l in trace.record_select(jobs)]
    bad = set()
    for n, e in enumerate(evs):
        if n % 5 == 0:
            els = [i + 1 for i, k in enumerate(e['doc']['kind']) if k == 'e']
            cand = [i for i in els if i not in e['res']]
            if cand:
                e['res'] = sorted(e['res'] + [cand[0]])
            elif e['res']:
                e['res'] = e['res'][1:]
            else:
                continue
            bad.add(e['id'])
    got = _reject_ids('Trace_Pipe', [json.dumps(e) for e in evs])
    return 'Trace_Pipe', len(evs), bad, got


def main():
    ok = True
    for fn in (select_trace, ir_trace, history_trace, parse_trace, pipe_trace):
        name, n, bad, got = fn()
        good = bad == got
        ok = ok and good
        print('%-14s %3d events, %2d corrupted, %2d rejected: %s' % (name, n, len(bad), len(got), 'exactly the corrupted ones' if good else
                                                                   'MISMATCH missing=%r extra=%r' % (sorted(bad - got)[:5], sorted(got - bad)[:5])))
    return 0 if ok else 1


if __name__ == '__main__':
    sys.exit(main())
